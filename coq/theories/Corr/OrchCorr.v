(* Correspondence evaluation for session histories (C06, C11, C12). *)
Require Import TSS.Base.Base TSS.Orch.Membership TSS.Orch.Sessions.
From Coq Require Import Arith.

(* os_map: Some m when the application's membership map changed (between sessions) before this step *)
Record ostep := mkOStep { os_map : option mmap; os_ev : event; os_api : list (N * option res); os_syncs : list key; os_rbcs : list key;
                          os_cls : list key; os_dkg : bool; os_reached : list reach; os_inits : list (N * list N);
                          os_dests : list (N * N * list N); os_panic : bool }.
Record oscen := mkOScen { oc_map : mmap; oc_steps : list ostep }.

(* errors are compared as a class: when a context is cancelled while a result is being published, Go's select may
   return either the context's error or the published error *)
Definition res_eqb (a b : res) : bool :=
  match a, b with
  | ROk, ROk | RRefused, RRefused => true
  | (RErr | RCtx), (RErr | RCtx) => true
  | _, _ => false
  end.
Definition ores_eqb (a b : option res) : bool :=
  match a, b with None, None => true | Some x, Some y => res_eqb x y | _, _ => false end.
Definition kmem (k : key) (l : list key) : bool := existsb (key_eqb k) l.
Definition kseteq (a b : list key) : bool := forallb (fun k => kmem k b) a && forallb (fun k => kmem k a) b.
Definition reach_eqb (a b : reach) : bool :=
  match a, b with
  | ROnMsg s f bc, ROnMsg s' f' bc' => (s =? s') && (f =? f') && Bool.eqb bc bc'
  | RSync k, RSync k' => key_eqb k k'
  | _, _ => false
  end.
Definition nl_eqb := list_eqb N.eqb.
Definition init_eqb (a b : N * list N) : bool := (fst a =? fst b) && nl_eqb (snd a) (snd b).
Definition dest_ok (a : N * N * option N) (b : N * N * list N) : bool :=
  let '(s, t, u) := a in let '(s', t', got) := b in
  (s =? s') && (t =? t') && nl_eqb got [match u with Some x => x | None => 0 end].

Fixpoint all2 {A B} (f : A -> B -> bool) (la : list A) (lb : list B) : bool :=
  match la, lb with
  | [], [] => true
  | a :: ra, b :: rb => f a b && all2 f ra rb
  | _, _ => false
  end.

(* which observables a property's theorems are about: only those are compared for that property *)
Record mode := mkMode { m_api : bool; m_tables : bool; m_reached : bool; m_reach_live : bool; m_inits : bool; m_dests : bool }.
(* C06 is about the source a backend of a RUNNING session sees (m_reach_live); whether traffic reaches a synchroniser or an
   instance of a session that is over is C12's clause *)
Definition mode_c06 := mkMode false false true true true true.
Definition mode_c11 := mkMode true false false false false false.
Definition mode_c12 := mkMode true true true false false false.
Definition imp (a b : bool) : bool := negb a || b.

Definition is_live (w : world) (sid : N) : bool :=
  match sget (sessions w) sid with Some s => match s_api s with None => true | Some _ => false end | None => false end.

Definition step_ok (md : mode) (w : world) (o : obs) (e : ostep) : bool :=
  imp (m_api md) (forallb (fun '(sid, r) => ores_eqb (match sget (sessions w) sid with Some s => s_api s | None => None end) r) (os_api e)) &&
  imp (m_tables md) (kseteq (map fst (syncs w)) (os_syncs e) && kseteq (map fst (rbcs w)) (os_rbcs e) &&
                     kseteq (map fst (cls w)) (os_cls e) && Bool.eqb (dkg w) (os_dkg e)) &&
  imp (m_reached md) (let f := fun r => negb (m_reach_live md) || match r with ROnMsg sid _ _ => is_live w sid | _ => false end in
                      list_eqb reach_eqb (filter f (o_reached o)) (filter f (os_reached e))) &&
  (* what a backend is initialised with matters for sessions that are still running: a continuation that fires after
     its session ended may or may not build a signer before it notices *)
  imp (m_inits md) (list_eqb init_eqb (filter (fun i => is_live w (fst i)) (o_inits o)) (filter (fun i => is_live w (fst i)) (os_inits e))) &&
  imp (m_dests md) (all2 dest_ok (filter (fun d => is_live w (fst (fst d))) (o_dests o)) (filter (fun d => is_live w (fst (fst d))) (os_dests e))) &&
  imp (m_api md) (Bool.eqb (o_panic o) (os_panic e)).

Fixpoint run_steps (md : mode) (mm : mmap) (w : world) (l : list ostep) (i : nat) : option nat :=
  match l with
  | [] => None
  | e :: rest => let mm' := match os_map e with Some m => m | None => mm end in
                 let '(w', o) := step mm' w (os_ev e) in
                 if step_ok md w' o e then run_steps md mm' w' rest (S i) else Some i
  end.

Definition check_scen (md : mode) (s : oscen) : option nat := run_steps md (oc_map s) world0 (oc_steps s) 0.

Fixpoint mismatches_from (md : mode) (l : list oscen) (i : nat) : list (nat * nat) :=
  match l with
  | [] => []
  | s :: t => match check_scen md s with
              | None => mismatches_from md t (S i)
              | Some j => (i, j) :: mismatches_from md t (S i)
              end
  end.
Definition mismatches (md : mode) (l : list oscen) : list (nat * nat) := mismatches_from md l 0.
