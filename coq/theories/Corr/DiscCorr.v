(* Correspondence evaluation for the disc engine (C07): run the model (Disc/Model.v through Disc/Wire.v) on the
   operation lists that the Go harness (harness/core/disc.go) executed on real disc.Member objects, and compare
   the projected observables.
   Two modes:
   - step: the member has its topic registered through a verif hook, no Synchronize loop runs; operations are
     HandleMessage(from, bytes), freeze (copy of memberToView = what the Range of intersectedView sees now),
     pass2 (intersectedView evaluated with that copy while the registered state is live: a HandleMessage landed
     in between), pass (intersectedView on the live state), drain (responses and queries channels);
   - sync: a real Synchronize runs in a goroutine and is brought to rest after every operation; the model is
     "settled" the same way (one full intersectedView while in the first loop, then every waiting response and every
     waiting query taken);
     additional observables: the last membership broadcast, the query broadcast, the continuation argument, the
     return class. *)
Require Import TSS.Base.Base TSS.Wire.Codec TSS.Disc.Sort TSS.Disc.Model TSS.Disc.Wire.

Definition nl_eqb := list_eqb N.eqb.

(* tags computed by the harness with crypto/hmac: ((topic index, id), tag) *)
Definition tagtbl := list ((N * N) * bytes).
Definition prf_tbl (tb : tagtbl) (t i : N) : bytes :=
  match find (fun e => (fst (fst e) =? t) && (snd (fst e) =? i)) tb with
  | Some e => snd e
  | None => []
  end.

(* observables *)
Record snapshot := mkSnap { sn_views : list (N * list N); sn_resp : list N; sn_pending : N; sn_myview : list N;
                            sn_queried : list N; sn_pendq : N }.
Record async := mkAsync { as_tick : option bytes; as_query : option bytes; as_cont : option (list N); as_ret : N }.

Inductive dop :=
| OHandle (from : N) (data : bytes) (sends : list (N * bytes)) (sn : snapshot) (asy : async)
| OFreeze
| OPass2 (iv : list N)
| OPass (iv : list N)
| ODrain (rs qs : list (list N))
| OStart (sn : snapshot) (asy : async)
| OCancel (asy : async).

Record dscen := mkDScen { d_self : N; d_members : list N; d_expected : nat; d_sync : bool;
                          d_tags : tagtbl; d_ops : list dop }.

Definition scen_cfg (s : dscen) : cfg := mkCfg (d_self s) 0 (d_members s) (d_expected s) true true true.

(* ---- projections of the model ---- *)
Fixpoint ins_kv (kv : N * view) (l : list (N * view)) : list (N * view) :=
  match l with
  | [] => [kv]
  | x :: t => if fst kv <=? fst x then kv :: l else x :: ins_kv kv t
  end.
Definition sort_views (l : list (N * view)) : list (N * view) := fold_right ins_kv [] l.

Definition snap_of (c : cfg) (st : state) : snapshot :=
  mkSnap (sort_views (views st)) (isort (responded st)) (N.of_nat (length (chan st))) (my_view c st)
         (isort (queried st)) (N.of_nat (length (qchan st))).

Definition kv_eqb (a b : N * view) : bool := (fst a =? fst b) && nl_eqb (snd a) (snd b).
(* [pend]: compare the lengths of the two channels.  Once Synchronize has returned nobody reads them any more, and
   what its last select left in them depends on which ready channel the Go runtime picked: not compared then. *)
Definition snap_eqb (pend : bool) (a b : snapshot) : bool :=
  list_eqb kv_eqb (sn_views a) (sn_views b) && nl_eqb (sn_resp a) (sn_resp b) &&
  nl_eqb (sn_myview a) (sn_myview b) && nl_eqb (sn_queried a) (sn_queried b) &&
  (negb pend || ((sn_pending a =? sn_pending b) && (sn_pendq a =? sn_pendq b))).
Definition running (st : state) : bool := match ph st with Collect | Query _ _ _ => true | _ => false end.

Definition opt_eqb {A} (eqb : A -> A -> bool) (a b : option A) : bool :=
  match a, b with Some x, Some y => eqb x y | None, None => true | _, _ => false end.
Definition async_eqb (a b : async) : bool :=
  opt_eqb bytes_eqb (as_tick a) (as_tick b) && opt_eqb bytes_eqb (as_query a) (as_query b) &&
  opt_eqb nl_eqb (as_cont a) (as_cont b) && (as_ret a =? as_ret b).

Definition enc (tb : tagtbl) (c : cfg) (o : output) : bytes :=
  match encode_out (prf_tbl tb) c o with Ok b => b | _ => [] end.

Definition sends_of (tb : tagtbl) (c : cfg) (o : list output) : list (N * bytes) :=
  flat_map (fun x => match x with SendTo to _ _ => [(to, enc tb c x)] | _ => [] end) o.
Definition send_eqb (a b : N * bytes) : bool := (fst a =? fst b) && bytes_eqb (snd a) (snd b).

(* bring the model to rest the way the Synchronize goroutine comes to rest *)
Definition settle (c : cfg) (st : state) : state * list output :=
  let '(st1, o1) := match ph st with Collect => lrun c st (full_pass st) | _ => (st, []) end in
  let '(st2, o2) := lrun c st1 (repeat TakeResponse (length (chan st1))) in
  let '(st3, o3) := lrun c st2 (repeat TakeQuery (length (qchan st2))) in
  (st3, o1 ++ o2 ++ o3).

Definition first_query (tb : tagtbl) (c : cfg) (o : list output) : option bytes :=
  match flat_map (fun x => match x with Bcast MQuery _ => [enc tb c x] | _ => [] end) o with
  | b :: _ => Some b
  | [] => None
  end.
Definition first_cont (o : list output) : option (list N) :=
  match flat_map (fun x => match x with Continue L => [L] | _ => [] end) o with
  | l :: _ => Some l
  | [] => None
  end.
(* return class: 0 none, 1 nil, 2.. the error returns *)
Definition err_code (e : errc) : N := match e with ECollect => 2 | ETooMany => 3 | EAcks => 4 | EQueries => 5 end.
Definition first_err (o : list output) : option N :=
  match flat_map (fun x => match x with Return_err e => [err_code e] | _ => [] end) o with
  | e :: _ => Some e
  | [] => None
  end.
Definition n_conts (o : list output) : nat :=
  length (flat_map (fun x => match x with Continue L => [L] | _ => [] end) o).

(* async observables since the previous operation: [o] = outputs of the Synchronize goroutine *)
Definition async_of (tb : tagtbl) (c : cfg) (st : state) (o : list output) : async :=
  mkAsync (match ph st with Collect => Some (enc tb c (Bcast MMember (my_view c st))) | _ => None end)
          (first_query tb c o) (first_cont o)
          (match first_err o with Some e => e | None => match first_cont o with Some _ => 1 | None => 0 end end).

Definition no_async : async := mkAsync None None None 0.

(* state of the evaluation: model state + the frozen copy *)
Definition run_op (s : dscen) (st : state) (fz : list (N * view)) (op : dop) : option (state * list (N * view)) :=
  let c := scen_cfg s in
  let tb := d_tags s in
  match op with
  | OHandle from data sends sn asy =>
      let '(st1, o1) := handle_bytes (prf_tbl tb) c st from data in
      let '(st2, o2) := if d_sync s then settle c st1 else (st1, []) in
      if list_eqb send_eqb (sends_of tb c o1) sends && snap_eqb (negb (d_sync s) || running st2) (snap_of c st2) sn &&
         async_eqb (if d_sync s then async_of tb c st2 o2 else no_async) asy &&
         Nat.leb (n_conts o2) 1
      then Some (st2, fz) else None
  | OFreeze => Some (st, views st)
  | OPass2 iv => if nl_eqb (intersected c fz (keys (views st))) iv then Some (st, fz) else None
  | OPass iv => if nl_eqb (intersected c (views st) (keys (views st))) iv then Some (st, fz) else None
  | ODrain rs qs =>
      if list_eqb nl_eqb (chan st) rs && list_eqb nl_eqb (map snd (qchan st)) qs
      then Some (mkSt (views st) (responded st) [] (queried st) [] (qacc st) (stopped st) (pass st) (ph st), fz) else None
  | OStart sn asy =>
      let '(st2, o2) := settle c st in
      if snap_eqb (running st2) (snap_of c st2) sn && async_eqb (async_of tb c st2 o2) asy then Some (st2, fz) else None
  | OCancel asy =>
      let '(st2, o2) := step c st CtxDone in
      if async_eqb (mkAsync None None (first_cont o2)
                      (match first_err o2 with Some e => e | None => 0 end)) asy
      then Some (st2, fz) else None
  end.

Fixpoint run_ops (s : dscen) (st : state) (fz : list (N * view)) (ops : list dop) (i : nat) : option nat :=
  match ops with
  | [] => None
  | op :: rest =>
      match run_op s st fz op with
      | Some (st', fz') => run_ops s st' fz' rest (S i)
      | None => Some i
      end
  end.

Definition check_scen (s : dscen) : option nat := run_ops s state0 [] (d_ops s) 0.

Fixpoint mismatches_from (l : list dscen) (i : nat) : list (nat * nat) :=
  match l with
  | [] => []
  | s :: t => match check_scen s with
              | None => mismatches_from t (S i)
              | Some j => (i, j) :: mismatches_from t (S i)
              end
  end.
Definition mismatches (l : list dscen) : list (nat * nat) := mismatches_from l 0.
