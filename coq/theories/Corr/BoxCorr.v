(* Correspondence evaluation for msg.Box, sequential operation lists (C15, C14 sequential half). *)
Require Import TSS.Base.Base TSS.Box.Model TSS.Box.Handoff.
From Coq Require Import Arith.

Record bop := mkBop { b_op : op; b_hand : list bmsg; b_fwd : list topic; b_panic : bool }.
Record bscen := mkBScen { bs_limit : nat; bs_maxt : nat; bs_e : N; bs_ops : list bop;
                          bs_pending : list (topic * list bmsg); bs_inflight : list (N * list topic);
                          bs_started : list topic; bs_epoch : N; bs_lastgc : N }.

Definition msg_eqb (a b : bmsg) : bool :=
  (m_src a =? m_src b) && bytes_eqb (m_topic a) (m_topic b) && bytes_eqb (m_data a) (m_data b).

Definition o_hand (o : list out) : list bmsg := flat_map (fun x => match x with Handoff m => [m] | _ => [] end) o.
Definition o_fwd (o : list out) : list topic := flat_map (fun x => match x with Forward t => [t] | _ => [] end) o.
Definition o_panic (o : list out) : bool := existsb (fun x => match x with OPanic => true | _ => false end) o.

Definition op_ok (o : list out) (e : bop) : bool :=
  list_eqb msg_eqb (o_hand o) (b_hand e) && list_eqb bytes_eqb (o_fwd o) (b_fwd e) && Bool.eqb (o_panic o) (b_panic e).

Definition subset (a b : list topic) : bool := forallb (fun x => tmem x b) a.
Definition seteq (a b : list topic) : bool := subset a b && subset b a.

Definition final_ok (s : bscen) (b : box) : bool :=
  (epoch b =? bs_epoch s) && (lastGC b =? bs_lastgc s) &&
  Nat.eqb (length (pending b)) (length (bs_pending s)) &&
  forallb (fun '(t, msgs) => list_eqb msg_eqb (buffered b t) msgs) (bs_pending s) &&
  forallb (fun '(src, ts) => seteq (topics_of b src) ts) (bs_inflight s) &&
  forallb (fun '(src, ts) => match ts with [] => true | _ => existsb (fun '(s', _) => s' =? src) (bs_inflight s) end) (inflight b) &&
  seteq (map fst (started b)) (bs_started s).

(* Some i: first op whose observables differ;  Some (length ops): final bookkeeping differs *)
Fixpoint run_ops (c : cfg) (b : box) (ops : list bop) (i : nat) : box * option nat :=
  match ops with
  | [] => (b, None)
  | e :: rest => let '(b', o) := step c b (b_op e) in
                 if op_ok o e then run_ops c b' rest (S i) else (b', Some i)
  end.

Definition check_scen (s : bscen) : option nat :=
  let c := mkCfg (bs_limit s) (bs_maxt s) (bs_e s) v_fixed in
  match run_ops c box0 (bs_ops s) 0 with
  | (_, Some i) => Some i
  | (b, None) => if final_ok s b then None else Some (length (bs_ops s))
  end.

Fixpoint mismatches_from (l : list bscen) (i : nat) : list (nat * nat) :=
  match l with
  | [] => []
  | s :: t => match check_scen s with
              | None => mismatches_from t (S i)
              | Some j => (i, j) :: mismatches_from t (S i)
              end
  end.
Definition mismatches (l : list bscen) : list (nat * nat) := mismatches_from l 0.
