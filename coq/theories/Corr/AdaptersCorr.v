(* Correspondence evaluation for the tss-lib adapters (C19): observations of the real ClassifyMsg / OnMsg / Sign / hashToInt
   against the model instantiated with the generated tables and rule shapes. *)
From Coq Require Import String Ascii.
Require Import TSS.Base.Base TSS.Adapters.Classify TSS.Adapters.ClassifyFacts.
Require TSS.Gen.Adapters.
Import Inst.

Fixpoint str_of (l : list N) : string :=
  match l with
  | [] => EmptyString
  | b :: t => String (ascii_of_N b) (str_of t)
  end.

(* scheme: 0 = ecdsa, 1 = eddsa *)
Inductive acase :=
| KCls (scheme : N) (any_ok : bool) (url : list N) (err : bool) (round : N) (bcast : bool)
| KOn (scheme : N) (parsed : bool) (ids : list N) (from : N) (enq : bool) (attr : N) (slot : N)   (* slot = Go index + 1 *)
| KSignEd (d : bytes) (ok ver_d ver_strip : bool)
| KHash (d : bytes) (v : N).

Definition cls_of (scheme : N) : option string -> cls_result :=
  if scheme =? 0 then classify_wire ecdsa_rule Gen.Adapters.ecdsa_rounds Gen.Adapters.ecdsa_broadcast
  else classify_wire eddsa_rule Gen.Adapters.eddsa_rounds Gen.Adapters.eddsa_broadcast.

Definition onmsg_of (scheme : N) : onmsg_cfg := if scheme =? 0 then ecdsa_onmsg else eddsa_onmsg.

Definition check (c : acase) : bool :=
  match c with
  | KCls sc any_ok url err round bcast =>
      match cls_of sc (if any_ok then Some (str_of url) else None) with
      | ClsErr => err && (round =? 0) && negb bcast
      | ClsOk r b => negb err && (r =? round) && Bool.eqb b bcast
      end
  | KOn sc parsed ids from enq attr slot =>
      match on_msg_slot (onmsg_of sc) parsed ids from with
      | Some (k, sl) => enq && (k =? attr) && (slot_code sl =? slot)
      | None => negb enq
      end
  | KSignEd d ok ver_d ver_strip =>
      match eddsa_sign eddsa_sign_cfg (eddsa_lib eddsa_sign_cfg) d with
      | SOk s => ok && Bool.eqb ver_d (bytes_eqb s d) && Bool.eqb ver_strip (bytes_eqb s (strip0 d))
      | SErr => negb ok
      end
  | KHash d v => hash_to_int d =? v
  end.

Fixpoint mismatches_from (l : list acase) (i : N) : list N :=
  match l with
  | [] => []
  | c :: t => if check c then mismatches_from t (i + 1) else i :: mismatches_from t (i + 1)
  end.
Definition mismatches (l : list acase) : list N := mismatches_from l 0.
