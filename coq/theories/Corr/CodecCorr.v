(* Correspondence evaluation for the wire codecs (C13, C10). *)
Require Import TSS.Base.Base TSS.Wire.Codec.

Inductive ccase :=
| CAck (digest : bytes) (sender round : N) (enc_panic : bool) (enc : bytes)
| CMpcDec (data : bytes) (panic err is_ack : bool) (digest : bytes) (sender round : N)
| CSyncEnc (ty : N) (tag : bytes) (peers : list N) (panic : bool) (enc : bytes)
| CSyncDec (data : bytes) (panic err : bool) (ty : N) (tag : bytes) (peers : list N).

Definition nlist_eqb := list_eqb N.eqb.

Definition check (c : ccase) : bool :=
  match c with
  | CAck d s r p enc =>
      match new_rbc_encoding d s r with
      | Ok b => negb p && bytes_eqb b enc
      | Err => false
      | Panic => p
      end
  | CMpcDec data p e a d s r =>
      match decode_mpc wire_fixed data with
      | Panic => p
      | Err => negb p && e
      | Ok (DAck d' s' r') => negb p && negb e && a && bytes_eqb d d' && (s =? s') && (r =? r')
      | Ok (DPayload _) => negb p && negb e && negb a
      end
  | CSyncEnc ty tag peers p enc =>
      match encode_sync ty tag peers with
      | Ok b => negb p && bytes_eqb b enc
      | Err => false
      | Panic => p
      end
  | CSyncDec data p e ty tag peers =>
      match decode_sync wire_fixed data with
      | Panic => p
      | Err => negb p && e
      | Ok (ty', tag', peers') => negb p && negb e && (ty =? ty') && bytes_eqb tag tag' && nlist_eqb peers peers'
      end
  end.

Fixpoint mismatches_from (l : list ccase) (i : N) : list N :=
  match l with
  | [] => []
  | c :: t => if check c then mismatches_from t (i + 1) else i :: mismatches_from t (i + 1)
  end.
Definition mismatches (l : list ccase) : list N := mismatches_from l 0.

Definition topic_preimages (l : list (list N)) : list bytes := map membership_topic_bytes l.
