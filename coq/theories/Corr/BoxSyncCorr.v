(* Correspondence evaluation for concurrent schedules on the repaired msg.Box (C14): Box/Sync.v against msgbox.go. *)
Require Import TSS.Base.Base TSS.Box.Model TSS.Box.Handoff TSS.Box.Sync TSS.Corr.BoxCorr.
From Coq Require Import Arith.

Record sgrant := mkSG { sg_thread : nat; sg_hand : list bmsg; sg_fwd : list topic; sg_done : bool }.
Record sscen := mkSScen { ss_limit : nat; ss_maxt : nat; ss_scripts : list (list call); ss_grants : list sgrant;
                          ss_pending : list (topic * list bmsg); ss_inflight : list (N * list topic);
                          ss_started : list topic }.

Definition so_hand (o : list sout) : list bmsg := flat_map (fun x => match x with SHandoff m => [m] | _ => [] end) o.
Definition so_fwd (o : list sout) : list topic := flat_map (fun x => match x with SForward t => [t] | _ => [] end) o.
Definition so_panic (o : list sout) : bool := existsb (fun x => match x with SPanic => true | _ => false end) o.

Definition sgrant_ok (o : list sout) (th' : thread) (g : sgrant) : bool :=
  list_eqb msg_eqb (so_hand o) (sg_hand g) && list_eqb bytes_eqb (so_fwd o) (sg_fwd g) && negb (so_panic o) &&
  Bool.eqb (finished th') (sg_done g).

Definition sfinal_ok (s : sscen) (x : sbox) : bool :=
  let b := sb x in
  Nat.eqb (length (pending b)) (length (ss_pending s)) &&
  forallb (fun '(t, msgs) => list_eqb msg_eqb (buffered b t) msgs) (ss_pending s) &&
  forallb (fun '(src, ts) => seteq (topics_of b src) ts) (ss_inflight s) &&
  forallb (fun '(src, ts) => match ts with [] => true | _ => existsb (fun '(s', _) => s' =? src) (ss_inflight s) end) (inflight b) &&
  seteq (map fst (started b)) (ss_started s) &&
  match drainq x with [] => true | _ => false end.

Fixpoint run_sgrants (c : cfg) (x : sbox) (ths : list thread) (gs : list sgrant) (i : nat) : sbox * option nat :=
  match gs with
  | [] => (x, None)
  | g :: rest =>
      match nth_error ths (sg_thread g) with
      | None => (x, Some i)
      | Some th => let '(x', th', o) := tstep c x th in
                   if sgrant_ok o th' g then run_sgrants c x' (set_nth ths (sg_thread g) th') rest (S i) else (x', Some i)
      end
  end.

Definition check_sscen (s : sscen) : option nat :=
  let c := mkCfg (ss_limit s) (ss_maxt s) 6 v_fixed in
  match run_sgrants c sbox0 (map (mkTh Idle) (ss_scripts s)) (ss_grants s) 0 with
  | (_, Some i) => Some i
  | (x, None) => if sfinal_ok s x then None else Some (length (ss_grants s))
  end.

Fixpoint smismatches_from (l : list sscen) (i : nat) : list (nat * nat) :=
  match l with
  | [] => []
  | s :: t => match check_sscen s with
              | None => smismatches_from t (S i)
              | Some j => (i, j) :: smismatches_from t (S i)
              end
  end.
Definition smismatches (l : list sscen) : list (nat * nat) := smismatches_from l 0.
