(* Correspondence evaluation for the RBC engine: run the model on the event lists that the
   Go harness fed to real threshold.Scheme instances, and compare projected observables. *)
Require Import TSS.Base.Base TSS.Wire.Codec TSS.RBC.Model TSS.RBC.Scheme.
From Coq Require Import Arith.

Record ev := mkEv { e_from : N; e_data : bytes; e_onmsg : list (bytes * N * bool);
                    e_acks : list bytes; e_panic : bool }.
Record scen := mkScen { s_self : N; s_n : nat; s_allowed : list N; s_accept : bool;
                        s_hash : list (bytes * bytes); s_events : list ev }.

(* the scripted classifier of the harness (harness/core/fixture.go scriptedClassify) *)
Definition classify (accept : bool) (p : bytes) : outcome (N * bool) :=
  match p with
  | [] => if accept then Ok (0, false) else Err
  | b0 :: _ => if 200 <=? b0 then Err else Ok (b0 mod 8, (b0 / 8) mod 2 =? 1)
  end.

Fixpoint lookup (tbl : list (bytes * bytes)) (p : bytes) : bytes :=
  match tbl with
  | [] => []
  | (k, v) :: t => if bytes_eqb k p then v else lookup t p
  end.

Record obs := mkObs { o_onmsg : list (bytes * N * bool); o_acks : list bytes; o_panic : bool }.

Definition proj1 (acc : obs) (h : hout) : obs :=
  match h with
  | HPanic => mkObs (o_onmsg acc) (o_acks acc) true
  | HOut (Deliver k (Some p)) => mkObs (o_onmsg acc ++ [(p, ks k, true)]) (o_acks acc) (o_panic acc)
  | HOut (Deliver k None) => mkObs (o_onmsg acc) (o_acks acc) true
  | HOut (DeliverP2P from p) => mkObs (o_onmsg acc ++ [(p, from, false)]) (o_acks acc) (o_panic acc)
  | HOut (AckOut k) =>
      match new_rbc_encoding (kd k) (ks k) (N.of_nat (kr k)) with
      | Ok b => mkObs (o_onmsg acc) (o_acks acc ++ [b]) (o_panic acc)
      | _ => mkObs (o_onmsg acc) (o_acks acc) true
      end
  | HOut PanicSelfAck => mkObs (o_onmsg acc) (o_acks acc) true
  end.

Definition proj (o : list hout) : obs := fold_left proj1 o (mkObs [] [] false).

Definition onmsg_eqb (a b : bytes * N * bool) : bool :=
  let '(p1, f1, b1) := a in let '(p2, f2, b2) := b in
  bytes_eqb p1 p2 && (f1 =? f2) && Bool.eqb b1 b2.

Definition obs_eqb (o : obs) (e : ev) : bool :=
  list_eqb onmsg_eqb (o_onmsg o) (e_onmsg e) &&
  list_eqb bytes_eqb (o_acks o) (e_acks e) &&
  Bool.eqb (o_panic o) (e_panic e).

Definition scen_cfg (s : scen) : cfg N := mkCfg (s_self s) (s_n s) (s_allowed s) true true.

(* index of the first event whose observables differ, if any *)
Fixpoint run_events (s : scen) (st : bstate) (evs : list ev) (i : nat) : option nat :=
  match evs with
  | [] => None
  | e :: rest =>
      let '(st', o) := handle_mpc (lookup (s_hash s)) (classify (s_accept s)) wire_fixed
                                  (scen_cfg s) st (e_from e) (e_data e) in
      if obs_eqb (proj o) e then run_events s st' rest (S i) else Some i
  end.

Definition check_scen (s : scen) : option nat :=
  run_events s (rstate0 N bytes bytes) (s_events s) 0.

Fixpoint mismatches_from (l : list scen) (i : nat) : list (nat * nat) :=
  match l with
  | [] => []
  | s :: t => match check_scen s with
              | None => mismatches_from t (S i)
              | Some j => (i, j) :: mismatches_from t (S i)
              end
  end.
Definition mismatches (l : list scen) : list (nat * nat) := mismatches_from l 0.
