(* Correspondence evaluation for the transport (C16, C17): each case carries an input given to the real Go code,
   what the Go code did, and -- for the handshake decision -- the values the oracles take on that input, computed by
   the harness with the standard library independently of package net.  [mismatches] lists the cases on which the
   model (repaired variants) says something else. *)
Require Import TSS.Base.Base TSS.Gen.NetConsts TSS.Net.Frame TSS.Net.Handshake TSS.Net.Queue.

(* oracle values of one handshake case *)
Record oracles := mkOr {
  o_buff : bytes;                       (* the bytes the harness says form the handshake message *)
  o_um : option handshake;              (* asn1.Unmarshal of them *)
  o_mm : option bytes;                  (* asn1.Marshal of that handshake with empty signature *)
  o_pem : option bytes;                 (* pem.Decode of the identity *)
  o_x509 : option pubkey;               (* x509.ParseCertificate: key kind (and an abstract name of the key) *)
  o_vdigest : bytes; o_vres : bool;     (* ecdsa.VerifyASN1(key, that digest, the signature of the handshake) *)
  o_sha : list (bytes * bytes);         (* SHA-256 on the preimages that occur *)
  o_tbl : list (bytes * N)              (* the participant2ID table *)
}.

Fixpoint assoc {B} (l : list (bytes * B)) (k : bytes) : option B :=
  match l with
  | [] => None
  | (k', v) :: t => if bytes_eqb k k' then Some v else assoc t k
  end.

Definition or_unmarshal (o : oracles) (b : bytes) : option handshake := if bytes_eqb b (o_buff o) then o_um o else None.
Definition or_marshal (o : oracles) (h : handshake) : option bytes :=
  match h_sig h with [] => o_mm o | _ => None end.            (* only ever asked about the signature-free handshake *)
Definition or_pem (o : oracles) (b : bytes) : option bytes :=
  match o_um o with Some h => if bytes_eqb b (h_identity h) then o_pem o else None | None => None end.
Definition or_x509 (o : oracles) (b : bytes) : option pubkey :=
  match o_pem o with Some der => if bytes_eqb b der then o_x509 o else None | None => None end.
Definition or_verify (o : oracles) (k d sg : bytes) : bool :=
  match o_x509 o, o_um o with
  | Some (KEcdsa k'), Some h => bytes_eqb k k' && bytes_eqb d (o_vdigest o) && bytes_eqb sg (h_sig h) && o_vres o
  | _, _ => false
  end.
Definition or_sha (o : oracles) (b : bytes) : bytes := match assoc (o_sha o) b with Some d => d | None => [] end.

Definition m_authenticate (o : oracles) (binding s : bytes) : outcome (bytes * N) :=
  authenticate (or_unmarshal o) (or_marshal o) (or_pem o) (or_x509 o) (or_verify o) (or_sha o)
               hs_fixed binding (assoc (o_tbl o)) s.
Definition m_handle_conn (o : oracles) (binding s : bytes) : outcome (list inmsg) :=
  handle_conn (or_unmarshal o) (or_marshal o) (or_pem o) (or_x509 o) (or_verify o) (or_sha o)
              hs_fixed binding (assoc (o_tbl o)) s.

(* result classes: 0 = attributed / ok, 1 = refused / error, 2 = panic *)
Inductive ncase :=
| NEnc (ty : N) (topic data : bytes) (res : N) (wire : bytes)                  (* remoteParty.send, everything it wrote *)
| NEncHdr (ty : N) (topic : bytes) (len : N) (res : N) (hdr : bytes)          (* big payloads: header bytes only *)
| NDec (stream : bytes) (frames : list frame) (clean : bool) (panic : bool)   (* readMsg loop until it fails *)
| NDecBig (ty b0 b1 b2 b3 avail : N) (res : N) (rty rtl rdl : N)              (* readMsg, lengths only *)
| NAuth (o : oracles) (binding stream : bytes) (res : N) (dom : bytes) (id : N)
| NConn (o : oracles) (binding stream : bytes) (panic : bool) (msgs : list inmsg)
| NQueue (members : list N) (cap : N) (ops : list qop) (results : list N)     (* 0 accepted, 1 dropped, 2 panic, 3 none *)
         (final : list (N * list N * N)).                                      (* destination, frames on the wire, queue length *)

Definition frames_eqb := list_eqb frame_eqb.
Definition inmsg_eqb (a b : inmsg) : bool :=
  bytes_eqb (in_domain a) (in_domain b) && (in_from a =? in_from b) && frame_eqb (in_frame a) (in_frame b).
Definition nlist_eqb := list_eqb N.eqb.

Definition qres_code (r : outcome qres) : N :=
  match r with Ok RAccepted => 0 | Ok RDropped => 1 | Panic => 2 | Ok RNone => 3 | Err => 4 end.

Definition check (c : ncase) : bool :=
  match c with
  | NEnc ty topic data res wire =>
      match encode_frame ty topic data with
      | Ok b => (res =? 0) && bytes_eqb b wire
      | Err => false
      | Panic => res =? 2
      end
  | NEncHdr ty topic len res hdr =>
      match encode_header ty topic len with
      | Ok b => (res =? 0) && bytes_eqb b hdr
      | Err => false
      | Panic => res =? 2
      end
  | NDec stream frames clean panic =>
      match decode_stream stream with
      | (fs, Ok _) => negb panic && clean && frames_eqb fs frames
      | (fs, Err) => negb panic && negb clean && frames_eqb fs frames
      | (_, Panic) => panic
      end
  | NDecBig ty b0 b1 b2 b3 avail res rty rtl rdl =>
      match read_msg_decision ty b0 b1 b2 b3 avail with
      | Ok (t, tl, dl) => (res =? 0) && (t =? rty) && (tl =? rtl) && (dl =? rdl)
      | Err => res =? 1
      | Panic => res =? 2
      end
  | NAuth o binding stream res dom id =>
      match m_authenticate o binding stream with
      | Ok (d, i) => (res =? 0) && bytes_eqb d dom && (i =? id)
      | Err => res =? 1
      | Panic => res =? 2
      end
  | NConn o binding stream panic msgs =>
      match m_handle_conn o binding stream with
      | Ok ms => negb panic && list_eqb inmsg_eqb ms msgs
      | Err => false
      | Panic => panic
      end
  | NQueue members cap ops results final =>
      let c := mkQ true members (fun _ => cap) in
      let (st, rs) := run c q_init ops in
      nlist_eqb (map qres_code rs) results &&
      forallb (fun x => match x with (d, w, ql) => nlist_eqb (wire (st d)) w && (lenN (d_queue (st d)) =? ql) end) final
  end.

Fixpoint mismatches_from (l : list ncase) (i : N) : list N :=
  match l with
  | [] => []
  | c :: t => if check c then mismatches_from t (i + 1) else i :: mismatches_from t (i + 1)
  end.
Definition mismatches (l : list ncase) : list N := mismatches_from l 0.
