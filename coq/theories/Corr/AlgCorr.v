(* Correspondence evaluation for the secret-sharing algebra (C18): the Go harness (harness/bls) ran the real
   lagrangeCoefficient / Shares.reconstruct / Polynomial.ValueAt / SSS.Gen / chooseKoutOfN / assembleThresholdPublicKey
   and reports exact integers; the model of TSS.Alg.ZrModel / TSS.Alg.Choose must give the same values. *)
From Coq Require Import ZArith List.
Require Import TSS.Base.Base TSS.Alg.Choose TSS.Alg.ZrModel.
Import ListNotations.
Local Open Scope Z_scope.

Inductive acase :=
| AGen (coeffs : list Z) (n : nat) (shares : list Z)                  (* SSS.Gen with known coefficients *)
| AValueAt (coeffs : list Z) (x : Z) (v : Z)                          (* Polynomial.ValueAt *)
| ALag (i : Z) (pts : list Z) (panic : bool) (v : Z)                  (* lagrangeCoefficient *)
| ARec (shares : list Z) (pts : list Z) (panic : bool) (v : Z)        (* Shares.reconstruct *)
| AChoose (n k : nat) (subsets : list (list nat))                     (* chooseKoutOfN, call order *)
| ACross (shares : list Z) (n t : nat) (distinct : nat).              (* number of different threshold keys *)

Definition zlist_eqb := list_eqb Z.eqb.

Definition out_matches (o : outcome Z) (panic : bool) (v : Z) : bool :=
  match o with
  | Ok w => negb panic && (w =? v)
  | Panic => panic
  | Err => false
  end.

Definition check (c : acase) : bool :=
  match c with
  | AGen cs n sh => zlist_eqb (gen_shares cs n) sh
  | AValueAt cs x v => value_at cs x =? v
  | ALag i pts p v => out_matches (lagrange_coefficient i pts) p v
  | ARec sh pts p v => out_matches (reconstruct sh pts) p v
  | AChoose n k subs => list_eqb (list_eqb Nat.eqb) (choose n k) subs
  | ACross sh n t d => Nat.eqb (crosscheck_distinct sh n t) d
  end.

Fixpoint mismatches_from (l : list acase) (i : N) : list N :=
  match l with
  | [] => []
  | c :: t => if check c then mismatches_from t (i + 1)%N else i :: mismatches_from t (i + 1)%N
  end.
Definition mismatches (l : list acase) : list N := mismatches_from l 0%N.
