(* Correspondence evaluation for the DKG phase machine (C05, C01): the Go harness (harness/dkg, backend level) drives real
   TBLS instances with a seeded reader and a scripted deviating participant; for every honest party it reports the events
   it experienced (deliveries in order, cancellation) with scalars as exact integers and group elements as exponents of the
   generator (the harness checks g2^exponent against the real bytes), and what KeyGen returned.  The model of TSS.Alg.DKG,
   instantiated in the exponent (keys = exponents mod r, commitment = the key it commits to, cross-check =
   ZrModel.crosscheck_distinct <= 1), must predict verdict and values. *)
From Coq Require Import ZArith List.
Require Import TSS.Base.Base TSS.Alg.Choose TSS.Alg.ZrModel TSS.Alg.DKG.
Import ListNotations.
Local Open Scope Z_scope.

Definition zadd (a b : Z) : Z := (a + b) mod r.          (* Zr.Plus, read modulo r (keys and Sk.Bytes() reduce) *)
Definition zpub (a : Z) : Z := a mod r.                  (* g2^a, as its exponent *)
Definition zH (v : Z) : Z := v.                          (* SHA-256 of the key bytes: injective by assumption *)

Definition zcross (n t : nat) (l : list Z) : bool := Nat.leb (crosscheck_distinct l n t) 1.

Definition last_subset (n t : nat) : list nat := last (choose n t) [].

(* the aggregate assembleThresholdPublicKey returns: the one of the last subset *)
Definition ztpk (n t : nat) (l : list Z) : Z :=
  match reconstruct l (map Z.of_nat (last_subset n t)) with Ok v => v | _ => -1 end.

Inductive dev :=
| ES (from : nat) (v : Z)            (* share stored as this integer *)
| EC (from : nat) (c : Z)            (* commitment to the key with this exponent (or a value no key hashes to) *)
| ER (from : nat) (v : Z)            (* a key that parses, with this exponent *)
| ERbad (from : nat)                 (* bytes that do not parse as a key *)
| EX.                                (* context cancelled *)

(* OnMsg signals the condition variable after storing: a wake-up follows every delivery *)
Definition to_events (d : dev) : list (event Z Z Z) :=
  match d with
  | ES f v => [DeliverShare f (v mod r); Wake]
  | EC f c => [DeliverCommit f c; Wake]
  | ER f v => [DeliverReveal f (Some (v mod r)); Wake]
  | ERbad f => [DeliverReveal f None; Wake]
  | EX => [CtxDone; Wake]
  end.

Inductive verdict := VOk (sk : Z) (pks : list Z) (tpk : Z) | VErr | VPanic | VRunning.

Definition run_party (n t : nat) (self : nat) (own : Z) (devs : list dev) : verdict * list nat :=
  let parties := seq 1 n in
  let evs := Wake :: flat_map to_events devs in
  let res := run Z Z Z zadd zpub zH Z.eqb (zcross n t) (ztpk n t) parties self
                 (init Z Z Z self (fun _ => own mod r)) evs in
  let v := match ph Z Z Z (fst res) with
           | Done sk pks tpk => VOk sk pks tpk
           | Failed => VErr
           | Panicked => VPanic
           | _ => VRunning
           end in
  (* order of the broadcasts: 2 = commit, 3 = reveal *)
  (v, flat_map (fun o => match o with BcastCommit _ => [2%nat] | BcastReveal _ => [3%nat] | _ => [] end) (snd res)).

(* one honest party of one scenario, with what Go reported: verdict class 0 ok / 1 err / 2 panic / 3 still running *)
Record pcase := mkP { p_n : nat; p_t : nat; p_self : nat; p_own : Z; p_devs : list dev;
                      p_verdict : nat; p_sk : Z; p_pks : list Z; p_tpk : Z; p_bcasts : list nat }.

Definition zlist_eqb := list_eqb Z.eqb.

Definition check (c : pcase) : bool :=
  let '(v, b) := run_party (p_n c) (p_t c) (p_self c) (p_own c) (p_devs c) in
  list_eqb Nat.eqb b (p_bcasts c) &&
  match v with
  | VOk sk pks tpk => Nat.eqb (p_verdict c) 0 && (sk =? p_sk c) && zlist_eqb pks (p_pks c) && (tpk =? p_tpk c)
  | VErr => Nat.eqb (p_verdict c) 1
  | VPanic => Nat.eqb (p_verdict c) 2
  | VRunning => Nat.eqb (p_verdict c) 3
  end.

Fixpoint mismatches_from (l : list pcase) (i : N) : list N :=
  match l with
  | [] => []
  | c :: t => if check c then mismatches_from t (i + 1)%N else i :: mismatches_from t (i + 1)%N
  end.
Definition mismatches (l : list pcase) : list N := mismatches_from l 0%N.

(* non-vacuity: n = 3, t = 2, party 1 with own share 5; peers' shares 7 and 9 -> sk = 21; the keys 21, 32, 43 lie on the
   line 10 + 11 x; threshold key 10.  A moved key (33) is rejected; a withheld commitment ends in an error on cancel. *)
Example dkg_example :
  run_party 3 2 1 5 [ES 2 7; ES 3 9; EC 2 32; EC 3 43; ER 2 32; ER 3 43] = (VOk 21 [21; 32; 43] 10, [2; 3]%nat) /\
  run_party 3 2 1 5 [ER 3 43; ES 2 7; EC 3 43; ES 3 9; ES 3 1; EC 2 32; ER 2 32] = (VOk 21 [21; 32; 43] 10, [2; 3]%nat) /\
  run_party 3 2 1 5 [ES 2 7; ES 3 9; EC 2 33; EC 3 43; ER 2 33; ER 3 43] = (VErr, [2; 3]%nat) /\
  run_party 3 2 1 5 [ES 2 7; ES 3 9; EC 2 32; EC 3 43; ER 2 33; ER 3 43] = (VErr, [2; 3]%nat) /\
  run_party 3 2 1 5 [ES 2 7; ES 3 9; EC 2 32; ER 2 32; ER 3 43; EX] = (VErr, [2]%nat).
Proof. vm_compute. repeat split; reflexivity. Qed.

(* Evaluation points are RANKS.  KeyGen gives the party of rank i (1-based position in the session's participant list)
   the value p(i) of every dealt polynomial, assembleThresholdPublicKey interpolates at ranks, and bls.Verifier.Init maps a
   signer's identifier to its rank (parties2EvalPoints[p] = i + 1).  With participants {1,2,4} the party with identifier 4
   has rank 3.  Interpolating its partial signature at the identifier instead gives a wrong value: p = 5 + 3x, shares
   8, 11, 14 at ranks 1, 2, 3; signers {1,4} = ranks {1,3}. *)
Definition combine2 (s1 s2 : Z) (x1 x2 : Z) : outcome Z :=
  match lagrange_coefficient x1 [x1; x2], lagrange_coefficient x2 [x1; x2] with
  | Ok l1, Ok l2 => Ok (((s1 * l1) mod r + (s2 * l2) mod r) mod r)
  | _, _ => Panic
  end.

Lemma identifier_points_refuted :
  gen_shares [5; 3] 3 = [8; 11; 14] /\
  combine2 8 14 1 3 = Ok 5 /\          (* at ranks 1 and 3: the secret *)
  combine2 8 14 1 4 = Ok 6.            (* at identifiers 1 and 4: not the secret *)
Proof. vm_compute. repeat split; reflexivity. Qed.
