(* Executable runs of the global system (Disc/Global.v) with a decidable admissibility check, for witnesses,
   examples and the liveness schedule. *)
Require Import TSS.Base.Base TSS.Disc.Sort TSS.Disc.Model TSS.Disc.Local TSS.Disc.Global.

Definition errc_eqb (a b : errc) : bool :=
  match a, b with
  | ECollect, ECollect | ETooMany, ETooMany | EAcks, EAcks | EQueries, EQueries => true
  | _, _ => false
  end.

Definition out_eqb (a b : output) : bool :=
  match a, b with
  | Bcast t v, Bcast t' v' => mty_eqb t t' && view_eqb v v'
  | SendTo x t v, SendTo x' t' v' => (x =? x') && mty_eqb t t' && view_eqb v v'
  | Continue l, Continue l' => view_eqb l l'
  | Return_err e, Return_err e' => errc_eqb e e'
  | _, _ => false
  end.

Lemma mty_eqb_eq a b : mty_eqb a b = true -> a = b.
Proof. destruct a, b; simpl; intros H; try reflexivity; discriminate. Qed.

Lemma out_eqb_eq a b : out_eqb a b = true -> a = b.
Proof.
  destruct a, b; simpl; intros H; try discriminate; try reflexivity.
  - apply andb_true_iff in H. destruct H as [H1 H2]. apply mty_eqb_eq in H1. apply view_eqb_spec in H2. congruence.
  - apply andb_true_iff in H. destruct H as [H12 H3]. apply andb_true_iff in H12. destruct H12 as [H1 H2].
    apply N.eqb_eq in H1. apply mty_eqb_eq in H2. apply view_eqb_spec in H3. congruence.
  - apply view_eqb_spec in H. congruence.
  - destruct e, e0; simpl in H; try discriminate; reflexivity.
Qed.

Section Exec.
Variable tp : N.
Variable mem : list N.
Variable exp : nat.
Variables fx fs fq : bool.
Variable Hn : list N.          (* the honest members *)

Definition honestL (x : N) : Prop := In x Hn.

Notation gstate := Global.gstate.
Notation gstep := (Global.gstep tp mem exp fx fs fq).
Notation cfgOf := (Global.cfgOf tp mem exp fx fs fq).
Notation reachable := (Global.reachable tp mem exp fx fs fq honestL).
Notation admissible := (Global.admissible tp mem exp fx fs fq honestL).

Definition emitted_b (S : gstate) (x : N) (o : output) : bool :=
  existsb (fun yo => (fst yo =? x) && out_eqb (snd yo) o) (emitted S).

Lemma emitted_b_in S x o : emitted_b S x o = true -> In (x, o) (emitted S).
Proof.
  unfold emitted_b. rewrite existsb_exists. intros ([y o'] & Hin & H). simpl in H.
  apply andb_true_iff in H. destruct H as [H1 H2]. apply N.eqb_eq in H1. apply out_eqb_eq in H2. subst. exact Hin.
Qed.

Definition adm_b (S : gstate) (ge : gevent) : bool :=
  let '(h, ev) := ge in
  memb h Hn &&
  match ev with
  | Handle from (ty, tg, v) =>
      if memb from Hn && accepts (cfgOf h) from (ty, tg, v)
      then emitted_b S from (Bcast ty v) || emitted_b S from (SendTo h ty v)
      else true
  | _ => true
  end.

Lemma adm_b_ok S ge : adm_b S ge = true -> admissible S ge.
Proof.
  destruct ge as [h ev]. unfold adm_b, Global.admissible. intros H.
  apply andb_true_iff in H. destruct H as [Hh H]. apply memb_spec in Hh. split; [exact Hh|].
  destruct ev; auto. destruct m as [[ty tg] v]. intros Hf Hacc.
  apply memb_spec in Hf. rewrite Hf, Hacc in H. simpl in H.
  apply orb_true_iff in H. unfold authentic. destruct H as [H|H]; apply emitted_b_in in H; auto.
Qed.

Definition grun (S : gstate) (evs : list gevent) : gstate := fold_left gstep evs S.

Fixpoint run_ok (S : gstate) (evs : list gevent) : bool :=
  match evs with
  | [] => true
  | e :: t => adm_b S e && run_ok (gstep S e) t
  end.

Lemma run_ok_reachable evs : forall S, reachable S -> run_ok S evs = true -> reachable (grun S evs).
Proof.
  induction evs as [|e t IH]; simpl; intros S HR H; [exact HR|].
  apply andb_true_iff in H. destruct H as [H1 H2]. apply IH; [|exact H2].
  apply reach_step; [exact HR|apply adm_b_ok, H1].
Qed.

Definition conts_of (S : gstate) (h : N) : list view := gconts h (emitted S).
Definition errs_of (S : gstate) (h : N) : nat := length (gerrs h (emitted S)).
End Exec.
