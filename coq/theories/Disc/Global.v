(* Membership synchronisation on one topic: a system of honest members, each running Disc/Model.v with the
   same configured membership and expected count, next to arbitrary Byzantine members and outsiders.

   An event (h, ev) is a local step [ev] of the honest member h.  The only constraint on event lists is
   AUTHENTICATED LINKS: when h handles a message as coming from an HONEST member [from], and the message would be
   accepted (its tag stands for (this topic, from)), then [from] really emitted it -- as a broadcast, or as a
   point-to-point message to h.  Everything else is unconstrained: any interleaving of the members' steps
   (including HandleMessage steps between the Visit steps of a Range in progress), any delay, duplication and
   re-ordering of honest messages, any message whatsoever handled as coming from a Byzantine member or an
   outsider (lying views, tags of other members or topics, replays, responses before queries), context expiry at
   any moment.  Nothing is assumed about which members are honest, how many there are, or their identifiers.

   What the query/response round adds (and what not): a member proceeds with L only after expected-1 DISTINCT
   peers answered its query with a list equal to L.  The responders need not be members of L (any configured
   peer is accepted), so the round binds the members of L to nothing; agreement below does not use it.  It only
   rests on the announced views: a member proceeds with L only if every member of L announced exactly L, an honest
   member announces nothing but its own view, and its view only grows. *)
Require Import TSS.Base.Base TSS.Disc.Sort TSS.Disc.Model TSS.Disc.Local.
From Coq Require Import Arith Sorted.

Section Global.
Variable tp : N.            (* the topic *)
Variable mem : list N.      (* configured membership, the same at every honest member *)
Variable exp : nat.         (* expectedMemberCount *)
Variables fx fs fq : bool.  (* variant flags fix_onepass, fix_solo, fix_queries *)
Variable honest : N -> Prop.

Definition cfgOf (h : N) : cfg := mkCfg h tp mem exp fx fs fq.

Definition gevent := (N * event)%type.

(* g: local states; emitted: every output of every honest member, in order; hist: the events so far *)
Record gstate := mkG { g : N -> state; emitted : list (N * output); hist : list gevent }.
Definition ginit := mkG (fun _ => state0) [] [].

Definition gstep (S : gstate) (ge : gevent) : gstate :=
  let '(h, ev) := ge in
  let '(st', o) := step (cfgOf h) (g S h) ev in
  mkG (fun x => if N.eq_dec x h then st' else g S x) (emitted S ++ map (pair h) o) (hist S ++ [ge]).

Definition authentic (S : gstate) (h from : N) (m : msg) : Prop :=
  let '(ty, _, v) := m in In (from, Bcast ty v) (emitted S) \/ In (from, SendTo h ty v) (emitted S).

Definition admissible (S : gstate) (ge : gevent) : Prop :=
  let '(h, ev) := ge in
  honest h /\
  match ev with
  | Handle from m => honest from -> accepts (cfgOf h) from m = true -> authentic S h from m
  | _ => True
  end.

Inductive reachable : gstate -> Prop :=
| reach_init : reachable ginit
| reach_step S ge : reachable S -> admissible S ge -> reachable (gstep S ge).

Inductive extends (S : gstate) : gstate -> Prop :=
| ext_refl : extends S S
| ext_step S' ge : extends S S' -> admissible S' ge -> extends S (gstep S' ge).

(* continuations invoked / errors returned by h *)
Definition gconts (h : N) (em : list (N * output)) : list view :=
  flat_map (fun xo => if fst xo =? h then match snd xo with Continue L => [L] | _ => [] end else []) em.
Definition gerrs (h : N) (em : list (N * output)) : list unit :=
  flat_map (fun xo => if fst xo =? h then match snd xo with Return_err _ => [tt] | _ => [] end else []) em.

Lemma in_gconts h em L : In L (gconts h em) <-> In (h, Continue L) em.
Proof.
  unfold gconts. rewrite in_flat_map. split.
  - intros ([x o] & Hx & Hin). simpl in Hin. destruct (x =? h) eqn:E; [|contradiction].
    apply N.eqb_eq in E. subst. destruct o; simpl in Hin; try contradiction. destruct Hin as [->|[]]. exact Hx.
  - intros H. exists (h, Continue L). split; [exact H|]. simpl. rewrite N.eqb_refl. left. reflexivity.
Qed.

Lemma in_gerrs h em : In tt (gerrs h em) <-> exists e, In (h, Return_err e) em.
Proof.
  unfold gerrs. rewrite in_flat_map. split.
  - intros ([x o] & Hx & Hin). simpl in Hin. destruct (x =? h) eqn:E; [|contradiction].
    apply N.eqb_eq in E. subst. destruct o; simpl in Hin; try contradiction. eauto.
  - intros [e H]. exists (h, Return_err e). split; [exact H|]. simpl. rewrite N.eqb_refl. left. reflexivity.
Qed.

Lemma gconts_app h em (x : N) (o : list output) :
  gconts h (em ++ map (pair x) o) = gconts h em ++ (if x =? h then conts o else []).
Proof.
  unfold gconts. rewrite flat_map_app. f_equal.
  induction o as [|a o IH]; simpl; [destruct (x =? h); reflexivity|].
  rewrite IH. destruct (x =? h); [|reflexivity]. unfold conts. simpl. reflexivity.
Qed.

Lemma gerrs_app h em (x : N) (o : list output) :
  gerrs h (em ++ map (pair x) o) = gerrs h em ++ (if x =? h then errs o else []).
Proof.
  unfold gerrs. rewrite flat_map_app. f_equal.
  induction o as [|a o IH]; simpl; [destruct (x =? h); reflexivity|].
  rewrite IH. destruct (x =? h); [|reflexivity]. unfold errs. simpl. reflexivity.
Qed.

Lemma in_emitted_step (em : list (N * output)) (h : N) (o : list output) x out :
  In (x, out) (em ++ map (pair h) o) <-> In (x, out) em \/ (x = h /\ In out o).
Proof.
  rewrite in_app_iff, in_map_iff. split.
  - intros [H|(y & E & H)]; [auto|]. inversion E; subst. auto.
  - intros [H|[-> H]]; [auto|]. right. eauto.
Qed.

Definition announced (S : gstate) (h k : N) (v : view) : Prop :=
  exists ty, ty <> MResp /\ In (h, Handle k (ty, (tp, k), v)) (hist S).

Definition phase_list (p : phase) (L : view) : Prop := (exists a q, p = Query L a q) \/ p = Done L.

(* queries still expected when the second loop starts *)
Definition qbase : nat := if fq then (exp - 1)%nat else 0%nat.

(* what is known about a first query (p, l) that h accepted: it is in the history; and if p is honest (and h is in
   the list), h answered it, with a sorted list that contains l and that h's view contains *)
Definition qfact (S : gstate) (h p : N) (l : view) : Prop :=
  In (h, Handle p (MQuery, (tp, p), l)) (hist S) /\ p <> h /\ In p mem /\
  (honest p -> fx = true -> In h l ->
   exists v, In (h, SendTo p MResp v) (emitted S) /\ incl l v /\ ssorted v /\ incl v (h :: keys (views (g S h)))).

Record Inv (S : gstate) : Prop := {
  I_nodup : forall h, honest h -> NoDup (keys (views (g S h)));
  I_views : forall h k v, honest h -> In (k, v) (views (g S h)) -> k <> h /\ In k mem /\ announced S h k v;
  I_pass : forall h pend s, honest h -> pass (g S h) = Some (pend, s) ->
     ph (g S h) = Collect /\ incl pend (keys (views (g S h))) /\ NoDup (keys s) /\
     (forall k v, In (k, v) s -> In k (keys (views (g S h))) /\ announced S h k v);
  I_send : forall h to ty v, honest h -> In (h, SendTo to ty v) (emitted S) -> ty = MResp;
  I_bc : forall h ty v, honest h -> In (h, Bcast ty v) (emitted S) ->
     ty <> MResp /\ incl v (h :: keys (views (g S h))) /\
     (forall pend s, pass (g S h) = Some (pend, s) -> incl v (h :: pend));
  I_chain : forall h t1 v1 t2 v2, honest h -> In (h, Bcast t1 v1) (emitted S) -> In (h, Bcast t2 v2) (emitted S) ->
     incl v1 v2 \/ incl v2 v1;
  I_ql : forall h L, honest h -> phase_list (ph (g S h)) L ->
     In (h, Bcast MQuery L) (emitted S) /\ ssorted L /\ length L = exp /\ (1 <= exp -> In h L)%nat /\
     incl L (h :: keys (views (g S h))) /\
     (fx = true -> forall b, In b L -> b <> h -> announced S h b L) /\
     (fs = false -> L = [] \/ (2 <= length L)%nat);
  I_cnt : forall h, honest h -> gconts h (emitted S) = match ph (g S h) with Done L => [L] | _ => [] end;
  I_err : forall h, honest h -> gerrs h (emitted S) = match ph (g S h) with Failed => [tt] | _ => [] end;
  I_ctx : forall h, honest h -> In (h, CtxDone) (hist S) -> ph (g S h) = Failed \/ exists L, ph (g S h) = Done L;
  I_auth : forall h from m, In (h, Handle from m) (hist S) -> honest from -> accepts (cfgOf h) from m = true ->
     authentic S h from m;
  I_fail : forall h, honest h -> ph (g S h) = Failed ->
     In (h, CtxDone) (hist S) \/ (exp < 1 + length (keys (views (g S h))))%nat;
  I_stop : forall h, honest h -> stopped (g S h) = true -> ph (g S h) = Failed \/ exists L, ph (g S h) = Done L;
  I_qb : forall h L, honest h -> In (h, Bcast MQuery L) (emitted S) -> fx = true ->
     forall b, In b L -> b <> h -> announced S h b L;
  I_qs : forall h, honest h ->
     NoDup (map fst (qchan (g S h)) ++ qacc (g S h)) /\
     incl (map fst (qchan (g S h)) ++ qacc (g S h)) (queried (g S h)) /\
     (ph (g S h) = Collect -> qacc (g S h) = []) /\
     (forall p l, In (p, l) (qchan (g S h)) -> qfact S h p l) /\
     (forall p L, In p (qacc (g S h)) -> phase_list (ph (g S h)) L -> qfact S h p L);
  I_qn : forall h, honest h ->
     (forall L a q, ph (g S h) = Query L a q -> q = (qbase - length (qacc (g S h)))%nat) /\
     (forall L, ph (g S h) = Done L -> (qbase <= length (qacc (g S h)))%nat) }.

Lemma Inv_init : Inv ginit.
Proof.
  constructor; simpl; try (intros; contradiction); try reflexivity.
  - intros. constructor.
  - intros. discriminate.
  - intros h L _ [(a & q & H)|H]; discriminate.
  - intros. discriminate.
  - intros. discriminate.
  - intros h _. split; [constructor|]. split; [intros ? []|]. split; [reflexivity|]. split; intros; contradiction.
  - intros h _. split; intros; discriminate.
Qed.

Lemma NoDup_snoc {A} (l : list A) (a : A) : NoDup l -> ~ In a l -> NoDup (l ++ [a]).
Proof.
  induction l as [|x l IH]; simpl; intros Hnd Hn; [constructor; auto; constructor|].
  inversion Hnd; subst. constructor.
  - rewrite in_app_iff. intros [H|[H|[]]]; [auto|subst; auto].
  - apply IH; auto.
Qed.

Lemma step_ctxdone c st st' o : step c st CtxDone = (st', o) -> ph st' = Failed \/ exists L, ph st' = Done L.
Proof.
  unfold step, set_ph. destruct (ph st) eqn:E; intros H; inversion H; subst; simpl; eauto.
Qed.

Lemma announced_mono S ge h k v : announced S h k v -> announced (gstep S ge) h k v.
Proof.
  intros (ty & Hty & Hin). exists ty. split; [exact Hty|].
  unfold gstep. destruct ge as [x ev]. destruct (step (cfgOf x) (g S x) ev). simpl.
  apply in_app_iff. auto.
Qed.


Lemma Inv_step S ge : Inv S -> admissible S ge -> Inv (gstep S ge).
Proof.
  intros HI Hadm. destruct ge as [h ev]. destruct Hadm as [Hh Hauth].
  pose proof (announced_mono S (h, ev)) as AM.
  unfold gstep in *. destruct (step (cfgOf h) (g S h) ev) as [st' o] eqn:Hs.
  destruct HI as [J1 J2 J3 J4 J5 J6 J7 J8 J9 J10 J11 J12 J13 J14 J15 J16].
  set (g' := fun x => if N.eq_dec x h then st' else g S x).
  assert (Hgh : g' h = st') by (unfold g'; destruct (N.eq_dec h h); congruence).
  assert (Hgo : forall x, x <> h -> g' x = g S x) by (intros x Hx; unfold g'; destruct (N.eq_dec x h); congruence).
  set (S' := mkG g' (emitted S ++ map (pair h) o) (hist S ++ [(h, ev)])) in *.
  clearbody g'.
  destruct (step_views _ _ _ _ _ Hs) as (V1 & V2 & V3).
  assert (Hpc : pass (g S h) <> None -> ph (g S h) = Collect).
  { intros Hp. destruct (pass (g S h)) as [[pend s]|] eqn:E; [|congruence]. apply (J3 h pend s Hh E). }
  pose proof (step_pass _ _ _ _ _ Hs Hpc) as SP.
  pose proof (step_phase _ _ _ _ _ Hs) as PM.
  assert (Hselfks : ~ In h (keys (views (g S h)))).
  { intros Hin. destruct (keys_in _ _ Hin) as [v Hv]. destruct (J2 h h v Hh Hv) as [Hne _]. congruence. }
  (* the list proceeded with, at a Pass2 step *)
  assert (QL : forall L, In (Bcast MQuery L) o ->
     ssorted L /\ length L = exp /\ (1 <= exp -> In h L)%nat /\ incl L (h :: keys (views st')) /\
     (fx = true -> forall b, In b L -> b <> h -> announced S' h b L) /\
     (fs = false -> L = [] \/ (2 <= length L)%nat) /\
     (forall v, incl v (h :: keys (views (g S h))) -> (forall pend s, pass (g S h) = Some (pend, s) -> incl v (h :: pend)) ->
                incl v L \/ L = [])).
  { intros L Hin. destruct (step_bcast _ _ _ _ _ _ _ Hs Hin) as [(_ & Hty & _)|(_ & _ & pend & s & Hp & Hc & Hpend & HL & Hlen & Hv & _)];
      [discriminate|].
    destruct (J3 h pend s Hh Hp) as (_ & Hpi & Hnds & Hprov).
    assert (Hincl : incl (keys s) (keys (views (g S h)))).
    { intros k Hk. destruct (keys_in _ _ Hk) as [v Hv']. apply (Hprov k v Hv'). }
    destruct (query_list_shape (cfgOf h) s (keys (views (g S h))) L (J1 h Hh) Hselfks Hnds Hincl HL Hlen)
      as (Q1 & Q2 & Q3 & Q4 & Q5 & Q7).
    simpl in Q2, Q3, Q4, Q5, Q7.
    split; [exact Q1|]. split; [exact Q2|]. split; [exact Q3|].
    split. { rewrite Hv. exact Q4. }
    split. { intros Hfx b Hb Hbh. apply AM. apply (Hprov b L). apply Q5; auto. }
    split; [exact Q7|].
    intros v Hv1 Hv2.
    destruct (intersected (cfgOf h) s (keys (views (g S h)))) as [|x0 m'] eqn:Ei.
    { right. subst L. reflexivity. }
    left.
    assert (Hne : intersected (cfgOf h) s (keys (views (g S h))) <> []) by (rewrite Ei; discriminate).
    destruct (intersected_nonempty _ _ _ Hne) as [Hm _]. simpl in Hm.
    intros y Hy. rewrite HL, isort_in, <- Ei, Hm. apply my_view_of_in. simpl.
    destruct fx.
    + destruct (Hv2 pend s Hp y Hy) as [->|Hy']; [auto|right; apply Hpend, Hy'].
    + destruct (Hv1 y Hy) as [->|Hy']; auto. }
  assert (EM : forall x out, In (x, out) (emitted S') <-> In (x, out) (emitted S) \/ (x = h /\ In out o)).
  { intros. apply in_emitted_step. }
  assert (HM : forall e, In e (hist S) -> In e (hist S')).
  { intros e He. simpl. apply in_app_iff. auto. }
  (* announcements emitted in this step are supersets of every earlier one, and determined by the step *)
  assert (NB : forall ty v, In (Bcast ty v) o ->
     ty <> MResp /\ incl v (h :: keys (views st')) /\ pass st' = None /\
     (forall t0 v0, In (h, Bcast t0 v0) (emitted S) -> incl v0 v \/ v = []) /\
     (forall t0 v0, In (Bcast t0 v0) o -> v0 = v)).
  { intros ty v Hin.
    destruct (step_bcast _ _ _ _ _ _ _ Hs Hin) as [(Hev & Hty & Hpn & Hc & Hv & Hst)|(Hev & Hty & pend & s & Hp & Hc & Hpend & HL & Hlen & Hv & Hpn & _)].
    - subst ty. rewrite Hst. split; [discriminate|].
      split. { subst v. intros y Hy. apply my_view_of_in in Hy. simpl in Hy. destruct Hy; [left; auto|right; auto]. }
      split; [exact Hpn|].
      split. { intros t0 v0 H0. left. destruct (J5 h t0 v0 Hh H0) as (_ & Hi & _).
               subst v. intros y Hy. apply my_view_of_in. simpl. destruct (Hi y Hy); auto. }
      intros t0 v0 H0.
      destruct (step_bcast _ _ _ _ _ _ _ Hs H0) as [(_ & _ & _ & _ & Hv0 & _)|(Hev' & _)]; [congruence|congruence].
    - subst ty. destruct (QL v Hin) as (_ & _ & _ & Q4 & _ & _ & Q6).
      split; [discriminate|]. split; [exact Q4|]. split; [exact Hpn|].
      split. { intros t0 v0 H0. destruct (J5 h t0 v0 Hh H0) as (_ & Hi & Hi2). apply Q6; assumption. }
      intros t0 v0 H0.
      destruct (step_bcast _ _ _ _ _ _ _ Hs H0) as [(Hev' & _)|(_ & _ & pend' & s' & Hp' & _ & _ & HL' & _)]; [congruence|]. rewrite Hp in Hp'. inversion Hp'; subst pend' s'. congruence. }
  constructor; simpl.
  - (* I_nodup *)
    intros x Hx. destruct (N.eq_dec x h) as [->|Hxh]; [rewrite Hgh; apply V2, J1, Hh|rewrite (Hgo x Hxh); auto].
  - (* I_views *)
    intros x k v Hx Hin. destruct (N.eq_dec x h) as [->|Hxh].
    + rewrite Hgh in Hin. destruct (V3 k v Hin) as [Hold|(ty & Hty & Hev & Hks & Hkm)].
      * destruct (J2 h k v Hh Hold) as (A & B & C). split; [exact A|]. split; [exact B|]. apply AM, C.
      * simpl in Hks, Hkm. split; [exact Hks|]. split; [exact Hkm|].
        exists ty. split; [exact Hty|]. simpl. apply in_app_iff. right. left. rewrite Hev. reflexivity.
    + rewrite (Hgo x Hxh) in Hin. destruct (J2 x k v Hx Hin) as (A & B & C). split; [exact A|]. split; [exact B|]. apply AM, C.
  - (* I_pass *)
    intros x pend s Hx Hp. destruct (N.eq_dec x h) as [->|Hxh].
    + rewrite Hgh in *. destruct (SP pend s Hp) as [Hc [Hold|[(Hev & Hpe & Hse)|(k & v & s0 & Hev & Hp0 & Hse & Hkv & Hnk)]]].
      * destruct (J3 h pend s Hh Hold) as (_ & A & B & C).
        split; [exact Hc|]. split; [intros y Hy; apply V1, A, Hy|]. split; [exact B|].
        intros k v Hkv. destruct (C k v Hkv) as [C1 C2]. split; [apply V1, C1|apply AM, C2].
      * subst pend s. split; [exact Hc|]. split; [exact V1|]. split; [constructor|]. intros k v [].
      * destruct (J3 h pend s0 Hh Hp0) as (_ & A & B & C).
        split; [exact Hc|]. split; [intros y Hy; apply V1, A, Hy|].
        subst s. split. { rewrite keys_app. simpl. apply NoDup_snoc; assumption. }
        intros k0 v0 Hin. apply in_app_iff in Hin. destruct Hin as [Hin|[Hin|[]]].
        -- destruct (C k0 v0 Hin) as [C1 C2]. split; [apply V1, C1|apply AM, C2].
        -- inversion Hin; subst k0 v0. split; [apply V1; eapply in_keys; exact Hkv|].
           apply AM. apply (J2 h k v Hh Hkv).
    + rewrite (Hgo x Hxh) in *. destruct (J3 x pend s Hx Hp) as (A & B & C & D).
      split; [exact A|]. split; [exact B|]. split; [exact C|].
      intros k v Hkv. destruct (D k v Hkv). split; [assumption|apply AM; assumption].
  - (* I_send *)
    intros x to ty v Hx Hin. apply EM in Hin. destruct Hin as [Hin|[-> Hin]]; [eauto|].
    eapply step_send; eauto.
  - (* I_bc *)
    intros x ty v Hx Hin. apply EM in Hin. destruct Hin as [Hin|[-> Hin]].
    + destruct (J5 x ty v Hx Hin) as (A & B & C). split; [exact A|].
      destruct (N.eq_dec x h) as [->|Hxh]; [|rewrite (Hgo x Hxh); auto].
      rewrite Hgh. split.
      { intros y Hy. destruct (B y Hy) as [E|Hk]; [left; exact E|right; apply V1, Hk]. }
      intros pend s Hp. destruct (SP pend s Hp) as [_ [Hold|[(Hev & Hpe & Hse)|(k & v0 & s0 & Hev & Hp0 & _)]]].
      * eapply C; eauto.
      * subst pend. exact B.
      * eapply C; eauto.
    + rewrite Hgh. destruct (NB ty v Hin) as (A & B & C & _). split; [exact A|]. split; [exact B|].
      intros pend s Hp. congruence.
  - (* I_chain *)
    intros x t1 v1 t2 v2 Hx H1 H2. apply EM in H1. apply EM in H2.
    destruct H1 as [H1|[E1 H1]], H2 as [H2|[E2 H2]]; try subst x.
    + eauto.
    + destruct (NB t2 v2 H2) as (_ & _ & _ & D & _). destruct (D t1 v1 H1) as [D1| ->]; [left; exact D1|right; intros ? []].
    + destruct (NB t1 v1 H1) as (_ & _ & _ & D & _). destruct (D t2 v2 H2) as [D1| ->]; [right; exact D1|left; intros ? []].
    + destruct (NB t1 v1 H1) as (_ & _ & _ & _ & E). rewrite (E t2 v2 H2). left. apply incl_refl.
  - (* I_ql *)
    intros x L Hx Hpl. destruct (N.eq_dec x h) as [->|Hxh].
    2:{ rewrite (Hgo x Hxh) in *. destruct (J7 x L Hx Hpl) as (A & B & C & D & E & F & G).
        split; [apply EM; auto|]. split; [exact B|]. split; [exact C|]. split; [exact D|]. split; [exact E|].
        split; [|exact G]. intros Hfx b Hb Hbx. apply AM. auto. }
    rewrite Hgh in *.
    assert (Keep : phase_list (ph (g S h)) L ->
       In (h, Bcast MQuery L) (emitted S') /\ ssorted L /\ length L = exp /\ ((1 <= exp)%nat -> In h L) /\
       incl L (h :: keys (views st')) /\ (fx = true -> forall b, In b L -> b <> h -> announced S' h b L) /\
       (fs = false -> L = [] \/ (2 <= length L)%nat)).
    { intros Hold. destruct (J7 h L Hh Hold) as (A & B & C & D & E & F & G).
      split; [apply EM; auto|]. split; [exact B|]. split; [exact C|]. split; [exact D|].
      split. { intros y Hy. destruct (E y Hy) as [E1|E1]; [left; exact E1|right; apply V1, E1]. }
      split; [|exact G]. intros Hfx b Hb Hbx. apply AM. auto. }
    assert (New : In (Bcast MQuery L) o ->
       In (h, Bcast MQuery L) (emitted S') /\ ssorted L /\ length L = exp /\ ((1 <= exp)%nat -> In h L) /\
       incl L (h :: keys (views st')) /\ (fx = true -> forall b, In b L -> b <> h -> announced S' h b L) /\
       (fs = false -> L = [] \/ (2 <= length L)%nat)).
    { intros Hin. destruct (QL L Hin) as (A & B & C & D & E & F & _).
      split; [apply EM; auto|]. auto 10. }
    destruct PM as [Hsame _ _|L0 a0 q0 Hc Hev Hq Hq0 Hb _ _|L0 Hc Hev Hd He1 Hb _ _|L0 a0 q0 a1 q1 Hq Hev Hq' _ _|L0 a0 q0 Hq Hev Hd _ _|Hq Hev Hf _ _].
    + apply Keep. rewrite <- Hsame. exact Hpl.
    + apply New. destruct Hpl as [(a & q & Hn)|Hn]; rewrite Hq in Hn; inversion Hn; subst L0; exact Hb.
    + apply New. destruct Hpl as [(a & q & Hn)|Hn]; rewrite Hd in Hn; inversion Hn; subst L0; exact Hb.
    + apply Keep. left. destruct Hpl as [(a & q & Hn)|Hn]; rewrite Hq' in Hn; inversion Hn; subst L0. eauto.
    + apply Keep. left. destruct Hpl as [(a & q & Hn)|Hn]; rewrite Hd in Hn; inversion Hn; subst L0. eauto.
    + destruct Hpl as [(a & q & Hn)|Hn]; rewrite Hf in Hn; discriminate.
  - (* I_cnt *)
    intros x Hx. rewrite gconts_app. destruct (N.eq_dec x h) as [->|Hxh].
    2:{ rewrite (Hgo x Hxh). replace (h =? x) with false by (symmetry; apply N.eqb_neq; congruence).
        rewrite app_nil_r. auto. }
    rewrite Hgh, N.eqb_refl, (J8 h Hh). fold (g S h).
    destruct PM as [Hsame Hco _|L0 a0 q0 Hc Hev Hq Hq0 Hb Hco _|L0 Hc Hev Hd He1 Hb Hco _|L0 a0 q0 a1 q1 Hq Hev Hq' Hco _|L0 a0 q0 Hq Hev Hd Hco _|Hq Hev Hf Hco _]; rewrite Hco.
    + rewrite Hsame, app_nil_r. reflexivity.
    + rewrite Hc, Hq. reflexivity.
    + rewrite Hc, Hd. reflexivity.
    + rewrite Hq, Hq'. reflexivity.
    + rewrite Hq, Hd. reflexivity.
    + rewrite Hf. destruct Hq as [Hq|(L0 & a0 & q0 & Hq)]; rewrite Hq; reflexivity.
  - (* I_err *)
    intros x Hx. rewrite gerrs_app. destruct (N.eq_dec x h) as [->|Hxh].
    2:{ rewrite (Hgo x Hxh). replace (h =? x) with false by (symmetry; apply N.eqb_neq; congruence).
        rewrite app_nil_r. auto. }
    rewrite Hgh, N.eqb_refl, (J9 h Hh). fold (g S h).
    destruct PM as [Hsame _ Her|L0 a0 q0 Hc Hev Hq Hq0 Hb _ Her|L0 Hc Hev Hd He1 Hb _ Her|L0 a0 q0 a1 q1 Hq Hev Hq' _ Her|L0 a0 q0 Hq Hev Hd _ Her|Hq Hev Hf _ Her]; rewrite Her.
    + rewrite Hsame, app_nil_r. reflexivity.
    + rewrite Hc, Hq. reflexivity.
    + rewrite Hc, Hd. reflexivity.
    + rewrite Hq, Hq'. reflexivity.
    + rewrite Hq, Hd. reflexivity.
    + rewrite Hf. destruct Hq as [Hq|(L0 & a0 & q0 & Hq)]; rewrite Hq; reflexivity.
  - (* I_ctx *)
    intros x Hx Hin. apply in_app_iff in Hin. destruct (N.eq_dec x h) as [->|Hxh].
    2:{ rewrite (Hgo x Hxh). destruct Hin as [Hin|[Hin|[]]]; [auto|congruence]. }
    rewrite Hgh. destruct Hin as [Hin|[Hin|[]]].
    + specialize (J10 h Hh Hin).
      destruct PM as [Hsame _ _|L0 a0 q0 Hc|L0 Hc|L0 a0 q0 a1 q1 Hq|L0 a0 q0 Hq|Hq _ Hf].
      * rewrite Hsame. exact J10.
      * destruct J10 as [J|[L J]]; congruence.
      * destruct J10 as [J|[L J]]; congruence.
      * destruct J10 as [J|[L J]]; congruence.
      * destruct J10 as [J|[L J]]; congruence.
      * left. exact Hf.
    + inversion Hin; subst ev. eapply step_ctxdone; eauto.
  - (* I_auth *)
    intros x from m Hin Hf Hacc.
    assert (Mono : authentic S x from m -> authentic S' x from m).
    { unfold authentic. destruct m as [[ty tg] v]. intros [A|A]; [left|right]; apply EM; auto. }
    apply in_app_iff in Hin. destruct Hin as [Hin|[Hin|[]]]; [apply Mono; eauto|].
    inversion Hin; subst x ev. apply Mono. apply Hauth; assumption.
  - (* I_fail *)
    intros x Hx Hf. destruct (N.eq_dec x h) as [->|Hxh].
    2:{ rewrite (Hgo x Hxh) in *. destruct (J12 x Hx Hf) as [A|A]; [left; apply in_app_iff; auto|right; exact A]. }
    rewrite Hgh in *.
    assert (Hlen : (length (keys (views (g S h))) <= length (keys (views st')))%nat).
    { apply NoDup_incl_length; [apply J1, Hh|exact V1]. }
    destruct (step_fail _ _ _ _ _ Hs Hf) as [Hold|[Hev|(Hev & pend & s & Hp & Hc & Hlt)]].
    + destruct (J12 h Hh Hold) as [A|A]; [left; apply in_app_iff; auto|right; lia].
    + left. apply in_app_iff. right. left. rewrite Hev. reflexivity.
    + right. destruct (J3 h pend s Hh Hp) as (_ & _ & Hnds & Hprov).
      assert (Hincl : incl (keys s) (keys (views (g S h)))).
      { intros k Hk. destruct (keys_in _ _ Hk) as [v Hv']. apply (Hprov k v Hv'). }
      pose proof (intersected_length_bound (cfgOf h) s (keys (views (g S h))) (J1 h Hh) Hselfks Hnds Hincl) as Hb.
      simpl in Hlt. lia.
  - (* I_stop *)
    intros x Hx Hst. destruct (N.eq_dec x h) as [->|Hxh]; [|rewrite (Hgo x Hxh) in *; auto].
    rewrite Hgh in *. destruct (step_stop_flag _ _ _ _ _ Hs Hst) as [Hold|(_ & Hp & Hsame)].
    + pose proof (J13 h Hh Hold) as Hp. rewrite (step_stopped (cfgOf h) (g S h) ev Hold Hp) in Hs.
      inversion Hs; subst st'. exact Hp.
    + rewrite Hsame. exact Hp.
  - (* I_qb *)
    intros x L Hx Hin Hfx b Hb Hbx. apply EM in Hin. destruct Hin as [Hin|[-> Hin]].
    + apply AM. eapply J14; eauto.
    + destruct (QL L Hin) as (_ & _ & _ & _ & Q5 & _). apply Q5; assumption.
  - (* I_qs *)
    intros x Hx. destruct (N.eq_dec x h) as [->|Hxh].
    2:{ rewrite (Hgo x Hxh). destruct (J15 x Hx) as (A & B & C & D & E).
        assert (QFx : forall p l, qfact S x p l -> qfact S' x p l).
        { intros p l (F1 & F2 & F3 & F4). split; [apply HM, F1|]. split; [exact F2|]. split; [exact F3|].
          intros Hp Hfx Hl. destruct (F4 Hp Hfx Hl) as (v & G1 & G2 & G3 & G4). exists v.
          split; [apply EM; auto|]. simpl. rewrite (Hgo x Hxh). auto. }
        split; [exact A|]. split; [exact B|]. split; [exact C|]. split; [intros; apply QFx; auto|intros; apply QFx; eauto]. }
    rewrite Hgh. destruct (J15 h Hh) as (A & B & C & D & E).
    assert (QF : forall p l, qfact S h p l -> qfact S' h p l).
    { intros p l (F1 & F2 & F3 & F4). split; [apply HM, F1|]. split; [exact F2|]. split; [exact F3|].
      intros Hp Hfx Hl. destruct (F4 Hp Hfx Hl) as (v & G1 & G2 & G3 & G4). exists v.
      split; [apply EM; auto|]. simpl. rewrite Hgh. split; [exact G2|]. split; [exact G3|].
      intros y Hy. destruct (G4 y Hy) as [G|G]; [left; exact G|right; apply V1, G]. }
    assert (PL : forall L, phase_list (ph st') L -> qacc (g S h) <> [] -> phase_list (ph (g S h)) L).
    { intros L Hpl Hne.
      destruct PM as [Hsame _ _|L0 a0 q0 Hc|L0 Hc|L0 a0 q0 a1 q1 Hq Hev Hq' _ _|L0 a0 q0 Hq Hev Hd _ _|Hq Hev Hf _ _].
      - rewrite <- Hsame. exact Hpl.
      - exfalso. apply Hne, C, Hc.
      - exfalso. apply Hne, C, Hc.
      - left. destruct Hpl as [(a & q & Hn)|Hn]; rewrite Hq' in Hn; inversion Hn; subst L0. eauto.
      - left. destruct Hpl as [(a & q & Hn)|Hn]; rewrite Hd in Hn; inversion Hn; subst L0. eauto.
      - destruct Hpl as [(a & q & Hn)|Hn]; rewrite Hf in Hn; discriminate. }
    destruct (step_q _ _ _ _ _ Hs) as [Q1 Q2 Q3 _|p l _ Hev Hps Hpm Hnq Q1 Q2 Q3 Hph Ho|L a q p l rest Hev Hph Hqc Q2 Q1 Hcase].
    + rewrite Q1, Q2, Q3. split; [exact A|]. split; [exact B|].
      split. { intros Hc'. apply C.
               destruct PM as [Hsame _ _|L0 a0 q0 Hc Hev Hq|L0 Hc Hev Hd|L0 a0 q0 a1 q1 Hq Hev Hq'|L0 a0 q0 Hq Hev Hd|Hq Hev Hf]; congruence. }
      split; [intros; apply QF; auto|].
      intros p L Hp Hpl. apply QF. apply E; [exact Hp|]. apply PL; [exact Hpl|]. intros Hn. rewrite Hn in Hp. exact Hp.
    + rewrite Q1, Q2, Q3, Hph. simpl in Hps, Hpm.
      assert (Hfresh : ~ In p (map fst (qchan (g S h)) ++ qacc (g S h))) by (intros Hin; apply Hnq, B, Hin).
      split.
      { rewrite map_app. simpl. rewrite <- app_assoc. simpl.
        apply NoDup_Add with (a := p) (l := map fst (qchan (g S h)) ++ qacc (g S h)); [|constructor; assumption].
        apply Add_app. }
      split.
      { intros y Hy. rewrite map_app in Hy. simpl in Hy. rewrite <- app_assoc in Hy. simpl in Hy.
        apply in_app_iff in Hy. destruct Hy as [Hy|[Hy|Hy]]; [right; apply B, in_app_iff; auto|left; auto|right; apply B, in_app_iff; auto]. }
      split; [exact C|]. split.
      { intros p0 l0 Hin. apply in_app_iff in Hin. destruct Hin as [Hin|[Hin|[]]]; [apply QF, D, Hin|].
        inversion Hin; subst p0 l0. clear Hin.
        split. { simpl. apply in_app_iff. right. left. rewrite Hev. reflexivity. }
        split; [exact Hps|]. split; [exact Hpm|].
        intros Hp Hfx Hl. exists (my_view (cfgOf h) st').
        split. { apply EM. right. split; [reflexivity|]. rewrite Ho. left. reflexivity. }
        assert (Hacc : accepts (cfgOf h) p (MQuery, (tp, p), l) = true) by (apply accepts_spec; simpl; auto).
        assert (Hself' : ~ In h (keys (views st'))).
        { intros Hin. destruct (keys_in _ _ Hin) as [v Hv]. destruct (V3 h v Hv) as [Hold|(ty & _ & _ & Hne & _)];
            [apply Hselfks; eapply in_keys; eauto|simpl in Hne; congruence]. }
        split.
        { (* p really broadcast this query, so p had found l stored for h, so h had announced l *)
          subst ev. specialize (Hauth Hp Hacc). simpl in Hauth.
          assert (Hbq : In (p, Bcast MQuery l) (emitted S)).
          { destruct Hauth as [H0|H0]; [exact H0|]. pose proof (J4 p h MQuery l Hp H0). discriminate. }
          assert (Hhp : h <> p) by congruence.
          destruct (J14 p l Hp Hbq Hfx h Hl Hhp) as (ty & Hty & Hhist).
          destruct (J5 p MQuery l Hp Hbq) as (_ & Hinc & _).
          assert (Hhm : In h mem).
          { destruct (Hinc h Hl) as [E0|Hk]; [congruence|]. destruct (keys_in _ _ Hk) as [v Hv].
            apply (J2 p h v Hp Hv). }
          assert (Hacc2 : accepts (cfgOf p) h (ty, (tp, h), l) = true) by (apply accepts_spec; simpl; auto).
          pose proof (J11 p h _ Hhist Hh Hacc2) as Hau2. simpl in Hau2.
          assert (Hbh : In (h, Bcast ty l) (emitted S)).
          { destruct Hau2 as [H0|H0]; [exact H0|]. pose proof (J4 h p ty l Hh H0). contradiction. }
          destruct (J5 h ty l Hh Hbh) as (_ & Hinc2 & _).
          intros y Hy. apply my_view_of_in. simpl. destruct (Hinc2 y Hy) as [E0|Hk]; [left; auto|right; apply V1, Hk]. }
        split. { apply my_view_of_ssorted; [apply V2, J1, Hh|exact Hself']. }
        simpl. rewrite Hgh. intros y Hy. apply my_view_of_in in Hy. simpl in Hy. destruct Hy; [left; auto|right; auto]. }
      intros p0 L Hp0 Hpl. apply QF. apply E; [exact Hp0|exact Hpl].
    + rewrite Q1, Q2. rewrite Hqc in A, B, D. simpl in A, B.
      assert (Hnd' : NoDup (map fst rest ++ p :: qacc (g S h))).
      { apply (NoDup_Add (Add_app p (map fst rest) (qacc (g S h)))). inversion A; subst. split; assumption. }
      destruct Hcase as [(-> & Q3 & Hph')|(Hne & Q3 & Hph')]; rewrite Q3.
      * split; [exact Hnd'|].
        split. { intros y Hy. apply B. apply in_app_iff in Hy. destruct Hy as [Hy|[Hy|Hy]];
                   [right; apply in_app_iff; auto|left; auto|right; apply in_app_iff; auto]. }
        split. { intros Hc'. destruct Hph' as [Hp'|[Hp' _]]; congruence. }
        split. { intros p0 l0 Hin. apply QF, D. right. exact Hin. }
        intros p0 L0 Hp0 Hpl.
        assert (L0 = L).
        { destruct Hph' as [Hp'|[Hp' _]]; destruct Hpl as [(a1 & q1 & Hn)|Hn]; rewrite Hp' in Hn; inversion Hn; reflexivity. }
        subst L0. apply QF. destruct Hp0 as [<-|Hp0]; [apply D; left; reflexivity|].
        apply E; [exact Hp0|left; eauto].
      * rewrite Hph'.
        split. { apply NoDup_remove_1 with (a := p). exact Hnd'. }
        split. { intros y Hy. apply B. right. exact Hy. }
        split; [exact C|].
        split. { intros p0 l0 Hin. apply QF, D. right. exact Hin. }
        intros p0 L0 Hp0 Hpl. apply QF. apply E; assumption.
  - (* I_qn *)
    intros x Hx. destruct (N.eq_dec x h) as [->|Hxh]; [|rewrite (Hgo x Hxh); auto].
    rewrite Hgh. destruct (J16 h Hh) as [N1 N2]. destruct (J15 h Hh) as (_ & _ & C & _ & _).
    assert (Hqb : (if fix_queries (cfgOf h) then (expected (cfgOf h) - 1)%nat else 0%nat) = qbase) by reflexivity.
    destruct (step_q _ _ _ _ _ Hs) as [Q1 Q2 Q3 Q4|p l _ Hev Hps Hpm Hnq Q1 Q2 Q3 Hph Ho|L a q p l rest Hev Hph Hqc Q2 Q1 Hcase].
    + rewrite Q3. destruct (ph (g S h)) eqn:Ep.
      * (* Collect *)
        destruct PM as [Hsame _ _|L0 a0 q0 Hc Hev Hq Hq0 _ _ _|L0 Hc Hev Hd He1 _ _ _|L0 a0 q0 a1 q1 Hq|L0 a0 q0 Hq|Hq Hev Hf _ _];
          try congruence.
        -- split; intros; congruence.
        -- rewrite (C eq_refl). split; [|intros; congruence].
           intros L a q Hn. rewrite Hq in Hn. inversion Hn; subst. rewrite Hqb. simpl. lia.
        -- rewrite (C eq_refl). split; [intros; congruence|]. intros L Hn. simpl.
           unfold qbase. simpl in He1. destruct fq; lia.
        -- split; intros; congruence.
      * destruct (Q4 _ _ _ eq_refl) as [(a' & Hn')|[(Hn' & Hq0)|Hn']]; rewrite Hn'.
        -- split; [|intros; congruence]. intros L a q Hn. inversion Hn; subst. eapply N1; eauto.
        -- split; [intros; congruence|]. intros L Hn. pose proof (N1 _ _ _ eq_refl). lia.
        -- split; intros; congruence.
      * assert (Hsame : ph st' = Done members).
        { destruct PM as [Hsame _ _|L0 a0 q0 Hc|L0 Hc|L0 a0 q0 a1 q1 Hq|L0 a0 q0 Hq|[Hq|(L0 & a0 & q0 & Hq)] _ _ _ _]; congruence. }
        rewrite Hsame. split; [intros; congruence|]. intros L Hn. eapply N2; eauto.
      * assert (Hsame : ph st' = Failed).
        { destruct PM as [Hsame _ _|L0 a0 q0 Hc|L0 Hc|L0 a0 q0 a1 q1 Hq|L0 a0 q0 Hq|_ _ Hf _ _]; congruence. }
        rewrite Hsame. split; intros; congruence.
    + rewrite Q3, Hph. split; assumption.
    + destruct Hcase as [(-> & Q3 & Hph')|(Hne & Q3 & Hph')]; rewrite Q3.
      * pose proof (N1 _ _ _ Hph) as Hq0.
        destruct Hph' as [Hp'|[Hp' Hz]]; rewrite Hp'.
        -- split; [|intros; congruence]. intros L0 a0 q0 Hn. inversion Hn; subst. simpl. lia.
        -- split; [intros; congruence|]. intros L0 Hn. simpl. lia.
      * rewrite Hph'. split; assumption.
Qed.

Lemma reachable_Inv S : reachable S -> Inv S.
Proof. induction 1; [apply Inv_init|apply Inv_step; auto]. Qed.

Lemma continue_done S h L : reachable S -> honest h -> In (h, Continue L) (emitted S) -> ph (g S h) = Done L.
Proof.
  intros HR Hh Hin. apply in_gconts in Hin. rewrite (I_cnt _ (reachable_Inv S HR) h Hh) in Hin.
  destruct (ph (g S h)); simpl in Hin; try contradiction. destruct Hin as [->|[]]. reflexivity.
Qed.

(* C07, validity: the list handed to the continuation is strictly sorted (hence duplicate-free), has exactly the
   expected size, contains the member itself (for a positive expected count), and every other element is a configured
   member from which this member handled an announcement (membership or query message) that carried that member's
   own tag for this topic. *)
Theorem valid S : reachable S -> forall h L, honest h -> In (h, Continue L) (emitted S) ->
  Sorted N.lt L /\ NoDup L /\ length L = exp /\ ((1 <= exp)%nat -> In h L) /\
  (forall x, In x L -> x <> h ->
     In x mem /\ exists ty v, ty <> MResp /\ In (h, Handle x (ty, (tp, x), v)) (hist S)).
Proof.
  intros HR h L Hh Hin. pose proof (reachable_Inv S HR) as HI.
  pose proof (continue_done S h L HR Hh Hin) as Hd.
  destruct (I_ql _ HI h L Hh (or_intror Hd)) as (_ & A & B & C & D & _ & _).
  split; [apply ssorted_sorted, A|]. split; [apply ssorted_nodup, A|]. split; [exact B|]. split; [exact C|].
  intros x Hx Hxh. destruct (D x Hx) as [E|Hk]; [congruence|].
  destruct (keys_in _ _ Hk) as [v Hv]. destruct (I_views _ HI h x v Hh Hv) as (_ & Hm & ty & Hty & Hh').
  split; [exact Hm|]. exists ty, v. auto.
Qed.

(* ... hence with too few announcers there is no continuation: if all the peers whose announcements h handled
   fit in a list shorter than expected-1, h never continues. *)
Theorem too_few S : reachable S -> forall h A, honest h ->
  (forall x ty v, In (h, Handle x (ty, (tp, x), v)) (hist S) -> ty <> MResp -> In x mem -> x <> h -> In x A) ->
  (length A < exp - 1)%nat -> forall L, ~ In (h, Continue L) (emitted S).
Proof.
  intros HR h A Hh HA Hlen L Hin.
  destruct (valid S HR h L Hh Hin) as (_ & Hnd & Hl & Hself & Hothers).
  assert (Hinc : incl (remove N.eq_dec h L) A).
  { intros x Hx. apply in_remove in Hx. destruct Hx as [Hx Hne].
    destruct (Hothers x Hx Hne) as (Hm & ty & v & Hty & Hh'). eapply HA; eauto. }
  assert (Hnd' : NoDup (remove N.eq_dec h L)).
  { clear - Hnd. induction L as [|a L IH]; simpl; [constructor|]. inversion Hnd; subst.
    destruct (N.eq_dec h a); [auto|]. constructor; [|auto]. intros Hx. apply in_remove in Hx. tauto. }
  pose proof (NoDup_incl_length Hnd' Hinc) as Hle.
  assert (Hrl : (length L <= 1 + length (remove N.eq_dec h L))%nat).
  { clear - Hnd. induction L as [|a L IH]; simpl; [lia|]. inversion Hnd; subst.
    destruct (N.eq_dec h a) as [->|Hne]; simpl.
    - rewrite notin_remove by assumption. lia.
    - specialize (IH H2). lia. }
  lia.
Qed.

(* C07, agreement (repaired variant: fix_onepass).  a proceeded with L, b is in L, b is honest and proceeded with L':
   the Range of a visited b and found L stored for it, so a handled an announcement of L with b's tag from b;
   links are authenticated, so b emitted it; b only announces its own view, its views are totally ordered by
   inclusion, and L' is one of them; L and L' have the same length and no duplicates. *)
Theorem agree S : fx = true -> reachable S ->
  forall a b L L', honest a -> honest b ->
    In (a, Continue L) (emitted S) -> In b L -> In (b, Continue L') (emitted S) -> L = L'.
Proof.
  intros Hfx HR a b L L' Ha Hb HcA HbL HcB. pose proof (reachable_Inv S HR) as HI.
  pose proof (continue_done S a L HR Ha HcA) as HdA.
  pose proof (continue_done S b L' HR Hb HcB) as HdB.
  destruct (N.eq_dec b a) as [->|Hne]; [congruence|].
  destruct (I_ql _ HI a L Ha (or_intror HdA)) as (_ & SA & LA & _ & _ & PA & _).
  destruct (I_ql _ HI b L' Hb (or_intror HdB)) as (QB & SB & LB & _ & _ & _ & _).
  destruct (PA Hfx b HbL Hne) as (ty & Hty & Hh).
  assert (Hacc : accepts (cfgOf a) b (ty, (tp, b), L) = true).
  { (* the handled announcement was accepted: b is a key of a's table *)
    apply accepts_spec. simpl.
    assert (Hk : In b (keys (views (g S a)))).
    { destruct (I_ql _ HI a L Ha (or_intror HdA)) as (_ & _ & _ & _ & Hi & _ & _).
      destruct (Hi b HbL); [congruence|assumption]. }
    destruct (keys_in _ _ Hk) as [v Hv]. destruct (I_views _ HI a b v Ha Hv) as (A & B & _). auto. }
  pose proof (I_auth _ HI a b _ Hh Hb Hacc) as Hau. simpl in Hau.
  assert (Hem : In (b, Bcast ty L) (emitted S)).
  { destruct Hau as [H|H]; [exact H|]. pose proof (I_send _ HI b a ty L Hb H). contradiction. }
  destruct (I_chain _ HI b ty L MQuery L' Hb Hem QB) as [Hi|Hi].
  - apply ssorted_incl_length; auto. congruence.
  - symmetry. apply ssorted_incl_length; auto. congruence.
Qed.

(* The pinned upstream code (fix_solo = false) can never complete when a member expects only itself: the list it
   proceeds with is the last ANNOUNCED list, and nobody else is there to announce. *)
Theorem solo_tree_never_continues S : fs = false -> exp = 1%nat -> reachable S ->
  forall h L, honest h -> ~ In (h, Continue L) (emitted S).
Proof.
  intros Hfs Hexp HR h L Hh Hin. pose proof (reachable_Inv S HR) as HI.
  pose proof (continue_done S h L HR Hh Hin) as Hd.
  destruct (I_ql _ HI h L Hh (or_intror Hd)) as (_ & _ & B & _ & _ & _ & G).
  destruct (G Hfs) as [->|G']; simpl in *; lia.
Qed.

(* C07: the continuation runs at most once, never together with an error return, an error is returned at most once *)
Theorem exclusive S : reachable S -> forall h, honest h ->
  (length (gconts h (emitted S)) <= 1)%nat /\ (length (gerrs h (emitted S)) <= 1)%nat /\
  (gerrs h (emitted S) <> [] -> gconts h (emitted S) = []).
Proof.
  intros HR h Hh. pose proof (reachable_Inv S HR) as HI.
  rewrite (I_cnt _ HI h Hh), (I_err _ HI h Hh). destruct (ph (g S h)); simpl; repeat split; auto; congruence.
Qed.

(* ... and after the context ended (CtxDone handled by h) the continuation is never invoked any more *)
Lemma final_absorbing S ge h : reachable S -> admissible S ge -> honest h ->
  (ph (g S h) = Failed \/ exists L, ph (g S h) = Done L) ->
  gconts h (emitted (gstep S ge)) = gconts h (emitted S).
Proof.
  intros HR Hadm Hh Hfin. destruct ge as [x ev]. unfold gstep.
  destruct (step (cfgOf x) (g S x) ev) as [st' o] eqn:Hs. simpl. rewrite gconts_app.
  destruct (x =? h) eqn:E; [|apply app_nil_r]. apply N.eqb_eq in E. subst x.
  destruct (step_phase _ _ _ _ _ Hs) as [_ Hco _|L0 a0 q0 Hc|L0 Hc|L0 a0 q0 a1 q1 Hq|L0 a0 q0 Hq|Hq _ _ Hco _];
    try (rewrite Hco; apply app_nil_r);
    destruct Hfin as [Hf|[L Hf]]; try congruence.
Qed.

Theorem after_ctxdone S : reachable S -> forall h, honest h -> In (h, CtxDone) (hist S) ->
  forall S', extends S S' -> gconts h (emitted S') = gconts h (emitted S).
Proof.
  intros HR h Hh Hin S' Hext. induction Hext as [|S' ge Hext IH Hadm]; [reflexivity|].
  assert (HR' : reachable S') by (clear - HR Hext; induction Hext; [assumption|apply reach_step; assumption]).
  rewrite <- IH. apply final_absorbing; auto.
  apply (I_ctx _ (reachable_Inv S' HR') h Hh).
  clear - Hin Hext. induction Hext as [|S' ge Hext IH Hadm]; [assumption|].
  unfold gstep. destruct ge as [x ev]. destruct (step (cfgOf x) (g S' x) ev). simpl. apply in_app_iff. auto.
Qed.

(* C07, "exactly the expected number of honest members and nobody else": in EVERY interleaving of such a run
   -- the members are the duplicate-free list H, exp = |H|, all traffic handled comes from members of H --
   a member can fail only through its context (the deadline), and whoever completes, completes with the sorted
   list of all of H.  (Together with Live.v: the deadline is the only obstacle, and a fair schedule completes.) *)
Theorem exact_run_only_deadline S (H : list N) :
  reachable S -> NoDup H -> (forall x, honest x <-> In x H) -> length H = exp ->
  (forall h from m, In (h, Handle from m) (hist S) -> In from H) ->
  forall h, honest h ->
    (forall e, In (h, Return_err e) (emitted S) -> In (h, CtxDone) (hist S)) /\
    (forall L, In (h, Continue L) (emitted S) -> L = isort H).
Proof.
  intros HR Hnd Hhon Hlen Honly h Hh. pose proof (reachable_Inv S HR) as HI.
  assert (Hkeys : incl (keys (views (g S h))) (remove N.eq_dec h H)).
  { intros k Hk. destruct (keys_in _ _ Hk) as [v Hv]. destruct (I_views _ HI h k v Hh Hv) as (Hne & _ & ty & _ & Hin).
    apply in_in_remove; [exact Hne|]. eapply Honly; eauto. }
  assert (HhH : In h H) by (apply Hhon, Hh).
  assert (Hrl : (1 + length (remove N.eq_dec h H) = length H)%nat).
  { clear - Hnd HhH. induction H as [|a L IH]; simpl in *; [contradiction|]. inversion Hnd; subst.
    destruct (N.eq_dec h a) as [->|Hne].
    - rewrite notin_remove by assumption. reflexivity.
    - destruct HhH as [E|HhH]; [congruence|]. simpl. rewrite <- (IH H2 HhH). reflexivity. }
  pose proof (NoDup_incl_length (I_nodup _ HI h Hh) Hkeys) as Hkl.
  split.
  - intros e Herr. assert (Herr' : In tt (gerrs h (emitted S))) by (apply in_gerrs; eauto). clear Herr. rename Herr' into Herr.
    rewrite (I_err _ HI h Hh) in Herr.
    destruct (ph (g S h)) eqn:Ep; simpl in Herr; try contradiction.
    destruct (I_fail _ HI h Hh Ep) as [A|A]; [exact A|lia].
  - intros L Hc. pose proof (continue_done S h L HR Hh Hc) as Hd.
    destruct (I_ql _ HI h L Hh (or_intror Hd)) as (_ & A & B & _ & D & _ & _).
    apply ssorted_incl_length; [exact A|apply isort_ssorted, Hnd| |rewrite isort_length; congruence].
    intros x Hx. apply isort_in. destruct (D x Hx) as [<-|Hk]; [exact HhH|].
    apply Hkeys in Hk. apply in_remove in Hk. tauto.
Qed.

(* C07, teardown safety (repaired variant fix_queries, in an exact honest run: the members are the duplicate-free list
   H, exp = |H|, all traffic handled comes from members of H).  When a has completed with L, then for EVERY other
   member b: a has handled b's query carrying L -- so b had finished its first loop -- and a has sent b its
   acknowledgement, carrying exactly L.  Nothing b still needs depends on a serving the topic any longer. *)
Theorem teardown_safe S (H : list N) :
  fx = true -> fq = true ->
  reachable S -> NoDup H -> (forall x, honest x <-> In x H) -> length H = exp ->
  (forall h from m, In (h, Handle from m) (hist S) -> In from H) ->
  forall a L, honest a -> ph (g S a) = Done L ->
  forall b, In b H -> b <> a ->
    In (a, Handle b (MQuery, (tp, b), L)) (hist S) /\ In (a, SendTo b MResp L) (emitted S).
Proof.
  intros Hfx Hfq HR Hnd Hhon Hlen Honly a L Ha Hd b HbH Hba. pose proof (reachable_Inv S HR) as HI.
  assert (HaH : In a H) by (apply Hhon, Ha).
  assert (Hrl : (1 + length (remove N.eq_dec a H) = length H)%nat).
  { clear - Hnd HaH. induction H as [|x L0 IH]; simpl in *; [contradiction|]. inversion Hnd; subst.
    destruct (N.eq_dec a x) as [->|Hne].
    - rewrite notin_remove by assumption. reflexivity.
    - destruct HaH as [E|HaH]; [congruence|]. simpl. rewrite <- (IH H2 HaH). reflexivity. }
  destruct (I_qs _ HI a Ha) as (Q1 & _ & _ & _ & Q5).
  destruct (I_qn _ HI a Ha) as [_ N2]. specialize (N2 L Hd). unfold qbase in N2. rewrite Hfq in N2.
  assert (Hqn : NoDup (qacc (g S a))).
  { clear - Q1. induction (map fst (qchan (g S a))) as [|x l IH]; simpl in Q1; [exact Q1|]. inversion Q1; auto. }
  assert (Hqi : incl (qacc (g S a)) (remove N.eq_dec a H)).
  { intros p Hp. destruct (Q5 p L Hp (or_intror Hd)) as (F1 & F2 & _). apply in_in_remove; [exact F2|]. eapply Honly; eauto. }
  assert (Hall : incl (remove N.eq_dec a H) (qacc (g S a))).
  { apply NoDup_length_incl; [exact Hqn|lia|exact Hqi]. }
  assert (Hbq : In b (qacc (g S a))) by (apply Hall, in_in_remove; assumption).
  destruct (Q5 b L Hbq (or_intror Hd)) as (F1 & _ & _ & F4).
  split; [exact F1|].
  destruct (I_ql _ HI a L Ha (or_intror Hd)) as (_ & SL & LL & InL & IncL & _ & _).
  assert (HaL : In a L) by (apply InL; destruct H; [contradiction|simpl in Hlen; lia]).
  destruct (F4 (proj2 (Hhon b) HbH) Hfx HaL) as (v & G1 & G2 & G3 & G4).
  assert (Hkeys : incl (keys (views (g S a))) H).
  { intros k Hk. destruct (keys_in _ _ Hk) as [w Hw]. destruct (I_views _ HI a k w Ha Hw) as (_ & _ & ty & _ & Hin).
    eapply Honly; eauto. }
  assert (HLH : forall x, In x L <-> In x H).
  { intros x. split.
    - intros Hx. destruct (IncL x Hx) as [<-|Hk]; [exact HaH|apply Hkeys, Hk].
    - apply NoDup_length_incl; [apply ssorted_nodup, SL|lia|].
      intros y Hy. destruct (IncL y Hy) as [<-|Hk]; [exact HaH|apply Hkeys, Hk]. }
  assert (v = L).
  { apply ssorted_ext; [exact G3|exact SL|]. intros x. split; [|apply G2].
    intros Hx. apply HLH. destruct (G4 x Hx) as [<-|Hk]; [exact HaH|apply Hkeys, Hk]. }
  subst v. exact G1.
Qed.

(* ... "before a continued": at the very step in which a invokes its continuation, the acknowledgement for b has
   already been sent and b's query already been handled. *)
Theorem teardown_safe_before S ge (H : list N) :
  fx = true -> fq = true ->
  reachable S -> admissible S ge -> NoDup H -> (forall x, honest x <-> In x H) -> length H = exp ->
  (forall h from m, In (h, Handle from m) (hist (gstep S ge)) -> In from H) ->
  forall a L, honest a -> gconts a (emitted S) = [] -> gconts a (emitted (gstep S ge)) = [L] ->
  forall b, In b H -> b <> a ->
    In (a, Handle b (MQuery, (tp, b), L)) (hist S) /\ In (a, SendTo b MResp L) (emitted S).
Proof.
  intros Hfx Hfq HR Hadm Hnd Hhon Hlen Honly a L Ha Hc0 Hc1 b HbH Hba.
  assert (HR1 : reachable (gstep S ge)) by (apply reach_step; assumption).
  assert (Hd : ph (g (gstep S ge) a) = Done L).
  { apply continue_done; [exact HR1|exact Ha|]. apply in_gconts. rewrite Hc1. left. reflexivity. }
  destruct (teardown_safe (gstep S ge) H Hfx Hfq HR1 Hnd Hhon Hlen Honly a L Ha Hd b HbH Hba) as [T1 T2].
  destruct ge as [x ev]. unfold gstep in *. destruct (step (cfgOf x) (g S x) ev) as [st' o] eqn:Hs. simpl in *.
  rewrite gconts_app, Hc0 in Hc1. simpl in Hc1.
  destruct (x =? a) eqn:Exa; [|discriminate]. apply N.eqb_eq in Exa. subst x.
  assert (Hnh : forall from m, ev <> Handle from m).
  { intros from m ->. destruct (step_phase _ _ _ _ _ Hs) as [_ Hco _|? ? ? _ He|? _ He|? ? ? ? ? _ [He|He]|? ? ? _ [He|He]|_ [He|He]];
      try discriminate. rewrite Hco in Hc1. discriminate. }
  split.
  - apply in_app_iff in T1. destruct T1 as [T1|[T1|[]]]; [exact T1|]. inversion T1. exfalso. eapply Hnh; eauto.
  - apply in_emitted_step in T2. destruct T2 as [T2|[_ T2]]; [exact T2|].
    destruct (step_send_handle _ _ _ _ _ _ _ _ Hs T2) as [m Hm]. exfalso. eapply Hnh; eauto.
Qed.

(* a member that is no longer served stays as it is and emits nothing, whatever is delivered to it *)
Lemma stopped_silent S ge h : reachable S -> honest h -> stopped (g S h) = true ->
  g (gstep S ge) h = g S h /\ (forall o, In (h, o) (emitted (gstep S ge)) -> In (h, o) (emitted S)).
Proof.
  intros HR Hh Hst. pose proof (I_stop _ (reachable_Inv S HR) h Hh Hst) as Hp.
  destruct ge as [x ev]. unfold gstep. destruct (step (cfgOf x) (g S x) ev) as [st' o] eqn:Hs. simpl.
  destruct (N.eq_dec h x) as [<-|Hne].
  - rewrite (step_stopped (cfgOf h) (g S h) ev Hst Hp) in Hs. inversion Hs; subst. split; [reflexivity|].
    intros o0 Hin. rewrite app_nil_r in Hin. exact Hin.
  - split; [reflexivity|]. intros o0 Hin. apply in_emitted_step in Hin. destruct Hin as [Hin|[E _]]; [exact Hin|congruence].
Qed.
End Global.
