(* disc.Member (disc/discovery.go) for ONE topic: the state a member keeps for the topic, HandleMessage,
   and the Synchronize loop cut into its atomic steps.

   Go                                                model
   ------------------------------------------------  -----------------------------------------------
   tpv.memberToView (sync.Map id -> []uint16)        views : assoc list, keys only ever added
   tpv.responsesReceived                             responded
   tpv.responses (buffered channel)                  chan (FIFO list)
   tagsToIDsAndTopics[tag] = (topic, id)             a message carries the (topic, id) its tag stands for;
                                                     Disc/Wire.v links this to bytes through an injective prf
   HandleMessage(from, msg)                          Handle from (ty, (tp, id), peers)
   ticker case of the select                         Tick          (broadcast of the own sorted view)
   intersectedView, Range over memberToView          Pass1 (start of the Range: the keys present now must be
                                                     visited), Visit k (callback for key k: reads the value
                                                     stored NOW), Pass2 (end: own view, comparison, decision)
   <-tpv.responses in the acknowledgement loop       TakeResponse
   tpv.queriesReceived / tpv.queries                 queried / qchan (the model's channel also remembers who sent
                                                     each queued list, and qacc whose matching queries were taken:
                                                     ghost information that no step looks at)
   <-tpv.queries in the acknowledgement loop         TakeQuery
   the orchestrator stops serving the topic          Stop (only after Synchronize returned): later HandleMessage calls
   (threshold.Sign unregisters the synchroniser)     for the topic never reach the member
   <-ctx.Done() in either loop                       CtxDone
   f(members)                                        output Continue members
   return fmt.Errorf(...)                            output Return_err

   sync.Map.Range is not a snapshot: "if the value for any key is stored or deleted concurrently, Range may
   reflect any mapping for that key from any point during the Range call", and keys stored during the call
   may or may not be visited.  Visit events therefore read one key each, HandleMessage events may come in
   between, and Pass2 only requires that the keys present at Pass1 have been visited.

   Tick reads the keys in one step although myMemberViewSorted is a Range as well: keys are never deleted, so the
   list it yields lies between the view when the Range began and the view when it ended, and ticks, like the
   Range of intersectedView, belong to the one Synchronize goroutine -- the announced lists of a member stay totally
   ordered by inclusion, which is all the proofs use (Global.v, I_chain).  Tick is disabled while a Range of
   intersectedView is in progress for the same reason (same goroutine).  Handle events are never disabled: the topic
   stays registered after Synchronize has returned.

   Variant flags (false = the pinned upstream code):
   fix_onepass  upstream computed the own view in a SECOND Range (myMemberViewSorted) after the first one had
                collected the announced views; a HandleMessage landing in between adds a key whose announced view
                was never compared (C07_agree_tree_refuted).  Repaired: the own view is built from the keys the
                same Range visited.
   fix_solo     upstream returned the last announced list (nil when nobody announced), so a member that expects
                only itself never completes, and one that expects 0 members continues with an empty list.
                Repaired: the own view is returned.
   fix_queries  upstream completed as soon as expected-1 peers had acknowledged its query.  The orchestrator then stops
                serving the topic, and the single, never repeated query of a member that finished its first loop a
                little later was dropped: that member ran into its deadline although every message was delivered
                (C07_teardown_tree_refuted).  Repaired: a member also waits for the (first) query of expected-1 peers
                carrying the identical list; a peer that has queried has finished its first loop and has been
                answered. *)
Require Import TSS.Base.Base TSS.Disc.Sort.

Inductive mty := MMember | MQuery | MResp.
Definition mty_code (t : mty) : N := match t with MMember => 1 | MQuery => 2 | MResp => 3 end.
Definition mty_of_code (n : N) : option mty :=
  if n =? 1 then Some MMember else if n =? 2 then Some MQuery else if n =? 3 then Some MResp else None.
Definition mty_eqb (a b : mty) : bool := mty_code a =? mty_code b.

Definition view := list N.
Definition view_eqb : view -> view -> bool := list_eqb N.eqb.
Lemma view_eqb_spec a b : view_eqb a b = true <-> a = b.
Proof. apply list_eqb_spec. intros; apply N.eqb_eq. Qed.

Definition memb (x : N) (l : list N) : bool := existsb (N.eqb x) l.
Lemma memb_spec x l : memb x l = true <-> In x l.
Proof.
  unfold memb. rewrite existsb_exists. split.
  - intros (y & Hy & E). apply N.eqb_eq in E. subst. exact Hy.
  - intros H. exists x. split; [exact H|apply N.eqb_refl].
Qed.

Record cfg := mkCfg { self : N; topic : N; membership : list N; expected : nat;
                      fix_onepass : bool; fix_solo : bool; fix_queries : bool }.

(* (type, (topic, id) the tag stands for, announced list) *)
Definition msg := (mty * (N * N) * view)%type.

Inductive phase :=
| Collect                                   (* first loop of Synchronize *)
| Query (members : view) (acks_left queries_left : nat)   (* second loop; not both 0 *)
| Done (members : view)                     (* f(members) was called, nil returned *)
| Failed.                                   (* an error was returned *)

Record state := mkSt {
  views : list (N * view);
  responded : list N;
  chan : list view;
  queried : list N;
  qchan : list (N * view);
  qacc : list N;
  stopped : bool;
  pass : option (list N * list (N * view));   (* Range in progress: keys to visit, (key, value) pairs visited *)
  ph : phase }.

Definition state0 := mkSt [] [] [] [] [] [] false None Collect.

Inductive event :=
| Handle (from : N) (m : msg)
| Tick
| Pass1
| Visit (k : N)
| Pass2
| TakeResponse
| TakeQuery
| CtxDone
| Stop.

(* the four error returns of Synchronize *)
Inductive errc := ECollect | ETooMany | EAcks | EQueries.

Inductive output :=
| Bcast (ty : mty) (v : view)
| SendTo (to : N) (ty : mty) (v : view)
| Continue (members : view)
| Return_err (e : errc).

Definition keys (l : list (N * view)) : list N := map fst l.

Fixpoint lookup (k : N) (l : list (N * view)) : option view :=
  match l with
  | [] => None
  | (k', v) :: t => if k =? k' then Some v else lookup k t
  end.

(* memberToView.Store(k, v) *)
Fixpoint set_view (k : N) (v : view) (l : list (N * view)) : list (N * view) :=
  match l with
  | [] => [(k, v)]
  | (k', v') :: t => if k =? k' then (k, v) :: t else (k', v') :: set_view k v t
  end.

(* myMemberViewSorted: sort(self :: keys) *)
Definition my_view_of (c : cfg) (ks : list N) : view := isort (self c :: ks).
Definition my_view (c : cfg) (st : state) : view := my_view_of c (keys (views st)).

Definition all_eq (mv : view) (s : list (N * view)) : bool := forallb (fun kv => view_eqb (snd kv) mv) s.
Definition last_view (s : list (N * view)) : view := last (map snd s) [].

(* intersectedView: [s] = the (key, value) pairs the Range visited, [ks_now] = the keys a second Range sees *)
Definition intersected (c : cfg) (s : list (N * view)) (ks_now : list N) : view :=
  let mv := my_view_of c (if fix_onepass c then keys s else ks_now) in
  if all_eq mv s then (if fix_solo c then mv else last_view s) else [].

Definition set_ph (st : state) (p : phase) : state :=
  mkSt (views st) (responded st) (chan st) (queried st) (qchan st) (qacc st) (stopped st) None p.
Definition set_views (st : state) (vs : list (N * view)) : state :=
  mkSt vs (responded st) (chan st) (queried st) (qchan st) (qacc st) (stopped st) (pass st) (ph st).
Definition set_pass (st : state) (p : option (list N * list (N * view))) : state :=
  mkSt (views st) (responded st) (chan st) (queried st) (qchan st) (qacc st) (stopped st) p (ph st).

(* what Synchronize does with the result of intersectedView *)
Definition decide (c : cfg) (st : state) (members : view) : state * list output :=
  if Nat.leb (expected c) (length members) then
    if Nat.ltb (expected c) (length members) then (set_ph st Failed, [Return_err ETooMany])
    else let L := isort members in
         match (expected c - 1)%nat with
         | O => (set_ph st (Done L), [Bcast MQuery L; Continue L])
         | S k => (set_ph st (Query L (S k) (if fix_queries c then S k else O)), [Bcast MQuery L])
         end
  else (set_ph st Collect, []).

Definition accepts (c : cfg) (from : N) (m : msg) : bool :=
  let '(_, (tp, id), _) := m in
  (tp =? topic c) && (id =? from) && negb (id =? self c) && memb id (membership c).

(* the loop condition `acknowledgementsLeft > 0 || queriesLeft > 0` after a decrement *)
Definition progress (st : state) (L : view) (a q : nat) : state * list output :=
  match a, q with
  | O, O => (set_ph st (Done L), [Continue L])
  | _, _ => (set_ph st (Query L a q), [])
  end.

Definition step (c : cfg) (st : state) (ev : event) : state * list output :=
  match ev with
  | Handle from m =>
      if stopped st then (st, [])
      else if accepts c from m then
        let '(ty, _, peers) := m in
        match ty with
        | MMember => (set_views st (set_view from peers (views st)), [])
        | MQuery =>
            let st' := set_views st (set_view from peers (views st)) in
            let o := [SendTo from MResp (my_view c st')] in
            if fix_queries c && negb (memb from (queried st))
            then (mkSt (views st') (responded st) (chan st) (from :: queried st) (qchan st ++ [(from, peers)])
                       (qacc st) (stopped st) (pass st) (ph st), o)
            else (st', o)
        | MResp =>
            if memb from (responded st) then (st, [])
            else (mkSt (views st) (from :: responded st) (chan st ++ [peers]) (queried st) (qchan st) (qacc st)
                       (stopped st) (pass st) (ph st), [])
        end
      else (st, [])
  | Tick =>
      match ph st, pass st with
      | Collect, None => (st, [Bcast MMember (my_view c st)])
      | _, _ => (st, [])
      end
  | Pass1 =>
      match ph st with
      | Collect => (set_pass st (Some (keys (views st), [])), [])
      | _ => (st, [])
      end
  | Visit k =>
      match ph st, pass st with
      | Collect, Some (pend, s) =>
          match lookup k (views st) with
          | Some v => if memb k (keys s) then (st, [])
                      else (set_pass st (Some (pend, s ++ [(k, v)])), [])
          | None => (st, [])
          end
      | _, _ => (st, [])
      end
  | Pass2 =>
      match ph st, pass st with
      | Collect, Some (pend, s) =>
          if forallb (fun k => memb k (keys s)) pend
          then decide c st (intersected c s (keys (views st)))
          else (st, [])
      | _, _ => (st, [])
      end
  | TakeResponse =>
      match ph st, chan st with
      | Query L a q, r :: rest =>
          let st' := mkSt (views st) (responded st) rest (queried st) (qchan st) (qacc st) (stopped st) (pass st) (ph st) in
          if view_eqb r L then progress st' L (pred a) q else (st', [])
      | _, _ => (st, [])
      end
  | TakeQuery =>
      match ph st, qchan st with
      | Query L a q, (p, l) :: rest =>
          if view_eqb l L
          then progress (mkSt (views st) (responded st) (chan st) (queried st) rest (p :: qacc st) (stopped st) (pass st) (ph st))
                        L a (pred q)
          else (mkSt (views st) (responded st) (chan st) (queried st) rest (qacc st) (stopped st) (pass st) (ph st), [])
      | _, _ => (st, [])
      end
  | CtxDone =>
      match ph st with
      | Collect => (set_ph st Failed, [Return_err ECollect])
      | Query _ a _ => (set_ph st Failed, [Return_err (match a with O => EQueries | _ => EAcks end)])
      | _ => (st, [])
      end
  | Stop =>
      match ph st with
      | Done _ | Failed =>
          (mkSt (views st) (responded st) (chan st) (queried st) (qchan st) (qacc st) true (pass st) (ph st), [])
      | _ => (st, [])
      end
  end.

(* a run of one member *)
Fixpoint lrun (c : cfg) (st : state) (evs : list event) : state * list output :=
  match evs with
  | [] => (st, [])
  | e :: t => let '(st1, o1) := step c st e in
              let '(st2, o2) := lrun c st1 t in (st2, o1 ++ o2)
  end.

(* the whole of intersectedView when nothing interferes: Pass1, one Visit per key, Pass2 *)
Definition full_pass (st : state) : list event := Pass1 :: map Visit (keys (views st)) ++ [Pass2].
