(* From bytes to the abstract messages of Disc/Model.v.
   The tag of a synchroniser message is HMAC-SHA256 keyed with the topic, applied to the member identifier
   (disc/discovery.go makePRF / computeMyTag / precomputeTagsForTopic).  HMAC is not modelled: [prf] is a
   Section variable, and the only thing assumed about it is injectivity in (topic, id) on the values of a run
   (no two (topic, member) pairs share a tag) -- under which handling the bytes of an encoded message is
   handling the abstract message that names the pair its tag stands for.
   The codec is TSS.Wire.Codec (encode_sync / decode_sync) with its round-trip theorem from CodecFacts. *)
Require Import TSS.Base.Base TSS.Wire.Codec TSS.Wire.CodecFacts TSS.Disc.Sort TSS.Disc.Model.

Lemma find_none_intro {A} (f : A -> bool) l : (forall x, In x l -> f x = false) -> find f l = None.
Proof.
  induction l as [|a l IH]; simpl; intros H; [reflexivity|].
  rewrite (H a (or_introl eq_refl)). apply IH. intros x Hx. apply H. right. exact Hx.
Qed.

Section Wire.
Variable prf : N -> N -> bytes.      (* topic, member id -> tag *)

(* tagsToIDsAndTopics, as far as this topic goes: the configured member other than self whose tag this is *)
Definition lookup_tag (c : cfg) (tag : bytes) : option N :=
  find (fun id => negb (id =? self c) && bytes_eqb (prf (topic c) id) tag) (membership c).

(* HandleMessage(from, data).  A decoding error leaves the zero tag, which is not in the table. *)
Definition handle_bytes (c : cfg) (st : state) (from : N) (data : bytes) : state * list output :=
  match decode_sync wire_fixed data with
  | Ok (ty, tag, peers) =>
      match mty_of_code ty, lookup_tag c tag with
      | Some t, Some id => step c st (Handle from (t, (topic c, id), peers))
      | _, _ => (st, [])
      end
  | _ => (st, [])
  end.

(* what goes on the wire for an output *)
Definition encode_out (c : cfg) (o : output) : outcome bytes :=
  match o with
  | Bcast ty v | SendTo _ ty v => encode_sync (mty_code ty) (prf (topic c) (self c)) v
  | _ => Err
  end.

Hypothesis prf_len : forall t i, length (prf t i) = 32%nat.
Hypothesis prf_ok : forall t i, bytes_ok (prf t i).
Hypothesis prf_inj : forall t i t' i', prf t i = prf t' i' -> t = t' /\ i = i'.

Lemma mty_code_roundtrip t : mty_of_code (mty_code t) = Some t.
Proof. destruct t; reflexivity. Qed.

Lemma lookup_tag_prf c t id :
  lookup_tag c (prf t id) = if (t =? topic c) && negb (id =? self c) && memb id (membership c) then Some id else None.
Proof.
  unfold lookup_tag.
  destruct ((t =? topic c) && negb (id =? self c) && memb id (membership c)) eqn:E.
  - apply andb_true_iff in E. destruct E as [E12 E3]. apply andb_true_iff in E12. destruct E12 as [E1 E2].
    apply N.eqb_eq in E1. subst t. apply memb_spec in E3.
    induction (membership c) as [|x l IH]; simpl in *; [contradiction|].
    destruct (negb (x =? self c) && bytes_eqb (prf (topic c) x) (prf (topic c) id)) eqn:Ex.
    + apply andb_true_iff in Ex. destruct Ex as [_ Ex]. apply bytes_eqb_spec in Ex.
      destruct (prf_inj _ _ _ _ Ex) as [_ ->]. reflexivity.
    + destruct E3 as [->|E3]; [|auto].
      rewrite E2 in Ex. simpl in Ex.
      assert (bytes_eqb (prf (topic c) id) (prf (topic c) id) = true) by (apply bytes_eqb_spec; reflexivity).
      congruence.
  - apply find_none_intro. intros x Hx.
    destruct (negb (x =? self c) && bytes_eqb (prf (topic c) x) (prf t id)) eqn:Ex; [|reflexivity].
    apply andb_true_iff in Ex. destruct Ex as [Ex1 Ex2]. apply bytes_eqb_spec in Ex2.
    destruct (prf_inj _ _ _ _ Ex2) as [<- ->].
    rewrite N.eqb_refl, Ex1 in E. simpl in E.
    assert (memb id (membership c) = true) by (apply memb_spec; exact Hx). congruence.
Qed.

(* handling the bytes of an encoded message = handling the abstract message *)
Theorem handle_bytes_encoded c st from t tg id peers bs :
  Forall id_ok peers -> encode_sync (mty_code t) (prf tg id) peers = Ok bs ->
  handle_bytes c st from bs = step c st (Handle from (t, (tg, id), peers)).
Proof.
  intros Hp Henc.
  destruct (sync_roundtrip (mty_code t) (prf tg id) peers) as (bs' & E1 & _ & E2);
    [destruct t; simpl; lia|apply prf_len|apply prf_ok|exact Hp|].
  rewrite E1 in Henc. inversion Henc; subst bs'.
  unfold handle_bytes. rewrite E2, mty_code_roundtrip, lookup_tag_prf.
  destruct ((tg =? topic c) && negb (id =? self c) && memb id (membership c)) eqn:E.
  - apply andb_true_iff in E. destruct E as [E12 _]. apply andb_true_iff in E12. destruct E12 as [E0 _].
    apply N.eqb_eq in E0. subst tg. reflexivity.
  - unfold step, accepts.
    replace ((tg =? topic c) && (id =? from) && negb (id =? self c) && memb id (membership c)) with false; [destruct (stopped st); reflexivity|].
    destruct (tg =? topic c), (id =? from), (negb (id =? self c)), (memb id (membership c)); simpl in *; congruence.
Qed.

(* bytes that do not decode, or whose tag is nobody's, change nothing and cause no output *)
Theorem handle_bytes_garbage c st from bs :
  (forall ty tag peers, decode_sync wire_fixed bs = Ok (ty, tag, peers) -> lookup_tag c tag = None) ->
  handle_bytes c st from bs = (st, []).
Proof.
  intros H. unfold handle_bytes. destruct (decode_sync wire_fixed bs) as [[[ty tag] peers]| |]; try reflexivity.
  rewrite (H ty tag peers eq_refl). destruct (mty_of_code ty); reflexivity.
Qed.
End Wire.
