(* C07, liveness part: when exactly the expected number of members run, all of them honest, and nobody else
   interferes, the fair schedule below -- every member ticks, every announcement is delivered, every member ticks
   again, those announcements are delivered, every member evaluates intersectedView, queries and responses are
   delivered and consumed -- is an admissible run in which every member invokes its continuation with the sorted
   list of all of them.  Proved for every list H of (at least two) distinct configured identifiers.

   What is a PREMISE here and not modelled: real time.  The deadline (context) is an event that may or may not
   occur; the theorem speaks about the runs in which it does not occur before the schedule is through, i.e. in Go
   terms: the context outlives two probe intervals plus the message delays.  Per-link FIFO delivery is part of the
   schedule as well (a stale announcement delivered after a newer one overwrites it, and a member that has left
   its first loop no longer re-announces).  Global.v (theorems valid / too_few / exclusive) gives the rest of the
   sentence: with too few announcers nobody continues, and an error return excludes the continuation. *)
Require Import TSS.Base.Base TSS.Disc.Sort TSS.Disc.Model TSS.Disc.Local TSS.Disc.Global TSS.Disc.Exec.
From Coq Require Import Arith.

(* ---------- association lists built by map ---------- *)
Definition vw (f : N -> view) (l : list N) : list (N * view) := map (fun a => (a, f a)) l.

Lemma keys_vw (f : N -> view) l : keys (vw f l) = l.
Proof. unfold keys, vw. rewrite map_map. simpl. apply map_id. Qed.

Lemma vw_snoc f l k : vw f l ++ [(k, f k)] = vw f (l ++ [k]).
Proof. unfold vw. rewrite map_app. reflexivity. Qed.

Lemma set_view_new k v (f : N -> view) l : ~ In k l -> set_view k v (vw f l) = vw f l ++ [(k, v)].
Proof.
  unfold vw. induction l as [|x l IH]; simpl; intros Hn; [reflexivity|].
  destruct (k =? x) eqn:E; [apply N.eqb_eq in E; subst; exfalso; auto|].
  rewrite IH; auto.
Qed.

Lemma set_view_mid k v (g f : N -> view) pre rest : ~ In k pre ->
  set_view k v (vw g pre ++ vw f (k :: rest)) = vw g pre ++ (k, v) :: vw f rest.
Proof.
  unfold vw. induction pre as [|x pre IH]; simpl; intros Hn.
  - rewrite N.eqb_refl. reflexivity.
  - destruct (k =? x) eqn:E; [apply N.eqb_eq in E; subst; exfalso; auto|].
    simpl in IH. rewrite IH; auto.
Qed.

Lemma vw_mid (g f : N -> view) pre k rest : vw g pre ++ (k, g k) :: vw f rest = vw g (pre ++ [k]) ++ vw f rest.
Proof. unfold vw. rewrite map_app, <- app_assoc. reflexivity. Qed.

Lemma set_view_same k v l : NoDup (keys l) -> In (k, v) l -> set_view k v l = l.
Proof.
  unfold keys. induction l as [|[a b] t IH]; simpl; intros Hnd Hin; [contradiction|].
  inversion Hnd; subst. destruct Hin as [Hin|Hin].
  - inversion Hin; subst. rewrite N.eqb_refl. reflexivity.
  - destruct (k =? a) eqn:E.
    + apply N.eqb_eq in E. subst a. exfalso. apply H1. apply (in_keys k v t Hin).
    + rewrite IH; auto.
Qed.

Lemma lookup_vw (f : N -> view) l k : In k l -> lookup k (vw f l) = Some (f k).
Proof.
  unfold vw. induction l as [|x l IH]; simpl; intros Hin; [contradiction|].
  destruct (k =? x) eqn:E; [apply N.eqb_eq in E; subst; reflexivity|].
  apply N.eqb_neq in E. destruct Hin as [Hin|Hin]; [congruence|auto].
Qed.

Lemma memb_false x l : ~ In x l -> memb x l = false.
Proof. intros H. destruct (memb x l) eqn:E; [apply memb_spec in E; contradiction|reflexivity]. Qed.

Lemma lrun_app c st e1 e2 :
  lrun c st (e1 ++ e2) =
  let '(s1, o1) := lrun c st e1 in let '(s2, o2) := lrun c s1 e2 in (s2, o1 ++ o2).
Proof.
  revert st. induction e1 as [|e t IH]; intros st; simpl.
  - destruct (lrun c st e2). reflexivity.
  - destruct (step c st e) as [s0 o0]. rewrite IH.
    destruct (lrun c s0 t) as [s1 o1]. destruct (lrun c s1 e2) as [s2 o2]. rewrite app_assoc. reflexivity.
Qed.

Lemma lrun_cons c st e t :
  lrun c st (e :: t) = let '(s1, o1) := step c st e in let '(s2, o2) := lrun c s1 t in (s2, o1 ++ o2).
Proof. reflexivity. Qed.

Lemma step_member c st a tg v : stopped st = false -> accepts c a (MMember, tg, v) = true ->
  step c st (Handle a (MMember, tg, v)) =
  (mkSt (set_view a v (views st)) (responded st) (chan st) (queried st) (qchan st) (qacc st) (stopped st) (pass st) (ph st), []).
Proof. intros H0 H. unfold step, set_views. destruct (stopped st); [discriminate|]. rewrite H. reflexivity. Qed.

Lemma step_query c st a tg v : stopped st = false -> accepts c a (MQuery, tg, v) = true ->
  fix_queries c = true -> memb a (queried st) = false ->
  step c st (Handle a (MQuery, tg, v)) =
  (mkSt (set_view a v (views st)) (responded st) (chan st) (a :: queried st) (qchan st ++ [(a, v)]) (qacc st)
        (stopped st) (pass st) (ph st),
   [SendTo a MResp (my_view_of c (keys (set_view a v (views st))))]).
Proof. intros H0 H H1 H2. unfold step, set_views, my_view. destruct (stopped st); [discriminate|]. rewrite H, H1, H2. reflexivity. Qed.

Lemma step_resp c st a tg v : stopped st = false -> accepts c a (MResp, tg, v) = true -> memb a (responded st) = false ->
  step c st (Handle a (MResp, tg, v)) =
  (mkSt (views st) (a :: responded st) (chan st ++ [v]) (queried st) (qchan st) (qacc st) (stopped st) (pass st) (ph st), []).
Proof. intros H0 H1 H2. unfold step. destruct (stopped st); [discriminate|]. rewrite H1, H2. reflexivity. Qed.

Section Live.
Variable tp : N.
Variable mem : list N.
Variables fx fs : bool.
Variable H : list N.
Hypothesis H_nodup : NoDup H.
Hypothesis H_mem : incl H mem.
Hypothesis H_two : (2 <= length H)%nat.

Let n := length H.
Let V : view := isort H.
Notation cfgOf := (Global.cfgOf tp mem n fx fs true).
Notation mk vs rs ch qd qc qa pa p := (mkSt vs rs ch qd qc qa false pa p).

Definition others (b : N) : list N := remove N.eq_dec b H.

Lemma others_in b a : In a (others b) <-> In a H /\ a <> b.
Proof.
  unfold others. split.
  - intros Hin. apply in_remove in Hin. exact Hin.
  - intros [A B]. apply in_in_remove; auto.
Qed.

Lemma others_nodup b : NoDup (others b).
Proof.
  unfold others. clear - H_nodup. induction H as [|a L IH]; simpl; [constructor|]. inversion H_nodup; subst.
  destruct (N.eq_dec b a); [auto|]. constructor; [|auto]. intros Hx. apply in_remove in Hx. tauto.
Qed.

Lemma others_length b : In b H -> length (others b) = (n - 1)%nat.
Proof.
  intros Hb. unfold others, n. clear - H_nodup Hb. induction H as [|a L IH]; simpl in *; [contradiction|].
  inversion H_nodup; subst. destruct (N.eq_dec b a) as [->|Hne].
  - rewrite notin_remove by assumption. lia.
  - destruct Hb as [Hb|Hb]; [congruence|]. simpl. rewrite IH by assumption.
    destruct L; [contradiction|simpl; lia].
Qed.

Lemma view_of_others b : In b H -> isort (b :: others b) = V.
Proof.
  intros Hb. unfold V. apply isort_ext.
  - constructor; [|apply others_nodup]. intros Hin. apply others_in in Hin. tauto.
  - exact H_nodup.
  - intros x. simpl. rewrite others_in. split.
    + intros [->|[A _]]; assumption.
    + intros Hx. destruct (N.eq_dec b x); [left; assumption|right; split; [assumption|congruence]].
Qed.

Lemma V_sorted : ssorted V.
Proof. apply isort_ssorted, H_nodup. Qed.
Lemma V_length : length V = n.
Proof. apply isort_length. Qed.

Lemma accepts_other b a ty v : In a (others b) -> accepts (cfgOf b) a (ty, (tp, a), v) = true.
Proof.
  intros Hin. apply others_in in Hin. destruct Hin as [A B]. apply accepts_spec. simpl. auto.
Qed.

(* ---------- the nine stages of one member's run ---------- *)
Definition ann (W : N -> view) (a : N) : event := Handle a (MMember, (tp, a), W a).
Definition stage (k : nat) (b : N) : list event :=
  match k with
  | 1 => [Tick]
  | 2 => map (ann (fun a => [a])) (others b)
  | 3 => [Tick]
  | 4 => map (ann (fun _ => V)) (others b)
  | 5 => Pass1 :: map Visit (others b) ++ [Pass2]
  | 6 => map (fun a => Handle a (MQuery, (tp, a), V)) (others b)
  | 7 => map (fun a => Handle a (MResp, (tp, a), V)) (others b)
  | 8 => repeat TakeResponse (n - 1)
  | 9 => repeat TakeQuery (n - 1)
  | _ => []
  end%nat.

Notation VV l := (vw (fun _ : N => V) l).

(* local state after stage k *)
Definition lst (k : nat) (b : N) : state :=
  match k with
  | 0 | 1 => state0
  | 2 | 3 => mk (vw (fun a => [a]) (others b)) [] [] [] [] [] None Collect
  | 4 => mk (VV (others b)) [] [] [] [] [] None Collect
  | 5 => mk (VV (others b)) [] [] [] [] [] None (Query V (n - 1) (n - 1))
  | 6 => mk (VV (others b)) [] [] (rev (others b)) (VV (others b)) [] None (Query V (n - 1) (n - 1))
  | 7 => mk (VV (others b)) (rev (others b)) (map (fun _ => V) (others b)) (rev (others b)) (VV (others b)) [] None
            (Query V (n - 1) (n - 1))
  | 8 => mk (VV (others b)) (rev (others b)) [] (rev (others b)) (VV (others b)) [] None (Query V 0 (n - 1))
  | _ => mk (VV (others b)) (rev (others b)) [] (rev (others b)) [] (rev (others b)) None (Done V)
  end%nat.

(* outputs of stage k *)
Definition lout (k : nat) (b : N) : list output :=
  match k with
  | 1 => [Bcast MMember [b]]
  | 3 => [Bcast MMember V]
  | 5 => [Bcast MQuery V]
  | 6 => map (fun a => SendTo a MResp V) (others b)
  | 9 => [Continue V]
  | _ => []
  end%nat.

Ltac cbn_st := cbn [views responded chan queried qchan qacc stopped pass ph].

Lemma stage2 b : forall l pre, NoDup (pre ++ l) -> (forall a, In a l -> In a (others b)) ->
  lrun (cfgOf b) (mk (vw (fun a => [a]) pre) [] [] [] [] [] None Collect) (map (ann (fun a => [a])) l) =
  (mk (vw (fun a => [a]) (pre ++ l)) [] [] [] [] [] None Collect, []).
Proof.
  induction l as [|a l IH]; intros pre Hnd Hsub.
  - simpl. rewrite app_nil_r. reflexivity.
  - cbn [map]. unfold ann at 1. rewrite lrun_cons, step_member; [|reflexivity|apply accepts_other, Hsub; left; reflexivity].
    cbn_st. rewrite set_view_new.
    2:{ apply NoDup_remove_2 in Hnd. intros Hin. apply Hnd. apply in_app_iff. auto. }
    rewrite (vw_snoc (fun x => [x]) pre a).
    rewrite IH.
    + rewrite <- app_assoc. reflexivity.
    + rewrite <- app_assoc. exact Hnd.
    + intros x Hx. apply Hsub. right. exact Hx.
Qed.

Lemma stage4 b : forall l pre, NoDup (pre ++ l) -> (forall a, In a l -> In a (others b)) ->
  lrun (cfgOf b) (mk (VV pre ++ vw (fun a => [a]) l) [] [] [] [] [] None Collect) (map (ann (fun _ => V)) l) =
  (mk (VV (pre ++ l)) [] [] [] [] [] None Collect, []).
Proof.
  induction l as [|a l IH]; intros pre Hnd Hsub.
  - simpl. rewrite !app_nil_r. reflexivity.
  - cbn [map]. unfold ann at 1. rewrite lrun_cons, step_member; [|reflexivity|apply accepts_other, Hsub; left; reflexivity].
    cbn_st.
    rewrite (set_view_mid a V (fun _ => V) (fun x => [x]) pre l).
    2:{ apply NoDup_remove_2 in Hnd. intros Hin. apply Hnd. apply in_app_iff. auto. }
    rewrite (vw_mid (fun _ => V) (fun x => [x]) pre a l).
    rewrite IH.
    + rewrite <- app_assoc. reflexivity.
    + rewrite <- app_assoc. exact Hnd.
    + intros x Hx. apply Hsub. right. exact Hx.
Qed.

Lemma stage5_visits b pend : forall l pre, NoDup (pre ++ l) -> (forall a, In a (pre ++ l) -> In a (others b)) ->
  lrun (cfgOf b) (mk (VV (others b)) [] [] [] [] [] (Some (pend, VV pre)) Collect) (map Visit l) =
  (mk (VV (others b)) [] [] [] [] [] (Some (pend, VV (pre ++ l))) Collect, []).
Proof.
  induction l as [|a l IH]; intros pre Hnd Hsub.
  - simpl. rewrite app_nil_r. reflexivity.
  - cbn [map]. rewrite lrun_cons. cbn [step ph pass views].
    rewrite (lookup_vw (fun _ => V)) by (apply Hsub, in_app_iff; right; left; reflexivity).
    rewrite keys_vw, memb_false.
    2:{ apply NoDup_remove_2 in Hnd. intros Hin. apply Hnd. apply in_app_iff. auto. }
    unfold set_pass. cbn_st. rewrite (vw_snoc (fun _ => V) pre a).
    rewrite IH.
    + rewrite <- app_assoc. reflexivity.
    + rewrite <- app_assoc. exact Hnd.
    + intros x Hx. apply Hsub. rewrite <- app_assoc in Hx. exact Hx.
Qed.

Lemma all_eq_vw l : all_eq V (VV l) = true.
Proof.
  apply all_eq_spec. intros k v Hin. unfold vw in Hin. apply in_map_iff in Hin.
  destruct Hin as (x & E & _). inversion E. reflexivity.
Qed.

Lemma stage5 b : In b H ->
  lrun (cfgOf b) (lst 4 b) (stage 5 b) = (lst 5 b, lout 5 b).
Proof.
  intros Hb. unfold stage, lst, lout.
  change (Pass1 :: map Visit (others b) ++ [Pass2]) with ([Pass1] ++ map Visit (others b) ++ [Pass2]).
  rewrite lrun_app. simpl lrun at 1. unfold set_pass. cbn_st. rewrite keys_vw.
  rewrite lrun_app.
  assert (Ev := stage5_visits b (others b) (others b) [] (others_nodup b) (fun a Ha => Ha)).
  cbn [app] in Ev. change (VV []) with (@nil (N * view)) in Ev. rewrite Ev. clear Ev.
  cbn [app lrun step ph pass views]. rewrite !keys_vw.
  assert (Hf : forallb (fun k : N => memb k (others b)) (others b) = true).
  { apply forallb_forall. intros x Hx. apply memb_spec. exact Hx. }
  rewrite Hf.
  assert (Hi : intersected (cfgOf b) (VV (others b)) (others b) = V).
  { unfold intersected. cbn [fix_onepass fix_solo Global.cfgOf]. rewrite keys_vw.
    assert (Hmv : my_view_of (cfgOf b) (if fx then others b else others b) = V).
    { destruct fx; unfold my_view_of; simpl; apply view_of_others; exact Hb. }
    rewrite Hmv. rewrite all_eq_vw.
    destruct fs; [reflexivity|]. apply last_view_all_eq; [apply all_eq_vw|].
    pose proof (others_length b Hb) as Hl. unfold vw. destruct (others b); [simpl in Hl; lia|discriminate]. }
  rewrite Hi. unfold decide. simpl expected. rewrite V_length.
  rewrite Nat.leb_refl, Nat.ltb_irrefl. rewrite (isort_id V V_sorted).
  destruct (n - 1)%nat eqn:E; [unfold n in E; lia|]. reflexivity.
Qed.

Lemma stage6 b : In b H -> forall l pre, NoDup (pre ++ l) -> (forall a, In a l -> In a (others b)) ->
  lrun (cfgOf b) (mk (VV (others b)) [] [] (rev pre) (VV pre) [] None (Query V (n - 1) (n - 1)))
       (map (fun a => Handle a (MQuery, (tp, a), V)) l) =
  (mk (VV (others b)) [] [] (rev (pre ++ l)) (VV (pre ++ l)) [] None (Query V (n - 1) (n - 1)),
   map (fun a => SendTo a MResp V) l).
Proof.
  intros Hb. induction l as [|a l IH]; intros pre Hnd Hsub.
  - simpl. rewrite app_nil_r. reflexivity.
  - cbn [map]. rewrite lrun_cons, step_query.
    2:{ reflexivity. }
    2:{ apply accepts_other, Hsub. left. reflexivity. }
    2:{ reflexivity. }
    2:{ cbn_st. apply memb_false. apply NoDup_remove_2 in Hnd. intros Hin. apply Hnd.
        apply in_app_iff. left. apply in_rev. exact Hin. }
    cbn_st.
    rewrite set_view_same.
    2:{ rewrite keys_vw. apply others_nodup. }
    2:{ unfold vw. apply in_map_iff. exists a. split; [reflexivity|apply Hsub; left; reflexivity]. }
    rewrite keys_vw.
    unfold my_view_of. cbn [self Global.cfgOf]. rewrite (view_of_others b Hb).
    replace (a :: rev pre) with (rev (pre ++ [a])) by (rewrite rev_app_distr; reflexivity).
    replace (VV pre ++ [(a, V)]) with (VV (pre ++ [a])) by (rewrite <- (vw_snoc (fun _ => V)); reflexivity).
   
    rewrite IH.
    + rewrite <- app_assoc. reflexivity.
    + rewrite <- app_assoc. exact Hnd.
    + intros x Hx. apply Hsub. right. exact Hx.
Qed.

Lemma stage7 b qd qc : forall l pre, NoDup (pre ++ l) -> (forall a, In a l -> In a (others b)) ->
  lrun (cfgOf b) (mk (VV (others b)) (rev pre) (map (fun _ => V) pre) qd qc [] None (Query V (n - 1) (n - 1)))
       (map (fun a => Handle a (MResp, (tp, a), V)) l) =
  (mk (VV (others b)) (rev (pre ++ l)) (map (fun _ => V) (pre ++ l)) qd qc [] None (Query V (n - 1) (n - 1)), []).
Proof.
  induction l as [|a l IH]; intros pre Hnd Hsub.
  - simpl. rewrite app_nil_r. reflexivity.
  - cbn [map]. rewrite lrun_cons, step_resp.
    2:{ reflexivity. }
    2:{ apply accepts_other, Hsub. left. reflexivity. }
    2:{ cbn_st. apply memb_false. apply NoDup_remove_2 in Hnd. intros Hin. apply Hnd.
        apply in_app_iff. left. apply in_rev. exact Hin. }
    cbn_st.
    replace (a :: rev pre) with (rev (pre ++ [a])) by (rewrite rev_app_distr; reflexivity).
    replace (map (fun _ : N => V) pre ++ [V]) with (map (fun _ : N => V) (pre ++ [a])) by (rewrite map_app; reflexivity).
    rewrite IH.
    + rewrite <- app_assoc. reflexivity.
    + rewrite <- app_assoc. exact Hnd.
    + intros x Hx. apply Hsub. right. exact Hx.
Qed.

Lemma VV_refl : view_eqb V V = true.
Proof. apply view_eqb_spec. reflexivity. Qed.

(* the acknowledgements are taken; queries are still missing, so the loop goes on *)
Lemma stage8 b vs rs qd qc q : forall k (ch : list N),
  length ch = k ->
  lrun (cfgOf b) (mk vs rs (map (fun _ => V) ch) qd qc [] None (Query V k (S q))) (repeat TakeResponse k) =
  (mk vs rs [] qd qc [] None (Query V 0 (S q)), []).
Proof.
  induction k as [|k IH]; intros ch Hl.
  - destruct ch; [reflexivity|discriminate].
  - destruct ch as [|x ch]; simpl in Hl; [lia|].
    change (repeat TakeResponse (S k)) with (TakeResponse :: repeat TakeResponse k).
    simpl map. rewrite lrun_cons. cbn [step ph chan]. rewrite VV_refl. cbn_st.
    unfold progress, set_ph. cbn [Nat.pred]. cbn_st.
    replace (match k with | O | _ => (mk vs rs (map (fun _ : N => V) ch) qd qc [] None (Query V k (S q)), @nil output) end)
      with (mk vs rs (map (fun _ : N => V) ch) qd qc [] None (Query V k (S q)), @nil output) by (destruct k; reflexivity).
    rewrite IH by lia. reflexivity.
Qed.

(* the queries are taken; with the last one the member is through *)
Lemma stage9 b vs rs qd : forall k (ch : list N) qa,
  length ch = S k ->
  lrun (cfgOf b) (mk vs rs [] qd (VV ch) qa None (Query V 0 (S k))) (repeat TakeQuery (S k)) =
  (mk vs rs [] qd [] (rev ch ++ qa) None (Done V), [Continue V]).
Proof.
  induction k as [|k IH]; intros ch qa Hl.
  - destruct ch as [|x [|y ch]]; simpl in Hl; try lia. simpl. rewrite VV_refl. reflexivity.
  - destruct ch as [|x ch]; simpl in Hl; [lia|].
    change (repeat TakeQuery (S (S k))) with (TakeQuery :: repeat TakeQuery (S k)).
    cbn [vw map]. fold (vw (fun _ : N => V) ch).
    rewrite lrun_cons. cbn [step ph qchan]. rewrite VV_refl. cbn_st.
    unfold progress, set_ph. cbn [Nat.pred]. cbn_st.
    rewrite IH by lia. cbn [rev]. rewrite <- app_assoc. reflexivity.
Qed.

Lemma stage_run k b : In b H -> (1 <= k <= 9)%nat ->
  lrun (cfgOf b) (lst (k - 1) b) (stage k b) = (lst k b, lout k b).
Proof.
  intros Hb Hk.
  assert (K : (k = 1 \/ k = 2 \/ k = 3 \/ k = 4 \/ k = 5 \/ k = 6 \/ k = 7 \/ k = 8 \/ k = 9)%nat) by lia.
  pose proof (others_length b Hb) as Hl.
  destruct K as [->|[->|[->|[->|[->|[->|[->|[->| ->]]]]]]]]; simpl Nat.sub.
  - (* first tick: the view is [b] *) reflexivity.
  - unfold stage, lst, lout. change state0 with (mk (vw (fun a => [a]) []) [] [] [] [] [] None Collect).
    rewrite stage2; [reflexivity|apply others_nodup|auto].
  - (* second tick: the view is complete *)
    unfold stage, lst, lout. cbn [lrun step ph pass]. unfold my_view. cbn [views]. rewrite keys_vw.
    unfold my_view_of. cbn [self Global.cfgOf]. rewrite (view_of_others b Hb). reflexivity.
  - unfold stage, lst, lout.
    replace (vw (fun a => [a]) (others b)) with (VV [] ++ vw (fun a => [a]) (others b)) by reflexivity.
    rewrite stage4; [reflexivity|apply others_nodup|auto].
  - apply stage5. exact Hb.
  - unfold stage, lst, lout.
    assert (E := stage6 b Hb (others b) [] (others_nodup b) (fun a Ha => Ha)).
    cbn [app rev] in E. change (VV []) with (@nil (N * view)) in E. exact E.
  - unfold stage, lst, lout.
    assert (E := stage7 b (rev (others b)) (VV (others b)) (others b) [] (others_nodup b) (fun a Ha => Ha)).
    cbn [app rev map] in E. exact E.
  - unfold stage, lst, lout.
    destruct (n - 1)%nat eqn:E; [unfold n in E; lia|].
    apply stage8. exact Hl.
  - unfold stage, lst, lout.
    destruct (n - 1)%nat eqn:E; [unfold n in E; lia|].
    rewrite (stage9 b _ _ _ n0 (others b) []); [rewrite app_nil_r; reflexivity|exact Hl].
Qed.

(* ---------- the global schedule ---------- *)
Definition honestH (x : N) : Prop := In x H.
Notation gstep := (Global.gstep tp mem n fx fs true).
Notation reachable := (Global.reachable tp mem n fx fs true honestH).
Notation admissible := (Global.admissible tp mem n fx fs true honestH).
Notation grun := (Exec.grun tp mem n fx fs true).

Definition on (x : N) (evs : list event) : list gevent := map (pair x) evs.
Definition phase (k : nat) : list gevent := flat_map (fun x => on x (stage k x)) H.
Definition fair : list gevent := flat_map phase (seq 1 9).

Lemma grun_app S e1 e2 : grun S (e1 ++ e2) = grun (grun S e1) e2.
Proof. unfold Exec.grun. apply fold_left_app. Qed.

Lemma gstep_emitted_mono S ge p : In p (emitted S) -> In p (emitted (gstep S ge)).
Proof.
  intros Hin. unfold Global.gstep. destruct ge as [x ev]. destruct (step (cfgOf x) (g S x) ev). simpl.
  apply in_app_iff. auto.
Qed.

Lemma adm_mono S S' ge : (forall p, In p (emitted S) -> In p (emitted S')) -> admissible S ge -> admissible S' ge.
Proof.
  intros Hm. destruct ge as [x ev]. unfold Global.admissible. intros [Hx Ha]. split; [exact Hx|].
  destruct ev; auto. intros Hf Hacc. specialize (Ha Hf Hacc). unfold authentic in *.
  destruct m as [[ty tg] v]. destruct Ha as [A|A]; [left|right]; apply Hm, A.
Qed.

Lemma gstep_at S x e :
  g (gstep S (x, e)) x = fst (step (cfgOf x) (g S x) e) /\
  (forall y, y <> x -> g (gstep S (x, e)) y = g S y) /\
  emitted (gstep S (x, e)) = emitted S ++ map (pair x) (snd (step (cfgOf x) (g S x) e)).
Proof.
  unfold Global.gstep. destruct (step (cfgOf x) (g S x) e) as [s1 o1]. simpl.
  split; [destruct (N.eq_dec x x); congruence|]. split; [|reflexivity].
  intros y Hy. destruct (N.eq_dec y x); congruence.
Qed.

Lemma member_run x evs : forall S,
  g (grun S (on x evs)) x = fst (lrun (cfgOf x) (g S x) evs) /\
  (forall y, y <> x -> g (grun S (on x evs)) y = g S y) /\
  emitted (grun S (on x evs)) = emitted S ++ map (pair x) (snd (lrun (cfgOf x) (g S x) evs)).
Proof.
  induction evs as [|e t IH]; intros S.
  - simpl. split; [reflexivity|]. split; [reflexivity|]. rewrite app_nil_r. reflexivity.
  - unfold on. cbn [map]. unfold Exec.grun. cbn [fold_left].
    set (S1 := gstep S (x, e)). fold (grun S1 (on x t)).
    destruct (IH S1) as (A & B & C). clear IH.
    destruct (gstep_at S x e) as (A1 & B1 & C1). fold S1 in A1, B1, C1.
    rewrite lrun_cons.
    destruct (step (cfgOf x) (g S x) e) as [s1 o1] eqn:Hs. cbn [fst snd] in A1, C1.
    rewrite A1 in A, C.
    destruct (lrun (cfgOf x) s1 t) as [s2 o2] eqn:Hl. cbn [fst snd] in *.
    split; [exact A|]. split.
    + intros y Hy. eapply eq_trans; [apply (B y Hy)|apply B1, Hy].
    + eapply eq_trans; [exact C|]. rewrite C1. rewrite map_app, app_assoc. reflexivity.
Qed.

Lemma member_reach x evs : forall S, reachable S -> (forall ev, In ev evs -> admissible S (x, ev)) ->
  reachable (grun S (on x evs)).
Proof.
  induction evs as [|e t IH]; intros S HR Ha; [exact HR|].
  unfold on. cbn [map]. unfold Exec.grun. cbn [fold_left]. apply IH.
  - apply reach_step; [exact HR|apply Ha; left; reflexivity].
  - intros ev Hev. eapply adm_mono; [|apply Ha; right; exact Hev]. intros p. apply gstep_emitted_mono.
Qed.

Lemma phase_run k : forall l S, NoDup l -> reachable S ->
  (forall x ev, In x l -> In ev (stage k x) -> admissible S (x, ev)) ->
  let S' := grun S (flat_map (fun x => on x (stage k x)) l) in
  reachable S' /\
  (forall x, In x l -> g S' x = fst (lrun (cfgOf x) (g S x) (stage k x))) /\
  (forall y, ~ In y l -> g S' y = g S y) /\
  (forall p, In p (emitted S) -> In p (emitted S')) /\
  (forall x o, In x l -> In o (snd (lrun (cfgOf x) (g S x) (stage k x))) -> In (x, o) (emitted S')).
Proof.
  induction l as [|x l IH]; intros S Hnd HR Ha; cbn zeta.
  - simpl. split; [exact HR|]. split; [intros ? []|]. split; [reflexivity|]. split; [auto|intros ? ? []].
  - cbn [flat_map]. rewrite grun_app.
    set (S1 := grun S (on x (stage k x))).
    destruct (member_run x (stage k x) S) as (A & B & C). fold S1 in A, B, C.
    assert (HR1 : reachable S1) by (apply member_reach; [exact HR|intros ev Hev; apply Ha; [left; reflexivity|exact Hev]]).
    assert (Hm1 : forall p, In p (emitted S) -> In p (emitted S1)).
    { intros p Hp. rewrite C. apply in_app_iff. auto. }
    inversion Hnd; subst.
    destruct (IH S1 H3 HR1) as (R & G1 & G2 & E1 & E2).
    { intros y ev Hy Hev. eapply adm_mono; [exact Hm1|]. apply Ha; [right; exact Hy|exact Hev]. }
    split; [exact R|]. split.
    { intros y [->|Hy].
      - rewrite G2 by assumption. exact A.
      - rewrite (G1 y Hy). rewrite B; [reflexivity|]. intros ->. contradiction. }
    split.
    { intros y Hy. rewrite G2 by (intros Hin; apply Hy; right; exact Hin). apply B. intros ->. apply Hy. left. reflexivity. }
    split. { intros p Hp. apply E1, Hm1, Hp. }
    intros y o [->|Hy] Ho.
    + apply E1. rewrite C. apply in_app_iff. right. apply in_map. exact Ho.
    + apply E2; [exact Hy|]. rewrite B; [exact Ho|]. intros ->. contradiction.
Qed.

(* every message handled in stage k was emitted in an earlier stage by its (honest) origin *)
Lemma stage_adm k S : (1 <= k <= 9)%nat ->
  (forall a j o, In a H -> (1 <= j < k)%nat -> In o (lout j a) -> In (a, o) (emitted S)) ->
  forall b ev, In b H -> In ev (stage k b) -> admissible S (b, ev).
Proof.
  intros Hk Hem b ev Hb Hev. unfold Global.admissible. split; [exact Hb|].
  assert (K : (k = 1 \/ k = 2 \/ k = 3 \/ k = 4 \/ k = 5 \/ k = 6 \/ k = 7 \/ k = 8 \/ k = 9)%nat) by lia.
  destruct K as [->|[->|[->|[->|[->|[->|[->|[->| ->]]]]]]]]; unfold stage in Hev.
  - destruct Hev as [<-|[]]. exact I.
  - apply in_map_iff in Hev. destruct Hev as (a & <- & Ha). unfold ann. intros _ _. simpl. left.
    apply others_in in Ha. apply (Hem a 1%nat); [tauto|lia|left; reflexivity].
  - destruct Hev as [<-|[]]. exact I.
  - apply in_map_iff in Hev. destruct Hev as (a & <- & Ha). unfold ann. intros _ _. simpl. left.
    apply others_in in Ha. apply (Hem a 3%nat); [tauto|lia|left; reflexivity].
  - destruct Hev as [<-|Hev]; [exact I|]. apply in_app_iff in Hev. destruct Hev as [Hev|[<-|[]]]; [|exact I].
    apply in_map_iff in Hev. destruct Hev as (a & <- & _). exact I.
  - apply in_map_iff in Hev. destruct Hev as (a & <- & Ha). intros _ _. simpl. left.
    apply others_in in Ha. apply (Hem a 5%nat); [tauto|lia|left; reflexivity].
  - apply in_map_iff in Hev. destruct Hev as (a & <- & Ha). intros _ _. simpl. right.
    apply others_in in Ha. apply (Hem a 6%nat); [tauto|lia|].
    unfold lout. apply in_map_iff. exists b. split; [reflexivity|]. apply others_in. split; [exact Hb|]. intros ->. tauto.
  - apply repeat_spec in Hev. subst ev. exact I.
  - apply repeat_spec in Hev. subst ev. exact I.
Qed.

Definition Sk (k : nat) : gstate := grun ginit (flat_map phase (seq 1 k)).

Lemma Sk_succ k : Sk (S k) = grun (Sk k) (phase (S k)).
Proof.
  unfold Sk. rewrite seq_S, flat_map_app, grun_app. simpl. rewrite app_nil_r. reflexivity.
Qed.

Lemma Sk_inv k : (k <= 9)%nat ->
  reachable (Sk k) /\
  (forall b, In b H -> g (Sk k) b = lst k b) /\
  (forall a j o, In a H -> (1 <= j <= k)%nat -> In o (lout j a) -> In (a, o) (emitted (Sk k))).
Proof.
  induction k as [|k IH]; intros Hk.
  - split; [apply reach_init|]. split; [reflexivity|]. intros; lia.
  - destruct IH as (R & G & E); [lia|]. rewrite Sk_succ.
    destruct (phase_run (S k) H (Sk k) H_nodup R) as (R' & G' & _ & E1 & E2).
    { apply stage_adm; [lia|]. intros a j o Ha Hj Ho. apply (E a j o Ha); [lia|exact Ho]. }
    fold (phase (S k)) in *.
    assert (Hrun : forall b, In b H -> lrun (cfgOf b) (g (Sk k) b) (stage (S k) b) = (lst (S k) b, lout (S k) b)).
    { intros b Hb. rewrite (G b Hb). pose proof (stage_run (S k) b Hb) as Hr. simpl Nat.sub in Hr.
      rewrite Nat.sub_0_r in Hr. apply Hr. lia. }
    split; [exact R'|]. split.
    + intros b Hb. rewrite (G' b Hb), (Hrun b Hb). reflexivity.
    + intros a j o Ha Hj Ho. destruct (Nat.eq_dec j (S k)) as [->|Hne].
      * apply (E2 a o Ha). rewrite (Hrun a Ha). exact Ho.
      * apply E1. apply (E a j o Ha); [lia|exact Ho].
Qed.

Lemma fair_no_ctxdone x : ~ In (x, CtxDone) fair.
Proof.
  unfold fair. intros Hin. apply in_flat_map in Hin. destruct Hin as (k & Hk & Hin).
  unfold phase in Hin. apply in_flat_map in Hin. destruct Hin as (b & Hb & Hin).
  unfold on in Hin. apply in_map_iff in Hin. destruct Hin as (ev & E & Hev). inversion E; subst b ev.
  apply in_seq in Hk.
  assert (K : (k = 1 \/ k = 2 \/ k = 3 \/ k = 4 \/ k = 5 \/ k = 6 \/ k = 7 \/ k = 8 \/ k = 9)%nat) by lia.
  destruct K as [->|[->|[->|[->|[->|[->|[->|[->| ->]]]]]]]]; unfold stage in Hev.
  - destruct Hev as [E'|[]]; discriminate.
  - apply in_map_iff in Hev. destruct Hev as (a & E' & _). discriminate.
  - destruct Hev as [E'|[]]; discriminate.
  - apply in_map_iff in Hev. destruct Hev as (a & E' & _). discriminate.
  - destruct Hev as [E'|Hev]; [discriminate|]. apply in_app_iff in Hev. destruct Hev as [Hev|[E'|[]]]; [|discriminate].
    apply in_map_iff in Hev. destruct Hev as (a & E' & _). discriminate.
  - apply in_map_iff in Hev. destruct Hev as (a & E' & _). discriminate.
  - apply in_map_iff in Hev. destruct Hev as (a & E' & _). discriminate.
  - apply repeat_spec in Hev. discriminate.
  - apply repeat_spec in Hev. discriminate.
Qed.

Theorem live :
  reachable (grun ginit fair) /\
  (forall b, In b H -> In (b, Continue (isort H)) (emitted (grun ginit fair))) /\
  (forall x, ~ In (x, CtxDone) fair).
Proof.
  destruct (Sk_inv 9 (le_n 9)) as (R & _ & E).
  split; [exact R|]. split; [|exact fair_no_ctxdone].
  intros b Hb. apply (E b 9%nat); [exact Hb|lia|left; reflexivity].
Qed.
End Live.
