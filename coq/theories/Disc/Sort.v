(* Sorting of identifier lists (Go: sortIntSlice = sort.Sort on []uint16) and the facts about strictly
   sorted lists that the membership-synchronisation proofs use. *)
Require Import TSS.Base.Base.
From Coq Require Import Sorted Permutation.
From Coq Require Import ZifyN ZifyBool.

Fixpoint insert (x : N) (l : list N) : list N :=
  match l with
  | [] => [x]
  | y :: t => if x <=? y then x :: l else y :: insert x t
  end.

Fixpoint isort (l : list N) : list N :=
  match l with
  | [] => []
  | x :: t => insert x (isort t)
  end.

Notation ssorted := (StronglySorted N.lt).

Lemma insert_perm x l : Permutation (insert x l) (x :: l).
Proof.
  induction l as [|y t IH]; simpl; [reflexivity|].
  destruct (x <=? y); [reflexivity|].
  rewrite IH. apply perm_swap.
Qed.

Lemma isort_perm l : Permutation (isort l) l.
Proof.
  induction l as [|x t IH]; simpl; [reflexivity|].
  rewrite insert_perm. constructor. exact IH.
Qed.

Lemma isort_in l x : In x (isort l) <-> In x l.
Proof.
  split; intros H.
  - eapply Permutation_in; [apply isort_perm|exact H].
  - eapply Permutation_in; [apply Permutation_sym, isort_perm|exact H].
Qed.

Lemma isort_length l : length (isort l) = length l.
Proof. apply Permutation_length, isort_perm. Qed.

Lemma isort_nodup l : NoDup l -> NoDup (isort l).
Proof. intros H. eapply Permutation_NoDup; [apply Permutation_sym, isort_perm|exact H]. Qed.

Lemma insert_in x l y : In y (insert x l) <-> y = x \/ In y l.
Proof.
  split; intros H.
  - apply (Permutation_in _ (insert_perm x l)) in H. simpl in H. intuition.
  - apply (Permutation_in _ (Permutation_sym (insert_perm x l))). simpl. intuition.
Qed.

Lemma insert_ssorted x l : ssorted l -> ~ In x l -> ssorted (insert x l).
Proof.
  induction l as [|y t IH]; simpl; intros Hs Hn.
  - constructor; constructor.
  - apply StronglySorted_inv in Hs. destruct Hs as [Ht Hy].
    destruct (x <=? y) eqn:E.
    + assert (x < y) by (assert (x <> y) by intuition; lia).
      constructor; [constructor; assumption|].
      constructor; [assumption|]. rewrite Forall_forall in *. intros z Hz. specialize (Hy z Hz). lia.
    + constructor; [apply IH; intuition|].
      rewrite Forall_forall in *. intros z Hz. apply insert_in in Hz. destruct Hz as [->|Hz]; [lia|auto].
Qed.

Lemma isort_ssorted l : NoDup l -> ssorted (isort l).
Proof.
  induction l as [|x t IH]; simpl; intros H; [constructor|].
  inversion H; subst. apply insert_ssorted; [auto|]. rewrite isort_in. assumption.
Qed.

Lemma ssorted_nodup l : ssorted l -> NoDup l.
Proof.
  induction l as [|x t IH]; intros H; [constructor|].
  apply StronglySorted_inv in H. destruct H as [Ht Hx]. constructor; [|auto].
  intros Hin. rewrite Forall_forall in Hx. specialize (Hx x Hin). lia.
Qed.

Lemma ssorted_sorted l : ssorted l -> Sorted N.lt l.
Proof. apply StronglySorted_Sorted. Qed.

(* two strictly sorted lists with the same elements are the same list *)
Lemma ssorted_ext l1 : forall l2, ssorted l1 -> ssorted l2 -> (forall x, In x l1 <-> In x l2) -> l1 = l2.
Proof.
  induction l1 as [|a t1 IH]; intros [|b t2] H1 H2 Hx.
  - reflexivity.
  - exfalso. apply (proj2 (Hx b)). left; reflexivity.
  - exfalso. apply (proj1 (Hx a)). left; reflexivity.
  - apply StronglySorted_inv in H1. destruct H1 as [Ht1 Ha].
    apply StronglySorted_inv in H2. destruct H2 as [Ht2 Hb].
    rewrite Forall_forall in Ha, Hb.
    assert (a = b).
    { destruct (proj1 (Hx a) (or_introl eq_refl)) as [E|Hin]; [congruence|].
      destruct (proj2 (Hx b) (or_introl eq_refl)) as [E|Hin']; [congruence|].
      specialize (Ha b Hin'). specialize (Hb a Hin). lia. }
    subst b. f_equal. apply IH; auto.
    intros x. split; intros Hin.
    + destruct (proj1 (Hx x) (or_intror Hin)) as [E|H']; [|exact H'].
      subst x. specialize (Ha a Hin). lia.
    + destruct (proj2 (Hx x) (or_intror Hin)) as [E|H']; [|exact H'].
      subst x. specialize (Hb a Hin). lia.
Qed.

(* ... in particular when one is included in the other and they have the same length *)
Lemma ssorted_incl_length l1 l2 :
  ssorted l1 -> ssorted l2 -> incl l1 l2 -> length l1 = length l2 -> l1 = l2.
Proof.
  intros H1 H2 Hi Hl. apply ssorted_ext; auto.
  intros x. split; [apply Hi|].
  apply NoDup_length_incl; [apply ssorted_nodup; auto|lia|exact Hi].
Qed.

Lemma isort_id l : ssorted l -> isort l = l.
Proof.
  intros H. apply ssorted_ext; [apply isort_ssorted, ssorted_nodup, H|exact H|apply isort_in].
Qed.

Lemma isort_ext l1 l2 : NoDup l1 -> NoDup l2 -> (forall x, In x l1 <-> In x l2) -> isort l1 = isort l2.
Proof.
  intros H1 H2 Hx. apply ssorted_ext; try (apply isort_ssorted; assumption).
  intros x. rewrite !isort_in. apply Hx.
Qed.
