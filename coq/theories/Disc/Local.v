(* Facts about one step of one member (Disc/Model.v), independent of the rest of the system. *)
Require Import TSS.Base.Base TSS.Disc.Sort TSS.Disc.Model.
From Coq Require Import Arith.

(* ---------- association lists ---------- *)
Lemma set_view_in k v l k' v' : In (k', v') (set_view k v l) -> In (k', v') l \/ (k' = k /\ v' = v).
Proof.
  induction l as [|[a b] t IH]; simpl.
  - intros [H|[]]. inversion H; auto.
  - destruct (k =? a) eqn:E; simpl.
    + intros [H|H]; [inversion H; auto|auto].
    + intros [H|H]; [auto|]. destruct (IH H); auto.
Qed.

Lemma set_view_keys_in k v l x : In x (keys (set_view k v l)) <-> x = k \/ In x (keys l).
Proof.
  unfold keys. induction l as [|[a b] t IH]; simpl.
  - intuition.
  - destruct (k =? a) eqn:E; simpl.
    + apply N.eqb_eq in E. subst a. intuition.
    + rewrite IH. intuition.
Qed.

Lemma set_view_nodup k v l : NoDup (keys l) -> NoDup (keys (set_view k v l)).
Proof.
  unfold keys. induction l as [|[a b] t IH]; simpl; intros H.
  - constructor; [intros []|constructor].
  - inversion H; subst. destruct (k =? a) eqn:E; simpl.
    + apply N.eqb_eq in E. subst a. constructor; assumption.
    + constructor; [|apply IH; assumption].
      intros Hin. apply (set_view_keys_in k v t a) in Hin. apply N.eqb_neq in E.
      destruct Hin as [Hin|Hin]; [congruence|contradiction].
Qed.

Lemma set_view_has k v l : In (k, v) (set_view k v l).
Proof.
  induction l as [|[a b] t IH]; simpl; [auto|].
  destruct (k =? a); simpl; auto.
Qed.

Lemma lookup_in k l v : lookup k l = Some v -> In (k, v) l.
Proof.
  induction l as [|[a b] t IH]; simpl; [discriminate|].
  destruct (k =? a) eqn:E; [apply N.eqb_eq in E; intros H; inversion H; subst; auto|auto].
Qed.

Lemma in_keys k v (l : list (N * view)) : In (k, v) l -> In k (keys l).
Proof. intros H. unfold keys. apply in_map_iff. exists (k, v). auto. Qed.

Lemma keys_in k (l : list (N * view)) : In k (keys l) -> exists v, In (k, v) l.
Proof. unfold keys. intros H. apply in_map_iff in H. destruct H as ([a b] & E & H). simpl in E. subst. eauto. Qed.

Lemma in_lookup k v l : NoDup (keys l) -> In (k, v) l -> lookup k l = Some v.
Proof.
  unfold keys. induction l as [|[a b] t IH]; simpl; intros Hn Hin; [contradiction|].
  inversion Hn; subst. destruct Hin as [Hin|Hin].
  - inversion Hin; subst. rewrite N.eqb_refl. reflexivity.
  - destruct (k =? a) eqn:E; [|auto]. apply N.eqb_eq in E. subst a.
    exfalso. apply H1. apply (in_keys k v t Hin).
Qed.

Lemma lookup_none k l : lookup k l = None -> ~ In k (keys l).
Proof.
  unfold keys. induction l as [|[a b] t IH]; simpl; [auto|].
  destruct (k =? a) eqn:E; [discriminate|]. apply N.eqb_neq in E. intuition.
Qed.

Lemma keys_app (a b : list (N * view)) : keys (a ++ b) = keys a ++ keys b.
Proof. unfold keys. apply map_app. Qed.

(* ---------- acceptance ---------- *)
Lemma accepts_spec c from ty t id v :
  accepts c from (ty, (t, id), v) = true <-> t = topic c /\ id = from /\ from <> self c /\ In from (membership c).
Proof.
  unfold accepts. rewrite !andb_true_iff, negb_true_iff, N.eqb_neq, !N.eqb_eq, memb_spec.
  split; [intros (((A & B) & C) & D); subst; auto|intros (A & B & C & D); subst; auto].
Qed.

(* ---------- intersectedView ---------- *)
Lemma all_eq_spec mv s : all_eq mv s = true <-> forall k v, In (k, v) s -> v = mv.
Proof.
  unfold all_eq. rewrite forallb_forall. split.
  - intros H k v Hin. apply view_eqb_spec. apply (H (k, v) Hin).
  - intros H [k v] Hin. simpl. apply view_eqb_spec. eauto.
Qed.

Lemma last_view_all_eq mv s : all_eq mv s = true -> s <> [] -> last_view s = mv.
Proof.
  intros H Hne. rewrite all_eq_spec in H. unfold last_view.
  destruct (exists_last Hne) as (s0 & [k v] & ->).
  rewrite map_app. simpl. rewrite last_last. apply (H k). apply in_app_iff. right. left. reflexivity.
Qed.

Lemma intersected_nonempty c s ks :
  intersected c s ks <> [] ->
  intersected c s ks = my_view_of c (if fix_onepass c then keys s else ks) /\
  all_eq (my_view_of c (if fix_onepass c then keys s else ks)) s = true.
Proof.
  unfold intersected. cbv zeta.
  set (mv := my_view_of c (if fix_onepass c then keys s else ks)).
  intros H.
  destruct (all_eq mv s) eqn:E; [|congruence].
  split; [|reflexivity].
  destruct (fix_solo c); [reflexivity|].
  destruct s as [|x s']; [exfalso; apply H; reflexivity|].
  apply last_view_all_eq; [exact E|discriminate].
Qed.

Lemma intersected_solo c s ks : fix_solo c = false -> intersected c s ks <> [] -> s <> [].
Proof.
  unfold intersected. cbv zeta. intros Hf H ->. rewrite Hf in H. simpl in H. apply H. reflexivity.
Qed.

Lemma my_view_of_in c ks x : In x (my_view_of c ks) <-> x = self c \/ In x ks.
Proof. unfold my_view_of. rewrite isort_in. simpl. intuition. Qed.

Lemma my_view_of_ssorted c ks : NoDup ks -> ~ In (self c) ks -> ssorted (my_view_of c ks).
Proof. intros H1 H2. apply isort_ssorted. constructor; assumption. Qed.

(* ---------- outputs of one step ---------- *)
Definition conts (o : list output) : list view :=
  flat_map (fun x => match x with Continue L => [L] | _ => [] end) o.
Definition errs (o : list output) : list unit :=
  flat_map (fun x => match x with Return_err _ => [tt] | _ => [] end) o.

Lemma in_conts o L : In L (conts o) <-> In (Continue L) o.
Proof.
  unfold conts. rewrite in_flat_map. split.
  - intros (x & Hx & Hin). destruct x; simpl in Hin; try contradiction. destruct Hin as [->|[]]. exact Hx.
  - intros H. exists (Continue L). split; [exact H|left; reflexivity].
Qed.

Lemma in_errs o : In tt (errs o) <-> exists e, In (Return_err e) o.
Proof.
  unfold errs. rewrite in_flat_map. split.
  - intros (x & Hx & Hin). destruct x; simpl in Hin; try contradiction. eauto.
  - intros [e H]. exists (Return_err e). split; [exact H|left; reflexivity].
Qed.

Ltac inv_pair H := inversion H; subst; clear H.

(* case analysis of a step: every match in the body of [step] / [decide] is split *)
Ltac split_step H :=
  repeat match type of H with
         | context [match ?x with _ => _ end] =>
             match type of x with
             | sumbool _ _ => destruct x
             | _ => let E := fresh "E" in destruct x eqn:E
             end
         end.

Lemma step_views c st ev st' o : step c st ev = (st', o) ->
  incl (keys (views st)) (keys (views st')) /\
  (NoDup (keys (views st)) -> NoDup (keys (views st'))) /\
  (forall k v, In (k, v) (views st') ->
     In (k, v) (views st) \/
     exists ty, ty <> MResp /\ ev = Handle k (ty, (topic c, k), v) /\ k <> self c /\ In k (membership c)).
Proof.
  intros Hs.
  assert (Same : views st' = views st ->
     incl (keys (views st)) (keys (views st')) /\
     (NoDup (keys (views st)) -> NoDup (keys (views st'))) /\
     (forall k v, In (k, v) (views st') ->
        In (k, v) (views st) \/
        exists ty, ty <> MResp /\ ev = Handle k (ty, (topic c, k), v) /\ k <> self c /\ In k (membership c))).
  { intros ->. split; [apply incl_refl|]. split; auto. }
  destruct ev; unfold step, decide, progress, set_ph, set_views, set_pass in Hs.
  - (* Handle *)
    destruct m as [[ty [t id]] v0].
    destruct (stopped st); [inv_pair Hs; apply Same; reflexivity|].
    destruct (accepts c from (ty, (t, id), v0)) eqn:A; [|inv_pair Hs; apply Same; reflexivity].
    apply accepts_spec in A. destruct A as (-> & -> & Hne & Hm).
    assert (Upd : views st' = set_view from v0 (views st) -> ty <> MResp ->
       incl (keys (views st)) (keys (views st')) /\
       (NoDup (keys (views st)) -> NoDup (keys (views st'))) /\
       (forall k v, In (k, v) (views st') ->
          In (k, v) (views st) \/
          exists ty0, ty0 <> MResp /\ Handle from (ty, (topic c, from), v0) = Handle k (ty0, (topic c, k), v)
                      /\ k <> self c /\ In k (membership c))).
    { intros E Hty. rewrite E.
      split. { intros x Hx. apply set_view_keys_in. auto. }
      split. { apply set_view_nodup. }
      intros k v Hin. apply set_view_in in Hin. destruct Hin as [Hin|[-> ->]]; [auto|].
      right. exists ty. auto. }
    destruct ty.
    + inv_pair Hs. apply Upd; [reflexivity|discriminate].
    + destruct (fix_queries c && negb (memb from (queried st))); inv_pair Hs; (apply Upd; [reflexivity|discriminate]).
    + destruct (memb from (responded st)); inv_pair Hs; apply Same; reflexivity.
  - split_step Hs; inv_pair Hs; apply Same; reflexivity.
  - split_step Hs; inv_pair Hs; apply Same; reflexivity.
  - split_step Hs; inv_pair Hs; apply Same; reflexivity.
  - split_step Hs; inv_pair Hs; apply Same; reflexivity.
  - split_step Hs; inv_pair Hs; apply Same; reflexivity.
  - split_step Hs; inv_pair Hs; apply Same; reflexivity.
  - split_step Hs; inv_pair Hs; apply Same; reflexivity.
  - split_step Hs; inv_pair Hs; apply Same; reflexivity.
Qed.

Ltac pass_same Hc :=
  first [ split; [first [assumption | congruence | apply Hc; congruence]|left; first [assumption | congruence]]
        | exfalso; match type of Hc with ?A -> _ => assert (X : A) by congruence; specialize (Hc X); discriminate end ].

(* the Range in progress *)
Lemma step_pass c st ev st' o : step c st ev = (st', o) ->
  (pass st <> None -> ph st = Collect) ->
  forall pend' s', pass st' = Some (pend', s') ->
    ph st' = Collect /\
    (pass st = Some (pend', s') \/
     (ev = Pass1 /\ pend' = keys (views st) /\ s' = []) \/
     (exists k v s, ev = Visit k /\ pass st = Some (pend', s) /\ s' = s ++ [(k, v)] /\
                    In (k, v) (views st) /\ ~ In k (keys s))).
Proof.
  intros Hs Hc pend' s' Hp.
  destruct ev; unfold step, decide, progress, set_ph, set_views, set_pass in Hs.
  - destruct m as [[ty [t id]] v0].
    split_step Hs; inv_pair Hs; simpl in *; pass_same Hc.
  - split_step Hs; inv_pair Hs; simpl in *; try congruence; pass_same Hc.
  - destruct (ph st) eqn:E; inv_pair Hs; simpl in *;
      try pass_same Hc.
    inv_pair Hp. split; [reflexivity|]. right. left. auto.
  - destruct (ph st) eqn:E; try (inv_pair Hs; pass_same Hc).
    destruct (pass st) as [[pend s]|] eqn:Ep; [|inv_pair Hs; congruence].
    destruct (lookup k (views st)) as [v|] eqn:El; [|inv_pair Hs; split; [assumption|left; congruence]].
    destruct (memb k (keys s)) eqn:Em; inv_pair Hs; [split; [assumption|left; congruence]|].
    simpl in Hp. inv_pair Hp. split; [reflexivity|]. right. right.
    exists k, v, s. split; [reflexivity|]. split; [reflexivity|]. split; [reflexivity|].
    split; [apply lookup_in; assumption|]. intros Hin. apply memb_spec in Hin. congruence.
  - split_step Hs; inv_pair Hs; simpl in *; try congruence; pass_same Hc.
  - split_step Hs; inv_pair Hs; simpl in *; try congruence; pass_same Hc.
  - split_step Hs; inv_pair Hs; simpl in *; try congruence; pass_same Hc.
  - split_step Hs; inv_pair Hs; simpl in *; try congruence; pass_same Hc.
  - split_step Hs; inv_pair Hs; simpl in *; try congruence; pass_same Hc.
Qed.

Lemma step_send c st ev st' o to ty v : step c st ev = (st', o) -> In (SendTo to ty v) o -> ty = MResp.
Proof.
  intros Hs Hin. destruct ev; unfold step, decide, progress, set_ph, set_views, set_pass in Hs;
    try destruct m as [[ty0 [t id]] v0];
    split_step Hs; inv_pair Hs; simpl in Hin; intuition (try discriminate; try congruence).
Qed.

(* an announcement (membership or query broadcast) is the own view, or the agreed list *)
Lemma step_bcast c st ev st' o ty v : step c st ev = (st', o) -> In (Bcast ty v) o ->
  (ev = Tick /\ ty = MMember /\ pass st = None /\ ph st = Collect /\ v = my_view c st /\ st' = st) \/
  (ev = Pass2 /\ ty = MQuery /\ exists pend s,
      pass st = Some (pend, s) /\ ph st = Collect /\ (forall k, In k pend -> In k (keys s)) /\
      v = isort (intersected c s (keys (views st))) /\
      length (intersected c s (keys (views st))) = expected c /\
      views st' = views st /\ pass st' = None /\
      (ph st' = Done v \/ exists a q, ph st' = Query v a q)).
Proof.
  intros Hs Hin. destruct ev; unfold step, decide, progress, set_ph, set_views, set_pass in Hs.
  - destruct m as [[ty0 [t id]] v0].
    split_step Hs; inv_pair Hs; simpl in Hin; intuition discriminate.
  - left. split_step Hs; inv_pair Hs; simpl in Hin; try contradiction.
    destruct Hin as [Hin|[]]. inv_pair Hin. repeat split; reflexivity.
  - split_step Hs; inv_pair Hs; simpl in Hin; contradiction.
  - split_step Hs; inv_pair Hs; simpl in Hin; contradiction.
  - right. split; [reflexivity|].
    destruct (ph st) eqn:Ep; try (inv_pair Hs; simpl in Hin; contradiction).
    destruct (pass st) as [[pend s]|] eqn:Epa; [|inv_pair Hs; simpl in Hin; contradiction].
    destruct (forallb (fun k : N => memb k (keys s)) pend) eqn:Ef; [|inv_pair Hs; simpl in Hin; contradiction].
    assert (Hpend : forall k, In k pend -> In k (keys s)).
    { intros k Hk. rewrite forallb_forall in Ef. apply memb_spec. auto. }
    set (m := intersected c s (keys (views st))) in *.
    destruct (Nat.leb (expected c) (length m)) eqn:E1; [|inv_pair Hs; simpl in Hin; contradiction].
    destruct (Nat.ltb (expected c) (length m)) eqn:E2.
    { inv_pair Hs. simpl in Hin. intuition discriminate. }
    apply Nat.leb_le in E1. apply Nat.ltb_ge in E2.
    assert (Hlen : length m = expected c) by lia.
    destruct (expected c - 1)%nat eqn:E3; inv_pair Hs; simpl in Hin.
    + destruct Hin as [Hin|[Hin|[]]]; [|discriminate]. inv_pair Hin.
      split; [reflexivity|]. exists pend, s. simpl. repeat split; auto.
    + destruct Hin as [Hin|[]]. inv_pair Hin.
      split; [reflexivity|]. exists pend, s. simpl. repeat split; eauto.
  - split_step Hs; inv_pair Hs; simpl in Hin; intuition discriminate.
  - split_step Hs; inv_pair Hs; simpl in Hin; intuition discriminate.
  - split_step Hs; inv_pair Hs; simpl in Hin; intuition discriminate.
  - split_step Hs; inv_pair Hs; simpl in Hin; intuition discriminate.
Qed.

(* phases and the two final outputs *)
Inductive phase_move (c : cfg) (st : state) (ev : event) (st' : state) (o : list output) : Prop :=
| PM_same : ph st' = ph st -> conts o = [] -> errs o = [] -> phase_move c st ev st' o
| PM_query L a q : ph st = Collect -> ev = Pass2 -> ph st' = Query L a q ->
    q = (if fix_queries c then expected c - 1 else 0)%nat -> In (Bcast MQuery L) o ->
    conts o = [] -> errs o = [] -> phase_move c st ev st' o
| PM_done1 L : ph st = Collect -> ev = Pass2 -> ph st' = Done L -> (expected c - 1 = 0)%nat -> In (Bcast MQuery L) o ->
    conts o = [L] -> errs o = [] -> phase_move c st ev st' o
| PM_take L a q a' q' : ph st = Query L a q -> (ev = TakeResponse \/ ev = TakeQuery) -> ph st' = Query L a' q' ->
    conts o = [] -> errs o = [] -> phase_move c st ev st' o
| PM_done L a q : ph st = Query L a q -> (ev = TakeResponse \/ ev = TakeQuery) -> ph st' = Done L ->
    conts o = [L] -> errs o = [] -> phase_move c st ev st' o
| PM_fail : (ph st = Collect \/ exists L a q, ph st = Query L a q) -> (ev = Pass2 \/ ev = CtxDone) ->
    ph st' = Failed -> conts o = [] -> errs o = [tt] -> phase_move c st ev st' o.

Ltac pm_same := apply PM_same; [simpl; congruence|reflexivity|reflexivity].

Lemma step_phase c st ev st' o : step c st ev = (st', o) -> phase_move c st ev st' o.
Proof.
  intros Hs. destruct ev; unfold step, decide, progress, set_ph, set_views, set_pass in Hs.
  - destruct m as [[ty0 [t id]] v0].
    split_step Hs; inv_pair Hs; pm_same.
  - split_step Hs; inv_pair Hs; pm_same.
  - split_step Hs; inv_pair Hs; pm_same.
  - split_step Hs; inv_pair Hs; pm_same.
  - destruct (ph st) eqn:Ep; try (inv_pair Hs; pm_same).
    destruct (pass st) as [[pend s]|] eqn:Epa; [|inv_pair Hs; pm_same].
    destruct (forallb _ pend); [|inv_pair Hs; pm_same].
    destruct (Nat.leb _ _); [|inv_pair Hs; pm_same].
    destruct (Nat.ltb _ _).
    { inv_pair Hs. apply PM_fail; auto. }
    destruct (expected c - 1)%nat eqn:E1; inv_pair Hs.
    + eapply PM_done1; simpl; eauto.
    + eapply PM_query; simpl; eauto. rewrite E1. reflexivity.
  - destruct (ph st) eqn:Ep; try (inv_pair Hs; pm_same).
    destruct (chan st) as [|r rest]; [inv_pair Hs; pm_same|].
    destruct (view_eqb r members); [|inv_pair Hs; pm_same].
    destruct (pred acks_left), queries_left; inv_pair Hs;
      first [eapply PM_done; simpl; eauto; fail | eapply PM_take; simpl; eauto].
  - destruct (ph st) eqn:Ep; try (inv_pair Hs; pm_same).
    destruct (qchan st) as [|[p l] rest]; [inv_pair Hs; pm_same|].
    destruct (view_eqb l members); [|inv_pair Hs; pm_same].
    destruct acks_left, (pred queries_left); inv_pair Hs;
      first [eapply PM_done; simpl; eauto; fail | eapply PM_take; simpl; eauto].
  - destruct (ph st) eqn:Ep; inv_pair Hs; try (pm_same).
    + apply PM_fail; auto.
    + apply PM_fail; eauto.
  - split_step Hs; inv_pair Hs; pm_same.
Qed.

(* the query side: who queried, what waits in the channel, whose matching query was taken *)
Inductive q_move (c : cfg) (st : state) (ev : event) (st' : state) (o : list output) : Prop :=
| QM_same : queried st' = queried st -> qchan st' = qchan st -> qacc st' = qacc st ->
    (forall L a q, ph st = Query L a q ->
       (exists a', ph st' = Query L a' q) \/ (ph st' = Done L /\ q = 0%nat) \/ ph st' = Failed) ->
    q_move c st ev st' o
| QM_push p l : fix_queries c = true -> ev = Handle p (MQuery, (topic c, p), l) -> p <> self c -> In p (membership c) ->
    ~ In p (queried st) -> queried st' = p :: queried st -> qchan st' = qchan st ++ [(p, l)] ->
    qacc st' = qacc st -> ph st' = ph st -> o = [SendTo p MResp (my_view c st')] ->
    q_move c st ev st' o
| QM_take L a q p l rest : ev = TakeQuery -> ph st = Query L a q -> qchan st = (p, l) :: rest ->
    qchan st' = rest -> queried st' = queried st ->
    ((l = L /\ qacc st' = p :: qacc st /\
      (ph st' = Query L a (pred q) \/ (ph st' = Done L /\ pred q = 0%nat))) \/
     (l <> L /\ qacc st' = qacc st /\ ph st' = ph st)) ->
    q_move c st ev st' o.

Ltac qm_fin :=
  let L := fresh "L" in let a := fresh "a" in let q := fresh "q" in let H := fresh "H" in
  intros L a q H; simpl in *;
  try match goal with E : ph ?s = _ |- _ => lazymatch E with H => fail | _ => rewrite E in H end end;
  try discriminate; try (inversion H; subst; clear H);
  first [left; eexists; reflexivity | right; left; split; reflexivity | right; right; reflexivity | eauto].
Ltac qm_same := apply QM_same; [reflexivity|reflexivity|reflexivity|qm_fin].

Lemma step_q c st ev st' o : step c st ev = (st', o) -> q_move c st ev st' o.
Proof.
  intros Hs. destruct ev; unfold step, decide, progress, set_ph, set_views, set_pass in Hs.
  - destruct m as [[ty0 [t id]] v0].
    destruct (stopped st); [inv_pair Hs; qm_same|].
    destruct (accepts c from (ty0, (t, id), v0)) eqn:A; [|inv_pair Hs; qm_same].
    apply accepts_spec in A. destruct A as (-> & -> & Hne & Hm).
    destruct ty0.
    + inv_pair Hs. qm_same.
    + destruct (fix_queries c && negb (memb from (queried st))) eqn:E; inv_pair Hs; [|qm_same].
      apply andb_true_iff in E. destruct E as [Efq E]. apply negb_true_iff in E.
      eapply QM_push; simpl; eauto. intros Hin. apply memb_spec in Hin. congruence.
    + destruct (memb from (responded st)); inv_pair Hs; qm_same.
  - split_step Hs; inv_pair Hs; qm_same.
  - split_step Hs; inv_pair Hs; qm_same.
  - split_step Hs; inv_pair Hs; qm_same.
  - split_step Hs; inv_pair Hs; qm_same.
  - destruct (ph st) eqn:Ep; try (inv_pair Hs; qm_same).
    destruct (chan st) as [|r rest]; [inv_pair Hs; qm_same|].
    destruct (view_eqb r members); [|inv_pair Hs; qm_same].
    destruct (pred acks_left), queries_left; inv_pair Hs; qm_same.
  - destruct (ph st) eqn:Ep; try (inv_pair Hs; qm_same).
    destruct (qchan st) as [|[p l] rest] eqn:Eq; [inv_pair Hs; qm_same|].
    destruct (view_eqb l members) eqn:El.
    + apply view_eqb_spec in El. subst l.
      destruct acks_left, (pred queries_left) eqn:Eq'; inv_pair Hs;
        (eapply QM_take; simpl; eauto; left; split; [reflexivity|]; split; [reflexivity|]; rewrite ?Eq'; auto).
    + inv_pair Hs. eapply QM_take; simpl; eauto. right. split; [|auto].
      intros ->. assert (view_eqb members members = true) by (apply view_eqb_spec; reflexivity). congruence.
  - destruct (ph st) eqn:Ep; inv_pair Hs; qm_same.
  - split_step Hs; inv_pair Hs; qm_same.
Qed.

(* a member that is no longer served neither changes nor emits anything *)
Lemma step_stopped c st ev : stopped st = true -> (ph st = Failed \/ exists L, ph st = Done L) ->
  step c st ev = (st, []).
Proof.
  intros Hst Hp. destruct ev; unfold step; rewrite ?Hst; try reflexivity;
    destruct Hp as [Hp|[L Hp]]; rewrite Hp; try reflexivity; destruct st; simpl in *; subst; reflexivity.
Qed.

Lemma step_stop_flag c st ev st' o : step c st ev = (st', o) -> stopped st' = true ->
  stopped st = true \/ (ev = Stop /\ (ph st = Failed \/ exists L, ph st = Done L) /\ ph st' = ph st).
Proof.
  intros Hs Hf. destruct ev; unfold step, decide, progress, set_ph, set_views, set_pass in Hs;
    try destruct m as [[ty0 [t id]] v0];
    split_step Hs; inv_pair Hs; simpl in *; try congruence; auto; right; split; auto; split; eauto.
Qed.

(* only HandleMessage sends point-to-point messages *)
Lemma step_send_handle c st ev st' o to ty v : step c st ev = (st', o) -> In (SendTo to ty v) o ->
  exists m, ev = Handle to m.
Proof.
  intros Hs Hin. destruct ev; unfold step, decide, progress, set_ph, set_views, set_pass in Hs;
    try destruct m as [[ty0 [t id]] v0];
    split_step Hs; inv_pair Hs; simpl in Hin; intuition (try discriminate).
  - inversion H; subst. eauto.
  - inversion H; subst. eauto.
Qed.

(* the list a member proceeds with: shape *)
Lemma query_list_shape c s ks L :
  NoDup ks -> ~ In (self c) ks -> NoDup (keys s) -> incl (keys s) ks ->
  L = isort (intersected c s ks) -> length (intersected c s ks) = expected c ->
  ssorted L /\ length L = expected c /\ (1 <= expected c -> In (self c) L)%nat /\ incl L (self c :: ks) /\
  (fix_onepass c = true -> forall b, In b L -> b <> self c -> In (b, L) s) /\
  (fix_solo c = false -> L = [] \/ (2 <= length L)%nat).
Proof.
  intros Hnd Hself Hnds Hincl -> Hlen.
  destruct (intersected c s ks) as [|x m'] eqn:Ei.
  { simpl in *. split; [constructor|]. split; [exact Hlen|]. split; [lia|]. split; [intros ? []|].
    split; [intros _ ? []|auto]. }
  assert (Hne : intersected c s ks <> []) by (rewrite Ei; discriminate).
  destruct (intersected_nonempty c s ks Hne) as [Hm Hall]. rewrite Ei in Hm.
  set (K := if fix_onepass c then keys s else ks) in *.
  assert (HK : NoDup K /\ ~ In (self c) K /\ incl K ks).
  { unfold K. destruct (fix_onepass c); [|split; [auto|split; [auto|apply incl_refl]]].
    split; [auto|]. split; [intros H; apply Hself, Hincl, H|exact Hincl]. }
  destruct HK as (HK1 & HK2 & HK3).
  assert (Hs : ssorted (my_view_of c K)) by (apply my_view_of_ssorted; assumption).
  rewrite Hm, (isort_id _ Hs).
  split; [exact Hs|]. split; [rewrite <- Hm; exact Hlen|].
  split. { intros _. apply my_view_of_in. auto. }
  split. { intros x0 Hx. apply my_view_of_in in Hx. destruct Hx as [->|Hx]; [left; reflexivity|right; apply HK3, Hx]. }
  split.
  { intros Hfx b Hb Hbs. apply my_view_of_in in Hb. destruct Hb as [Hb|Hb]; [contradiction|].
    unfold K in Hb. rewrite Hfx in Hb. destruct (keys_in _ _ Hb) as [v Hv].
    rewrite all_eq_spec in Hall. rewrite <- (Hall b v Hv). exact Hv. }
  intros Hfs. right. pose proof (intersected_solo c s ks Hfs Hne) as Hs0.
  destruct s as [|[k v] s']; [congruence|].
  assert (HkK : In k K).
  { unfold K. destruct (fix_onepass c); [left; reflexivity|apply Hincl; left; reflexivity]. }
  unfold my_view_of. rewrite isort_length. simpl. destruct K; [contradiction|simpl; lia].
Qed.

(* how a member fails: the context ended, or intersectedView returned more members than expected *)
Lemma step_fail c st ev st' o : step c st ev = (st', o) -> ph st' = Failed ->
  ph st = Failed \/ ev = CtxDone \/
  (ev = Pass2 /\ exists pend s, pass st = Some (pend, s) /\ ph st = Collect /\
     (expected c < length (intersected c s (keys (views st))))%nat).
Proof.
  intros Hs Hf. destruct (step_phase _ _ _ _ _ Hs) as [Hsame _ _|L a q Hc Hev Hq|L Hc Hev Hd|L a q a' q' Hq Hev Hq'|L a q Hq Hev Hd|Hq [Hev|Hev] _ _ _];
    try congruence; try (left; congruence); auto.
  right. right. split; [exact Hev|]. subst ev. unfold step, decide, progress, set_ph, set_views, set_pass in Hs.
  destruct Hq as [Hq|(L & a & q & Hq)]; rewrite Hq in Hs; [|inv_pair Hs; congruence].
  destruct (pass st) as [[pend s]|] eqn:Epa; [|inv_pair Hs; congruence].
  destruct (forallb _ pend); [|inv_pair Hs; congruence].
  destruct (Nat.leb _ _) eqn:E1; [|inv_pair Hs; simpl in Hf; discriminate].
  destruct (Nat.ltb _ _) eqn:E2.
  - apply Nat.ltb_lt in E2. exists pend, s. auto.
  - destruct (expected c - 1)%nat; inv_pair Hs; simpl in Hf; discriminate.
Qed.

Lemma intersected_length_bound c s ks :
  NoDup ks -> ~ In (self c) ks -> NoDup (keys s) -> incl (keys s) ks ->
  (length (intersected c s ks) <= 1 + length ks)%nat.
Proof.
  intros Hnd Hself Hnds Hincl.
  destruct (intersected c s ks) as [|x m'] eqn:Ei; [simpl; lia|].
  assert (Hne : intersected c s ks <> []) by (rewrite Ei; discriminate).
  destruct (intersected_nonempty c s ks Hne) as [Hm _]. rewrite <- Ei, Hm.
  unfold my_view_of. rewrite isort_length. simpl.
  destruct (fix_onepass c); [|lia].
  pose proof (NoDup_incl_length Hnds Hincl). lia.
Qed.

(* the responses channel: only an accepted response fills it, only TakeResponse empties it *)
Lemma step_chan c st ev st' o : step c st ev = (st', o) ->
  chan st' = chan st \/
  (exists from tg v, ev = Handle from (MResp, tg, v) /\ accepts c from (MResp, tg, v) = true) \/
  (ev = TakeResponse /\ exists r, chan st = r :: chan st').
Proof.
  intros Hs. destruct ev; unfold step, decide, progress, set_ph, set_views, set_pass in Hs;
    try destruct m as [[ty0 tg0] v0].
  - destruct (stopped st); [inv_pair Hs; auto|].
    destruct (accepts c from (ty0, tg0, v0)) eqn:A; [|inv_pair Hs; auto].
    destruct ty0; try (split_step Hs; inv_pair Hs; simpl; auto; fail).
    right. left. eauto.
  - split_step Hs; inv_pair Hs; simpl; auto.
  - split_step Hs; inv_pair Hs; simpl; auto.
  - split_step Hs; inv_pair Hs; simpl; auto.
  - split_step Hs; inv_pair Hs; simpl; auto.
  - destruct (ph st); try (inv_pair Hs; auto; fail).
    destruct (chan st) as [|r rest] eqn:Ec; [inv_pair Hs; auto|].
    right. right. split; [reflexivity|]. exists r. split_step Hs; inv_pair Hs; reflexivity.
  - split_step Hs; inv_pair Hs; simpl; auto.
  - split_step Hs; inv_pair Hs; simpl; auto.
  - split_step Hs; inv_pair Hs; simpl; auto.
Qed.

Lemma step_take_empty c st : chan st = [] -> step c st TakeResponse = (st, []).
Proof. intros H. unfold step. rewrite H. destruct (ph st); reflexivity. Qed.
Lemma step_takeq_empty c st : qchan st = [] -> step c st TakeQuery = (st, []).
Proof. intros H. unfold step. rewrite H. destruct (ph st); reflexivity. Qed.
