(* Executable instances of the membership-synchronisation model:
   (a) what the pinned upstream code did (variant flags false) -- the witnesses behind the two fix: commits;
   (b) the same scripts on the repaired variant;
   (c) non-vacuity of the global theorems: three honest members with boundary identifiers complete. *)
Require Import TSS.Base.Base TSS.Disc.Sort TSS.Disc.Model TSS.Disc.Local TSS.Disc.Global TSS.Disc.Exec.

(* ---- (a) the two-pass race -------------------------------------------------------------------------
   Configured membership {1,2,3,4}, expected 3; 1 and 2 are honest, 3 and 4 Byzantine.
   3 tells member 1 that the view is [1;2;3].  Member 1 starts intersectedView: the first pass sees that single
   announced view.  Now the first (authentic!) announcement of honest member 2 arrives at 1, carrying 2's view
   at that time, [2].  Upstream, the second pass (myMemberViewSorted) then finds the keys {2,3}: own view
   [1;2;3] equals the only view the first pass saw, so 1 proceeds with [1;2;3]; 3 and 4 confirm it.
   Member 2 meanwhile is told [2;3;4] by 3 and 4 and completes with that.  2 is in 1's list, both are honest,
   both completed, with different lists. *)
Definition T := 7.
Definition m_ann (from : N) (v : view) : event := Handle from (MMember, (T, from), v).
Definition m_resp (from : N) (v : view) : event := Handle from (MResp, (T, from), v).

Definition race_script : list gevent :=
  [ (1, m_ann 3 [1;2;3]);
    (1, Pass1); (1, Visit 3);
    (2, Tick);                           (* honest 2 broadcasts its view [2] *)
    (1, m_ann 2 [2]);                    (* ... which lands at 1 between the two passes *)
    (1, Pass2);                          (* 1 proceeds with [1;2;3] and broadcasts the query *)
    (1, m_resp 3 [1;2;3]); (1, m_resp 4 [1;2;3]); (1, TakeResponse); (1, TakeResponse);
    (2, m_ann 3 [2;3;4]); (2, m_ann 4 [2;3;4]);
    (2, Pass1); (2, Visit 3); (2, Visit 4); (2, Pass2);
    (2, m_resp 3 [2;3;4]); (2, m_resp 4 [2;3;4]); (2, TakeResponse); (2, TakeResponse) ].

Definition race_run (fx : bool) := grun T [1;2;3;4] 3 fx false (ginit) race_script.

Lemma agree_tree_refuted :
  run_ok T [1;2;3;4] 3 false false [1;2] ginit race_script = true /\
  conts_of (race_run false) 1 = [[1;2;3]] /\ conts_of (race_run false) 2 = [[2;3;4]] /\ In 2 [1;2;3].
Proof. vm_compute. repeat split; auto. Qed.

Lemma agree_tree_refuted_reachable :
  reachable T [1;2;3;4] 3 false false (honestL [1;2]) (race_run false) /\
  In (1, Continue [1;2;3]) (emitted (race_run false)) /\ In (2, Continue [2;3;4]) (emitted (race_run false)).
Proof.
  split.
  - unfold race_run. apply (run_ok_reachable T [1;2;3;4] 3 false false [1;2] race_script ginit); [apply reach_init|].
    vm_compute. reflexivity.
  - split; [apply (proj1 (in_gconts 1 (emitted (race_run false)) [1;2;3]))|apply (proj1 (in_gconts 2 (emitted (race_run false)) [2;3;4]))];
      vm_compute; auto.
Qed.

(* (b) repaired: the own view is built from the keys of the same pass, [1;3], which differs from [1;2;3] *)
Lemma agree_fixed_same_script :
  run_ok T [1;2;3;4] 3 true false [1;2] ginit race_script = true /\
  conts_of (race_run true) 1 = [] /\ conts_of (race_run true) 2 = [[2;3;4]].
Proof. vm_compute. repeat split; auto. Qed.

(* ---- (a') a member that expects only itself -------------------------------------------------------- *)
Definition solo_script : list event := [Tick; Pass1; Pass2; Tick; Pass1; Pass2].
Definition solo_cfg (fs : bool) := mkCfg 5 T [5;6] 1 true fs.

Lemma solo_tree_stuck : ph (fst (lrun (solo_cfg false) state0 solo_script)) = Collect.
Proof. reflexivity. Qed.

Lemma solo_fixed_continues h t mem fx :
  lrun (mkCfg h t mem 1 fx true) state0 [Pass1; Pass2] =
  (mkSt [] [] [] None (Done [h]), [Bcast MQuery [h]; Continue [h]]).
Proof. destruct fx; reflexivity. Qed.

(* expected count 0: upstream invoked the continuation with an empty list; repaired: "too many members" *)
Lemma zero_tree_continues_empty :
  snd (lrun (mkCfg 5 T [5;6] 0 true false) state0 [Pass1; Pass2]) = [Bcast MQuery []; Continue []].
Proof. reflexivity. Qed.
Lemma zero_fixed_errors :
  snd (lrun (mkCfg 5 T [5;6] 0 true true) state0 [Pass1; Pass2]) = [Return_err].
Proof. reflexivity. Qed.

(* ---- "otherwise it returns an error" cannot be read as "more than expected members => everybody fails":
   with three honest members and expected 2, the two that find each other first complete with [1;2]
   (valid and in agreement); this is inherent in the protocol, not a defect. *)
Definition many_script : list gevent :=
  [ (1, Tick); (2, Tick); (1, m_ann 2 [2]); (2, m_ann 1 [1]);
    (1, Tick); (2, Tick); (1, m_ann 2 [1;2]); (2, m_ann 1 [1;2]);
    (1, Pass1); (1, Visit 2); (1, Pass2); (2, Pass1); (2, Visit 1); (2, Pass2);
    (2, Handle 1 (MQuery, (T, 1), [1;2])); (1, Handle 2 (MQuery, (T, 2), [1;2]));
    (1, m_resp 2 [1;2]); (2, m_resp 1 [1;2]); (1, TakeResponse); (2, TakeResponse);
    (3, Tick); (3, m_ann 1 [1;2]); (3, m_ann 2 [1;2]); (3, Pass1); (3, Visit 1); (3, Visit 2); (3, Pass2); (3, CtxDone) ].
Definition many_run := grun T [1;2;3] 2 true true ginit many_script.

Lemma too_many_some_continue :
  run_ok T [1;2;3] 2 true true [1;2;3] ginit many_script = true /\
  conts_of many_run 1 = [[1;2]] /\ conts_of many_run 2 = [[1;2]] /\
  conts_of many_run 3 = [] /\ errs_of many_run 3 = 1%nat.
Proof. vm_compute. repeat split; auto. Qed.

(* ---- (c) non-vacuity: members 0, 256 and 65535 of the configured {0, 7, 256, 65535}, expected 3 -------- *)
Definition V3 : view := [0; 256; 65535].
Definition ok_script : list gevent :=
  [ (0, Tick); (256, Tick); (65535, Tick);
    (0, m_ann 256 [256]); (0, m_ann 65535 [65535]); (256, m_ann 0 [0]); (256, m_ann 65535 [65535]);
    (65535, m_ann 0 [0]); (65535, m_ann 256 [256]);
    (0, Tick); (256, Tick); (65535, Tick);
    (0, m_ann 256 V3); (0, m_ann 65535 V3); (256, m_ann 0 V3); (256, m_ann 65535 V3);
    (65535, m_ann 0 V3); (65535, m_ann 256 V3);
    (0, Pass1); (0, Visit 256); (0, Visit 65535); (0, Pass2);
    (256, Pass1); (256, Visit 0); (256, Visit 65535); (256, Pass2);
    (65535, Pass1); (65535, Visit 0); (65535, Visit 256); (65535, Pass2);
    (256, Handle 0 (MQuery, (T, 0), V3)); (65535, Handle 0 (MQuery, (T, 0), V3));
    (0, Handle 256 (MQuery, (T, 256), V3)); (65535, Handle 256 (MQuery, (T, 256), V3));
    (0, Handle 65535 (MQuery, (T, 65535), V3)); (256, Handle 65535 (MQuery, (T, 65535), V3));
    (0, m_resp 256 V3); (0, m_resp 65535 V3); (256, m_resp 0 V3); (256, m_resp 65535 V3);
    (65535, m_resp 0 V3); (65535, m_resp 256 V3);
    (0, TakeResponse); (0, TakeResponse); (256, TakeResponse); (256, TakeResponse);
    (65535, TakeResponse); (65535, TakeResponse) ].
Definition H3 : list N := [0; 256; 65535].
Definition M3 : list N := [0; 7; 256; 65535].
Definition ok_run := grun T M3 3 true true ginit ok_script.

Lemma three_honest_complete :
  reachable T M3 3 true true (honestL H3) ok_run /\
  In (0, Continue V3) (emitted ok_run) /\ In (256, Continue V3) (emitted ok_run) /\
  In (65535, Continue V3) (emitted ok_run).
Proof.
  split.
  - unfold ok_run. apply (run_ok_reachable T M3 3 true true H3 ok_script ginit); [apply reach_init|].
    vm_compute. reflexivity.
  - split; [apply (proj1 (in_gconts 0 (emitted ok_run) V3))|split;
      [apply (proj1 (in_gconts 256 (emitted ok_run) V3))|apply (proj1 (in_gconts 65535 (emitted ok_run) V3))]];
      vm_compute; auto.
Qed.
