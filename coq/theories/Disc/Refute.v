(* Executable instances of the membership-synchronisation model:
   (a) what the pinned upstream code did (variant flags false) -- the witnesses behind the two fix: commits;
   (b) the same scripts on the repaired variant;
   (c) non-vacuity of the global theorems: three honest members with boundary identifiers complete. *)
Require Import TSS.Base.Base TSS.Disc.Sort TSS.Disc.Model TSS.Disc.Local TSS.Disc.Global TSS.Disc.Exec.

(* ---- (a) the two-pass race -------------------------------------------------------------------------
   Configured membership {1,2,3,4}, expected 3; 1 and 2 are honest, 3 and 4 Byzantine.
   3 tells member 1 that the view is [1;2;3].  Member 1 starts intersectedView: the first pass sees that single
   announced view.  Now the first (authentic!) announcement of honest member 2 arrives at 1, carrying 2's view
   at that time, [2].  Upstream, the second pass (myMemberViewSorted) then finds the keys {2,3}: own view
   [1;2;3] equals the only view the first pass saw, so 1 proceeds with [1;2;3]; 3 and 4 confirm it.
   Member 2 meanwhile is told [2;3;4] by 3 and 4 and completes with that.  2 is in 1's list, both are honest,
   both completed, with different lists. *)
Definition T := 7.
Definition m_ann (from : N) (v : view) : event := Handle from (MMember, (T, from), v).
Definition m_resp (from : N) (v : view) : event := Handle from (MResp, (T, from), v).

Definition race_script : list gevent :=
  [ (1, m_ann 3 [1;2;3]);
    (1, Pass1); (1, Visit 3);
    (2, Tick);                           (* honest 2 broadcasts its view [2] *)
    (1, m_ann 2 [2]);                    (* ... which lands at 1 between the two passes *)
    (1, Pass2);                          (* 1 proceeds with [1;2;3] and broadcasts the query *)
    (1, m_resp 3 [1;2;3]); (1, m_resp 4 [1;2;3]); (1, TakeResponse); (1, TakeResponse);
    (2, m_ann 3 [2;3;4]); (2, m_ann 4 [2;3;4]);
    (2, Pass1); (2, Visit 3); (2, Visit 4); (2, Pass2);
    (2, m_resp 3 [2;3;4]); (2, m_resp 4 [2;3;4]); (2, TakeResponse); (2, TakeResponse) ].

Definition race_run (fx : bool) := grun T [1;2;3;4] 3 fx false false (ginit) race_script.

Lemma agree_tree_refuted :
  run_ok T [1;2;3;4] 3 false false false [1;2] ginit race_script = true /\
  conts_of (race_run false) 1 = [[1;2;3]] /\ conts_of (race_run false) 2 = [[2;3;4]] /\ In 2 [1;2;3].
Proof. vm_compute. repeat split; auto. Qed.

Lemma agree_tree_refuted_reachable :
  reachable T [1;2;3;4] 3 false false false (honestL [1;2]) (race_run false) /\
  In (1, Continue [1;2;3]) (emitted (race_run false)) /\ In (2, Continue [2;3;4]) (emitted (race_run false)).
Proof.
  split.
  - unfold race_run. apply (run_ok_reachable T [1;2;3;4] 3 false false false [1;2] race_script ginit); [apply reach_init|].
    vm_compute. reflexivity.
  - split; [apply (proj1 (in_gconts 1 (emitted (race_run false)) [1;2;3]))|apply (proj1 (in_gconts 2 (emitted (race_run false)) [2;3;4]))];
      vm_compute; auto.
Qed.

(* (b) repaired: the own view is built from the keys of the same pass, [1;3], which differs from [1;2;3] *)
Lemma agree_fixed_same_script :
  run_ok T [1;2;3;4] 3 true false false [1;2] ginit race_script = true /\
  conts_of (race_run true) 1 = [] /\ conts_of (race_run true) 2 = [[2;3;4]].
Proof. vm_compute. repeat split; auto. Qed.

(* ---- (a') a member that expects only itself -------------------------------------------------------- *)
Definition solo_script : list event := [Tick; Pass1; Pass2; Tick; Pass1; Pass2].
Definition solo_cfg (fs : bool) := mkCfg 5 T [5;6] 1 true fs true.

Lemma solo_tree_stuck : ph (fst (lrun (solo_cfg false) state0 solo_script)) = Collect.
Proof. reflexivity. Qed.

Lemma solo_fixed_continues h t mem fx fq :
  lrun (mkCfg h t mem 1 fx true fq) state0 [Pass1; Pass2] =
  (mkSt [] [] [] [] [] [] false None (Done [h]), [Bcast MQuery [h]; Continue [h]]).
Proof. destruct fx, fq; reflexivity. Qed.

(* expected count 0: upstream invoked the continuation with an empty list; repaired: "too many members" *)
Lemma zero_tree_continues_empty :
  snd (lrun (mkCfg 5 T [5;6] 0 true false true) state0 [Pass1; Pass2]) = [Bcast MQuery []; Continue []].
Proof. reflexivity. Qed.
Lemma zero_fixed_errors :
  snd (lrun (mkCfg 5 T [5;6] 0 true true true) state0 [Pass1; Pass2]) = [Return_err ETooMany].
Proof. reflexivity. Qed.

(* ---- "otherwise it returns an error" cannot be read as "more than expected members => everybody fails":
   with three honest members and expected 2, the two that find each other first complete with [1;2]
   (valid and in agreement); this is inherent in the protocol, not a defect. *)
Definition many_script : list gevent :=
  [ (1, Tick); (2, Tick); (1, m_ann 2 [2]); (2, m_ann 1 [1]);
    (1, Tick); (2, Tick); (1, m_ann 2 [1;2]); (2, m_ann 1 [1;2]);
    (1, Pass1); (1, Visit 2); (1, Pass2); (2, Pass1); (2, Visit 1); (2, Pass2);
    (2, Handle 1 (MQuery, (T, 1), [1;2])); (1, Handle 2 (MQuery, (T, 2), [1;2]));
    (1, m_resp 2 [1;2]); (2, m_resp 1 [1;2]); (1, TakeResponse); (2, TakeResponse); (1, TakeQuery); (2, TakeQuery);
    (3, Tick); (3, m_ann 1 [1;2]); (3, m_ann 2 [1;2]); (3, Pass1); (3, Visit 1); (3, Visit 2); (3, Pass2); (3, CtxDone) ].
Definition many_run := grun T [1;2;3] 2 true true true ginit many_script.

Lemma too_many_some_continue :
  run_ok T [1;2;3] 2 true true true [1;2;3] ginit many_script = true /\
  conts_of many_run 1 = [[1;2]] /\ conts_of many_run 2 = [[1;2]] /\
  conts_of many_run 3 = [] /\ errs_of many_run 3 = 1%nat.
Proof. vm_compute. repeat split; auto. Qed.

(* ---- (c) non-vacuity: members 0, 256 and 65535 of the configured {0, 7, 256, 65535}, expected 3 -------- *)
Definition V3 : view := [0; 256; 65535].
Definition ok_script : list gevent :=
  [ (0, Tick); (256, Tick); (65535, Tick);
    (0, m_ann 256 [256]); (0, m_ann 65535 [65535]); (256, m_ann 0 [0]); (256, m_ann 65535 [65535]);
    (65535, m_ann 0 [0]); (65535, m_ann 256 [256]);
    (0, Tick); (256, Tick); (65535, Tick);
    (0, m_ann 256 V3); (0, m_ann 65535 V3); (256, m_ann 0 V3); (256, m_ann 65535 V3);
    (65535, m_ann 0 V3); (65535, m_ann 256 V3);
    (0, Pass1); (0, Visit 256); (0, Visit 65535); (0, Pass2);
    (256, Pass1); (256, Visit 0); (256, Visit 65535); (256, Pass2);
    (65535, Pass1); (65535, Visit 0); (65535, Visit 256); (65535, Pass2);
    (256, Handle 0 (MQuery, (T, 0), V3)); (65535, Handle 0 (MQuery, (T, 0), V3));
    (0, Handle 256 (MQuery, (T, 256), V3)); (65535, Handle 256 (MQuery, (T, 256), V3));
    (0, Handle 65535 (MQuery, (T, 65535), V3)); (256, Handle 65535 (MQuery, (T, 65535), V3));
    (0, m_resp 256 V3); (0, m_resp 65535 V3); (256, m_resp 0 V3); (256, m_resp 65535 V3);
    (65535, m_resp 0 V3); (65535, m_resp 256 V3);
    (0, TakeResponse); (0, TakeResponse); (256, TakeResponse); (256, TakeResponse);
    (65535, TakeResponse); (65535, TakeResponse);
    (0, TakeQuery); (0, TakeQuery); (256, TakeQuery); (256, TakeQuery); (65535, TakeQuery); (65535, TakeQuery) ].
Definition H3 : list N := [0; 256; 65535].
Definition M3 : list N := [0; 7; 256; 65535].
Definition ok_run := grun T M3 3 true true true ginit ok_script.

Lemma three_honest_complete :
  reachable T M3 3 true true true (honestL H3) ok_run /\
  In (0, Continue V3) (emitted ok_run) /\ In (256, Continue V3) (emitted ok_run) /\
  In (65535, Continue V3) (emitted ok_run).
Proof.
  split.
  - unfold ok_run. apply (run_ok_reachable T M3 3 true true true H3 ok_script ginit); [apply reach_init|].
    vm_compute. reflexivity.
  - split; [apply (proj1 (in_gconts 0 (emitted ok_run) V3))|split;
      [apply (proj1 (in_gconts 256 (emitted ok_run) V3))|apply (proj1 (in_gconts 65535 (emitted ok_run) V3))]];
      vm_compute; auto.
Qed.

(* ---- (d) teardown: the orchestrator stops serving the topic as soon as Synchronize has returned --------------
   Members 1 and 2, expected 2.  2 announces [1;2] and that reaches 1, whose own announcement of [1;2] is still on its
   way; 1 completes its first loop and queries; 2 answers (HandleMessage answers in any phase, and the query carries
   the list, so 2 can now finish its first loop too).  Upstream (fix_queries = false) 1 is through as soon as 2's
   acknowledgement is in: continuation, return, Stop.  Now 2 queries -- and nobody answers. *)
Definition m_query (from : N) (v : view) : event := Handle from (MQuery, (T, from), v).
Definition td_script : list gevent :=
  [ (1, Tick); (2, Tick); (1, m_ann 2 [2]); (2, m_ann 1 [1]);
    (1, Tick); (2, Tick); (1, m_ann 2 [1;2]);
    (1, Pass1); (1, Visit 2); (1, Pass2);
    (2, m_query 1 [1;2]);                 (* 2 stores [1;2] for 1 and acknowledges *)
    (1, m_resp 2 [1;2]); (1, TakeResponse);
    (1, Stop);                            (* has an effect only if 1 is through *)
    (2, Pass1); (2, Visit 1); (2, Pass2); (* 2 finishes its first loop and queries *)
    (1, m_query 2 [1;2]) ].               (* ... a member that is no longer served *)
Definition td_run (fq : bool) := grun T [1;2] 2 true true fq ginit td_script.

Lemma teardown_tree_witness :
  run_ok T [1;2] 2 true true false [1;2] ginit td_script = true /\
  conts_of (td_run false) 1 = [[1;2]] /\ stopped (g (td_run false) 1) = true /\
  ph (g (td_run false) 2) = Query [1;2] 1 0 /\ chan (g (td_run false) 2) = [] /\
  (forall v, ~ In (1, SendTo 2 MResp v) (emitted (td_run false))) /\
  snd (step (cfgOf T [1;2] 2 true true false 2) (g (td_run false) 2) CtxDone) = [Return_err EAcks].
Proof.
  vm_compute. repeat split; auto.
  intros v H. repeat (destruct H as [H|H]; [discriminate|]). exact H.
Qed.

(* repaired: after the acknowledgement 1 still waits for 2's query, Stop does nothing, the query is answered, and
   both complete *)
Definition td_rest : list gevent :=
  [ (1, TakeQuery); (1, Stop); (2, m_resp 1 [1;2]); (2, TakeResponse); (2, TakeQuery); (2, Stop) ].
Lemma teardown_fixed_same_script :
  run_ok T [1;2] 2 true true true [1;2] ginit (td_script ++ td_rest) = true /\
  conts_of (td_run true) 1 = [] /\ ph (g (td_run true) 1) = Query [1;2] 0 1 /\ stopped (g (td_run true) 1) = false /\
  conts_of (grun T [1;2] 2 true true true ginit (td_script ++ td_rest)) 1 = [[1;2]] /\
  conts_of (grun T [1;2] 2 true true true ginit (td_script ++ td_rest)) 2 = [[1;2]].
Proof. vm_compute. repeat split; auto. Qed.

(* three members, each torn down immediately after its continuation, in an order in which the fast ones stop while
   the slow one is still in its first loop: all complete (repaired variant) *)
Definition td3_script : list gevent :=
  [ (1, Tick); (2, Tick); (3, Tick);
    (1, m_ann 2 [2]); (1, m_ann 3 [3]); (2, m_ann 1 [1]); (2, m_ann 3 [3]); (3, m_ann 1 [1]); (3, m_ann 2 [2]);
    (1, Tick); (2, Tick); (3, Tick);
    (1, m_ann 2 [1;2;3]); (1, m_ann 3 [1;2;3]); (2, m_ann 1 [1;2;3]); (2, m_ann 3 [1;2;3]);
    (1, Pass1); (1, Visit 2); (1, Visit 3); (1, Pass2);
    (2, Pass1); (2, Visit 1); (2, Visit 3); (2, Pass2);
    (2, m_query 1 [1;2;3]); (3, m_query 1 [1;2;3]); (1, m_query 2 [1;2;3]); (3, m_query 2 [1;2;3]);
    (1, m_resp 2 [1;2;3]); (1, m_resp 3 [1;2;3]); (2, m_resp 1 [1;2;3]); (2, m_resp 3 [1;2;3]);
    (1, TakeResponse); (1, TakeResponse); (1, TakeQuery); (1, Stop);   (* 1 has both acknowledgements, but only 2's query *)
    (2, TakeResponse); (2, TakeResponse); (2, TakeQuery); (2, Stop);
    (3, Pass1); (3, Visit 1); (3, Visit 2); (3, Pass2);               (* the slow member finishes its first loop *)
    (1, m_query 3 [1;2;3]); (2, m_query 3 [1;2;3]);
    (1, TakeQuery); (1, Stop); (2, TakeQuery); (2, Stop);             (* now they are through, and stop *)
    (3, m_resp 1 [1;2;3]); (3, m_resp 2 [1;2;3]);
    (3, TakeResponse); (3, TakeResponse); (3, TakeQuery); (3, TakeQuery); (3, Stop) ].
Definition td3_run := grun T [1;2;3] 3 true true true ginit td3_script.
Lemma teardown_three_complete :
  run_ok T [1;2;3] 3 true true true [1;2;3] ginit td3_script = true /\
  conts_of td3_run 1 = [[1;2;3]] /\ conts_of td3_run 2 = [[1;2;3]] /\ conts_of td3_run 3 = [[1;2;3]] /\
  stopped (g td3_run 1) = true /\ stopped (g td3_run 2) = true /\ stopped (g td3_run 3) = true.
Proof. vm_compute. repeat split; auto. Qed.

(* ... and no continuation of that run lets 2 complete: whatever happens after the witness -- any admissible events,
   any deliveries -- member 2 never invokes its continuation; it can only end through its deadline. *)
Notation ext_td := (extends T [1;2] 2 true true false (honestL [1;2])).
Notation reach_td := (reachable T [1;2] 2 true true false (honestL [1;2])).
Notation cfg_td := (cfgOf T [1;2] 2 true true false).

Definition td_inv (S : gstate) : Prop :=
  reach_td S /\ stopped (g S 1) = true /\ (forall v, ~ In (1, SendTo 2 MResp v) (emitted S)) /\
  chan (g S 2) = [] /\ qchan (g S 2) = [] /\
  (ph (g S 2) = Query [1;2] 1 0 \/ ph (g S 2) = Failed) /\ gconts 2 (emitted S) = [].

Lemma td_inv_init : td_inv (td_run false).
Proof.
  destruct teardown_tree_witness as (Hok & _ & Hst & Hph & Hch & Hns & _).
  split. { unfold td_run. apply (run_ok_reachable T [1;2] 2 true true false [1;2] td_script ginit); [apply reach_init|exact Hok]. }
  split; [exact Hst|]. split; [exact Hns|]. split; [exact Hch|].
  split; [vm_compute; reflexivity|]. split; [left; exact Hph|vm_compute; reflexivity].
Qed.

Lemma td_inv_step S ge : td_inv S -> admissible T [1;2] 2 true true false (honestL [1;2]) S ge -> td_inv (gstep T [1;2] 2 true true false S ge).
Proof.
  intros (HR & Hst & Hns & Hch & Hqc & Hph & Hco) Hadm.
  assert (HR' : reach_td (gstep T [1;2] 2 true true false S ge)) by (apply reach_step; assumption).
  split; [exact HR'|]. pose proof (reachable_Inv _ _ _ _ _ _ _ _ HR) as HI.
  destruct ge as [x ev]. destruct Hadm as [Hx Hauth].
  assert (Hx12 : x = 1 \/ x = 2) by (destruct Hx as [<-|[<-|[]]]; auto).
  unfold gstep. destruct (step (cfg_td x) (g S x) ev) as [st' o] eqn:Hs. simpl.
  destruct Hx12 as [-> | ->].
  - (* the stopped member: nothing happens *)
    assert (H1 : honestL [1;2] 1) by (left; reflexivity).
    rewrite (step_stopped _ _ ev Hst (I_stop _ _ _ _ _ _ _ _ HI 1 H1 Hst)) in Hs. inversion Hs; subst st' o.
    simpl. rewrite app_nil_r. destruct (N.eq_dec 1 1); [|congruence]. destruct (N.eq_dec 2 1); [discriminate|].
    repeat split; assumption.
  - destruct (N.eq_dec 1 2); [discriminate|]. destruct (N.eq_dec 2 2); [|congruence].
    split; [exact Hst|].
    split. { intros v Hin. apply in_emitted_step in Hin. destruct Hin as [Hin|[E _]]; [eapply Hns; eauto|discriminate]. }
    rewrite gconts_app, Hco, N.eqb_refl. simpl.
    (* the responses channel stays empty: a response accepted as coming from 1 would have to be one 1 sent *)
    assert (Hch' : chan st' = []).
    { destruct (step_chan _ _ _ _ _ Hs) as [E|[(from & tg & v & Hev & Hacc)|(_ & r & E)]]; [congruence| |congruence].
      exfalso. subst ev. destruct tg as [t id]. pose proof Hacc as Hacc'. apply accepts_spec in Hacc'. simpl in Hacc'.
      destruct Hacc' as (_ & _ & Hne & Hm). assert (from = 1) by (destruct Hm as [<-|[<-|[]]]; congruence). subst from.
      assert (H1 : honestL [1;2] 1) by (left; reflexivity).
      specialize (Hauth H1 Hacc). simpl in Hauth. destruct Hauth as [Hb|Hb].
      - destruct (I_bc _ _ _ _ _ _ _ _ HI 1 MResp v H1 Hb) as [Hty _]. congruence.
      - eapply Hns; eauto. }
    assert (Hqc' : qchan st' = []).
    { destruct (step_q _ _ _ _ _ Hs) as [_ Q2 _ _|p l Hf|L a q p l rest _ _ Q _ _ _]; [congruence|discriminate|congruence]. }
    split; [exact Hch'|]. split; [exact Hqc'|].
    destruct (step_phase _ _ _ _ _ Hs) as [Hsame Hc0 _|L a q Hc|L Hc|L a q a' q' _ Hev _ _ _|L a q _ Hev _ _ _|_ _ Hf Hc0 _].
    + rewrite Hsame, Hc0. auto.
    + destruct Hph; congruence.
    + destruct Hph; congruence.
    + destruct Hev as [-> | ->]; [rewrite (step_take_empty _ _ Hch) in Hs|rewrite (step_takeq_empty _ _ Hqc) in Hs];
        inversion Hs; subst; auto.
    + destruct Hev as [-> | ->]; [rewrite (step_take_empty _ _ Hch) in Hs|rewrite (step_takeq_empty _ _ Hqc) in Hs];
        inversion Hs; subst; auto.
    + rewrite Hf, Hc0. auto.
Qed.

Theorem teardown_tree_refuted S' : ext_td (td_run false) S' -> conts_of S' 2 = [].
Proof.
  intros Hext. assert (H : td_inv S'); [|apply H].
  induction Hext as [|S' ge _ IH Hadm]; [apply td_inv_init|apply td_inv_step; assumption].
Qed.

Lemma teardown_tree_refuted_all :
  run_ok T [1;2] 2 true true false [1;2] ginit td_script = true /\
  conts_of (td_run false) 1 = [[1;2]] /\ stopped (g (td_run false) 1) = true /\
  ph (g (td_run false) 2) = Query [1;2] 1 0 /\
  snd (step (cfgOf T [1;2] 2 true true false 2) (g (td_run false) 2) CtxDone) = [Return_err EAcks] /\
  forall S', ext_td (td_run false) S' -> conts_of S' 2 = [].
Proof.
  destruct teardown_tree_witness as (A & B & C & D & _ & _ & E).
  exact (conj A (conj B (conj C (conj D (conj E teardown_tree_refuted))))).
Qed.

(* ---- teardown safety needs the run to be honest: queries, like acknowledgements, are counted from ANY configured
   peer.  Configured {1,2,3,4}, expected 3, honest 1, 2, 3, Byzantine 4: 4 queries and acknowledges [1;2;3] at 1, so
   1 is through (and torn down) with the queries of 2 and 4, while honest 3 -- a member of its list -- has not even
   finished its first loop and will never get an acknowledgement from 1. *)
Definition tdb_script : list gevent :=
  [ (1, Tick); (2, Tick); (3, Tick);
    (1, m_ann 2 [2]); (1, m_ann 3 [3]); (2, m_ann 1 [1]); (2, m_ann 3 [3]); (3, m_ann 1 [1]); (3, m_ann 2 [2]);
    (1, Tick); (2, Tick); (3, Tick);
    (1, m_ann 2 [1;2;3]); (1, m_ann 3 [1;2;3]); (2, m_ann 1 [1;2;3]); (2, m_ann 3 [1;2;3]);
    (1, Pass1); (1, Visit 2); (1, Visit 3); (1, Pass2);
    (2, m_query 1 [1;2;3]);
    (2, Pass1); (2, Visit 1); (2, Visit 3); (2, Pass2);
    (1, m_query 2 [1;2;3]); (1, m_resp 2 [1;2;3]);
    (1, m_query 4 [1;2;3]); (1, m_resp 4 [1;2;3]);          (* the Byzantine member *)
    (1, TakeResponse); (1, TakeResponse); (1, TakeQuery); (1, TakeQuery); (1, Stop) ].
Definition tdb_run := grun T [1;2;3;4] 3 true true true ginit tdb_script.
Lemma teardown_byzantine_witness :
  run_ok T [1;2;3;4] 3 true true true [1;2;3] ginit tdb_script = true /\
  conts_of tdb_run 1 = [[1;2;3]] /\ stopped (g tdb_run 1) = true /\ ph (g tdb_run 3) = Collect /\
  (forall v, ~ In (1, SendTo 3 MResp v) (emitted tdb_run)).
Proof.
  vm_compute. repeat split; auto.
  intros v H. repeat (destruct H as [H|H]; [discriminate|]). exact H.
Qed.
