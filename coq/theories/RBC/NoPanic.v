(* C10 for the dispatcher + reliable-broadcast path: no byte string from a peer makes handle_mpc panic, and what is
   rejected leaves the state untouched. *)
Require Import TSS.Base.Base TSS.Wire.Codec TSS.Wire.CodecFacts TSS.RBC.Model TSS.RBC.Scheme.
From Coq Require Import Arith.

Section NoPanic.
Variable hash : bytes -> bytes.
Variable classify : bytes -> outcome (N * bool).
Hypothesis classify_total : forall p, classify p <> Panic.     (* the classifier itself does not panic *)

Lemma to_rbc_msg_total from data : to_rbc_msg hash classify wire_fixed from data <> Panic.
Proof.
  unfold to_rbc_msg. pose proof (decode_mpc_fixed_total data) as Hd.
  destruct (decode_mpc wire_fixed data) as [[d s r|p]| |]; try discriminate; try congruence.
  pose proof (classify_total p) as Hc. destruct (classify p) as [[r b]| |]; try discriminate; try congruence.
  destruct p; [discriminate|destruct b; discriminate].
Qed.

Definition out_panics (o : bout) : bool := match o with PanicSelfAck => true | _ => false end.

(* the only panic left in rbc.Receiver is the explicit one for an acknowledgement "from myself", which the transport
   never delivers (a node does not connect to itself): excluded by from <> self *)
Lemma register_outputs c st k v mm x :
  In x (snd (register N.eq_dec bytes_dec c st k v mm)) -> out_panics x = false.
Proof.
  unfold register. destruct (pin st (ks k) (kr k)) as [d'|].
  - destruct (bytes_dec d' (kd k)); cbn [snd]; [|intros []].
    match goal with |- In x (if ?c then _ else _) -> _ => destruct c end; intros Hin; [destruct Hin as [<-|[]]; reflexivity|destruct Hin].
  - cbn [snd]. match goal with |- In x (if ?c then _ else _) -> _ => destruct c end; intros Hin; [destruct Hin as [<-|[]]; reflexivity|destruct Hin].
Qed.

Lemma receive_no_panic c st from m :
  from <> self c -> forall x, In x (snd (breceive hash c st from m)) -> out_panics x = false.
Proof.
  intros Hne x. unfold breceive, receive. destruct (negb (mem N.eq_dec from (allowed c))); simpl; [intros []|].
  destruct (halted st); simpl; [intros []|]. destruct m as [d s r|p r|p].
  - destruct (N.eq_dec from (self c)); [contradiction|]. destruct (N.eq_dec s (self c)); simpl; [intros []|].
    destruct (fix_selfack c && (if N.eq_dec from s then true else false)); simpl; [intros []|].
    apply register_outputs.
  - destruct (register N.eq_dec bytes_dec c st (mkKey (hash p) from r) (self c) (Some p)) as [st' o] eqn:E. simpl.
    intros Hin. apply in_app_iff in Hin. destruct Hin as [Hin|[<-|[]]]; [|reflexivity].
    apply (register_outputs c st (mkKey (hash p) from r) (self c) (Some p)). rewrite E. exact Hin.
  - simpl. intros [<-|[]]. reflexivity.
Qed.

Definition hout_panics (o : hout) : bool := match o with HPanic => true | HOut x => out_panics x end.

Theorem handle_mpc_no_panic c st from data :
  from <> self c -> forall x, In x (snd (handle_mpc hash classify wire_fixed c st from data)) -> hout_panics x = false.
Proof.
  intros Hne x. unfold handle_mpc. pose proof (to_rbc_msg_total from data) as Ht.
  destruct (to_rbc_msg hash classify wire_fixed from data) as [m| |]; [|intros []|congruence].
  destruct (breceive hash c st from m) as [st' o] eqn:E. simpl. intros Hin. apply in_map_iff in Hin.
  destruct Hin as (y & <- & Hy). simpl. apply (receive_no_panic c st from m Hne). rewrite E. exact Hy.
Qed.

(* isolation: malformed input, input the classifier rejects, and input from a node that is not a participant leave the
   instance exactly as it was and produce nothing *)
Theorem rejected_unchanged c st from data :
  to_rbc_msg hash classify wire_fixed from data = Err ->
  handle_mpc hash classify wire_fixed c st from data = (st, []).
Proof. intros H. unfold handle_mpc. rewrite H. reflexivity. Qed.

Theorem foreign_unchanged c st from data :
  mem N.eq_dec from (allowed c) = false ->
  handle_mpc hash classify wire_fixed c st from data = (st, []).
Proof.
  intros H. unfold handle_mpc. pose proof (to_rbc_msg_total from data) as Ht.
  destruct (to_rbc_msg hash classify wire_fixed from data) as [m| |]; [|reflexivity|congruence].
  unfold breceive, receive. rewrite H. reflexivity.
Qed.
End NoPanic.
