(* C04 — totality of the reliable broadcast in fault-free runs, for every interleaving.
   Closed system: every participant is honest; the network is a multiset of in-flight messages; one step
   delivers any one of them (any order: acknowledgements may overtake the payload they refer to, several
   senders and rounds are in flight at once) and puts the receiver's acknowledgements in flight to everybody
   else.  When the network has drained, every broadcast was handed over exactly once at every other
   participant, every point-to-point message exactly once at its addressee, nothing else was handed over and
   nobody halted.  Unbounded in the number of participants, senders, rounds and messages. *)
From Coq Require Import List Arith Bool Lia Permutation.
Import ListNotations.
Require Import TSS.RBC.Model TSS.RBC.Local TSS.RBC.Global.

Section Totality.
Variable id : Type.
Variable id_dec : forall x y : id, {x = y} + {x <> y}.
Variable digest : Type.
Variable dg_dec : forall x y : digest, {x = y} + {x <> y}.
Variable payload : Type.
Variable dg : payload -> digest.

Notation key := (key id digest).
Notation rstate := (rstate id digest payload).
Notation msg := (msg id digest payload).
Notation out := (out id digest payload).
Notation event := (event id digest payload).
Notation gstate := (gstate id digest payload).
Notation receive := (@receive id id_dec digest dg_dec payload dg).
Notation register := (@register id id_dec digest dg_dec payload).

Variable P : list id.
Hypothesis P_nodup : NoDup P.
Definition honest (h : id) : Prop := In h P.
Lemma honest_in_P : forall h, honest h -> In h P.
Proof. auto. Qed.

Notation cfgOf := (cfgOf id P).
Notation gstep := (gstep id id_dec digest dg_dec payload dg P).
Notation ginit := (ginit id digest payload).
Notation reachable := (reachable id id_dec digest dg_dec payload dg P honest).
Notation acks_of := (acks_of id digest payload).
Notation Inv := (Inv id digest payload dg P honest).
Notation g := (g id digest payload).
Notation sent := (sent id digest payload).
Notation dlv := (dlv id digest payload).
Notation p2p := (p2p id digest payload).
Notation hist := (hist id digest payload).

(* what the (honest) participants broadcast and send: at most one payload per (sender, round) *)
Variable bcasts : list (id * round * payload).
Hypothesis bc_unique : forall s r p p', In (s, r, p) bcasts -> In (s, r, p') bcasts -> p = p'.
Hypothesis bc_sender : forall s r p, In (s, r, p) bcasts -> In s P.
Variable p2ps : list (id * id * payload).     (* source, addressee, payload *)
Hypothesis p2p_ok : forall s t p, In (s, t, p) p2ps -> In s P /\ In t P /\ s <> t.

Definition kof (b : id * round * payload) : key := let '(s, r, p) := b in mkKey (dg p) s r.
Definition others (x : id) : list id := remove id_dec x P.

Definition init_net : list event :=
  flat_map (fun b : id * round * payload => let '(s, r, p) := b in map (fun x => (x, s, Bcast p r)) (others s)) bcasts ++
  map (fun q : id * id * payload => let '(s, t, p) := q in (t, s, P2P p)) p2ps.

Definition fan (a : id * key) : list event :=
  let '(h, k) := a in map (fun z => (z, h, Ack (kd k) (ks k) (kr k))) (others h).

(* deliver the i-th in-flight message *)
Definition sstep (st : gstate * list event) (i : nat) : gstate * list event :=
  let '(G, net) := st in
  match nth_error net i with
  | None => (G, net)
  | Some ev =>
      let '(h, from, m) := ev in
      let o := snd (receive (cfgOf h) (g G h) from m) in
      (gstep G ev, firstn i net ++ skipn (Datatypes.S i) net ++ flat_map fan (acks_of h o))
  end.

Definition srun (sched : list nat) : gstate * list event := fold_left sstep sched (ginit, init_net).

(* ---- basic list facts ---- *)
Lemma in_others x y : In y (others x) <-> In y P /\ y <> x.
Proof.
  unfold others. split.
  - intros H. apply in_remove in H. tauto.
  - intros [H1 H2]. apply in_in_remove; auto.
Qed.

Lemma nth_split_perm {A} (l : list A) i x : nth_error l i = Some x -> Permutation l (x :: firstn i l ++ skipn (S i) l).
Proof.
  revert i. induction l as [|a l IH]; intros [|i] H; simpl in *; try discriminate.
  - inversion H; subst. reflexivity.
  - rewrite (IH i H) at 1. apply perm_swap.
Qed.

(* legitimate keys *)
Definition legit (k : key) : Prop := exists p, In (ks k, kr k, p) bcasts /\ kd k = dg p.

Lemma legit_same k1 k2 : legit k1 -> legit k2 -> ks k1 = ks k2 -> kr k1 = kr k2 -> kd k1 = kd k2.
Proof.
  intros (p1 & H1 & E1) (p2 & H2 & E2) Hs Hr. rewrite Hs, Hr in H1. rewrite (bc_unique _ _ _ _ H1 H2) in E1. congruence.
Qed.

(* ---- the invariant of the closed system ---- *)
Definition ev_ok (G : gstate) (ev : event) : Prop :=
  let '(h, from, m) := ev in
  In h P /\ In from P /\ from <> h /\
  match m with
  | Bcast p r => In (from, r, p) bcasts
  | P2P p => In (from, h, p) p2ps
  | Ack d s r => In (from, mkKey d s r) (sent G) /\ legit (mkKey d s r)
  end.

Definition complete_fires (st : rstate) : Prop :=
  forall k, length (eids (rec st k)) = length P - 1 -> em (rec st k) <> None -> edone (rec st k) = true.

Definition is_p2p (ev : event) : list (id * id * payload) :=
  match ev with (h, f, P2P q) => [(h, f, q)] | _ => [] end.

Record TInv (G : gstate) (net : list event) : Prop := {
  T_reach : reachable G;
  T_net : forall ev, In ev net -> ev_ok G ev;
  T_hist : forall ev, In ev (hist G) -> ev_ok G ev;
  T_nohalt : forall x, halted (g G x) = false;
  T_pins : forall x s r d, pin (g G x) s r = Some d -> legit (mkKey d s r);
  T_sent : forall h k, In (h, k) (sent G) -> legit k /\ In h P /\ ks k <> h;
  T_count : Permutation (hist G ++ net) (init_net ++ flat_map fan (sent G));
  (* processing facts *)
  T_direct : forall x s p r, In (x, s, Bcast p r) (hist G) ->
      In x (eids (rec (g G x) (mkKey (dg p) s r))) /\ em (rec (g G x) (mkKey (dg p) s r)) <> None /\
      In (x, mkKey (dg p) s r) (sent G);
  T_acked : forall x y d s r, In (x, y, Ack d s r) (hist G) -> s <> x -> y <> s ->
      In y (eids (rec (g G x) (mkKey d s r)));
  T_fires : forall x, complete_fires (g G x);
  T_done : forall x k, edone (rec (g G x) k) = true -> exists p, In (x, k, p) (dlv G);
  T_p2p : p2p G = flat_map is_p2p (hist G) }.

(* ---- one delivery in a state that has not halted, without digest conflict ---- *)
Notation reg_ok := (@reg_ok id digest payload).

Definition no_conflict (h from : id) (m : msg) (st : rstate) : Prop :=
  match m with
  | Ack d s r => s <> h -> from <> s -> reg_ok st (mkKey d s r)
  | Bcast p r => reg_ok st (mkKey (dg p) from r)
  | P2P _ => True
  end.

Record effects (h from : id) (m : msg) (st st' : rstate) (o : list out) : Prop := {
  E_halt : halted st' = false;
  E_pins : forall s r d, pin st' s r = Some d ->
      pin st s r = Some d \/
      match m with
      | Ack d0 s0 r0 => s = s0 /\ r = r0 /\ d = d0
      | Bcast p r0 => s = from /\ r = r0 /\ d = dg p
      | P2P _ => False
      end;
  E_ids : forall k y, In y (eids (rec st k)) -> In y (eids (rec st' k));
  E_em : forall k, em (rec st k) <> None -> em (rec st' k) <> None;
  E_fires : complete_fires st -> complete_fires st';
  E_done : forall k, edone (rec st' k) = true -> edone (rec st k) = true \/ exists p, In (Deliver k p) o;
  E_acks : acks_of h o = match m with Bcast p r => [(h, mkKey (dg p) from r)] | _ => [] end;
  E_p2p : p2ps_of id digest payload h o = match m with P2P q => [(h, from, q)] | _ => [] end;
  E_add : match m with
          | Ack d s r => s <> h -> from <> s -> In from (eids (rec st' (mkKey d s r)))
          | Bcast p r => In h (eids (rec st' (mkKey (dg p) from r))) /\ em (rec st' (mkKey (dg p) from r)) <> None
          | P2P q => o = [DeliverP2P from q]
          end }.

Lemma mem_P from h : In from P -> mem id_dec from (allowed (cfgOf h)) = true.
Proof. intros H. unfold mem. simpl. destruct (in_dec id_dec from P); [reflexivity|contradiction]. Qed.

Lemma register_effects h st k v mm st' o :
  halted st = false -> reg_ok st k -> register (cfgOf h) st k v mm = (st', o) ->
  halted st' = false /\
  (forall s r d, pin st' s r = Some d -> pin st s r = Some d \/ (s = ks k /\ r = kr k /\ d = kd k)) /\
  (forall k' y, In y (eids (rec st k')) -> In y (eids (rec st' k'))) /\
  (forall k', em (rec st k') <> None -> em (rec st' k') <> None) /\
  (complete_fires st -> complete_fires st') /\
  (forall k', edone (rec st' k') = true -> edone (rec st k') = true \/ exists p, In (Deliver k' p) o) /\
  acks_of h o = [] /\
  p2ps_of id digest payload h o = [] /\
  In v (eids (rec st' k)) /\
  (mm <> None -> em (rec st' k) <> None).
Proof.
  intros Hh Hok Hr.
  destruct (register_ok_shape id id_dec digest dg_dec payload (cfgOf h) st k v mm st' o Hok Hr)
    as (S1&S2&S3&S4&S5&S6&S7&S8&S9&S10&S11&S12&S13&S14).
  assert (Hk : forall k', k' = k \/ k' <> k) by (intros k'; destruct (key_dec id_dec dg_dec k' k); auto).
  split; [congruence|].
  split. { intros s r d Hp. destruct (id_dec s (ks k)) as [->|Hs]; [destruct (Nat.eq_dec r (kr k)) as [->|Hr']|].
           - rewrite S2 in Hp. inversion Hp; subst. right; auto.
           - left. rewrite <- S4; auto.
           - left. rewrite <- S4; auto. }
  split. { intros k' y Hy. destruct (Hk k') as [->|Hne]; [|rewrite S5; auto]. rewrite S6. apply (add_id_in id id_dec). auto. }
  split. { intros k' Hem. destruct (Hk k') as [->|Hne]; [|rewrite S5; auto]. rewrite S7. unfold mnew. destruct mm; [discriminate|exact Hem]. }
  split. { intros Hc k' Hlen Hem. destruct (Hk k') as [->|Hne].
           - apply S14; auto.
           - rewrite S5 in * by exact Hne. apply Hc; auto. }
  split. { intros k' Hd. destruct (Hk k') as [->|Hne].
           - destruct (S13 Hd) as [Ho|[p ->]]; [left; exact Ho|right; exists p; left; reflexivity].
           - left. rewrite S5 in Hd by exact Hne. exact Hd. }
  split. { destruct S10 as [->|[p ->]]; reflexivity. }
  split. { destruct S10 as [->|[p ->]]; reflexivity. }
  split. { rewrite S6. apply (add_id_in id id_dec). auto. }
  intros Hm. rewrite S7. unfold mnew. destruct mm; [discriminate|congruence].
Qed.

Lemma receive_effects h from m st st' o :
  halted st = false -> In from P -> from <> h -> no_conflict h from m st ->
  receive (cfgOf h) st from m = (st', o) -> effects h from m st st' o.
Proof.
  intros Hh HfP Hne Hnc Hr. unfold Model.receive in Hr. rewrite (mem_P from h HfP), Hh in Hr. simpl in Hr.
  destruct m as [d s r|p r|q].
  - destruct (id_dec from h); [contradiction|].
    destruct (id_dec s h) as [Hs|Hs].
    { inversion Hr; subst st' o. constructor; auto; try (intros; tauto). }
    destruct (id_dec from s) as [Hfs|Hfs]; simpl in Hr.
    { inversion Hr; subst st' o. constructor; auto; try (intros; tauto). }
    destruct (register_effects h st (mkKey d s r) from None st' o Hh (Hnc Hs Hfs) Hr) as (A1&A2&A3&A4&A5&A6&A7&A7'&A8&A9).
    constructor; auto.
  - destruct (register (cfgOf h) st (mkKey (dg p) from r) h (Some p)) as [st1 o1] eqn:Hreg.
    inversion Hr; subst st' o; clear Hr.
    destruct (register_effects h st (mkKey (dg p) from r) h (Some p) st1 o1 Hh Hnc Hreg) as (A1&A2&A3&A4&A5&A6&A7&A7'&A8&A9).
    constructor; auto.
    + intros k Hd. destruct (A6 k Hd) as [Ho|[q Hq]]; [left; exact Ho|right; exists q; apply in_app_iff; left; exact Hq].
    + unfold Global.acks_of in *. rewrite flat_map_app, A7. reflexivity.
    + unfold Global.p2ps_of in *. rewrite flat_map_app, A7'. reflexivity.
    + split; [exact A8|apply A9; discriminate].
  - inversion Hr; subst. constructor; auto; try (intros; tauto).
Qed.

(* ---- the invariant holds initially ---- *)
Lemma init_net_ok ev : In ev init_net -> ev_ok ginit ev.
Proof.
  unfold init_net. rewrite in_app_iff, in_flat_map, in_map_iff. intros [([[s r] p] & Hb & Hin)|([[s t] p] & <- & Hq)].
  - apply in_map_iff in Hin. destruct Hin as (x & <- & Hx). apply in_others in Hx. destruct Hx as [HxP Hxs].
    simpl. repeat split; eauto.
  - destruct (p2p_ok _ _ _ Hq) as (A & B & C). simpl. repeat split; auto.
Qed.

Lemma TInv_init : TInv ginit init_net.
Proof.
  constructor; simpl; try (intros; contradiction); try (intros; discriminate).
  - apply reach_init.
  - apply init_net_ok.
  - reflexivity.
  - rewrite app_nil_r. reflexivity.
  - intros x k Hlen Hem. simpl in Hem. congruence.
  - reflexivity.
Qed.

Lemma ev_ok_mono G G' ev : (forall a, In a (sent G) -> In a (sent G')) -> ev_ok G ev -> ev_ok G' ev.
Proof.
  intros Hm. destruct ev as [[h from] m]. simpl. intros (A & B & C & D). repeat split; auto.
  destruct m; auto. destruct D; split; auto.
Qed.

Lemma reg_ok_legit G net x k : TInv G net -> legit k -> reg_ok (g G x) k.
Proof.
  intros HT Hl. unfold Local.reg_ok. destruct (pin (g G x) (ks k) (kr k)) as [d|] eqn:E; [|left; reflexivity].
  right. f_equal. pose proof (T_pins _ _ HT x _ _ _ E) as Hl'.
  apply (legit_same (mkKey d (ks k) (kr k)) k Hl' Hl); reflexivity.
Qed.

Lemma TInv_step G net i h from m :
  TInv G net -> nth_error net i = Some (h, from, m) ->
  TInv (gstep G (h, from, m))
       (firstn i net ++ skipn (S i) net ++ flat_map fan (acks_of h (snd (receive (cfgOf h) (g G h) from m)))).
Proof.
  intros HT Hn. pose proof (nth_error_In _ _ Hn) as Hin.
  pose proof (T_net _ _ HT _ Hin) as Hok. simpl in Hok. destruct Hok as (HhP & HfP & Hne & Hm).
  destruct (receive (cfgOf h) (g G h) from m) as [st' o] eqn:Hr. cbn [snd].
  assert (Hnc : no_conflict h from m (g G h)).
  { destruct m as [d s r|p r|q]; simpl; auto.
    - intros _ _. destruct Hm as [_ Hl]. eapply reg_ok_legit; eauto.
    - eapply reg_ok_legit; eauto. exists p. simpl. auto. }
  pose proof (receive_effects h from m (g G h) st' o (T_nohalt _ _ HT h) HfP Hne Hnc Hr) as E.
  assert (Hadm : admissible id digest payload honest G (h, from, m)).
  { simpl. repeat split; auto. intros _. destruct m; auto. destruct Hm; auto. }
  set (G' := gstep G (h, from, m)).
  assert (HG' : G' = mkG id digest payload (fun x => if id_dec x h then st' else g G x) (sent G ++ acks_of h o)
                         (dlv G ++ dlvs_of id digest payload h o) (p2p G ++ p2ps_of id digest payload h o)
                         (hist G ++ [(h, from, m)])).
  { unfold G', Global.gstep. rewrite Hr. reflexivity. }
  assert (Hgh : g G' h = st') by (rewrite HG'; simpl; destruct (id_dec h h); congruence).
  assert (Hgo : forall x, x <> h -> g G' x = g G x) by (intros x Hx; rewrite HG'; simpl; destruct (id_dec x h); congruence).
  assert (Hsent : sent G' = sent G ++ acks_of h o) by (rewrite HG'; reflexivity).
  assert (Hsm : forall a, In a (sent G) -> In a (sent G')) by (intros a Ha; rewrite Hsent; apply in_app_iff; auto).
  assert (Hhist : hist G' = hist G ++ [(h, from, m)]) by (rewrite HG'; reflexivity).
  assert (Hacks : forall a, In a (acks_of h o) -> exists p r, m = Bcast p r /\ a = (h, mkKey (dg p) from r)).
  { intros a Ha. rewrite (E_acks _ _ _ _ _ _ E) in Ha. destruct m as [| p r |]; try contradiction.
    destruct Ha as [<-|[]]. eauto. }
  assert (Hlegit_new : forall p r, m = Bcast p r -> legit (mkKey (dg p) from r)).
  { intros p r ->. exists p. simpl. auto. }
  constructor.
  - (* reachable *) apply reach_step; [apply (T_reach _ _ HT)|exact Hadm].
  - (* net *)
    intros ev Hev. rewrite !in_app_iff in Hev.
    assert (Hold : In ev net -> ev_ok G' ev) by (intros H; eapply ev_ok_mono; [exact Hsm|apply (T_net _ _ HT); exact H]).
    destruct Hev as [Hev|[Hev|Hev]].
    + apply Hold. rewrite <- (firstn_skipn i net). apply in_app_iff. left. exact Hev.
    + apply Hold. rewrite <- (firstn_skipn (S i) net). apply in_app_iff. right. exact Hev.
    + apply in_flat_map in Hev. destruct Hev as (a & Ha & Hev). destruct (Hacks a Ha) as (p & r & -> & ->).
      simpl in Hev. apply in_map_iff in Hev. destruct Hev as (z & <- & Hz). apply in_others in Hz. destruct Hz as [HzP Hzh].
      simpl. split; [exact HzP|]. split; [exact HhP|]. split; [congruence|]. split.
      * rewrite Hsent. apply in_app_iff. right. exact Ha.
      * apply Hlegit_new. reflexivity.
  - (* hist *)
    intros ev Hev. rewrite Hhist in Hev. apply in_app_iff in Hev. destruct Hev as [Hev|[<-|[]]].
    + eapply ev_ok_mono; [exact Hsm|apply (T_hist _ _ HT); exact Hev].
    + eapply ev_ok_mono; [exact Hsm|]. simpl. auto.
  - (* nobody halts *)
    intros x. destruct (id_dec x h) as [->|Hx]; [rewrite Hgh; apply (E_halt _ _ _ _ _ _ E)|rewrite Hgo by exact Hx; apply (T_nohalt _ _ HT)].
  - (* pins are legitimate *)
    intros x s r d Hp. destruct (id_dec x h) as [->|Hx]; [|rewrite Hgo in Hp by exact Hx; eapply (T_pins _ _ HT); eauto].
    rewrite Hgh in Hp. destruct (E_pins _ _ _ _ _ _ E s r d Hp) as [Hold|Hnew]; [eapply (T_pins _ _ HT); eauto|].
    destruct m as [d0 s0 r0|p r0|q]; [| |contradiction].
    + destruct Hnew as (-> & -> & ->). destruct Hm as [_ Hl]. exact Hl.
    + destruct Hnew as (-> & -> & ->). apply Hlegit_new. reflexivity.
  - (* sent *)
    intros h0 k Hin0. rewrite Hsent in Hin0. apply in_app_iff in Hin0. destruct Hin0 as [Hin0|Hin0]; [apply (T_sent _ _ HT); exact Hin0|].
    destruct (Hacks _ Hin0) as (p & r & Em & Ea). inversion Ea; subst h0 k. split; [apply Hlegit_new; exact Em|]. split; [exact HhP|exact Hne].
  - (* accounting *)
    rewrite Hhist, Hsent, flat_map_app.
    pose proof (nth_split_perm net i _ Hn) as Hp. pose proof (T_count _ _ HT) as Hc.
    set (F := flat_map fan (acks_of h o)). set (rest := firstn i net ++ skipn (S i) net) in *.
    replace (firstn i net ++ skipn (S i) net ++ F) with (rest ++ F) by (unfold rest; rewrite app_assoc; reflexivity).
    transitivity ((hist G ++ (h, from, m) :: rest) ++ F).
    { rewrite <- !app_assoc. apply Permutation_app_head. simpl. reflexivity. }
    rewrite app_assoc. apply Permutation_app_tail. rewrite <- Hp. exact Hc.
  - (* direct receipt processed *)
    intros x s p r Hev. rewrite Hhist in Hev. apply in_app_iff in Hev. destruct Hev as [Hev|[Hev|[]]].
    + destruct (T_direct _ _ HT _ _ _ _ Hev) as (A & B & C). destruct (id_dec x h) as [->|Hx].
      * rewrite Hgh. split; [apply (E_ids _ _ _ _ _ _ E); exact A|]. split; [apply (E_em _ _ _ _ _ _ E); exact B|apply Hsm; exact C].
      * rewrite Hgo by exact Hx. split; [exact A|]. split; [exact B|apply Hsm; exact C].
    + inversion Hev; subst x s m. rewrite Hgh. destruct (E_add _ _ _ _ _ _ E) as [A B]. split; [exact A|]. split; [exact B|].
      rewrite Hsent, (E_acks _ _ _ _ _ _ E). apply in_app_iff. right. left. reflexivity.
  - (* acknowledgement processed *)
    intros x y d s r Hev Hsx Hys. rewrite Hhist in Hev. apply in_app_iff in Hev. destruct Hev as [Hev|[Hev|[]]].
    + pose proof (T_acked _ _ HT _ _ _ _ _ Hev Hsx Hys) as A. destruct (id_dec x h) as [->|Hx].
      * rewrite Hgh. apply (E_ids _ _ _ _ _ _ E). exact A.
      * rewrite Hgo by exact Hx. exact A.
    + inversion Hev; subst x y m. rewrite Hgh. apply (E_add _ _ _ _ _ _ E); assumption.
  - (* complete voucher set + payload => handed over *)
    intros x. destruct (id_dec x h) as [->|Hx]; [rewrite Hgh; apply (E_fires _ _ _ _ _ _ E), (T_fires _ _ HT)|rewrite Hgo by exact Hx; apply (T_fires _ _ HT)].
  - (* handed over => in the log *)
    intros x k Hd. assert (Hdl : dlv G' = dlv G ++ dlvs_of id digest payload h o) by (rewrite HG'; reflexivity). rewrite Hdl.
    destruct (id_dec x h) as [->|Hx].
    + rewrite Hgh in Hd. destruct (E_done _ _ _ _ _ _ E k Hd) as [Hold|[p Hp]].
      * destruct (T_done _ _ HT _ _ Hold) as [p Hp]. exists p. apply in_app_iff. left; exact Hp.
      * exists p. apply in_app_iff. right. apply in_dlvs_of. auto.
    + rewrite Hgo in Hd by exact Hx. destruct (T_done _ _ HT _ _ Hd) as [p Hp]. exists p. apply in_app_iff. left; exact Hp.
  - (* point-to-point log *)
    assert (Hpp : p2p G' = p2p G ++ p2ps_of id digest payload h o) by (rewrite HG'; reflexivity).
    rewrite Hpp, Hhist, flat_map_app, (T_p2p _ _ HT), (E_p2p _ _ _ _ _ _ E). simpl. rewrite app_nil_r.
    destruct m; reflexivity.
Qed.

Lemma run_inv sched : forall st, TInv (fst st) (snd st) -> TInv (fst (fold_left sstep sched st)) (snd (fold_left sstep sched st)).
Proof.
  induction sched as [|i sched IH]; intros [G net] HT; simpl; [exact HT|].
  apply IH. simpl in HT. destruct (nth_error net i) as [[[h from] m]|] eqn:E; [|exact HT].
  simpl. apply TInv_step; assumption.
Qed.

Lemma srun_inv sched : TInv (fst (srun sched)) (snd (srun sched)).
Proof. unfold srun. apply run_inv. simpl. apply TInv_init. Qed.

(* Bcast events of the history come from the initial network only *)
Lemma bcast_in_hist G x s q r :
  Permutation (hist G) (init_net ++ flat_map fan (sent G)) ->
  In (x, s, Bcast q r) (hist G) -> In (s, r, q) bcasts /\ In x P /\ x <> s.
Proof.
  intros Hp Hin. apply (Permutation_in _ Hp) in Hin. apply in_app_iff in Hin. destruct Hin as [Hin|Hin].
  - unfold init_net in Hin. apply in_app_iff in Hin. destruct Hin as [Hin|Hin].
    + apply in_flat_map in Hin. destruct Hin as ([[s0 r0] p0] & Hb & Hin). apply in_map_iff in Hin.
      destruct Hin as (z & E & Hz). inversion E; subst. apply in_others in Hz. tauto.
    + apply in_map_iff in Hin. destruct Hin as ([[s0 t0] p0] & E & _). discriminate.
  - apply in_flat_map in Hin. destruct Hin as ([h k] & _ & Hin). simpl in Hin. apply in_map_iff in Hin.
    destruct Hin as (z & E & _). discriminate.
Qed.

Lemma others_length s : In s P -> length (others s) = length P - 1.
Proof. intros H. unfold others. apply (remove_length_in id id_dec); assumption. Qed.

Lemma nodup_remove_elt (x : id) (l : list id) : NoDup l -> NoDup (remove id_dec x l).
Proof.
  induction l as [|a l IH]; simpl; intros H; [constructor|]. inversion H; subst.
  destruct (id_dec x a); [apply IH; assumption|]. constructor; [|apply IH; assumption].
  intros Hin. apply in_remove in Hin. tauto.
Qed.

Lemma others_nodup s : NoDup (others s).
Proof. apply nodup_remove_elt. exact P_nodup. Qed.

(* ---- C04 ---- *)
Theorem totality sched G :
  srun sched = (G, []) ->
  (* every broadcast is handed over, with its payload, at every other participant ... *)
  (forall s r p x, In (s, r, p) bcasts -> In x P -> x <> s -> In (x, mkKey (dg p) s r, Some p) (dlv G)) /\
  (* ... exactly once per (participant, sender, round) ... *)
  NoDup (map (dkey id digest payload) (dlv G)) /\
  (* ... and nothing else is handed over *)
  (forall x k po, In (x, k, po) (dlv G) ->
      exists p, In (ks k, kr k, p) bcasts /\ kd k = dg p /\ po = Some p /\ In x P /\ x <> ks k) /\
  (* every point-to-point message is handed over exactly once, at its addressee, attributed to its source *)
  Permutation (p2p G) (map (fun q : id * id * payload => let '(s, t, p) := q in (t, s, p)) p2ps) /\
  (* and no party concluded that equivocation took place *)
  (forall x, halted (g G x) = false).
Proof.
  intros Hrun. pose proof (srun_inv sched) as HT. rewrite Hrun in HT. simpl in HT.
  pose proof (T_count _ _ HT) as Hc. rewrite app_nil_r in Hc.
  pose proof (reachable_Inv id id_dec digest dg_dec payload dg P P_nodup honest honest_in_P G (T_reach _ _ HT)) as HI.
  assert (Hinit : forall s r p x, In (s, r, p) bcasts -> In x P -> x <> s -> In (x, s, Bcast p r) (hist G)).
  { intros s r p x Hb HxP Hxs. apply (Permutation_in _ (Permutation_sym Hc)). apply in_app_iff. left.
    unfold init_net. apply in_app_iff. left. apply in_flat_map. exists (s, r, p). split; [exact Hb|].
    apply in_map_iff. exists x. split; [reflexivity|apply in_others; auto]. }
  assert (Hdlv : forall x k po, In (x, k, po) (dlv G) ->
            exists p, In (ks k, kr k, p) bcasts /\ kd k = dg p /\ po = Some p /\ In x P /\ x <> ks k).
  { intros x k po Hin. assert (Hx : honest x) by exact (J10 _ _ _ _ _ _ _ HI x k po Hin).
    destruct (J8 _ _ _ _ _ _ _ HI x k po Hx Hin) as (_ & _ & _ & q & -> & Hh & Hd).
    destruct (bcast_in_hist G x (ks k) q (kr k) Hc Hh) as (Hb & HxP & Hxs). exists q. auto. }
  split; [|split; [exact (J9 _ _ _ _ _ _ _ HI)|split; [exact Hdlv|split; [|exact (T_nohalt _ _ HT)]]]].
  - intros s r p x Hb HxP Hxs. set (k := mkKey (dg p) s r).
    assert (HsP : In s P) by (eapply bc_sender; eauto).
    (* every other participant's voucher has arrived *)
    assert (Hall : forall y, In y P -> y <> s -> In y (eids (rec (g G x) k))).
    { intros y HyP Hys. destruct (id_dec y x) as [->|Hyx].
      - apply (T_direct _ _ HT x s p r). apply Hinit; auto.
      - destruct (T_direct _ _ HT y s p r (Hinit s r p y Hb HyP Hys)) as (_ & _ & Hsent).
        apply (T_acked _ _ HT x y (dg p) s r); [|congruence|exact Hys].
        apply (Permutation_in _ (Permutation_sym Hc)). apply in_app_iff. right.
        apply in_flat_map. exists (y, k). split; [exact Hsent|]. simpl. apply in_map_iff. exists x.
        split; [reflexivity|apply in_others; auto]. }
    assert (Hlen : length (eids (rec (g G x) k)) = length P - 1).
    { rewrite <- (others_length s HsP). apply Nat.le_antisymm.
      - apply NoDup_incl_length; [apply (J2 _ _ _ _ _ _ _ HI x k HxP)|].
        intros y Hy. destruct (J1 _ _ _ _ _ _ _ HI x k y HxP Hy) as (A & B & _). apply in_others. auto.
      - apply NoDup_incl_length; [apply others_nodup|]. intros y Hy. apply in_others in Hy. apply Hall; tauto. }
    destruct (T_direct _ _ HT x s p r (Hinit s r p x Hb HxP Hxs)) as (_ & Hem & _).
    pose proof (T_fires _ _ HT x k Hlen Hem) as Hdone.
    destruct (T_done _ _ HT x k Hdone) as [po Hpo].
    destruct (Hdlv x k po Hpo) as (q & Hq & _ & -> & _). simpl in Hq.
    rewrite (bc_unique _ _ _ _ Hq Hb) in Hpo. exact Hpo.
  - rewrite (T_p2p _ _ HT). rewrite (Permutation_flat_map is_p2p Hc), flat_map_app.
    assert (Hnone : forall l : list event, (forall ev, In ev l -> is_p2p ev = []) -> flat_map is_p2p l = []).
    { induction l as [|ev l IHl]; intros H; simpl; [reflexivity|]. rewrite (H ev (or_introl eq_refl)). simpl.
      apply IHl. intros e He. apply H. right; exact He. }
    rewrite (Hnone (flat_map fan (sent G))), app_nil_r.
    2:{ intros ev Hev. apply in_flat_map in Hev. destruct Hev as ([h k] & _ & Hev). simpl in Hev.
        apply in_map_iff in Hev. destruct Hev as (z & <- & _). reflexivity. }
    unfold init_net. rewrite flat_map_app. rewrite Hnone.
    2:{ intros ev Hev. apply in_flat_map in Hev. destruct Hev as ([[s r] p] & _ & Hev).
        apply in_map_iff in Hev. destruct Hev as (z & <- & _). reflexivity. }
    simpl. clear. induction p2ps as [|[[s t] p] l IHl]; simpl; [constructor|]. constructor. exact IHl.
Qed.
End Totality.
