From Coq Require Import List Arith Bool Lia.
Import ListNotations.
Require Import TSS.RBC.Model.

Section Local.
Variable id : Type.
Variable id_dec : forall x y : id, {x = y} + {x <> y}.
Variable digest : Type.
Variable dg_dec : forall x y : digest, {x = y} + {x <> y}.
Variable payload : Type.
Variable dg : payload -> digest.

Notation key := (key id digest).
Notation rstate := (rstate id digest payload).
Notation msg := (msg id digest payload).
Notation out := (out id digest payload).
Notation cfg := (cfg id).
Notation receive := (@receive id id_dec digest dg_dec payload dg).
Notation register := (@register id id_dec digest dg_dec payload).
Notation key_dec := (@key_dec id id_dec digest dg_dec).
Notation add_id := (@add_id id id_dec).
Notation upd_rec := (@upd_rec id id_dec digest dg_dec payload).
Notation upd_pin := (@upd_pin id id_dec digest).

Lemma add_id_in x y l : In y (add_id x l) <-> y = x \/ In y l.
Proof. unfold Model.add_id. destruct (in_dec id_dec x l); simpl; intuition (subst; auto). Qed.

Lemma add_id_nodup x l : NoDup l -> NoDup (add_id x l).
Proof. unfold Model.add_id. destruct (in_dec id_dec x l); auto. constructor; auto. Qed.

Definition reg_ok (st : rstate) (k : key) : Prop :=
  pin st (ks k) (kr k) = None \/ pin st (ks k) (kr k) = Some (kd k).

Lemma register_conflict c st k from m :
  ~ reg_ok st k ->
  register c st k from m = (mkR (rec st) (pin st) true, []).
Proof.
  unfold reg_ok, Model.register. intros H.
  destruct (pin st (ks k) (kr k)) as [d'|] eqn:E.
  - destruct (dg_dec d' (kd k)); [subst; exfalso; apply H; auto | reflexivity].
  - exfalso; apply H; auto.
Qed.

Definition mnew (m : option payload) (old : option payload) : option payload :=
  match m with Some p => Some p | None => old end.

Lemma register_ok_shape c st k from m st' o :
  reg_ok st k -> register c st k from m = (st', o) ->
  halted st' = halted st /\
  pin st' (ks k) (kr k) = Some (kd k) /\
  (forall s r, pin st s r <> None -> pin st' s r = pin st s r) /\
  (forall s r, (s <> ks k \/ r <> kr k) -> pin st' s r = pin st s r) /\
  (forall k', k' <> k -> rec st' k' = rec st k') /\
  eids (rec st' k) = add_id from (eids (rec st k)) /\
  em (rec st' k) = mnew m (em (rec st k)) /\
  (forall k' p, In (Deliver k' p) o ->
      k' = k /\ p = em (rec st' k) /\ length (eids (rec st' k)) = cN c - 1 /\
      (fix_once c = true -> p <> None /\ edone (rec st k) = false)) /\
  (forall x, In x o -> exists k' p, x = Deliver k' p) /\
  (o = [] \/ exists p, o = [Deliver k p]) /\
  (edone (rec st k) = true -> edone (rec st' k) = true) /\
  (forall k' p, In (Deliver k' p) o -> edone (rec st' k) = true) /\
  (edone (rec st' k) = true -> edone (rec st k) = true \/ exists p, o = [Deliver k p]) /\
  (length (eids (rec st' k)) = cN c - 1 -> em (rec st' k) <> None -> fix_once c = true -> edone (rec st' k) = true).
Proof.
  intros Hok Hr. unfold Model.register in Hr.
  set (e := rec st k) in *.
  set (ids' := add_id from (eids e)) in *.
  set (m' := match m with Some p => Some p | None => em e end) in *.
  set (fire := Nat.eqb (length ids') (cN c - 1) &&
        (if fix_once c then (match m' with Some _ => true | None => false end) && negb (edone e) else true)) in *.
  assert (Hgo : forall pin',
     (mkR (upd_rec (rec st) k (mkEntry m' ids' (if fire then true else edone e))) pin' (halted st),
       if fire then [Deliver k m'] else []) = (st', o) ->
     halted st' = halted st /\ pin st' = pin' /\
     (forall k', k' <> k -> rec st' k' = rec st k') /\
     eids (rec st' k) = ids' /\
     em (rec st' k) = m' /\
     (forall k' p, In (Deliver k' p) o ->
        k' = k /\ p = em (rec st' k) /\ length (eids (rec st' k)) = cN c - 1 /\
        (fix_once c = true -> p <> None /\ edone e = false)) /\
     (forall x, In x o -> exists k' p, x = @Deliver id digest payload k' p) /\
     (o = [] \/ exists p, o = [@Deliver id digest payload k p]) /\
     (edone e = true -> edone (rec st' k) = true) /\
     (forall k' p, In (@Deliver id digest payload k' p) o -> edone (rec st' k) = true) /\
     (edone (rec st' k) = true -> edone e = true \/ exists p, o = [@Deliver id digest payload k p]) /\
     (length (eids (rec st' k)) = cN c - 1 -> em (rec st' k) <> None -> fix_once c = true -> edone (rec st' k) = true)).
  { intros pin' H. inversion H; subst st' o; clear H. simpl.
    unfold Model.upd_rec.
    assert (Hkk : forall A (x y : A), (if key_dec k k then x else y) = x).
    { intros. destruct (key_dec k k); congruence. }
    rewrite !Hkk. simpl.
    split; [reflexivity|]. split; [reflexivity|].
    split. { intros k' Hne. destruct (key_dec k' k); congruence. }
    split; [reflexivity|]. split; [reflexivity|].
    split.
    { intros k' p Hin. destruct fire eqn:F; simpl in Hin; [|contradiction].
      destruct Hin as [Hin|[]]. inversion Hin; subst k' p. clear Hin.
      unfold fire in F. apply andb_true_iff in F. destruct F as [F1 F2]. apply Nat.eqb_eq in F1.
      split; [reflexivity|]. split; [reflexivity|]. split; [exact F1|].
      intros Hf. rewrite Hf in F2. apply andb_true_iff in F2. destruct F2 as [F2 F3].
      apply negb_true_iff in F3. split; [|exact F3].
      destruct m'; [congruence|discriminate]. }
    split.
    { intros x Hx. destruct fire; simpl in Hx; [|contradiction]. destruct Hx as [Hx|[]]. eauto. }
    split. { destruct fire; eauto. }
    split. { destruct fire; auto. }
    split. { intros k' p Hin. destruct fire; simpl in Hin; [reflexivity|contradiction]. }
    split. { destruct fire; eauto. }
    intros Hlen Hem Hfo. destruct fire eqn:F; [reflexivity|].
    unfold fire in F. rewrite Hfo in F. apply Nat.eqb_eq in Hlen. rewrite Hlen in F. simpl in F.
    destruct m'; [|congruence]. simpl in F. destruct (edone e); [reflexivity|discriminate]. }
  destruct Hok as [Hn|Hs].
  - rewrite Hn in Hr. apply Hgo in Hr. destruct Hr as (H1&H2&H3&H4&H5&H6&H7&H8&H9&H10&H11&H12).
    split; [exact H1|]. rewrite H2.
    split. { unfold Model.upd_pin. destruct (id_dec _ _); [|congruence]. destruct (Nat.eq_dec _ _); congruence. }
    split. { intros s r Hne. unfold Model.upd_pin. destruct (id_dec s _); auto. destruct (Nat.eq_dec r _); auto. subst. congruence. }
    split. { intros s r [Hne|Hne]; unfold Model.upd_pin; destruct (id_dec s _); auto; try congruence. destruct (Nat.eq_dec r _); auto; congruence. }
    split; [exact H3|]. split; [exact H4|]. split; [exact H5|]. split; [exact H6|].
    split; [exact H7|]. split; [exact H8|]. split; [exact H9|]. split; [exact H10|]. split; [exact H11|exact H12].
  - rewrite Hs in Hr. destruct (dg_dec _ _); [|congruence]. apply Hgo in Hr.
    destruct Hr as (H1&H2&H3&H4&H5&H6&H7&H8&H9&H10&H11&H12).
    split; [exact H1|]. rewrite H2.
    split; [exact Hs|]. split; [reflexivity|]. split; [reflexivity|].
    split; [exact H3|]. split; [exact H4|]. split; [exact H5|]. split; [exact H6|].
    split; [exact H7|]. split; [exact H8|]. split; [exact H9|]. split; [exact H10|]. split; [exact H11|exact H12].
Qed.
End Local.
