(* The path of an MPC message through threshold.Scheme:
     HandleMessage -> handleMPC -> rbcEncoding.Ack -> (handleAck | handleRBC + classifier + hash)
       -> rbcFilter.Receive -> threadSafeRBC -> rbc.Receiver.Receive -> registerMsg
   instantiated on bytes, with the classifier and SHA-256 as parameters. *)
Require Import TSS.Base.Base TSS.Wire.Codec TSS.RBC.Model.
From Coq Require Import Arith.

Definition bmsg := msg N bytes bytes.
Definition bout := out N bytes bytes.
Definition bstate := rstate N bytes bytes.
Definition bkey := key N bytes.

Section Scheme.
Variable hash : bytes -> bytes.                              (* crypto/sha256 *)
Variable classify : bytes -> outcome (N * bool).             (* KeyGenerator/Signer.ClassifyMsg *)

Definition breceive := @receive N N.eq_dec bytes bytes_dec bytes hash.

(* what reaches rbc.Receiver for one IncMessage of type MPC on a registered topic *)
Definition to_rbc_msg (v : wire_variant) (from : N) (data : bytes) : outcome bmsg :=
  match decode_mpc v data with
  | Panic => Panic
  | Err => Err
  | Ok (DAck d s r) => Ok (Ack d s (N.to_nat r))
  | Ok (DPayload p) =>
      match classify p with
      | Panic => Panic
      | Err => Err
      | Ok (r, b) =>
          match p with
          | [] => Ok (Ack (hash []) from (N.to_nat r))     (* rbcMsg.Ack(): an empty payload makes the message an ack *)
          | _ => if b then Ok (Bcast p (N.to_nat r)) else Ok (P2P p)
          end
      end
  end.

Inductive hout :=
| HOut (o : bout)
| HPanic.

Definition handle_mpc (v : wire_variant) (c : cfg N) (st : bstate) (from : N) (data : bytes)
  : bstate * list hout :=
  match to_rbc_msg v from data with
  | Panic => (st, [HPanic])
  | Err => (st, [])
  | Ok m => let '(st', o) := breceive c st from m in (st', map HOut o)
  end.
End Scheme.
