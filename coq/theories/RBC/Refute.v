(* Executable instances of the RBC model: (a) what the pinned upstream code did (variant flags false)
   -- the witnesses behind the fix: commits; (b) non-vacuity of the global theorems. *)
From Coq Require Import List Arith Bool Lia.
Import ListNotations.
Require Import TSS.RBC.Model TSS.RBC.Global.

Definition rcv := @receive nat Nat.eq_dec nat Nat.eq_dec nat (fun p => p).
Definition tree (h : nat) := mkCfg h 3 [0;1;2] false false.
Definition fixd (h : nat) := mkCfg h 3 [0;1;2] true true.

Definition run (c : cfg nat) (evs : list (nat * msg nat nat nat)) : list (out nat nat nat) :=
  snd (fold_left (fun '(st, acc) '(from, m) => let '(st', o) := rcv c st from m in (st', acc ++ o))
                 evs (rstate0 nat nat nat, [])).

Definition delivered (o : list (out nat nat nat)) : list (nat * nat * option nat) :=
  flat_map (fun x => match x with Deliver k p => [(ks k, kr k, p)] | _ => [] end) o.

(* Upstream: sender 0 shows payload 7 to party 1 and payload 9 to party 2 and vouches for itself;
   both hand over, for the same sender and round. *)
Lemma agreement_tree_refuted :
  delivered (run (tree 1) [(0, Bcast 7 0); (0, Ack 7 0 0)]) = [(0, 0, Some 7)] /\
  delivered (run (tree 2) [(0, Bcast 9 0); (0, Ack 9 0 0)]) = [(0, 0, Some 9)].
Proof. split; reflexivity. Qed.

(* With the repair the same scripts hand over nothing. *)
Lemma agreement_fixed_same_script :
  delivered (run (fixd 1) [(0, Bcast 7 0); (0, Ack 7 0 0)]) = [] /\
  delivered (run (fixd 2) [(0, Bcast 9 0); (0, Ack 9 0 0)]) = [].
Proof. split; reflexivity. Qed.

(* Upstream: a replayed acknowledgement and a re-sent payload hand the message over three times. *)
Lemma once_tree_refuted :
  delivered (run (tree 1) [(0, Bcast 7 0); (2, Ack 7 0 0); (2, Ack 7 0 0); (0, Bcast 7 0)])
  = [(0, 0, Some 7); (0, 0, Some 7); (0, 0, Some 7)].
Proof. reflexivity. Qed.

(* Upstream: N-1 vouchers before the payload arrived hand over an empty placeholder. *)
Lemma nonempty_tree_refuted :
  delivered (run (tree 1) [(2, Ack 7 0 0); (0, Ack 7 0 0)]) = [(0, 0, None)].
Proof. reflexivity. Qed.

Lemma once_fixed_same_script :
  delivered (run (fixd 1) [(0, Bcast 7 0); (2, Ack 7 0 0); (2, Ack 7 0 0); (0, Bcast 7 0)]) = [(0, 0, Some 7)] /\
  delivered (run (fixd 1) [(2, Ack 7 0 0); (0, Ack 7 0 0); (0, Bcast 7 0)]) = [(0, 0, Some 7)].
Proof. split; reflexivity. Qed.

(* ---- non-vacuity of the global theorems: an honest run of three parties in which parties 1 and 2
   both hand over the broadcast of sender 0 ---- *)
Definition P3 := [0; 1; 2].
Definition honest3 (h : nat) : Prop := In h P3.
Notation reach3 := (reachable nat Nat.eq_dec nat Nat.eq_dec nat (fun p => p) P3 honest3).
Notation gstep3 := (gstep nat Nat.eq_dec nat Nat.eq_dec nat (fun p => p) P3).
Definition k7 := mkKey 7 0 0.
Definition evs3 : list (nat * nat * msg nat nat nat) :=
  [(1, 0, Bcast 7 0); (2, 0, Bcast 7 0); (1, 2, Ack 7 0 0); (2, 1, Ack 7 0 0)].
Definition S3 := fold_left gstep3 evs3 (ginit nat nat nat).

Lemma P3_nodup : NoDup P3.
Proof. repeat constructor; simpl; intuition discriminate. Qed.

Lemma S3_reachable : reach3 S3.
Proof.
  unfold S3, evs3. cbn [fold_left].
  repeat (apply reach_step; [|unfold admissible, honest3, P3; simpl; intuition (try discriminate; auto)]).
  apply reach_init.
Qed.

Example agreement_nonvacuous :
  reach3 S3 /\ honest3 1 /\ honest3 2 /\
  In (1, k7, Some 7) (dlv nat nat nat S3) /\ In (2, k7, Some 7) (dlv nat nat nat S3).
Proof.
  split; [exact S3_reachable|]. unfold honest3, P3. simpl. intuition.
Qed.

(* ---- non-vacuity of the totality theorem: a complete fault-free run of three parties, two concurrent senders,
   one point-to-point message; the schedule delivers the LAST in-flight message first (acknowledgements overtake) ---- *)
Require Import TSS.RBC.Totality.
Definition bc3 : list (nat * round * nat) := [(0, 0, 7); (1, 0, 8)].
Definition pp3 : list (nat * nat * nat) := [(2, 0, 5)].
Definition srun3 := srun nat Nat.eq_dec nat Nat.eq_dec nat (fun p => p) P3 bc3 pp3.
Definition sched3 : list nat := [4; 3; 2; 1; 0; 5; 4; 3; 2; 1; 0; 0; 0; 0; 0; 0; 0; 0; 0; 0].

Example totality_nonvacuous :
  snd (srun3 sched3) = [] /\
  length (dlv nat nat nat (fst (srun3 sched3))) = 4 /\
  p2p nat nat nat (fst (srun3 sched3)) = [(0, 2, 5)].
Proof. vm_compute. repeat split; reflexivity. Qed.

(* ---- the number of vouchers cannot be lowered: four participants, sender 0 and member 3 Byzantine.  A party that hands over
   on N-1-f = 2 vouchers (an instance configured with cN = 3) is split from its peer by the "split vouchers" schedule of the
   attack stream; with all N-1 = 3 vouchers required (cN = 4, what the code computes) the same scripts hand over nothing. ---- *)
Definition cfg4 (h n : nat) := mkCfg h n [0; 1; 2; 3] true true.
Lemma quorum_tight :
  delivered (run (cfg4 1 3) [(0, Bcast 7 0); (3, Ack 7 0 0)]) = [(0, 0, Some 7)] /\
  delivered (run (cfg4 2 3) [(0, Bcast 9 0); (3, Ack 9 0 0)]) = [(0, 0, Some 9)] /\
  delivered (run (cfg4 1 4) [(0, Bcast 7 0); (3, Ack 7 0 0)]) = [] /\
  delivered (run (cfg4 2 4) [(0, Bcast 9 0); (3, Ack 9 0 0)]) = [].
Proof. repeat split; reflexivity. Qed.

(* ---- "round revisited" (instance of at-most-once, and the schedule of the attack stream): what a party remembers about
   (sender 0, round 0) survives the sender's round 1; the second payload for round 0 is a detected equivocation. ---- *)
Lemma round_revisited_fixed :
  delivered (run (fixd 1) [(0, Bcast 7 0); (2, Ack 7 0 0); (0, Bcast 8 1); (2, Ack 8 0 1); (0, Bcast 9 0); (2, Ack 9 0 0)])
  = [(0, 0, Some 7); (0, 1, Some 8)].
Proof. reflexivity. Qed.
