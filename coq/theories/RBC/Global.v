From Coq Require Import List Arith Bool Lia.
Import ListNotations.
Require Import TSS.RBC.Model TSS.RBC.Local.

Section Global.
Variable id : Type.
Variable id_dec : forall x y : id, {x = y} + {x <> y}.
Variable digest : Type.
Variable dg_dec : forall x y : digest, {x = y} + {x <> y}.
Variable payload : Type.
Variable dg : payload -> digest.

Notation key := (key id digest).
Notation rstate := (rstate id digest payload).
Notation msg := (msg id digest payload).
Notation out := (out id digest payload).
Notation receive := (@receive id id_dec digest dg_dec payload dg).
Notation register := (@register id id_dec digest dg_dec payload).
Notation add_id := (@add_id id id_dec).

(* one session: participants P, all honest receivers share N = |P| and allowed = P *)
Variable P : list id.
Hypothesis P_nodup : NoDup P.
Variable honest : id -> Prop.
Hypothesis honest_in_P : forall h, honest h -> In h P.

Definition cfgOf (h : id) : cfg id := mkCfg h (length P) P true true.

Definition event := (id * id * msg)%type.

(* g: state of every party; sent: acknowledgements emitted (party, key); dlv: broadcast-class hand-overs
   (party, key, payload); p2p: point-to-point hand-overs (party, source, payload); hist: events so far *)
Record gstate := mkG { g : id -> rstate; sent : list (id * key); dlv : list (id * key * option payload);
                       p2p : list (id * id * payload); hist : list event }.
Definition ginit := mkG (fun _ => rstate0 id digest payload) [] [] [] [].

Definition acks_of (h : id) (o : list out) : list (id * key) :=
  flat_map (fun x => match x with AckOut k => [(h, k)] | _ => [] end) o.
Definition dlvs_of (h : id) (o : list out) : list (id * key * option payload) :=
  flat_map (fun x => match x with Deliver k p => [(h, k, p)] | _ => [] end) o.
Definition p2ps_of (h : id) (o : list out) : list (id * id * payload) :=
  flat_map (fun x => match x with DeliverP2P f p => [(h, f, p)] | _ => [] end) o.

Definition gstep (S : gstate) (ev : event) : gstate :=
  let '(h, from, m) := ev in
  let '(st', o) := receive (cfgOf h) (g S h) from m in
  mkG (fun x => if id_dec x h then st' else g S x) (sent S ++ acks_of h o) (dlv S ++ dlvs_of h o)
      (p2p S ++ p2ps_of h o) (hist S ++ [ev]).

Definition admissible (S : gstate) (ev : event) : Prop :=
  let '(h, from, m) := ev in
  honest h /\ from <> h /\
  (honest from -> match m with Ack d s r => In (from, mkKey d s r) (sent S) | _ => True end).

Inductive reachable : gstate -> Prop :=
| reach_init : reachable ginit
| reach_step S ev : reachable S -> admissible S ev -> reachable (gstep S ev).

(* ---------- case analysis of one receive ---------- *)
Lemma in_acks_of h o x k : In (x, k) (acks_of h o) <-> x = h /\ In (AckOut k) o.
Proof.
  unfold acks_of. rewrite in_flat_map. split.
  - intros (y & Hy & Hin). destruct y; simpl in Hin; try contradiction.
    destruct Hin as [Hin|[]]. inversion Hin; subst. auto.
  - intros [-> Hin]. exists (AckOut k). split; auto. simpl; auto.
Qed.

Lemma in_dlvs_of h o x k p : In (x, k, p) (dlvs_of h o) <-> x = h /\ In (Deliver k p) o.
Proof.
  unfold dlvs_of. rewrite in_flat_map. split.
  - intros (y & Hy & Hin). destruct y; simpl in Hin; try contradiction.
    destruct Hin as [Hin|[]]. inversion Hin; subst. eauto.
  - intros [-> Hin]. exists (Deliver k p). split; auto. simpl; auto.
Qed.

Lemma in_p2ps_of h o x f p : In (x, f, p) (p2ps_of h o) <-> x = h /\ In (DeliverP2P f p) o.
Proof.
  unfold p2ps_of. rewrite in_flat_map. split.
  - intros (y & Hy & Hin). destruct y; simpl in Hin; try contradiction.
    destruct Hin as [Hin|[]]. inversion Hin; subst. eauto.
  - intros [-> Hin]. exists (DeliverP2P f p). split; auto. simpl; auto.
Qed.

Inductive rcase (h from : id) (m : msg) (st st' : rstate) (o : list out) : Prop :=
| RC_noop : st' = st -> (forall k p, ~ In (Deliver k p) o) -> (forall k, ~ In (AckOut k) o) ->
    (forall f q, In (DeliverP2P f q) o -> m = P2P q /\ f = from /\ In from P /\ halted st = false) ->
    rcase h from m st st' o
| RC_ack d s r : m = Ack d s r -> In from P -> halted st = false -> s <> h -> from <> s ->
    register (cfgOf h) st (mkKey d s r) from None = (st', o) -> rcase h from m st st' o
| RC_bcast p r o0 : m = Bcast p r -> In from P -> halted st = false ->
    register (cfgOf h) st (mkKey (dg p) from r) h (Some p) = (st', o0) ->
    o = o0 ++ [AckOut (mkKey (dg p) from r)] -> rcase h from m st st' o.

Lemma receive_cases h from m st st' o :
  from <> h -> receive (cfgOf h) st from m = (st', o) -> rcase h from m st st' o.
Proof.
  intros Hne Hr. unfold Model.receive in Hr. simpl in Hr.
  unfold Model.mem in Hr.
  destruct (in_dec id_dec from P) as [HinP|HninP]; simpl in Hr.
  2:{ inversion Hr; subst. apply RC_noop; auto. intros f q []. }
  destruct (halted st) eqn:Hh.
  { inversion Hr; subst. apply RC_noop; auto. intros f q []. }
  destruct m as [d s r|p r|p].
  - destruct (id_dec from h); [contradiction|].
    destruct (id_dec s h). { inversion Hr; subst. apply RC_noop; auto. intros f q []. }
    destruct (id_dec from s); simpl in Hr. { inversion Hr; subst. apply RC_noop; auto. intros f q []. }
    eapply RC_ack; eauto.
  - destruct (register (cfgOf h) st (mkKey (dg p) from r) h (Some p)) as [st1 o0] eqn:Hreg.
    inversion Hr; subst. eapply RC_bcast; eauto.
  - inversion Hr; subst. apply RC_noop; auto.
    + intros k q [H|[]]. discriminate.
    + intros k [H|[]]. discriminate.
    + intros f q [H|[]]. inversion H; subst. auto.
Qed.

(* ---------- facts about one step at h, independent of the branch taken ---------- *)
Notation reg_ok := (@reg_ok id digest payload).

Record step_facts (h from : id) (m : msg) (st st' : rstate) (o : list out) : Prop := {
  F1 : forall s r d, pin st s r = Some d -> pin st' s r = Some d;
  F2 : halted st = true -> halted st' = true;
  F3 : forall k y, In y (eids (rec st k)) -> In y (eids (rec st' k));
  F4 : forall k y, In y (eids (rec st' k)) ->
         In y (eids (rec st k)) \/
         (y = from /\ m = Ack (kd k) (ks k) (kr k) /\ In from P /\ from <> ks k) \/
         (y = h /\ from = ks k /\ In from P);
  F5 : forall k, NoDup (eids (rec st k)) -> NoDup (eids (rec st' k));
  F6 : forall k, In (AckOut k) o -> pin st' (ks k) (kr k) = Some (kd k) \/ halted st' = true;
  F7 : forall k p, In (Deliver k p) o ->
         halted st = false /\ reg_ok st k /\ length (eids (rec st' k)) = length P - 1 /\
         exists q, em (rec st' k) = Some q;
  F8 : forall k p, em (rec st' k) = Some p ->
         em (rec st k) = Some p \/ (m = Bcast p (kr k) /\ from = ks k /\ dg p = kd k /\ In from P);
  F9 : forall k, edone (rec st k) = true -> edone (rec st' k) = true;
  F10 : forall k p, In (Deliver k p) o ->
         edone (rec st k) = false /\ edone (rec st' k) = true /\ p = em (rec st' k) /\
         pin st' (ks k) (kr k) = Some (kd k);
  F11 : dlvs_of h o = [] \/ exists k p, dlvs_of h o = [(h, k, p)];
  F12 : forall f q, In (DeliverP2P f q) o -> m = P2P q /\ f = from /\ In from P /\ halted st = false }.

Lemma reg_ok_dec st k : reg_ok st k \/ ~ reg_ok st k.
Proof.
  unfold Local.reg_ok. destruct (pin st (ks k) (kr k)) as [d|]; [|left; left; reflexivity].
  destruct (dg_dec d (kd k)); [subst; left; right; reflexivity|].
  right. intros [H|H]; congruence.
Qed.

Lemma key_eta (k : key) : mkKey (kd k) (ks k) (kr k) = k.
Proof. destruct k; reflexivity. Qed.

Lemma register_facts h from (m : msg) (st st' : rstate) o0 k0 v mm :
  register (cfgOf h) st k0 v mm = (st', o0) ->
  (* v is the voucher, justified by one of the two origins *)
  ((v = from /\ m = Ack (kd k0) (ks k0) (kr k0) /\ In from P /\ from <> ks k0 /\ mm = None) \/
   (v = h /\ from = ks k0 /\ In from P)) ->
  halted st = false ->
  (forall s r d, pin st s r = Some d -> pin st' s r = Some d) /\
  (halted st = true -> halted st' = true) /\
  (forall k y, In y (eids (rec st k)) -> In y (eids (rec st' k))) /\
  (forall k y, In y (eids (rec st' k)) ->
         In y (eids (rec st k)) \/
         (y = from /\ m = Ack (kd k) (ks k) (kr k) /\ In from P /\ from <> ks k) \/
         (y = h /\ from = ks k /\ In from P)) /\
  (forall k, NoDup (eids (rec st k)) -> NoDup (eids (rec st' k))) /\
  (pin st' (ks k0) (kr k0) = Some (kd k0) \/ halted st' = true) /\
  (forall k p, In (Deliver k p) o0 ->
         halted st = false /\ reg_ok st k /\ length (eids (rec st' k)) = length P - 1 /\
         exists q, em (rec st' k) = Some q) /\
  (forall k p, em (rec st' k) = Some p -> em (rec st k) = Some p \/ (k = k0 /\ mm = Some p)) /\
  (forall x, In x o0 -> exists k p, x = Deliver k p) /\
  (forall k, edone (rec st k) = true -> edone (rec st' k) = true) /\
  (forall k p, In (Deliver k p) o0 ->
         edone (rec st k) = false /\ edone (rec st' k) = true /\ p = em (rec st' k) /\
         pin st' (ks k) (kr k) = Some (kd k)) /\
  (o0 = [] \/ exists p, o0 = [Deliver k0 p]).
Proof.
  intros Hreg Horig Hh.
  destruct (reg_ok_dec st k0) as [Hok|Hbad].
  - destruct (register_ok_shape id id_dec digest dg_dec payload (cfgOf h) st k0 v mm st' o0 Hok Hreg)
      as (S1&S2&S3&S4&S5&S6&S7&S8&S9&S10&S11&S12&S13&S14).
    assert (Hk : forall k, k = k0 \/ k <> k0).
    { intros k. destruct (key_dec id_dec dg_dec k k0); auto. }
    split. { intros s r d Hp. rewrite S3; [exact Hp|congruence]. }
    split. { intros; congruence. }
    split. { intros k y Hy. destruct (Hk k) as [->|Hne]; [|rewrite S5; auto].
             rewrite S6. apply (add_id_in id id_dec). auto. }
    split. { intros k y Hy. destruct (Hk k) as [->|Hne]; [|rewrite S5 in Hy; auto].
             rewrite S6 in Hy. apply (add_id_in id id_dec) in Hy. destruct Hy as [->|Hy]; [|auto].
             right. destruct Horig as [(->&Hm&Hp&Hne&_)|(->&Hf&Hp)]; [left|right]; auto. }
    split. { intros k Hnd. destruct (Hk k) as [->|Hne]; [|rewrite S5; auto].
             rewrite S6. apply (add_id_nodup id id_dec); auto. }
    split. { left; exact S2. }
    split. { intros k p Hin. destruct (S8 k p Hin) as (->&Hp&Hlen&Hfix).
             split; [exact Hh|]. split; [exact Hok|]. split; [exact Hlen|].
             destruct (Hfix eq_refl) as [Hnn _]. rewrite <- Hp.
             destruct p; [eauto|congruence]. }
    split. { intros k p Hem. destruct (Hk k) as [->|Hne]; [|rewrite S5 in Hem; auto].
             rewrite S7 in Hem. unfold mnew in Hem.
             destruct mm as [q|]; [right; split; [reflexivity|exact Hem]|left; exact Hem]. }
    split. { exact S9. }
    split. { intros k Hd. destruct (Hk k) as [->|Hne]; [auto|rewrite S5; auto]. }
    split. { intros k p Hin. destruct (S8 k p Hin) as (->&Hp&Hlen&Hfix).
             destruct (Hfix eq_refl) as [_ Hdone].
             split; [exact Hdone|]. split; [eapply S12; eauto|]. split; [exact Hp|exact S2]. }
    exact S10.
  - rewrite (register_conflict id id_dec digest dg_dec payload (cfgOf h) st k0 v mm Hbad) in Hreg.
    inversion Hreg; subst st' o0; simpl.
    split; [auto|]. split; [auto|]. split; [auto|]. split; [auto|]. split; [auto|].
    split; [right; reflexivity|]. split; [intros k p []|]. split; [auto|]. split; [intros x []|].
    split; [auto|]. split; [intros k p []|]. left; reflexivity.
Qed.

Lemma dlvs_of_app h o1 o2 : dlvs_of h (o1 ++ o2) = dlvs_of h o1 ++ dlvs_of h o2.
Proof. unfold dlvs_of. apply flat_map_app. Qed.

Lemma dlvs_of_none h o : (forall k p, ~ In (Deliver k p) o) -> dlvs_of h o = [].
Proof.
  induction o as [|x o IH]; intros Hn; [reflexivity|].
  unfold dlvs_of in *. simpl. rewrite IH.
  - destruct x; try reflexivity. exfalso. eapply Hn. left; reflexivity.
  - intros k p Hin. eapply Hn. right; exact Hin.
Qed.

Lemma step_facts_of h from m st st' o :
  from <> h -> receive (cfgOf h) st from m = (st', o) -> step_facts h from m st st' o.
Proof.
  intros Hne Hr. destruct (receive_cases h from m st st' o Hne Hr)
    as [-> Hnd Hna Hp2p | d s r -> HinP Hh Hs Hfs Hreg | p r o0 -> HinP Hh Hreg ->].
  - constructor; auto.
    + intros k Hin. exfalso; eapply Hna; eauto.
    + intros k p Hin. exfalso; eapply Hnd; eauto.
    + intros k p Hin. exfalso; eapply Hnd; eauto.
    + left. apply dlvs_of_none. exact Hnd.
  - destruct (register_facts h from (Ack d s r) st st' o (mkKey d s r) from None Hreg)
      as (A1&A2&A3&A4&A5&A6&A7&A8&A9&A10&A11&A12).
    { left. simpl. auto. }
    { exact Hh. }
    constructor; auto.
    + intros k Hin. destruct (A9 _ Hin) as (k'&p&Heq). discriminate.
    + intros k p Hem. destruct (A8 k p Hem) as [Hold|[_ Hmm]]; [left; exact Hold|discriminate].
    + destruct A12 as [->|[p ->]]; [left; reflexivity|right; simpl; eauto].
    + intros f q Hin. destruct (A9 _ Hin) as (k'&p&Heq). discriminate.
  - destruct (register_facts h from (Bcast p r) st st' o0 (mkKey (dg p) from r) h (Some p) Hreg)
      as (A1&A2&A3&A4&A5&A6&A7&A8&A9&A10&A11&A12).
    { right. simpl. auto. }
    { exact Hh. }
    constructor; auto.
    + intros k Hin. apply in_app_iff in Hin. destruct Hin as [Hin|[Hin|[]]].
      * destruct (A9 _ Hin) as (k'&q&Heq). discriminate.
      * inversion Hin; subst k. exact A6.
    + intros k q Hin. apply in_app_iff in Hin. destruct Hin as [Hin|[Hin|[]]]; [eauto|discriminate].
    + intros k q Hem. destruct (A8 k q Hem) as [Hold|[-> Hmm]]; [left; exact Hold|].
      right. inversion Hmm; subst q. simpl. auto.
    + intros k q Hin. apply in_app_iff in Hin. destruct Hin as [Hin|[Hin|[]]]; [eauto|discriminate].
    + rewrite dlvs_of_app. simpl. rewrite app_nil_r.
      destruct A12 as [->|[q ->]]; [left; reflexivity|right; simpl; eauto].
    + intros f q Hin. apply in_app_iff in Hin. destruct Hin as [Hin|[Hin|[]]]; [|discriminate].
      destruct (A9 _ Hin) as (k'&q'&Heq). discriminate.
Qed.

(* ---------- the global invariant ---------- *)
Definition dkey (x : id * key * option payload) : id * id * round := (fst (fst x), ks (snd (fst x)), kr (snd (fst x))).

Record Inv (S : gstate) : Prop := {
  J1 : forall x k y, honest x -> In y (eids (rec (g S x) k)) ->
         In y P /\ y <> ks k /\ (y <> x -> honest y -> In (y, k) (sent S));
  J2 : forall x k, honest x -> NoDup (eids (rec (g S x) k));
  J3 : forall y k, honest y -> In (y, k) (sent S) ->
         pin (g S y) (ks k) (kr k) = Some (kd k) \/ halted (g S y) = true;
  J4 : forall x k p, honest x -> In (x, k, p) (dlv S) ->
         (forall y, In y P -> y <> ks k -> In y (eids (rec (g S x) k))) /\ ks k <> x;
  J5 : forall x k p, honest x -> em (rec (g S x) k) = Some p -> In (ks k) P /\ ks k <> x;
  J6 : forall a b k1 k2 p1 p2, honest a -> honest b -> a <> b ->
         In (a, k1, p1) (dlv S) -> In (b, k2, p2) (dlv S) ->
         ks k1 = ks k2 -> kr k1 = kr k2 -> kd k1 = kd k2;
  (* a stored payload was transmitted to this party by the sender itself, and its digest was recomputed *)
  J7 : forall x k p, honest x -> em (rec (g S x) k) = Some p ->
         In (x, ks k, Bcast p (kr k)) (hist S) /\ dg p = kd k;
  (* a delivery is remembered, pinned, and carried the stored payload *)
  J8 : forall x k p, honest x -> In (x, k, p) (dlv S) ->
         edone (rec (g S x) k) = true /\ pin (g S x) (ks k) (kr k) = Some (kd k) /\ In (ks k) P /\
         exists q, p = Some q /\ In (x, ks k, Bcast q (kr k)) (hist S) /\ dg q = kd k;
  (* at most one delivery per (party, sender, round) *)
  J9 : NoDup (map dkey (dlv S));
  (* only honest receivers are simulated *)
  J10 : forall x k p, In (x, k, p) (dlv S) -> honest x;
  (* point-to-point hand-overs are exactly what the source sent to this party *)
  J11 : forall x f q, In (x, f, q) (p2p S) -> In (x, f, P2P q) (hist S) /\ In f P }.

Lemma Inv_init : Inv ginit.
Proof. constructor; simpl; intros; try contradiction; try discriminate; constructor. Qed.

Lemma remove_length_in (s : id) (l : list id) :
  NoDup l -> In s l -> length (remove id_dec s l) = length l - 1.
Proof.
  induction l as [|a l IH]; simpl; intros Hnd Hin; [contradiction|].
  inversion Hnd; subst. destruct (id_dec s a) as [->|Hne].
  - rewrite notin_remove; auto. lia.
  - destruct Hin as [->|Hin]; [congruence|]. simpl. rewrite IH; auto.
    destruct l; [contradiction|simpl; lia].
Qed.

Lemma complete_vouchers (s : id) (l : list id) :
  In s P -> NoDup l -> length l = length P - 1 ->
  (forall y, In y l -> In y P /\ y <> s) ->
  forall y, In y P -> y <> s -> In y l.
Proof.
  intros HsP Hnd Hlen Hsub y HyP Hys.
  assert (Hincl : incl l (remove id_dec s P)).
  { intros z Hz. destruct (Hsub z Hz). apply in_in_remove; auto. }
  assert (Hrev : incl (remove id_dec s P) l).
  { apply NoDup_length_incl; auto. rewrite remove_length_in; auto. lia. }
  apply Hrev. apply in_in_remove; auto.
Qed.

Lemma NoDup_snoc {A} (l : list A) (a : A) : NoDup l -> ~ In a l -> NoDup (l ++ [a]).
Proof.
  induction l as [|x l IH]; simpl; intros Hnd Hn; [constructor; auto; constructor|].
  inversion Hnd; subst. constructor.
  - rewrite in_app_iff. intros [H|[H|[]]]; [auto|subst; auto].
  - apply IH; auto.
Qed.

Lemma Inv_step S ev : Inv S -> admissible S ev -> Inv (gstep S ev).
Proof.
  intros HI Hadm. destruct ev as [[h from] m]. destruct Hadm as (Hh & Hne & Hauth).
  unfold gstep. destruct (receive (cfgOf h) (g S h) from m) as [st' o] eqn:Hr.
  pose proof (step_facts_of h from m (g S h) st' o Hne Hr) as SF.
  destruct HI as [I1 I2 I3 I4 I5 I6 I7 I8 I9 I10 I11].
  (* helper: new state of party x *)
  set (g' := fun x => if id_dec x h then st' else g S x).
  assert (Hgh : g' h = st') by (unfold g'; destruct (id_dec h h); congruence).
  assert (Hgo : forall x, x <> h -> g' x = g S x) by (intros x Hx; unfold g'; destruct (id_dec x h); congruence).
  (* J1 for the new state, proved first because J4 needs it *)
  assert (N1 : forall x k y, honest x -> In y (eids (rec (g' x) k)) ->
         In y P /\ y <> ks k /\ (y <> x -> honest y -> In (y, k) (sent S ++ acks_of h o))).
  { intros x k y Hx Hy. destruct (id_dec x h) as [->|Hxh].
    - rewrite Hgh in Hy. destruct (F4 _ _ _ _ _ _ SF k y Hy) as [Hold|[(->&Hm&HfP&Hfs)|(->&Hf&HfP)]].
      + destruct (I1 h k y Hh Hold) as (A&B&C). repeat split; auto. intros. apply in_app_iff; left; auto.
      + repeat split; auto. intros _ Hhf. apply in_app_iff; left.
        specialize (Hauth Hhf). rewrite Hm in Hauth. rewrite key_eta in Hauth. exact Hauth.
      + repeat split; auto; [|congruence]. rewrite <- Hf. congruence.
    - rewrite (Hgo x Hxh) in Hy. destruct (I1 x k y Hx Hy) as (A&B&C). repeat split; auto.
      intros. apply in_app_iff; left; auto. }
  assert (N2 : forall x k, honest x -> NoDup (eids (rec (g' x) k))).
  { intros x k Hx. destruct (id_dec x h) as [->|Hxh].
    - rewrite Hgh. apply (F5 _ _ _ _ _ _ SF). auto.
    - rewrite (Hgo x Hxh). auto. }
  assert (N7 : forall x k p, honest x -> em (rec (g' x) k) = Some p ->
         In (x, ks k, Bcast p (kr k)) (hist S ++ [(h, from, m)]) /\ dg p = kd k).
  { intros x k p Hx Hem. destruct (id_dec x h) as [->|Hxh].
    - rewrite Hgh in Hem. destruct (F8 _ _ _ _ _ _ SF k p Hem) as [Hold|(Hm&Hf&Hd&HfP)].
      + destruct (I7 h k p Hh Hold) as [A B]. split; [apply in_app_iff; left; exact A|exact B].
      + split; [|exact Hd]. apply in_app_iff; right. left. rewrite Hm, Hf. reflexivity.
    - rewrite (Hgo x Hxh) in Hem. destruct (I7 x k p Hx Hem) as [A B].
      split; [apply in_app_iff; left; exact A|exact B]. }
  assert (N5 : forall x k p, honest x -> em (rec (g' x) k) = Some p -> In (ks k) P /\ ks k <> x).
  { intros x k p Hx Hem. destruct (id_dec x h) as [->|Hxh].
    - rewrite Hgh in Hem. destruct (F8 _ _ _ _ _ _ SF k p Hem) as [Hold|(Hm&Hf&Hd&HfP)]; [eauto|].
      rewrite <- Hf. split; auto.
    - rewrite (Hgo x Hxh) in Hem. eauto. }
  assert (N3 : forall y k, honest y -> In (y, k) (sent S ++ acks_of h o) ->
         pin (g' y) (ks k) (kr k) = Some (kd k) \/ halted (g' y) = true).
  { intros y k Hy Hin. apply in_app_iff in Hin. destruct Hin as [Hin|Hin].
    - destruct (I3 y k Hy Hin) as [Hp|Hhalt]; destruct (id_dec y h) as [->|Hyh].
      + left. rewrite Hgh. apply (F1 _ _ _ _ _ _ SF). exact Hp.
      + left. rewrite (Hgo y Hyh). exact Hp.
      + right. rewrite Hgh. apply (F2 _ _ _ _ _ _ SF). exact Hhalt.
      + right. rewrite (Hgo y Hyh). exact Hhalt.
    - apply in_acks_of in Hin. destruct Hin as [-> Hin]. rewrite Hgh. apply (F6 _ _ _ _ _ _ SF). exact Hin. }
  assert (N4 : forall x k p, honest x -> In (x, k, p) (dlv S ++ dlvs_of h o) ->
         (forall y, In y P -> y <> ks k -> In y (eids (rec (g' x) k))) /\ ks k <> x).
  { intros x k p Hx Hin. apply in_app_iff in Hin. destruct Hin as [Hin|Hin].
    - destruct (I4 x k p Hx Hin) as [A B]. split; auto. intros y HyP Hys.
      destruct (id_dec x h) as [->|Hxh].
      + rewrite Hgh. apply (F3 _ _ _ _ _ _ SF). auto.
      + rewrite (Hgo x Hxh). auto.
    - apply in_dlvs_of in Hin. destruct Hin as [-> Hin].
      destruct (F7 _ _ _ _ _ _ SF k p Hin) as (Hnh & Hok & Hlen & q & Hq).
      assert (Hem : em (rec (g' h) k) = Some q) by (rewrite Hgh; exact Hq).
      destruct (N5 h k q Hh Hem) as [HsP Hsh]. split; auto.
      rewrite Hgh. apply (complete_vouchers (ks k)); auto.
      + rewrite <- Hgh. apply N2; auto.
      + intros y Hy. rewrite <- Hgh in Hy. destruct (N1 h k y Hh Hy) as (A&B&_). auto. }
  assert (N8 : forall x k p, honest x -> In (x, k, p) (dlv S ++ dlvs_of h o) ->
         edone (rec (g' x) k) = true /\ pin (g' x) (ks k) (kr k) = Some (kd k) /\ In (ks k) P /\
         exists q, p = Some q /\ In (x, ks k, Bcast q (kr k)) (hist S ++ [(h, from, m)]) /\ dg q = kd k).
  { intros x k p Hx Hin. apply in_app_iff in Hin. destruct Hin as [Hin|Hin].
    - destruct (I8 x k p Hx Hin) as (A&B&HP&q&C&D&E).
      assert (Hq : exists q, p = Some q /\ In (x, ks k, Bcast q (kr k)) (hist S ++ [(h, from, m)]) /\ dg q = kd k).
      { exists q. split; [exact C|]. split; [apply in_app_iff; left; exact D|exact E]. }
      destruct (id_dec x h) as [->|Hxh].
      + rewrite Hgh. split; [apply (F9 _ _ _ _ _ _ SF); exact A|].
        split; [apply (F1 _ _ _ _ _ _ SF); exact B|]. split; [exact HP|exact Hq].
      + rewrite (Hgo x Hxh). auto.
    - apply in_dlvs_of in Hin. destruct Hin as [-> Hin]. rewrite Hgh.
      destruct (F10 _ _ _ _ _ _ SF k p Hin) as (A&B&C&D).
      destruct (F7 _ _ _ _ _ _ SF k p Hin) as (_&_&_&q&Hq).
      assert (Hem : em (rec (g' h) k) = Some q) by (rewrite Hgh; exact Hq).
      split; [exact B|]. split; [exact D|]. split; [apply (N5 h k q Hh Hem)|].
      exists q. split; [congruence|]. apply (N7 h k q Hh Hem). }
  assert (N10 : forall x k p, In (x, k, p) (dlv S ++ dlvs_of h o) -> honest x).
  { intros x k p Hin. apply in_app_iff in Hin. destruct Hin as [Hin|Hin]; [eauto|].
    apply in_dlvs_of in Hin. destruct Hin as [-> _]. exact Hh. }
  constructor; simpl; fold g'; auto.
  - (* J6: agreement *)
    intros a b k1 k2 p1 p2 Ha Hb Hab H1 H2 Hs Hrd.
    apply in_app_iff in H1. apply in_app_iff in H2.
    (* core argument: x delivers k now (step at h = x), y delivered k' earlier *)
    assert (Core : forall x y kx ky px py, honest x -> honest y -> x <> y ->
              In (x, kx, px) (dlvs_of h o) -> In (y, ky, py) (dlv S) -> ks kx = ks ky -> kr kx = kr ky -> kd kx = kd ky).
    { intros x y kx ky px py Hx Hy Hxy Hnew Hold Hss Hrr.
      apply in_dlvs_of in Hnew. destruct Hnew as [-> Hin].
      destruct (F7 _ _ _ _ _ _ SF kx px Hin) as (Hnh & Hok & _ & q & Hq).
      assert (Hem : em (rec (g' h) kx) = Some q) by (rewrite Hgh; exact Hq).
      destruct (N5 h kx q Hh Hem) as [_ Hsh].
      destruct (I4 y ky py Hy Hold) as [Hfull _].
      assert (Hhv : In h (eids (rec (g S y) ky))).
      { apply Hfull; [apply honest_in_P; auto|]. rewrite <- Hss. congruence. }
      destruct (I1 y ky h Hy Hhv) as (_ & _ & Hsent).
      specialize (Hsent Hxy Hh).
      destruct (I3 h ky Hh Hsent) as [Hpin|Hhalt]; [|congruence].
      rewrite <- Hss, <- Hrr in Hpin.
      destruct Hok as [Hnone|Hsome]; congruence. }
    destruct H1 as [H1|H1], H2 as [H2|H2].
    + exact (I6 a b k1 k2 p1 p2 Ha Hb Hab H1 H2 Hs Hrd).
    + symmetry. apply (Core b a k2 k1 p2 p1 Hb Ha (fun e => Hab (eq_sym e)) H2 H1 (eq_sym Hs) (eq_sym Hrd)).
    + apply (Core a b k1 k2 p1 p2 Ha Hb Hab H1 H2 Hs Hrd).
    + apply in_dlvs_of in H1. apply in_dlvs_of in H2. destruct H1 as [-> _], H2 as [-> _]. congruence.
  - (* J9: at most once per (party, sender, round) *)
    rewrite map_app. destruct (F11 _ _ _ _ _ _ SF) as [E|(k & p & E)]; rewrite E;
      [simpl; rewrite app_nil_r; exact I9|].
    simpl. apply NoDup_snoc; [exact I9|].
    intros Hin. apply in_map_iff in Hin. destruct Hin as ([[x k'] p'] & Hdk & Hold).
    unfold dkey in Hdk. simpl in Hdk. inversion Hdk; subst x.
    assert (Hnew : In (Deliver k p) o).
    { assert (Hd : In (h, k, p) (dlvs_of h o)) by (rewrite E; left; reflexivity).
      apply in_dlvs_of in Hd. tauto. }
    destruct (F10 _ _ _ _ _ _ SF k p Hnew) as (Hdone & _).
    destruct (F7 _ _ _ _ _ _ SF k p Hnew) as (_ & Hok & _).
    destruct (I8 h k' p' Hh Hold) as (Hd' & Hpin' & _).
    rewrite H1, H2 in Hpin'.
    assert (Hkd : kd k' = kd k) by (destruct Hok as [Hn|Hs]; congruence).
    assert (k' = k) by (destruct k, k'; simpl in *; congruence). subst k'. congruence.
  - (* J11: p2p provenance *)
    intros x f q Hin. apply in_app_iff in Hin. destruct Hin as [Hin|Hin].
    + destruct (I11 x f q Hin) as [A B]. split; [apply in_app_iff; left; exact A|exact B].
    + apply in_p2ps_of in Hin. destruct Hin as [-> Hin].
      destruct (F12 _ _ _ _ _ _ SF f q Hin) as (Hm & Hf & HfP & _). subst f m.
      split; [apply in_app_iff; right; left; reflexivity|exact HfP].
Qed.

Lemma reachable_Inv S : reachable S -> Inv S.
Proof. induction 1; [apply Inv_init|apply Inv_step; auto]. Qed.

(* C02: two honest parties that hand over a broadcast of the same sender and round hand over the same digest *)
Theorem agreement S : reachable S ->
  forall a b k1 k2 p1 p2, honest a -> honest b -> a <> b ->
    In (a, k1, p1) (dlv S) -> In (b, k2, p2) (dlv S) -> ks k1 = ks k2 -> kr k1 = kr k2 -> kd k1 = kd k2.
Proof. intros HR. apply (J6 _ (reachable_Inv S HR)). Qed.

(* ... hence the same payload, when the digest function is injective on what was handed over *)
Theorem agreement_payload S : reachable S ->
  (forall p q, dg p = dg q -> p = q) ->
  forall a b k1 k2 p1 p2, honest a -> honest b -> a <> b ->
    In (a, k1, p1) (dlv S) -> In (b, k2, p2) (dlv S) -> ks k1 = ks k2 -> kr k1 = kr k2 ->
    p1 = p2 /\ p1 <> None.
Proof.
  intros HR Hinj a b k1 k2 p1 p2 Ha Hb Hab H1 H2 Hs Hr.
  pose proof (agreement S HR a b k1 k2 p1 p2 Ha Hb Hab H1 H2 Hs Hr) as Hd.
  destruct (J8 _ (reachable_Inv S HR) a k1 p1 Ha H1) as (_&_&_&q1&E1&_&D1).
  destruct (J8 _ (reachable_Inv S HR) b k2 p2 Hb H2) as (_&_&_&q2&E2&_&D2).
  subst p1 p2. assert (q1 = q2) by (apply Hinj; congruence). subst. split; [reflexivity|discriminate].
Qed.

(* C03: what is handed over is authentic, from a participant, non-empty *)
Theorem integrity S : reachable S ->
  forall x k p, In (x, k, p) (dlv S) ->
    honest x /\ In (ks k) P /\ ks k <> x /\
    exists q, p = Some q /\ In (x, ks k, Bcast q (kr k)) (hist S) /\ dg q = kd k.
Proof.
  intros HR x k p Hin. pose proof (reachable_Inv S HR) as HI.
  assert (Hx : honest x) by (eapply J10; eauto).
  destruct (J8 _ HI x k p Hx Hin) as (_&_&HP&Hq).
  destruct (J4 _ HI x k p Hx Hin) as [_ Hne]. auto.
Qed.

(* C03: at most one hand-over per (party, sender, round) *)
Theorem at_most_once S : reachable S -> NoDup (map dkey (dlv S)).
Proof. intros HR. apply (J9 _ (reachable_Inv S HR)). Qed.

(* C03: a point-to-point hand-over is exactly a message its source sent to this party *)
Theorem p2p_integrity S : reachable S ->
  forall x f q, In (x, f, q) (p2p S) -> In (x, f, P2P q) (hist S) /\ In f P.
Proof. intros HR. apply (J11 _ (reachable_Inv S HR)). Qed.

(* ... and every such message from a participant is handed over verbatim, at once, unless the party halted *)
Lemma p2p_verbatim h st f q :
  In f P -> halted st = false -> receive (cfgOf h) st f (P2P q) = (st, [DeliverP2P f q]).
Proof.
  intros HfP Hh. unfold Model.receive, Model.mem. simpl.
  destruct (in_dec id_dec f P); [|contradiction]. simpl. rewrite Hh. reflexivity.
Qed.
End Global.
