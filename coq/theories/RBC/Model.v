(* rbc.Receiver (rbc/rbc.go) behind rbcFilter (threshold.go): model, parametric in two variant flags:
   fix_selfack : ignore an ack whose transport source equals the sender it vouches for
   fix_once    : deliver only with payload present and at most once *)
From Coq Require Import List Arith Bool Lia.
Import ListNotations.
Set Implicit Arguments.

Section Model.
Variable id : Type.
Variable id_dec : forall x y : id, {x = y} + {x <> y}.
Variable digest : Type.
Variable dg_dec : forall x y : digest, {x = y} + {x <> y}.
Variable payload : Type.
Variable dg : payload -> digest.
Definition round := nat.

Record key := mkKey { kd : digest; ks : id; kr : round }.
Lemma key_dec : forall a b : key, {a = b} + {a <> b}.
Proof. decide equality. apply Nat.eq_dec. Defined.

Record entry := mkEntry { em : option payload; eids : list id; edone : bool }.
Definition entry0 := mkEntry None [] false.

Record rstate := mkR { rec : key -> entry; pin : id -> round -> option digest; halted : bool }.
Definition rstate0 := mkR (fun _ => entry0) (fun _ _ => None) false.

Inductive msg := Ack (d : digest) (s : id) (r : round) | Bcast (p : payload) (r : round) | P2P (p : payload).
Inductive out :=
| Deliver (k : key) (p : option payload)   (* broadcast-class hand-over *)
| DeliverP2P (from : id) (p : payload)
| AckOut (k : key)
| PanicSelfAck.

Record cfg := mkCfg { self : id; cN : nat; allowed : list id; fix_selfack : bool; fix_once : bool }.

Definition mem (x : id) (l : list id) : bool := if in_dec id_dec x l then true else false.
Definition add_id (x : id) (l : list id) : list id := if in_dec id_dec x l then l else x :: l.

Definition upd_rec (f : key -> entry) (k : key) (e : entry) : key -> entry :=
  fun k' => if key_dec k' k then e else f k'.
Definition upd_pin (f : id -> round -> option digest) (s : id) (r : round) (d : digest) :=
  fun s' r' => if id_dec s' s then if Nat.eq_dec r' r then Some d else f s' r' else f s' r'.

Definition register (c : cfg) (st : rstate) (k : key) (from : id) (m : option payload) : rstate * list out :=
  let go (pin' : id -> round -> option digest) :=
    let e := rec st k in
    let ids' := add_id from (eids e) in
    let m' := match m with Some p => Some p | None => em e end in
    let fire :=
      Nat.eqb (length ids') (cN c - 1) &&
      (if fix_once c then (match m' with Some _ => true | None => false end) && negb (edone e) else true) in
    let e' := mkEntry m' ids' (if fire then true else edone e) in
    (mkR (upd_rec (rec st) k e') pin' (halted st), if fire then [Deliver k m'] else []) in
  match pin st (ks k) (kr k) with
  | None => go (upd_pin (pin st) (ks k) (kr k) (kd k))
  | Some d' => if dg_dec d' (kd k) then go (pin st) else (mkR (rec st) (pin st) true, [])
  end.

Definition receive (c : cfg) (st : rstate) (from : id) (m : msg) : rstate * list out :=
  if negb (mem from (allowed c)) then (st, [])            (* rbcFilter *)
  else if halted st then (st, [])
  else match m with
  | Ack d s r =>
      if id_dec from (self c) then (st, [PanicSelfAck])
      else if id_dec s (self c) then (st, [])
      else if fix_selfack c && (if id_dec from s then true else false) then (st, [])
      else register c st (mkKey d s r) from None
  | P2P p => (st, [DeliverP2P from p])
  | Bcast p r =>
      let k := mkKey (dg p) from r in
      let '(st', o) := register c st k (self c) (Some p) in
      (st', o ++ [AckOut k])
  end.
End Model.

Arguments AckOut {id digest payload} k.
Arguments PanicSelfAck {id digest payload}.
Arguments DeliverP2P {id digest payload} from p.
Arguments Deliver {id digest payload} k p.
Arguments Ack {id digest payload} d s r.
Arguments Bcast {id digest payload} p r.
Arguments P2P {id digest payload} p.
