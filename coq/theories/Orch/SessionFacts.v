(* Theorems about the session model: C12 (no residue, re-admission, non-interference), C11 (clean failure),
   C06 (what the backend sees). *)
Require Import TSS.Base.Base TSS.Orch.Membership TSS.Orch.Sessions.
From Coq Require Import Arith.

(* ---- tables ---- *)
Lemma key_eqb_refl k : key_eqb k k = true.
Proof. apply key_eqb_spec. reflexivity. Qed.
Lemma key_eqb_neq a b : a <> b -> key_eqb a b = false.
Proof. intros H. destruct (key_eqb a b) eqn:E; [apply key_eqb_spec in E; contradiction|reflexivity]. Qed.

Lemma tget_tdel_same t k : tget (tdel t k) k = None.
Proof.
  induction t as [|[k' v] t IH]; simpl; [reflexivity|].
  destruct (key_eqb k' k) eqn:E; [exact IH|]. simpl. rewrite E. exact IH.
Qed.
Lemma tget_tdel_other t k k' : k' <> k -> tget (tdel t k) k' = tget t k'.
Proof.
  intros Hne. induction t as [|[k0 v] t IH]; simpl; [reflexivity|].
  destruct (key_eqb k0 k) eqn:E.
  - apply key_eqb_spec in E. subst k0. rewrite (key_eqb_neq k k') by congruence. exact IH.
  - simpl. destruct (key_eqb k0 k'); [reflexivity|exact IH].
Qed.
Lemma tget_tdel_some t k k' v : tget (tdel t k) k' = Some v -> tget t k' = Some v /\ k' <> k.
Proof.
  intros H. destruct (key_eqb k' k) eqn:E.
  - apply key_eqb_spec in E. subst. rewrite tget_tdel_same in H. discriminate.
  - assert (k' <> k) by (intros ->; rewrite key_eqb_refl in E; discriminate).
    rewrite tget_tdel_other in H by assumption. auto.
Qed.
Lemma tget_tset t k v k' : tget (tset t k v) k' = if key_eqb k k' then Some v else tget t k'.
Proof.
  unfold tset. simpl. destruct (key_eqb k k') eqn:E; [reflexivity|].
  apply tget_tdel_other. intros ->. rewrite key_eqb_refl in E. discriminate.
Qed.

(* ---- sessions ---- *)
Lemma sget_sdel_same l i : sget (sdel l i) i = None.
Proof.
  induction l as [|[j s] l IH]; simpl; [reflexivity|].
  destruct (j =? i) eqn:E; [exact IH|]. simpl. rewrite E. exact IH.
Qed.
Lemma sget_sdel_other l i j : j <> i -> sget (sdel l i) j = sget l j.
Proof.
  intros Hne. induction l as [|[j0 s] l IH]; simpl; [reflexivity|].
  destruct (j0 =? i) eqn:E.
  - apply N.eqb_eq in E. subst j0. replace (i =? j) with false by (symmetry; apply N.eqb_neq; congruence). exact IH.
  - simpl. destruct (j0 =? j); [reflexivity|exact IH].
Qed.
Lemma sget_sset l i s j : sget (sset l i s) j = if i =? j then Some s else sget l j.
Proof.
  unfold sset. simpl. destruct (i =? j) eqn:E; [reflexivity|].
  apply sget_sdel_other. intros ->. rewrite N.eqb_refl in E. discriminate.
Qed.

Section Facts.
Variable mm : mmap.

Definition live (s : sess) : Prop := s_api s = None.

(* every registered handler belongs to a session whose API call has not returned, under one of its own topics *)
Definition own2 (ss : list (N * sess)) (T : table) : Prop :=
  forall k sid, tget T k = Some sid ->
    exists s, sget ss sid = Some s /\ live s /\ (k = k1 (s_plan s) \/ k = k2 (s_plan s) sid).
Definition own1 (ss : list (N * sess)) (T : table) : Prop :=
  forall k sid, tget T k = Some sid -> exists s, sget ss sid = Some s /\ live s /\ k = k1 (s_plan s).

Record WInv (w : world) : Prop := {
  W_syncs : own2 (sessions w) (syncs w);
  W_rbcs : own1 (sessions w) (rbcs w);
  W_cls : own1 (sessions w) (cls w);
  (* the flag says whether a key generation is live, and at most one is *)
  W_dkg_live : forall sid s, sget (sessions w) sid = Some s -> live s -> p_sign (s_plan s) = false -> dkg w = true;
  W_dkg_flag : dkg w = true -> exists sid s, sget (sessions w) sid = Some s /\ live s /\ p_sign (s_plan s) = false;
  W_dkg_one : forall a b sa sb, sget (sessions w) a = Some sa -> sget (sessions w) b = Some sb ->
      live sa -> live sb -> p_sign (s_plan sa) = false -> p_sign (s_plan sb) = false -> a = b;
  (* a live signing session holds its topic, so that a concurrent one is refused *)
  W_sign_holds : forall sid s, sget (sessions w) sid = Some s -> live s -> p_sign (s_plan s) = true ->
      tget (syncs w) (KT (p_topic (s_plan s))) = Some sid }.

Lemma WInv0 : WInv world0.
Proof. constructor; simpl; try (intros k sid H; discriminate); try discriminate; intros; discriminate. Qed.

(* --- primitives --- *)
Lemma own2_del ss T k : own2 ss T -> own2 ss (tdel T k).
Proof. intros H k' v Hg. apply tget_tdel_some in Hg. apply H. tauto. Qed.
Lemma own1_del ss T k : own1 ss T -> own1 ss (tdel T k).
Proof. intros H k' v Hg. apply tget_tdel_some in Hg. apply H. tauto. Qed.

(* the session list changes at sid only: to a record with the same plan that is still live *)
Lemma own2_upd_live ss T sid s s' :
  own2 ss T -> sget ss sid = Some s -> s_plan s' = s_plan s -> live s' -> own2 (sset ss sid s') T.
Proof.
  intros H Hs Hp Hl k v Hg. destruct (H k v Hg) as (s0 & A & B & C). rewrite sget_sset.
  destruct (sid =? v) eqn:E.
  - apply N.eqb_eq in E. subst v. rewrite Hs in A. inversion A; subst s0. exists s'. rewrite Hp. auto.
  - exists s0. auto.
Qed.
Lemma own1_upd_live ss T sid s s' :
  own1 ss T -> sget ss sid = Some s -> s_plan s' = s_plan s -> live s' -> own1 (sset ss sid s') T.
Proof.
  intros H Hs Hp Hl k v Hg. destruct (H k v Hg) as (s0 & A & B & C). rewrite sget_sset.
  destruct (sid =? v) eqn:E.
  - apply N.eqb_eq in E. subst v. rewrite Hs in A. inversion A; subst s0. exists s'. rewrite Hp. auto.
  - exists s0. auto.
Qed.

(* ... or arbitrarily, when no entry of the table points to sid *)
Lemma own2_upd_absent ss T sid s' :
  own2 ss T -> (forall k, tget T k <> Some sid) -> own2 (sset ss sid s') T.
Proof.
  intros H Ha k v Hg. destruct (H k v Hg) as (s0 & A & B & C). rewrite sget_sset.
  destruct (sid =? v) eqn:E; [apply N.eqb_eq in E; subst v; exfalso; eapply Ha; eauto|]. exists s0. auto.
Qed.
Lemma own1_upd_absent ss T sid s' :
  own1 ss T -> (forall k, tget T k <> Some sid) -> own1 (sset ss sid s') T.
Proof.
  intros H Ha k v Hg. destruct (H k v Hg) as (s0 & A & B & C). rewrite sget_sset.
  destruct (sid =? v) eqn:E; [apply N.eqb_eq in E; subst v; exfalso; eapply Ha; eauto|]. exists s0. auto.
Qed.

Lemma own2_set ss T sid s k :
  own2 ss T -> sget ss sid = Some s -> live s -> (k = k1 (s_plan s) \/ k = k2 (s_plan s) sid) -> own2 ss (tset T k sid).
Proof.
  intros H Hs Hl Hk k' v Hg. rewrite tget_tset in Hg. destruct (key_eqb k k') eqn:E.
  - apply key_eqb_spec in E. subst k'. inversion Hg; subst v. exists s. auto.
  - apply H. exact Hg.
Qed.
Lemma own1_set ss T sid s k :
  own1 ss T -> sget ss sid = Some s -> live s -> k = k1 (s_plan s) -> own1 ss (tset T k sid).
Proof.
  intros H Hs Hl Hk k' v Hg. rewrite tget_tset in Hg. destruct (key_eqb k k') eqn:E.
  - apply key_eqb_spec in E. subst k'. inversion Hg; subst v. exists s. auto.
  - apply H. exact Hg.
Qed.

(* after deleting both of its topics, nothing in a table points to the session *)
Lemma own2_absent_after ss T sid s :
  own2 ss T -> sget ss sid = Some s ->
  forall k, tget (tdel (tdel T (k2 (s_plan s) sid)) (k1 (s_plan s))) k <> Some sid.
Proof.
  intros H Hs k Hg. apply tget_tdel_some in Hg. destruct Hg as [Hg Hn1].
  apply tget_tdel_some in Hg. destruct Hg as [Hg Hn2].
  destruct (H k sid Hg) as (s0 & A & _ & C). rewrite Hs in A. inversion A; subst s0. tauto.
Qed.
Lemma own1_absent_after ss T sid s :
  own1 ss T -> sget ss sid = Some s -> forall k, tget (tdel T (k1 (s_plan s))) k <> Some sid.
Proof.
  intros H Hs k Hg. apply tget_tdel_some in Hg. destruct Hg as [Hg Hn1].
  destruct (H k sid Hg) as (s0 & A & _ & C). rewrite Hs in A. inversion A; subst s0. tauto.
Qed.
End Facts.

(* ------------------------------------------------------------------------------------------------ *)
Section Preservation.
Variable mm : mmap.

Lemma live_dec s : {live s} + {~ live s}.
Proof. unfold live. destruct (s_api s); [right; discriminate|left; reflexivity]. Qed.

(* a session record is replaced by one with the same plan and the same API status *)
Lemma P_upd_same w sid s s' :
  WInv w -> sget (sessions w) sid = Some s -> s_plan s' = s_plan s -> s_api s' = s_api s -> WInv (upd w sid s').
Proof.
  intros [I1 I2 I3 I4 I5 I6 I7] Hs Hp Ha.
  assert (Hl : live s' <-> live s) by (unfold live; rewrite Ha; tauto).
  assert (Hg : forall j x, sget (sset (sessions w) sid s') j = Some x ->
                 exists y, sget (sessions w) j = Some y /\ s_plan x = s_plan y /\ (live x <-> live y)).
  { intros j x. rewrite sget_sset. destruct (sid =? j) eqn:E.
    - apply N.eqb_eq in E. subst j. intros H; inversion H; subst x. exists s. auto.
    - intros H. exists x. tauto. }
  constructor; unfold upd; cbn [syncs rbcs cls dkg sessions].
  - destruct (live_dec s) as [L|L].
    + eapply own2_upd_live; eauto. apply Hl. exact L.
    + apply own2_upd_absent; [exact I1|]. intros k Hk. destruct (I1 k sid Hk) as (s0 & A & B & _). congruence.
  - destruct (live_dec s) as [L|L].
    + eapply own1_upd_live; eauto. apply Hl. exact L.
    + apply own1_upd_absent; [exact I2|]. intros k Hk. destruct (I2 k sid Hk) as (s0 & A & B & _). congruence.
  - destruct (live_dec s) as [L|L].
    + eapply own1_upd_live; eauto. apply Hl. exact L.
    + apply own1_upd_absent; [exact I3|]. intros k Hk. destruct (I3 k sid Hk) as (s0 & A & B & _). congruence.
  - intros j x Hx Lx Px. destruct (Hg j x Hx) as (y & Hy & Hpl & Hlv). eapply I4; [exact Hy|tauto|congruence].
  - intros Hd. destruct (I5 Hd) as (j & y & Hy & Ly & Py). destruct (N.eq_dec j sid) as [->|Hne].
    + exists sid, s'. rewrite sget_sset, N.eqb_refl. rewrite Hs in Hy. inversion Hy; subst y.
      split; [reflexivity|]. split; [tauto|congruence].
    + exists j, y. rewrite sget_sset. replace (sid =? j) with false by (symmetry; apply N.eqb_neq; congruence). auto.
  - intros a b sa sb Ha' Hb' La Lb Pa Pb.
    destruct (Hg a sa Ha') as (ya & Hya & Hpa & Hla). destruct (Hg b sb Hb') as (yb & Hyb & Hpb & Hlb).
    eapply I6; [exact Hya|exact Hyb|tauto|tauto|congruence|congruence].
  - intros j x Hx Lx Px. destruct (Hg j x Hx) as (y & Hy & Hpl & Hlv). rewrite Hpl. eapply I7; [exact Hy|tauto|congruence].
Qed.

Lemma P_set_at w sid a : WInv w -> WInv (set_at w sid a).
Proof.
  intros HI. unfold set_at. destruct (sget (sessions w) sid) as [s|] eqn:E; [|exact HI].
  eapply P_upd_same; eauto.
Qed.

Lemma k1_neq_k2 p sid : k1 p <> k2 p sid.
Proof. unfold k1, k2. destruct (p_sign p); discriminate. Qed.

(* the API call returns and everything of the session is gone *)
Lemma P_finish w sid r : WInv w -> WInv (finish w sid r).
Proof.
  intros HI. unfold finish. destruct (sget (sessions w) sid) as [s|] eqn:Hs; [|exact HI].
  destruct (s_api s) eqn:Ha; [exact HI|].
  destruct HI as [I1 I2 I3 I4 I5 I6 I7]. set (p := s_plan s).
  set (s' := mkSess p (Some r) (s_at s) (s_cancelled s)).
  assert (Hg : forall j x, sget (sset (sessions w) sid s') j = Some x ->
                 (j = sid /\ x = s') \/ (j <> sid /\ sget (sessions w) j = Some x)).
  { intros j x. rewrite sget_sset. destruct (sid =? j) eqn:E.
    - apply N.eqb_eq in E. intros H; inversion H. auto.
    - apply N.eqb_neq in E. intros H. right. split; [congruence|exact H]. }
  constructor; cbn [syncs rbcs cls dkg sessions].
  - apply own2_upd_absent; [apply own2_del, own2_del; exact I1|]. apply (own2_absent_after _ _ _ s I1 Hs).
  - apply own1_upd_absent; [apply own1_del; exact I2|]. apply (own1_absent_after _ _ _ s I2 Hs).
  - apply own1_upd_absent; [apply own1_del; exact I3|]. apply (own1_absent_after _ _ _ s I3 Hs).
  - intros j x Hx Lx Px. destruct (Hg j x Hx) as [[-> ->]|[Hne Hy]]; [discriminate Lx|].
    destruct (p_sign p) eqn:Ps; [eapply I4; eauto|].
    (* a key generation returns: no other key generation is live *)
    exfalso. apply Hne. eapply I6; [exact Hy|exact Hs|exact Lx|exact Ha|exact Px|exact Ps].
  - destruct (p_sign p) eqn:Ps; [|discriminate]. intros Hd. destruct (I5 Hd) as (j & y & Hy & Ly & Py).
    assert (j <> sid) by (intros ->; rewrite Hs in Hy; inversion Hy; subst y; unfold p in Ps; congruence).
    exists j, y. rewrite sget_sset. replace (sid =? j) with false by (symmetry; apply N.eqb_neq; congruence). auto.
  - intros a b sa sb Ha' Hb' La Lb Pa Pb.
    destruct (Hg a sa Ha') as [[-> ->]|[Hna Hya]]; [discriminate La|].
    destruct (Hg b sb Hb') as [[-> ->]|[Hnb Hyb]]; [discriminate Lb|].
    eapply I6; eauto.
  - intros j x Hx Lx Px. destruct (Hg j x Hx) as [[-> ->]|[Hne Hy]]; [discriminate Lx|].
    pose proof (I7 j x Hy Lx Px) as Hh.
    assert (Hk1 : KT (p_topic (s_plan x)) <> k1 p).
    { intros E. (* then session sid is a live signing session on the same topic: it holds the same entry *)
      unfold k1 in E. destruct (p_sign p) eqn:Ps; [|discriminate]. inversion E as [Et].
      pose proof (I7 sid s Hs Ha Ps) as Hh'. unfold p in Et. rewrite <- Et in Hh'. congruence. }
    assert (Hk2 : KT (p_topic (s_plan x)) <> k2 p sid) by (unfold k2; destruct (p_sign p); discriminate).
    rewrite tget_tdel_other by exact Hk1. rewrite tget_tdel_other by exact Hk2. exact Hh.
Qed.

Lemma P_reg_instance w sid s :
  WInv w -> sget (sessions w) sid = Some s -> live s -> WInv (reg_instance w sid (s_plan s)).
Proof.
  intros [I1 I2 I3 I4 I5 I6 I7] Hs L. constructor; unfold reg_instance; cbn [syncs rbcs cls dkg sessions]; auto.
  - eapply own1_set; eauto.
  - destruct (p_sign (s_plan s)); [eapply own1_set; eauto|exact I3].
Qed.

Lemma P_reg_sync2 w sid s :
  WInv w -> sget (sessions w) sid = Some s -> live s -> WInv (reg_sync2 w sid (s_plan s)).
Proof.
  intros [I1 I2 I3 I4 I5 I6 I7] Hs L. constructor; unfold reg_sync2; cbn [syncs rbcs cls dkg sessions]; auto.
  - eapply own2_set; eauto.
  - intros j x Hx Lx Px. rewrite tget_tset.
    replace (key_eqb (k2 (s_plan s) sid) (KT (p_topic (s_plan x)))) with false; [eapply I7; eauto|].
    symmetry. apply key_eqb_neq. unfold k2. destruct (p_sign (s_plan s)); discriminate.
Qed.

Lemma P_new_refused w sid p a :
  WInv w -> sget (sessions w) sid = None -> WInv (upd w sid (mkSess p (Some RRefused) a false)).
Proof.
  intros [I1 I2 I3 I4 I5 I6 I7] Hs.
  assert (Hg : forall j x, sget (sset (sessions w) sid (mkSess p (Some RRefused) a false)) j = Some x ->
                 live x -> j <> sid /\ sget (sessions w) j = Some x).
  { intros j x. rewrite sget_sset. destruct (sid =? j) eqn:E.
    - intros H; inversion H; subst x. discriminate.
    - apply N.eqb_neq in E. intros H _. split; [congruence|exact H]. }
  constructor; unfold upd; cbn [syncs rbcs cls dkg sessions].
  - apply own2_upd_absent; [exact I1|]. intros k Hk. destruct (I1 k sid Hk) as (s0 & A & _). congruence.
  - apply own1_upd_absent; [exact I2|]. intros k Hk. destruct (I2 k sid Hk) as (s0 & A & _). congruence.
  - apply own1_upd_absent; [exact I3|]. intros k Hk. destruct (I3 k sid Hk) as (s0 & A & _). congruence.
  - intros j x Hx Lx Px. destruct (Hg j x Hx Lx). eapply I4; eauto.
  - intros Hd. destruct (I5 Hd) as (j & y & Hy & Ly & Py). exists j, y. rewrite sget_sset.
    replace (sid =? j) with false; [auto|]. symmetry. apply N.eqb_neq. intros ->. congruence.
  - intros a0 b sa sb Ha' Hb' La Lb Pa Pb. destruct (Hg a0 sa Ha' La), (Hg b sb Hb' Lb). eapply I6; eauto.
  - intros j x Hx Lx Px. destruct (Hg j x Hx Lx). eapply I7; eauto.
Qed.

Lemma P_new_sign w sid p :
  WInv w -> sget (sessions w) sid = None -> p_sign p = true -> tget (syncs w) (KT (p_topic p)) = None ->
  WInv (mkWorld (tset (syncs w) (KT (p_topic p)) sid) (rbcs w) (cls w) (dkg w)
                (sset (sessions w) sid (mkSess p None AtStart false))).
Proof.
  intros [I1 I2 I3 I4 I5 I6 I7] Hs Ps Hfree. set (s0 := mkSess p None AtStart false).
  assert (Hnew : sget (sset (sessions w) sid s0) sid = Some s0) by (rewrite sget_sset, N.eqb_refl; reflexivity).
  assert (Hg : forall j x, sget (sset (sessions w) sid s0) j = Some x ->
                 (j = sid /\ x = s0) \/ (j <> sid /\ sget (sessions w) j = Some x)).
  { intros j x. rewrite sget_sset. destruct (sid =? j) eqn:E.
    - apply N.eqb_eq in E. intros H; inversion H. auto.
    - apply N.eqb_neq in E. intros H. right. split; [congruence|exact H]. }
  constructor; cbn [syncs rbcs cls dkg sessions].
  - eapply own2_set; [|exact Hnew|reflexivity|left; unfold k1; simpl; rewrite Ps; reflexivity].
    apply own2_upd_absent; [exact I1|]. intros k Hk. destruct (I1 k sid Hk) as (x & A & _). congruence.
  - apply own1_upd_absent; [exact I2|]. intros k Hk. destruct (I2 k sid Hk) as (x & A & _). congruence.
  - apply own1_upd_absent; [exact I3|]. intros k Hk. destruct (I3 k sid Hk) as (x & A & _). congruence.
  - intros j x Hx Lx Px. destruct (Hg j x Hx) as [[-> ->]|[Hne Hy]]; [simpl in Px; congruence|eapply I4; eauto].
  - intros Hd. destruct (I5 Hd) as (j & y & Hy & Ly & Py). exists j, y. rewrite sget_sset.
    replace (sid =? j) with false; [auto|]. symmetry. apply N.eqb_neq. intros ->. congruence.
  - intros a b sa sb Ha' Hb' La Lb Pa Pb.
    destruct (Hg a sa Ha') as [[-> ->]|[Hna Hya]]; [simpl in Pa; congruence|].
    destruct (Hg b sb Hb') as [[-> ->]|[Hnb Hyb]]; [simpl in Pb; congruence|]. eapply I6; eauto.
  - intros j x Hx Lx Px. rewrite tget_tset. destruct (Hg j x Hx) as [[-> ->]|[Hne Hy]].
    + unfold s0; cbn [s_plan]. rewrite key_eqb_refl. reflexivity.
    + pose proof (I7 j x Hy Lx Px) as Hh. destruct (key_eqb (KT (p_topic p)) (KT (p_topic (s_plan x)))) eqn:E.
      * apply key_eqb_spec in E. rewrite <- E in Hh. congruence.
      * exact Hh.
Qed.

Lemma P_new_keygen w sid p :
  WInv w -> sget (sessions w) sid = None -> p_sign p = false -> dkg w = false ->
  WInv (mkWorld (tset (syncs w) KD sid) (rbcs w) (tset (cls w) KD sid) true
                (sset (sessions w) sid (mkSess p None AtStart false))).
Proof.
  intros [I1 I2 I3 I4 I5 I6 I7] Hs Ps Hd. set (s0 := mkSess p None AtStart false).
  assert (Hnew : sget (sset (sessions w) sid s0) sid = Some s0) by (rewrite sget_sset, N.eqb_refl; reflexivity).
  assert (Hg : forall j x, sget (sset (sessions w) sid s0) j = Some x ->
                 (j = sid /\ x = s0) \/ (j <> sid /\ sget (sessions w) j = Some x)).
  { intros j x. rewrite sget_sset. destruct (sid =? j) eqn:E.
    - apply N.eqb_eq in E. intros H; inversion H. auto.
    - apply N.eqb_neq in E. intros H. right. split; [congruence|exact H]. }
  assert (Hk : KD = k1 (s_plan s0)) by (unfold k1; simpl; rewrite Ps; reflexivity).
  constructor; cbn [syncs rbcs cls dkg sessions].
  - eapply own2_set; [|exact Hnew|reflexivity|left; exact Hk].
    apply own2_upd_absent; [exact I1|]. intros k Hk'. destruct (I1 k sid Hk') as (x & A & _). congruence.
  - apply own1_upd_absent; [exact I2|]. intros k Hk'. destruct (I2 k sid Hk') as (x & A & _). congruence.
  - eapply own1_set; [|exact Hnew|reflexivity|exact Hk].
    apply own1_upd_absent; [exact I3|]. intros k Hk'. destruct (I3 k sid Hk') as (x & A & _). congruence.
  - intros; reflexivity.
  - intros _. exists sid, s0. split; [exact Hnew|]. split; [reflexivity|exact Ps].
  - intros a b sa sb Ha' Hb' La Lb Pa Pb.
    destruct (Hg a sa Ha') as [[-> ->]|[Hna Hya]]; destruct (Hg b sb Hb') as [[-> ->]|[Hnb Hyb]]; try reflexivity.
    + pose proof (I4 b sb Hyb Lb Pb). congruence.
    + pose proof (I4 a sa Hya La Pa). congruence.
    + eapply I6; eauto.
  - intros j x Hx Lx Px. rewrite tget_tset. simpl. destruct (Hg j x Hx) as [[-> ->]|[Hne Hy]]; [simpl in Px; congruence|].
    eapply I7; eauto.
Qed.
End Preservation.

Section Steps.
Variable mm : mmap.

Lemma run_protocol_inv w sid p : WInv w -> WInv (run_protocol w sid p).
Proof.
  intros HI. unfold run_protocol. destruct (p_s2ok p).
  - destruct (p_be p); try (apply P_set_at, P_finish; exact HI). apply P_set_at; exact HI.
  - destruct (p_sign p); [apply P_set_at, P_finish; exact HI|apply P_set_at; exact HI].
Qed.

Lemma over_false_live s : over s = false -> live s.
Proof. unfold over, live. intros H. apply orb_false_iff in H. destruct H as [_ H]. destruct (s_api s); [discriminate|reflexivity]. Qed.

Lemma after_init_inv w sid s : WInv w -> sget (sessions w) sid = Some s -> WInv (after_init w sid s).
Proof.
  intros HI Hs. unfold after_init. destruct (over s) eqn:Eo; [apply P_set_at; exact HI|].
  pose proof (over_false_live s Eo) as L.
  apply run_protocol_inv. apply P_reg_sync2; [apply P_reg_instance; assumption| |exact L].
  unfold reg_instance. cbn [sessions]. exact Hs.
Qed.

Lemma callback_inv w sid s : WInv w -> sget (sessions w) sid = Some s -> WInv (fst (callback mm w sid s)).
Proof.
  intros HI Hs. unfold callback. destruct (parties_of mm (s_plan s)) as [parties| |]; cbn [fst];
    try (apply P_set_at, P_finish; exact HI).
  destruct (p_sign (s_plan s) && negb (p_share (s_plan s))); cbn [fst]; [apply P_set_at, P_finish; exact HI|].
  destruct (p_initgate (s_plan s)); cbn [fst]; [apply P_set_at; exact HI|apply after_init_inv; assumption].
Qed.

Lemma run_s1_inv w sid s : WInv w -> sget (sessions w) sid = Some s -> WInv (fst (run_s1 mm w sid s)).
Proof.
  intros HI Hs. unfold run_s1. destruct (p_s1 (s_plan s)); cbn [fst].
  - apply callback_inv; assumption.
  - unfold s1_failed. apply P_set_at, P_finish; exact HI.
  - apply P_set_at; exact HI.
Qed.

Lemma start_inv w sid p : WInv w -> sget (sessions w) sid = None -> WInv (fst (start mm w sid p)).
Proof.
  intros HI Hs. unfold start. destruct (p_sign p) eqn:Ps.
  - destruct (tget (syncs w) (KT (p_topic p))) eqn:Et; cbn [fst]; [apply P_new_refused; assumption|].
    apply run_s1_inv; [apply P_new_sign; assumption|]. cbn [sessions]. rewrite sget_sset, N.eqb_refl. reflexivity.
  - destruct (dkg w) eqn:Ed; cbn [fst]; [apply P_new_refused; assumption|].
    apply run_s1_inv; [apply P_new_keygen; assumption|]. cbn [sessions]. rewrite sget_sset, N.eqb_refl. reflexivity.
Qed.

Lemma release_inv w sid : WInv w -> WInv (fst (release mm w sid)).
Proof.
  intros HI. unfold release. destruct (sget (sessions w) sid) as [s|] eqn:Hs; [|exact HI].
  destruct (s_at s); try exact HI.
  - destruct (p_s1then (s_plan s)); cbn [fst].
    + apply callback_inv; assumption.
    + unfold s1_failed. apply P_set_at, P_finish; exact HI.
  - cbn [fst]. apply after_init_inv; assumption.
Qed.

Lemma cancel_inv w sid : WInv w -> WInv (fst (cancel w sid)).
Proof.
  intros HI. unfold cancel. destruct (sget (sessions w) sid) as [s|] eqn:Hs; [|exact HI]. cbn [fst].
  assert (H1 : WInv (finish (upd w sid (mkSess (s_plan s) (s_api s) (s_at s) true)) sid RCtx)).
  { apply P_finish. eapply P_upd_same; eauto. }
  destruct (s_at s); try exact H1; try (apply P_set_at; exact H1).
  destruct (p_s1 (s_plan s)) as [| |[|]]; try exact H1; apply P_set_at; exact H1.
Qed.

Lemma inject_world w k sy f p2p : fst (inject mm w k sy f p2p) = w.
Proof.
  unfold inject. destruct sy.
  - destruct (tget (syncs w) k); reflexivity.
  - destruct (tget (rbcs w) k); [|reflexivity]. destruct (tget (cls w) k); [|reflexivity].
    destruct (sget (sessions w) n); [|reflexivity]. destruct (p2p && nmem f (p_members (s_plan s))); reflexivity.
Qed.

(* histories: every session identifier is used by one start only *)
Definition fresh (w : world) (e : event) : Prop :=
  match e with EStart sid _ => sget (sessions w) sid = None | _ => True end.

Lemma step_inv w e : WInv w -> fresh w e -> WInv (fst (step mm w e)).
Proof.
  intros HI Hf. destruct e as [sid p|sid|sid|k sy f p2p]; simpl.
  - apply start_inv; assumption.
  - apply release_inv; assumption.
  - apply cancel_inv; assumption.
  - rewrite inject_world. exact HI.
Qed.

End Steps.

(* The application's membership map is read at the start of every API call (computeMembership(s.Membership()) in KeyGen and
   Sign) and may differ from one call to the next: a reachable state is reached by steps that each run under SOME map.
   (The model reads the map at every step of a session; the code reads it once per session. The two agree as long as the
   application does not change its map while a session is running - which is how the harness drives it; a change in
   mid-session is outside this model.) *)
Inductive reachable : world -> Prop :=
| reach0 : reachable world0
| reach_step mm w e : reachable w -> fresh w e -> reachable (fst (step mm w e)).

Lemma reachable_inv w : reachable w -> WInv w.
Proof. induction 1; [apply WInv0|apply step_inv; assumption]. Qed.

Section Theorems.
Variable mm : mmap.

(* ------------------------------- C12 ------------------------------- *)

(* no residue: once the API call of a session has returned, no handler table mentions the session, whatever the
   outcome, and whatever still happens later (late continuations included) *)
Theorem no_residue w sid s :
  reachable w -> sget (sessions w) sid = Some s -> s_api s <> None ->
  forall k, tget (syncs w) k <> Some sid /\ tget (rbcs w) k <> Some sid /\ tget (cls w) k <> Some sid.
Proof.
  intros HR Hs Ha k. destruct (reachable_inv w HR) as [I1 I2 I3 _ _ _ _]. repeat split; intros Hg.
  - destruct (I1 k sid Hg) as (s0 & A & B & _). rewrite Hs in A. inversion A; subst. contradiction.
  - destruct (I2 k sid Hg) as (s0 & A & B & _). rewrite Hs in A. inversion A; subst. contradiction.
  - destruct (I3 k sid Hg) as (s0 & A & B & _). rewrite Hs in A. inversion A; subst. contradiction.
Qed.

(* a later Sign on a topic is admitted as soon as no Sign call on that topic is still running *)
Theorem sign_readmitted w p :
  reachable w -> p_sign p = true ->
  (forall j s, sget (sessions w) j = Some s -> s_api s = None -> p_sign (s_plan s) = true -> p_topic (s_plan s) <> p_topic p) ->
  tget (syncs w) (KT (p_topic p)) = None.
Proof.
  intros HR Ps Hnone. destruct (tget (syncs w) (KT (p_topic p))) as [j|] eqn:E; [|reflexivity]. exfalso.
  destruct (reachable_inv w HR) as [I1 _ _ _ _ _ _]. destruct (I1 _ _ E) as (s & A & B & C).
  unfold k1, k2 in C. destruct (p_sign (s_plan s)) eqn:Psj; destruct C as [C|C]; try discriminate.
  inversion C. eapply Hnone; eauto.
Qed.

(* a later KeyGen is admitted as soon as no KeyGen call is still running *)
Theorem keygen_readmitted w :
  reachable w ->
  (forall j s, sget (sessions w) j = Some s -> s_api s = None -> p_sign (s_plan s) = true) ->
  dkg w = false.
Proof.
  intros HR Hnone. destruct (dkg w) eqn:E; [|reflexivity]. exfalso.
  destruct (W_dkg_flag _ (reachable_inv w HR) E) as (j & s & A & B & C). rewrite (Hnone j s A B) in C. discriminate.
Qed.

(* a second concurrent session on the same topic is refused and changes nothing but its own record *)
Theorem same_topic_refused w sid p j :
  p_sign p = true -> tget (syncs w) (KT (p_topic p)) = Some j ->
  exists w', start mm w sid p = (w', obs0) /\ syncs w' = syncs w /\ rbcs w' = rbcs w /\ cls w' = cls w /\ dkg w' = dkg w /\
             (forall i, i <> sid -> sget (sessions w') i = sget (sessions w) i) /\
             exists s, sget (sessions w') sid = Some s /\ s_api s = Some RRefused.
Proof.
  intros Ps Hg. unfold start. rewrite Ps, Hg. eexists. split; [reflexivity|]. unfold upd. cbn [syncs rbcs cls dkg sessions].
  repeat split; try reflexivity.
  - intros i Hi. rewrite sget_sset. replace (sid =? i) with false by (symmetry; apply N.eqb_neq; congruence). reflexivity.
  - eexists. rewrite sget_sset, N.eqb_refl. split; reflexivity.
Qed.

Theorem second_keygen_refused w sid p :
  p_sign p = false -> dkg w = true ->
  exists w', start mm w sid p = (w', obs0) /\ syncs w' = syncs w /\ rbcs w' = rbcs w /\ cls w' = cls w /\ dkg w' = dkg w.
Proof. intros Ps Hd. unfold start. rewrite Ps, Hd. eexists. split; [reflexivity|]. unfold upd. cbn [syncs rbcs cls dkg]. repeat split; try reflexivity; exact Hd. Qed.

(* a message reaches a protocol instance only on a topic its live session registered, from one of its participants;
   late or foreign traffic reaches nothing; and no message changes any session state *)
Theorem traffic_filtered w k sy f p2p sid fp b :
  reachable w -> In (ROnMsg sid fp b) (o_reached (snd (inject mm w k sy f p2p))) ->
  exists s, sget (sessions w) sid = Some s /\ s_api s = None /\ k = k1 (s_plan s) /\
            In f (p_members (s_plan s)) /\ fp = pid_of mm f /\ b = false.
Proof.
  intros HR Hin. unfold inject in Hin. destruct sy.
  - destruct (tget (syncs w) k); simpl in Hin; [destruct Hin as [H|[]]; discriminate|contradiction].
  - destruct (tget (rbcs w) k) as [j|] eqn:Er; [|simpl in Hin; contradiction].
    destruct (tget (cls w) k) eqn:Ec; [|simpl in Hin; contradiction].
    destruct (sget (sessions w) j) as [s|] eqn:Es; [|simpl in Hin; contradiction].
    destruct (p2p && nmem f (p_members (s_plan s))) eqn:E; simpl in Hin; [|contradiction].
    destruct Hin as [H|[]]. inversion H; subst. apply andb_true_iff in E. destruct E as [_ E]. apply nmem_In in E.
    destruct (W_rbcs _ (reachable_inv w HR) k sid Er) as (s0 & A & B & C). rewrite Es in A. inversion A; subst s0.
    exists s. split; [exact Es|]. split; [exact B|]. split; [exact C|]. split; [exact E|]. split; reflexivity.
Qed.

Theorem traffic_changes_nothing w k sy f p2p : fst (inject mm w k sy f p2p) = w.
Proof. apply inject_world. Qed.

(* ------------------------------- C11 ------------------------------- *)

(* cancelling the context of a session makes its API call return, from every state *)
Theorem cancel_returns w sid s :
  sget (sessions w) sid = Some s ->
  exists s', sget (sessions (fst (cancel w sid))) sid = Some s' /\ s_api s' <> None.
Proof.
  intros Hs. unfold cancel. rewrite Hs. cbn [fst].
  set (w0 := upd w sid (mkSess (s_plan s) (s_api s) (s_at s) true)).
  assert (H0 : sget (sessions w0) sid = Some (mkSess (s_plan s) (s_api s) (s_at s) true)).
  { unfold w0, upd. cbn [sessions]. rewrite sget_sset, N.eqb_refl. reflexivity. }
  assert (H1 : exists s', sget (sessions (finish w0 sid RCtx)) sid = Some s' /\ s_api s' <> None).
  { unfold finish. rewrite H0. cbn [s_api]. destruct (s_api s) eqn:Ea.
    - eexists. split; [exact H0|]. cbn [s_api]. discriminate.
    - eexists. cbn [sessions]. rewrite sget_sset, N.eqb_refl. split; [reflexivity|]. discriminate. }
  assert (Hset : forall w1 a, (exists s', sget (sessions w1) sid = Some s' /\ s_api s' <> None) ->
                            exists s', sget (sessions (set_at w1 sid a)) sid = Some s' /\ s_api s' <> None).
  { intros w1 a (s' & A & B). unfold set_at. rewrite A. unfold upd. cbn [sessions].
    eexists. rewrite sget_sset, N.eqb_refl. split; [reflexivity|exact B]. }
  destruct (s_at s); auto. destruct (p_s1 (s_plan s)) as [| |[|]]; auto.
Qed.

(* unusable share data, a failed first synchronisation, two participants of one party, a failed pre-signing
   synchronisation and a backend error all make the call return an error at once, without waiting for the context *)
Definition returned_err (w : world) (sid : N) : Prop :=
  exists s, sget (sessions w) sid = Some s /\ s_api s = Some RErr.

Lemma finish_err w sid s : sget (sessions w) sid = Some s -> s_api s = None ->
  forall a, returned_err (set_at (finish w sid RErr) sid a) sid.
Proof.
  intros Hs Ha a. unfold returned_err, finish. rewrite Hs, Ha. unfold set_at. cbn [sessions]. rewrite sget_sset, N.eqb_refl.
  unfold upd. cbn [sessions s_plan s_api]. eexists. rewrite sget_sset, N.eqb_refl. split; reflexivity.
Qed.

Theorem precondition_error w sid s :
  sget (sessions w) sid = Some s -> s_api s = None ->
  p_sign (s_plan s) = true -> p_share (s_plan s) = false ->
  returned_err (fst (callback mm w sid s)) sid.
Proof.
  intros Hs Ha Ps Hsh. unfold callback. destruct (parties_of mm (s_plan s)); cbn [fst]; try (apply (finish_err w sid s Hs Ha)).
  rewrite Ps, Hsh. cbn [negb andb fst]. apply (finish_err w sid s Hs Ha).
Qed.

Theorem sync_failure_error w sid s :
  sget (sessions w) sid = Some s -> s_api s = None -> returned_err (s1_failed w sid) sid.
Proof. intros Hs Ha. unfold s1_failed. apply (finish_err w sid s Hs Ha). Qed.

Theorem duplicate_party_error w sid s :
  sget (sessions w) sid = Some s -> s_api s = None -> parties_of mm (s_plan s) = Err ->
  returned_err (fst (callback mm w sid s)) sid /\ o_inits (snd (callback mm w sid s)) = [].
Proof.
  intros Hs Ha Hp. unfold callback. rewrite Hp. cbn [fst snd]. split; [apply (finish_err w sid s Hs Ha)|reflexivity].
Qed.

(* no step of the model panics *)
Lemma callback_no_panic w sid s : o_panic (snd (callback mm w sid s)) = false.
Proof.
  unfold callback. destruct (parties_of mm (s_plan s)); [|reflexivity|reflexivity].
  destruct (p_sign (s_plan s) && negb (p_share (s_plan s))); [reflexivity|]. destruct (p_initgate (s_plan s)); reflexivity.
Qed.

Lemma run_s1_no_panic w sid s : o_panic (snd (run_s1 mm w sid s)) = false.
Proof. unfold run_s1. destruct (p_s1 (s_plan s)); [apply callback_no_panic|reflexivity|reflexivity]. Qed.

Theorem never_panics w e : o_panic (snd (step mm w e)) = false.
Proof.
  destruct e as [sid p|sid|sid|k sy f p2p]; simpl.
  - unfold start. destruct (p_sign p).
    + destruct (tget (syncs w) (KT (p_topic p))); [reflexivity|apply run_s1_no_panic].
    + destruct (dkg w); [reflexivity|apply run_s1_no_panic].
  - unfold release. destruct (sget (sessions w) sid) as [s|]; [|reflexivity]. destruct (s_at s); try reflexivity.
    + destruct (p_s1then (s_plan s)); [apply callback_no_panic|reflexivity].
  - unfold cancel. destruct (sget (sessions w) sid); reflexivity.
  - unfold inject. destruct sy.
    + destruct (tget (syncs w) k); reflexivity.
    + destruct (tget (rbcs w) k); [|reflexivity]. destruct (tget (cls w) k); [|reflexivity].
      destruct (sget (sessions w) n); [|reflexivity]. destruct (p2p && nmem f (p_members (s_plan s))); reflexivity.
Qed.

(* ------------------------------- C06 ------------------------------- *)

(* whenever a backend is initialised, it gets the sorted, duplicate-free party ids of the agreed participants *)
Theorem init_argument w sid s i parties :
  In (i, parties) (o_inits (snd (callback mm w sid s))) ->
  i = sid /\ party_ids mm (p_members (s_plan s)) = Ok parties.
Proof.
  unfold callback, parties_of. destruct (party_ids mm (p_members (s_plan s))) as [ps| |] eqn:E; cbn [snd];
    try (intros []).
  assert (H : In (i, parties) [(sid, ps)] -> i = sid /\ Ok ps = Ok parties).
  { intros [Hin|[]]. inversion Hin; subst. auto. }
  destruct (p_sign (s_plan s) && negb (p_share (s_plan s))); cbn [snd]; [intros []|].
  destruct (p_initgate (s_plan s)); cbn [snd o_inits]; exact H.
Qed.
End Theorems.
