(* Life cycle of KeyGen / Sign sessions in threshold.Scheme (C12, C11, C06): the three topic-keyed handler
   tables, the dkgRunning flag, and the points at which the harness (or a real synchroniser / backend /
   context) lets a session advance.  Granularity: one event = one externally visible decision
   (start of an API call, release of a synchroniser that was waiting, cancellation of a context, one
   incoming message); everything the code then does up to its next blocking point happens in that step.
   Backends and ordinary synchronisers honour their context (they return promptly when it is cancelled);
   a synchroniser that completes concurrently with the cancellation is the "late gate" (ignore_ctx). *)
Require Import TSS.Base.Base TSS.Orch.Membership.
From Coq Require Import Arith.

Inductive key := KT (t : N) | KH (t : N) | KD | KM (sid : N) | KX.
Definition key_eqb (a b : key) : bool :=
  match a, b with
  | KT x, KT y | KH x, KH y | KM x, KM y => x =? y
  | KD, KD | KX, KX => true
  | _, _ => false
  end.
Lemma key_eqb_spec a b : key_eqb a b = true <-> a = b.
Proof.
  destruct a, b; simpl; try (split; [discriminate|discriminate]); try (split; reflexivity);
    rewrite N.eqb_eq; split; intros H; congruence.
Qed.

Inductive s1plan := S1Ok | S1Fail | S1Gate (ignore_ctx : bool).
Inductive beplan := BeOk | BeFail | BeBlock.
Record plan := mkPlan { p_sign : bool; p_topic : N; p_members : list N; p_s1 : s1plan; p_s1then : bool;
                        p_s2ok : bool; p_be : beplan; p_share : bool;
                        p_initgate : bool   (* the backend's Init takes long: the session can end while it runs *) }.
Inductive res := ROk | RErr | RCtx | RRefused.
Inductive at_ := AtStart | AtGate | AtInit | AtS2Fail | AtBackend | AtFinished.
Record sess := mkSess { s_plan : plan; s_api : option res; s_at : at_; s_cancelled : bool }.

Definition table := list (key * N).
Fixpoint tget (t : table) (k : key) : option N :=
  match t with [] => None | (k', v) :: r => if key_eqb k' k then Some v else tget r k end.
Fixpoint tdel (t : table) (k : key) : table :=
  match t with [] => [] | (k', v) :: r => if key_eqb k' k then tdel r k else (k', v) :: tdel r k end.
Definition tset (t : table) (k : key) (v : N) : table := (k, v) :: tdel t k.

Record world := mkWorld { syncs : table; rbcs : table; cls : table; dkg : bool; sessions : list (N * sess) }.
Definition world0 := mkWorld [] [] [] false [].

Fixpoint sget (l : list (N * sess)) (sid : N) : option sess :=
  match l with [] => None | (i, s) :: r => if i =? sid then Some s else sget r sid end.
Fixpoint sdel (l : list (N * sess)) (sid : N) : list (N * sess) :=
  match l with [] => [] | (i, s) :: r => if i =? sid then sdel r sid else (i, s) :: sdel r sid end.
Definition sset (l : list (N * sess)) (sid : N) (s : sess) := (sid, s) :: sdel l sid.

Inductive reach := ROnMsg (sid : N) (from_party : N) (bcast : bool) | RSync (k : key).
Record obs := mkObs { o_inits : list (N * list N);          (* backend Init: session, parties *)
                      o_dests : list (N * N * option N);    (* session, addressed party, node it must go to *)
                      o_reached : list reach;
                      o_panic : bool }.
Definition obs0 := mkObs [] [] [] false.

Inductive event :=
| EStart (sid : N) (p : plan)
| ERelease (sid : N)
| ECancel (sid : N)
| EInject (k : key) (is_sync : bool) (from : N) (is_p2p : bool).

Section Model.
Variable mm : mmap.      (* the membership map of this node *)

Definition k1 (p : plan) : key := if p_sign p then KT (p_topic p) else KD.
Definition k2 (p : plan) (sid : N) : key := if p_sign p then KH (p_topic p) else KM sid.

Definition upd (w : world) (sid : N) (s : sess) : world :=
  mkWorld (syncs w) (rbcs w) (cls w) (dkg w) (sset (sessions w) sid s).
Definition set_at (w : world) (sid : N) (a : at_) : world :=
  match sget (sessions w) sid with
  | Some s => upd w sid (mkSess (s_plan s) (s_api s) a (s_cancelled s))
  | None => w
  end.

(* The API call of session sid returns r (unless it has returned already).  By then nothing of the session is
   registered any more: its first topic has left all three tables (Scheme.cleanup for Sign, the clean-up returned by
   initializeHandlers for KeyGen, run by the call itself and - for Sign - by the continuation before it publishes the
   result) and its second-synchronisation topic has left syncsInProgress (cleanupSyncTopic / the deferred delete in the
   runDKG callback); a key generation clears dkgRunning.  Within one step the order of these deletions and of the
   return is not observable, so they are one operation here. *)
Definition finish (w : world) (sid : N) (r : res) : world :=
  match sget (sessions w) sid with
  | Some s =>
      match s_api s with
      | Some _ => w
      | None =>
          let p := s_plan s in
          mkWorld (tdel (tdel (syncs w) (k2 p sid)) (k1 p)) (tdel (rbcs w) (k1 p)) (tdel (cls w) (k1 p))
                  (if p_sign p then dkg w else false)
                  (sset (sessions w) sid (mkSess p (Some r) (s_at s) (s_cancelled s)))
      end
  | None => w
  end.

Definition parties_of (p : plan) : outcome (list N) := party_ids mm (p_members p).

Definition dests_of (sid : N) (p : plan) (parties : list N) : list (N * N * option N) :=
  map (fun to => (sid, to, dest_among mm to (p_members p))) (parties ++ [60000]).

(* registration of the protocol instance by the continuation of the first synchronisation *)
Definition reg_instance (w : world) (sid : N) (p : plan) : world :=
  mkWorld (syncs w) (tset (rbcs w) (k1 p) sid) (if p_sign p then tset (cls w) (k1 p) sid else cls w) (dkg w) (sessions w).
Definition reg_sync2 (w : world) (sid : N) (p : plan) : world :=
  mkWorld (tset (syncs w) (k2 p sid) sid) (rbcs w) (cls w) (dkg w) (sessions w).

Definition over (s : sess) : bool := s_cancelled s || (match s_api s with Some _ => true | None => false end).

(* second synchronisation and backend *)
Definition run_protocol (w1 : world) (sid : N) (p : plan) : world :=
  if p_s2ok p then
    match p_be p with
    | BeBlock => set_at w1 sid AtBackend
    | BeOk => set_at (finish w1 sid ROk) sid AtFinished
    | BeFail => set_at (finish w1 sid RErr) sid AtFinished
    end
  else if p_sign p then set_at (finish w1 sid RErr) sid AtFinished
  else set_at w1 sid AtS2Fail.

(* what follows the backend's Init (both KeyGen and Sign initialise the protocol instance BEFORE registering it for
   dispatch): the context is checked under the lock, then the instance and the second synchronisation are registered *)
Definition after_init (w : world) (sid : N) (s : sess) : world :=
  let p := s_plan s in
  if over s then set_at w sid AtFinished                     (* the session is over: nothing is registered *)
  else run_protocol (reg_sync2 (reg_instance w sid p) sid p) sid p.

(* the continuation of the first synchronisation (initializeSigningInstance / the runDKG callback), up to Init *)
Definition callback (w : world) (sid : N) (s : sess) : world * obs :=
  let p := s_plan s in
  match parties_of p with
  | Ok parties =>
      let o := mkObs [(sid, parties)] (dests_of sid p parties) [] false in
      if p_sign p && negb (p_share p) then (set_at (finish w sid RErr) sid AtFinished, obs0)
      else if p_initgate p then (set_at w sid AtInit, o)
      else (after_init w sid s, o)
  | _ => (set_at (finish w sid RErr) sid AtFinished, obs0)            (* two participants of one party *)
  end.

Definition s1_failed (w : world) (sid : N) : world := set_at (finish w sid RErr) sid AtFinished.

Definition run_s1 (w : world) (sid : N) (s : sess) : world * obs :=
  match p_s1 (s_plan s) with
  | S1Ok => callback w sid s
  | S1Fail => (s1_failed w sid, obs0)
  | S1Gate _ => (set_at w sid AtGate, obs0)
  end.

Definition start (w : world) (sid : N) (p : plan) : world * obs :=
  let s := mkSess p None AtStart false in
  if p_sign p then
    match tget (syncs w) (KT (p_topic p)) with
    | Some _ => (upd w sid (mkSess p (Some RRefused) AtFinished false), obs0)
    | None =>
        let w1 := mkWorld (tset (syncs w) (KT (p_topic p)) sid) (rbcs w) (cls w) (dkg w) (sset (sessions w) sid s) in
        run_s1 w1 sid s
    end
  else
    if dkg w then (upd w sid (mkSess p (Some RRefused) AtFinished false), obs0)
    else
      let w1 := mkWorld (tset (syncs w) KD sid) (rbcs w) (tset (cls w) KD sid) true (sset (sessions w) sid s) in
      run_s1 w1 sid s.

Definition release (w : world) (sid : N) : world * obs :=
  match sget (sessions w) sid with
  | Some s =>
      match s_at s with
      | AtGate => if p_s1then (s_plan s) then callback w sid s else (s1_failed w sid, obs0)
      | AtInit => (after_init w sid s, obs0)
      | _ => (w, obs0)
      end
  | None => (w, obs0)
  end.

Definition cancel (w : world) (sid : N) : world * obs :=
  match sget (sessions w) sid with
  | Some s =>
      let p := s_plan s in
      let w1 := finish (upd w sid (mkSess p (s_api s) (s_at s) true)) sid RCtx in
      let w2 :=
        match s_at s with
        | AtGate => match p_s1 p with S1Gate true => w1 | _ => set_at w1 sid AtFinished end
        | AtS2Fail | AtBackend => set_at w1 sid AtFinished
        | _ => w1
        end in
      (w2, obs0)
  | None => (w, obs0)
  end.

Definition inject (w : world) (k : key) (is_sync : bool) (from : N) (is_p2p : bool) : world * obs :=
  if is_sync then
    match tget (syncs w) k with
    | Some _ => (w, mkObs [] [] [RSync k] false)
    | None => (w, obs0)
    end
  else
    match tget (rbcs w) k, tget (cls w) k with
    | Some sid, Some _ =>
        match sget (sessions w) sid with
        | Some s => if is_p2p && nmem from (p_members (s_plan s))
                    then (w, mkObs [] [] [ROnMsg sid (pid_of mm from) false] false)
                    else (w, obs0)
        | None => (w, obs0)
        end
    | _, _ => (w, obs0)
    end.

Definition step (w : world) (e : event) : world * obs :=
  match e with
  | EStart sid p => start w sid p
  | ERelease sid => release w sid
  | ECancel sid => cancel w sid
  | EInject k sy f p2p => inject w k sy f p2p
  end.
End Model.
