(* Concrete histories on the session model: non-vacuity of the C12/C11/C06 theorems. *)
Require Import TSS.Base.Base TSS.Orch.Membership TSS.Orch.Sessions TSS.Orch.SessionFacts.

Definition mm3 : mmap := [(1, 10); (2, 20); (3, 30); (4, 10)].     (* nodes 1 and 4 are replicas of party 10 *)
Definition plan_sign (t : N) (members : list N) (s1 : s1plan) (be : beplan) := mkPlan true t members s1 true true be true false.
Definition plan_kg (members : list N) (s1 : s1plan) (be : beplan) := mkPlan false 0 members s1 true true be true false.

Definition hist1 : list event :=
  [ EStart 0 (plan_sign 7 [2; 3; 4] S1Ok BeBlock);      (* running: all four entries registered *)
    EInject (KT 7) false 3 true;                        (* p2p from participant 3 reaches it as party 30 *)
    EStart 1 (plan_sign 7 [1; 2] S1Ok BeOk);            (* same topic: refused *)
    ECancel 0;                                          (* times out: returns, nothing left *)
    EStart 2 (plan_sign 7 [1; 2] S1Ok BeOk);            (* same topic again: admitted, succeeds *)
    EStart 3 (plan_kg [1; 4] S1Ok BeBlock);             (* two replicas of one party: refused with an error *)
    EStart 4 (plan_kg [2; 3] (S1Gate true) BeBlock);    (* waits; its synchroniser will complete late *)
    ECancel 4; ERelease 4 ].                            (* late continuation registers nothing *)

Fixpoint runh (mm : mmap) (w : world) (l : list event) : world * list obs :=
  match l with
  | [] => (w, [])
  | e :: r => let '(w1, o) := step mm w e in let '(w2, os) := runh mm w1 r in (w2, o :: os)
  end.

Definition api_of (w : world) (sid : N) : option res :=
  match sget (sessions w) sid with Some s => s_api s | None => None end.

Example hist1_outcome :
  let '(w, os) := runh mm3 world0 hist1 in
  map (api_of w) [0; 1; 2; 3; 4] = [Some RCtx; Some RRefused; Some ROk; Some RErr; Some RCtx] /\
  syncs w = [] /\ rbcs w = [] /\ cls w = [] /\ dkg w = false /\
  nth 1 (map o_reached os) [] = [ROnMsg 0 30 false] /\
  nth 0 (map o_inits os) [] = [(0, [10; 20; 30])] /\
  nth 0 (map o_dests os) [] = [(0, 10, Some 4); (0, 20, Some 2); (0, 30, Some 3); (0, 60000, None)].
Proof. vm_compute. repeat split; reflexivity. Qed.

(* the same history, step by step, is a reachable one (fresh session identifiers) *)
Lemma hist1_reachable : reachable (fst (runh mm3 world0 hist1)).
Proof.
  assert (H : forall l w, reachable w ->
            (fix ok (w : world) (l : list event) : Prop :=
               match l with [] => True | e :: r => fresh w e /\ ok (fst (step mm3 w e)) r end) w l ->
            reachable (fst (runh mm3 w l))).
  { induction l as [|e l IH]; intros w HR Hok; simpl; [exact HR|].
    destruct Hok as [Hf Hok]. destruct (step mm3 w e) as [w1 o] eqn:E. specialize (IH w1).
    destruct (runh mm3 w1 l) as [w2 os] eqn:E2. simpl. simpl in IH. apply IH.
    - pose proof (reach_step mm3 w e HR Hf) as R. rewrite E in R. exact R.
    - exact Hok. }
  apply H; [apply reach0|]. vm_compute. repeat split; reflexivity.
Qed.
