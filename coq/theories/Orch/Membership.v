(* Node-id / party-id translation of threshold.Scheme (C06):
   computeMembership, partyIDsByUniversalIDs, the Init argument, source and destination translation. *)
Require Import TSS.Base.Base.
From Coq Require Import Arith Sorting.Sorted Sorting.Permutation.

Definition mmap := list (N * N).     (* node -> party; a Go map: keys are unique *)

Fixpoint pid_of (m : mmap) (u : N) : N :=
  match m with [] => 0 | (u', p) :: t => if u' =? u then p else pid_of t u end.   (* missing key: Go zero value *)

Fixpoint nmem (x : N) (l : list N) : bool :=
  match l with [] => false | y :: t => (x =? y) || nmem x t end.

Fixpoint has_dup (l : list N) : bool :=
  match l with [] => false | x :: t => nmem x t || has_dup t end.

Fixpoint insert (x : N) (l : list N) : list N :=
  match l with [] => [x] | y :: t => if x <=? y then x :: l else y :: insert x t end.
Fixpoint isort (l : list N) : list N :=
  match l with [] => [] | x :: t => insert x (isort t) end.

(* membership.partyIDsByUniversalIDs: refuses two participants of one party, returns the sorted party ids *)
Definition party_ids (m : mmap) (members : list N) : outcome (list N) :=
  let ps := map (pid_of m) members in
  if has_dup ps then Err else Ok (isort ps).

(* universalIDByPartyIDAmong: the participant that represents the party; None = not a participant's party
   (the code then falls back to the global reverse map, whose choice among replicas is map-iteration order) *)
Fixpoint dest_among (m : mmap) (to : N) (members : list N) : option N :=
  match members with
  | [] => None
  | u :: t => if pid_of m u =? to then Some u else dest_among m to t
  end.

(* ---- facts ---- *)
Lemma nmem_In x l : nmem x l = true <-> In x l.
Proof.
  induction l as [|y l IH]; simpl; [split; [discriminate|tauto]|].
  rewrite orb_true_iff, N.eqb_eq, IH. intuition.
Qed.

Lemma has_dup_NoDup l : has_dup l = false <-> NoDup l.
Proof.
  induction l as [|x l IH]; simpl; [split; [constructor|reflexivity]|].
  rewrite orb_false_iff. split.
  - intros [H1 H2]. constructor; [|apply IH; exact H2]. intros Hin. apply nmem_In in Hin. congruence.
  - intros H. inversion H; subst. split; [|apply IH; assumption].
    destruct (nmem x l) eqn:E; [apply nmem_In in E; contradiction|reflexivity].
Qed.

Lemma insert_perm x l : Permutation (x :: l) (insert x l).
Proof.
  induction l as [|y l IH]; simpl; [reflexivity|].
  destruct (x <=? y); [reflexivity|].
  rewrite perm_swap. constructor. exact IH.
Qed.

Lemma isort_perm l : Permutation l (isort l).
Proof.
  induction l as [|x l IH]; simpl; [constructor|].
  rewrite <- insert_perm. constructor. exact IH.
Qed.

Lemma insert_sorted x l : Sorted N.le l -> Sorted N.le (insert x l).
Proof.
  induction l as [|y l IH]; simpl; intros H; [repeat constructor|].
  destruct (x <=? y) eqn:E.
  - apply N.leb_le in E. constructor; [exact H|constructor; exact E].
  - apply N.leb_gt in E. inversion H; subst. constructor; [apply IH; assumption|].
    destruct l as [|z l]; simpl.
    + constructor. lia.
    + destruct (x <=? z); constructor; [lia|]. inversion H3; subst. assumption.
Qed.

Lemma isort_sorted l : Sorted N.le (isort l).
Proof. induction l as [|x l IH]; simpl; [constructor|apply insert_sorted; exact IH]. Qed.

(* C06: the backend is initialised with exactly the sorted, duplicate-free party ids of the participants *)
Theorem init_parties m members l :
  party_ids m members = Ok l ->
  Sorted N.le l /\ NoDup l /\ Permutation (map (pid_of m) members) l.
Proof.
  unfold party_ids. destruct (has_dup (map (pid_of m) members)) eqn:E; [discriminate|].
  intros H; inversion H; subst. split; [apply isort_sorted|]. split.
  - apply has_dup_NoDup in E. eapply Permutation_NoDup; [apply isort_perm|exact E].
  - apply isort_perm.
Qed.

(* C06: a session in which two selected nodes represent the same party is refused *)
Theorem dup_refused m members :
  party_ids m members = Err <-> ~ NoDup (map (pid_of m) members).
Proof.
  unfold party_ids. destruct (has_dup (map (pid_of m) members)) eqn:E; split; intros H; try reflexivity; try discriminate.
  - intros Hn. apply has_dup_NoDup in Hn. congruence.
  - exfalso. apply H. apply has_dup_NoDup. exact E.
Qed.

(* C06: a point-to-point message for party `to` goes to exactly the participant that represents it *)
Theorem dest_unique m members l to :
  party_ids m members = Ok l -> In to l ->
  exists u, dest_among m to members = Some u /\ In u members /\ pid_of m u = to /\
            forall u', In u' members -> pid_of m u' = to -> u' = u.
Proof.
  intros Hp Hin. destruct (init_parties _ _ _ Hp) as (_ & _ & Hperm).
  assert (Hnd : NoDup (map (pid_of m) members)).
  { unfold party_ids in Hp. destruct (has_dup (map (pid_of m) members)) eqn:E; [discriminate|]. apply has_dup_NoDup. exact E. }
  assert (Hin' : In to (map (pid_of m) members)) by (eapply Permutation_in; [symmetry; exact Hperm|exact Hin]).
  clear Hp Hperm Hin l. induction members as [|v members IH]; simpl in *; [contradiction|].
  inversion Hnd; subst. destruct (pid_of m v =? to) eqn:E.
  - apply N.eqb_eq in E. exists v. split; [reflexivity|]. split; [left; reflexivity|]. split; [exact E|].
    intros u' [<-|Hu] Hpu; [reflexivity|]. exfalso. apply H1. rewrite E, <- Hpu. apply in_map. exact Hu.
  - apply N.eqb_neq in E. destruct Hin' as [Hv|Hin']; [congruence|].
    destruct (IH H2 Hin') as (u & Hd & Hu & Hpu & Huniq). exists u. split; [exact Hd|].
    split; [right; exact Hu|]. split; [exact Hpu|]. intros u' [<-|Hu'] Hp'; [congruence|]. apply Huniq; assumption.
Qed.
