(* Pointcheval-Sanders threshold blind signatures as /repo/mpc/ps computes them, in an ideal-group model.

   Scalars live in an arbitrary field F (MathComp fieldType); G1, G2, GT are F-modules written additively
   (a Go `P.Mul(s)` is `s *: P`, `P.Add(Q)` is `P + Q`, the unit of GT is 0), `e : G1 -> G2 -> GT` is the
   pairing (bilinearity is a hypothesis of the theorems that need it, not of the model), the hash functions
   are section functions:
     Hm  cm      = HashToZr(sha256(cm.Bytes()))               (m' of Blind / SignBlindSignature)
     HG  cm      = HashToG1(cm.Bytes())                        (h)
     RO1 inputs  = HashToZr(randomOracleForBlindingProof(..))  (challenge of the request proof)
     RO2 inputs  = HashToZr(randomOracleForPoKofSignature(..)) (challenge of the proof of knowledge)
   Every Go loop `for i := 0; i < n; i++ { ... v[i] ... }` is an `iota 0 n` / `\sum_(0 <= i < n)` over
   `v`_i` (= nth 0 v i); the length checks of the repaired code are explicit.  The model functions are plain
   computable Gallina: Corr/PSCorr.v runs exactly these definitions on a small prime field.

   Variant flag `fix_copy`: false = the pinned upstream tree, where BlindCorrectFormProof.Verify does
   `right := ξ.d[i]; right.Add(b[i].Mul(e))` and thereby adds into the proof's own point; true = the
   repaired tree (`ξ.d[i].Copy()`).  The proof object is threaded through verification as Go does. *)
From mathcomp Require Import all_ssreflect all_algebra.
From TSS Require Import Alg.Lagrange.
Set Implicit Arguments. Unset Strict Implicit. Unset Printing Implicit Defensive.
Import GRing.Theory.
Open Scope ring_scope.

Section Model.
Variable F : fieldType.
Variables G1 G2 GT : lmodType F.
Variable e : G1 -> G2 -> GT.
Variable Hm : G1 -> F.
Variable HG : G1 -> G1.
Variable RO1 : seq G1 -> F.
Variable RO2 : seq (G2 + G1) -> F.

Record pparams := PP { pg : G1; pg0 : G1; pgs : seq G1; pg2 : G2 }.
Record skey := SK { skx : F; sky : seq F }.
Record pkey := PK { pkX : G2; pkY : seq G2 }.
Record bproof := BProof { bx : seq F; by_ : seq F; bs : G1; bz : F; bd : seq G1; bf : seq G1 }.
Record request := Req { rxi : bproof; rcm : G1; rmp : F; ru : G1; ra : seq G1; rb : seq G1 }.
Record secret := Sec { smsg : seq F; sz : F; sh : G1 }.
Record bsig := Sig { sga : G1; sgb : G1 }.
Record pokproof := PokP { qx : seq F; qy : F; qGamma : G2; qPhi : G1 }.
Record sigpok := SigPoK { kpsi : pokproof; khe : G1; khpe : G1; knu : G1; kkappa : G2 }.

(* n = |m| + 1 = len(pp.gs) *)
Definition pn (pp : pparams) : nat := size (pgs pp).

(* sum_{i<n} c_i * v_i, the shape of every accumulation loop of ps.go *)
Definition lin (V : lmodType F) (n : nat) (c : seq F) (v : seq V) : V := \sum_(0 <= i < n) c`_i *: v`_i.

(* LocalKeyGen / combineShares: public key of a secret key *)
Definition pk_of (pp : pparams) (sk : skey) : pkey :=
  PK (skx sk *: pg2 pp) [seq y *: pg2 pp | y <- sky sk].

(* ---- Blind ---------------------------------------------------------------------------------------- *)

(* commit: g0^rcm * prod_{i<len(m)} gs[i]^m[i] *)
Definition commit (pp : pparams) (rcm : F) (m : seq F) : G1 := rcm *: pg0 pp + lin (size m) m (pgs pp).

(* cm.Add(pp.gs[len(pp.gs)-1].Mul(mPrime)) with mPrime = HashToZr(hash(cm.Bytes())) *)
Definition full_cm (pp : pparams) (cm0 : G1) : G1 := cm0 + Hm cm0 *: last 0 (pgs pp).

(* encrypt: a_i = g^r_i, b_i = h^m_i * u^r_i *)
Definition encrypt (pp : pparams) (n : nat) (m r : seq F) (h u : G1) : seq G1 * seq G1 :=
  (mkseq (fun i => r`_i *: pg pp) n, mkseq (fun i => m`_i *: h + r`_i *: u) n).

(* the values written into sha256 by randomOracleForBlindingProof, in order; `gs[i].Bytes()` is evaluated
   there without being written, so gs is NOT an oracle input *)
Definition ro_blind_input (n : nat) (d f : seq G1) (s : G1) (a b : seq G1) (cm g g0 h u : G1) : seq G1 :=
  flatten (mkseq (fun i => [:: d`_i; f`_i; a`_i; b`_i]) n) ++ [:: s; cm; g; g0; h; u].

(* proveBlindingIsWellFormed; alpha, beta, gamma are the prover's nonces *)
Definition prove_blinding (n : nat) (m r : seq F) (a b : seq G1) (rc : F) (g g0 h u cm : G1) (gs : seq G1)
           (alpha beta : seq F) (gamma : F) : bproof :=
  let s := gamma *: g0 + lin n beta gs in
  let d := mkseq (fun i => beta`_i *: h + alpha`_i *: u) n in
  let f := mkseq (fun i => alpha`_i *: g) n in
  let c := RO1 (ro_blind_input n d f s a b cm g g0 h u) in
  BProof (mkseq (fun i => alpha`_i + c * r`_i) n) (mkseq (fun i => beta`_i + c * m`_i) n)
         s (gamma + c * rc) d f.

(* Blind: nonces rc (commitment), z (ElGamal key), r (encryption), alpha/beta/gamma (proof) *)
Definition blind (pp : pparams) (m : seq F) (rc z : F) (r alpha beta : seq F) (gamma : F) : request * secret :=
  let n := pn pp in
  let u := z *: pg pp in
  let cm0 := commit pp rc m in
  let mp := Hm cm0 in
  let cm := full_cm pp cm0 in
  let h := HG cm in
  let msg := rcons m mp in
  let ab := encrypt pp n msg r h u in
  let xi := prove_blinding n msg r ab.1 ab.2 rc (pg pp) (pg0 pp) h u cm (pgs pp) alpha beta gamma in
  (Req xi cm0 mp u ab.1 ab.2, Sec msg z h).

(* ---- BlindCorrectFormProof.Verify ----------------------------------------------------------------- *)

(* the three verification equations for a given challenge c *)
Definition eq1_at (u h : G1) (c : F) (x y : F) (d b : G1) : bool := x *: u + y *: h == d + c *: b.
Definition eq2_at (g : G1) (c : F) (x : F) (f a : G1) : bool := x *: g == f + c *: a.
Definition eq3 (n : nat) (cm g0 : G1) (gs : seq G1) (c : F) (s : G1) (z : F) (y : seq F) : bool :=
  c *: cm + s == z *: g0 + lin n y gs.

(* first loop, threading d: the pinned code stores right = d[i] + b[i]^c back into d[i] *)
Fixpoint loop1 (fix_copy : bool) (u h : G1) (c : F) (x y : seq F) (b : seq G1) (idx : seq nat) (d : seq G1)
  : bool * seq G1 :=
  if idx is i :: idx' then
    let right := d`_i + c *: b`_i in
    let d' := if fix_copy then d else set_nth 0 d i right in
    if x`_i *: u + y`_i *: h == right then loop1 fix_copy u h c x y b idx' d' else (false, d')
  else (true, d).

Definition sizes_ok (n : nat) (xi : bproof) (a b gs : seq G1) : bool :=
  [&& size a == n, size b == n, size (bx xi) == n, size (by_ xi) == n, size (bd xi) == n, size (bf xi) == n
    & n <= size gs]%N.

Definition with_d (xi : bproof) (d : seq G1) : bproof := BProof (bx xi) (by_ xi) (bs xi) (bz xi) d (bf xi).

(* all equations for a given challenge (what the second and third part of Verify check, and the first part
   when it does not mutate) *)
Definition blind_eqs (n : nat) (c : F) (xi : bproof) (a b : seq G1) (cm g g0 h u : G1) (gs : seq G1) : bool :=
  [&& all (fun i => eq1_at u h c (bx xi)`_i (by_ xi)`_i (bd xi)`_i b`_i) (iota 0 n),
      all (fun i => eq2_at g c (bx xi)`_i (bf xi)`_i a`_i) (iota 0 n)
    & eq3 n cm g0 gs c (bs xi) (bz xi) (by_ xi)].

(* returns the verdict and the proof object as it is after the call *)
Definition verify_blinding (fix_copy : bool) (n : nat) (xi : bproof) (a b : seq G1) (cm g g0 h u : G1) (gs : seq G1)
  : bool * bproof :=
  if ~~ sizes_ok n xi a b gs then (false, xi) else
  let c := RO1 (ro_blind_input n (bd xi) (bf xi) (bs xi) a b cm g g0 h u) in
  let r1 := loop1 fix_copy u h c (bx xi) (by_ xi) b (iota 0 n) (bd xi) in
  let xi' := with_d xi r1.2 in
  if ~~ r1.1 then (false, xi') else
  if ~~ all (fun i => eq2_at g c (bx xi)`_i (bf xi)`_i a`_i) (iota 0 n) then (false, xi') else
  (eq3 n cm g0 gs c (bs xi) (bz xi) (by_ xi), xi').

(* ---- SignBlindSignature --------------------------------------------------------------------------- *)

Definition with_xi (r : request) (xi : bproof) : request := Req xi (rcm r) (rmp r) (ru r) (ra r) (rb r).

(* what the signer recomputes from the request before verifying (note: the request's mPrime field is not used) *)
Definition req_cm (pp : pparams) (r : request) : G1 := full_cm pp (rcm r).
Definition req_h (pp : pparams) (r : request) : G1 := HG (req_cm pp r).

Definition verify_request (fix_copy : bool) (pp : pparams) (r : request) : bool * request :=
  let v := verify_blinding fix_copy (pn pp) (rxi r) (ra r) (rb r) (req_cm pp r) (pg pp) (pg0 pp) (req_h pp r) (ru r) (pgs pp) in
  (v.1, with_xi r v.2).

(* the only place where the secret key is used *)
Definition apply_sk (pp : pparams) (r : request) (sk : skey) : bsig :=
  let n := pn pp in
  Sig (lin n (sky sk) (ra r)) (skx sk *: req_h pp r + lin n (sky sk) (rb r)).

(* None = the error return; the second component is the request object after the call *)
Definition sign_blind (fix_copy : bool) (pp : pparams) (r : request) (sk : skey) : option bsig * request :=
  match verify_request fix_copy pp r with
  | (false, r') => (None, r')
  | (true, r') => (Some (apply_sk pp r' sk), r')
  end.

(* ---- UnBlind -------------------------------------------------------------------------------------- *)

Definition unblind_point (sg : bsig) (z : F) : G1 := sgb sg + (- z) *: sga sg.

Definition unblind (pp : pparams) (pk : pkey) (sg : bsig) (h : G1) (msg : seq F) (z : F) : option G1 :=
  if (size (pkY pk) < size msg)%N then None else
  let h' := unblind_point sg z in
  let E := pkX pk + lin (size msg) msg (pkY pk) in
  if e h' (- pg2 pp) + e h E == 0 then Some h' else None.

(* ---- PoKofSig / SigPoK.Verify --------------------------------------------------------------------- *)

(* the values written into sha256 by randomOracleForPoKofSignature, in order (h'^eps is not among them) *)
Definition ro_pok_input (Gamma : G2) (Phi nu he : G1) (g2 X kappa : G2) (Y : seq G2) : seq (G2 + G1) :=
  [seq inl Yi | Yi <- Y] ++ [:: inl X; inl g2; inl Gamma; inr Phi; inr nu; inr he; inl kappa].

Definition prove_pok (m : seq F) (delta : F) (nu he : G1) (kappa g2 X : G2) (Y : seq G2) (mu : F) (gam : seq F)
  : pokproof :=
  let n := size m in
  let Gamma := mu *: g2 + lin n gam Y in
  let Phi := mu *: he in
  let c := RO2 (ro_pok_input Gamma Phi nu he g2 X kappa Y) in
  PokP (mkseq (fun i => gam`_i + c * m`_i) n) (mu + c * delta) Gamma Phi.

Definition pok_of_sig (pp : pparams) (pk : pkey) (h h' : G1) (msg : seq F) (eps delta mu : F) (gam : seq F) : sigpok :=
  let kappa := pkX pk + lin (size (pkY pk)) msg (pkY pk) + delta *: pg2 pp in
  let he := eps *: h in
  let nu := delta *: he in
  let hpe := eps *: h' in
  SigPoK (prove_pok msg delta nu he kappa (pg2 pp) (pkX pk) (pkY pk) mu gam) he hpe nu kappa.

(* checkcommitmentForm, the nu equation, the h^eps != 0 test and the pairing test, for a given challenge *)
Definition pok_commit_eq (c : F) (psi : pokproof) (g2 X kappa : G2) (Y : seq G2) : bool :=
  qy psi *: g2 + lin (size (qx psi)) (qx psi) Y == qGamma psi + c *: (kappa - X).
Definition pok_nu_eq (c : F) (psi : pokproof) (nu he : G1) : bool := qy psi *: he == c *: nu + qPhi psi.
Definition pok_pairing_eq (g2 : G2) (he hpe nu : G1) (kappa : G2) : bool := e he kappa + e (hpe + nu) (- g2) == 0.

Definition pok_eqs (c : F) (pp : pparams) (pk : pkey) (p : sigpok) : bool :=
  [&& (size (qx (kpsi p)) <= size (pkY pk))%N,
      pok_commit_eq c (kpsi p) (pg2 pp) (pkX pk) (kkappa p) (pkY pk),
      pok_nu_eq c (kpsi p) (knu p) (khe p),
      khe p != 0
    & pok_pairing_eq (pg2 pp) (khe p) (khpe p) (knu p) (kkappa p)].

Definition pok_challenge (pp : pparams) (pk : pkey) (p : sigpok) : F :=
  RO2 (ro_pok_input (qGamma (kpsi p)) (qPhi (kpsi p)) (knu p) (khe p) (pg2 pp) (pkX pk) (kkappa p) (pkY pk)).

Definition verify_pok (pp : pparams) (pk : pkey) (p : sigpok) : bool := pok_eqs (pok_challenge pp pk p) pp pk p.

(* ---- threshold part ------------------------------------------------------------------------------- *)

(* party identifier / evaluation point as a scalar: c.NewZrFromInt *)
Definition pts (S : seq nat) : seq F := [seq i%:R | i <- S].

(* Prover.ProveKnowledgeOfSignature: witnesses combined with lagrangeCoefficient(signer, signers...) *)
Definition combine_witnesses (S : seq nat) (ws : seq G1) : G1 :=
  \sum_(p <- zip S ws) lagrange0 (pts S) (p.1)%:R *: p.2.

Definition prove_knowledge (pp : pparams) (tpk : pkey) (us : secret) (S : seq nat) (ws : seq G1)
           (eps delta mu : F) (gam : seq F) : sigpok :=
  pok_of_sig pp tpk (sh us) (combine_witnesses S ws) (smsg us) eps delta mu gam.

(* localAggregatePublicKeys / localAggregateECPoints over the evaluation points T (party k is pks[k-1]) *)
Definition agg_points (V : lmodType F) (T : seq nat) (pt : nat -> V) : V :=
  \sum_(k <- T) lagrange0 (pts T) k%:R *: pt k.
Definition agg_pk (n : nat) (pks : seq pkey) (T : seq nat) : pkey :=
  let pk0 := PK 0 [::] in
  PK (agg_points T (fun k => pkX (nth pk0 pks k.-1)))
     (mkseq (fun j => agg_points T (fun k => (pkY (nth pk0 pks k.-1))`_j)) n).

(* DKG arithmetic: every party deals one polynomial (coefficient list, constant term first) for x and one per
   y_j; party i ends with the sum of the evaluations at i (own share + the received ones: combineShares) *)
Definition evalp (cs : seq F) (x : F) : F := foldr (fun c acc => acc * x + c) 0 cs.
Record dealing := Deal { dlx : seq F; dly : seq (seq F) }.
Definition dkg_sk (n : nat) (deals : seq dealing) (i : nat) : skey :=
  SK (\sum_(d <- deals) evalp (dlx d) i%:R)
     (mkseq (fun j => \sum_(d <- deals) evalp (nth [::] (dly d) j) i%:R) n).
Definition dkg_pks (pp : pparams) (n N : nat) (deals : seq dealing) : seq pkey :=
  [seq pk_of pp (dkg_sk n deals i) | i <- iota 1 N].

End Model.

(* ======================================================================================================
   Facts: completeness (C08).  Bilinearity of the pairing is the only assumption about the groups.
   ====================================================================================================== *)
Section Facts.
Variable F : fieldType.
Variables G1 G2 GT : lmodType F.
Variable e : G1 -> G2 -> GT.
Variable Hm : G1 -> F.
Variable HG : G1 -> G1.
Variable RO1 : seq G1 -> F.
Variable RO2 : seq (G2 + G1) -> F.

Hypothesis eDl : forall a a' b, e (a + a') b = e a b + e a' b.
Hypothesis eDr : forall a b b', e a (b + b') = e a b + e a b'.
Hypothesis eZl : forall c a b, e (c *: a) b = c *: e a b.
Hypothesis eZr : forall c a b, e a (c *: b) = c *: e a b.

Notation pparams := (pparams G1 G2).
Notation blind := (blind Hm HG RO1).
Notation verify_request := (verify_request Hm HG RO1).
Notation verify_blinding := (verify_blinding RO1).
Notation sign_blind := (sign_blind Hm HG RO1).
Notation apply_sk := (apply_sk Hm HG).
Notation unblind := (unblind e).
Notation verify_pok := (verify_pok e RO2).
Notation pok_of_sig := (pok_of_sig RO2).
Notation prove_knowledge := (prove_knowledge RO2).
Notation full_cm := (full_cm Hm).

Lemma eNr a b : e a (- b) = - e a b.
Proof. by rewrite -scaleN1r eZr scaleN1r. Qed.
Lemma e0r a : e a 0 = 0.
Proof. by rewrite -(scale0r (0 : G2)) eZr scale0r. Qed.

(* ---- linear combinations ---- *)
Lemma lin_mkseq_affine (V : lmodType F) n (a b : seq F) (c : F) (v : seq V) :
  lin n (mkseq (fun i => a`_i + c * b`_i) n) v = lin n a v + c *: lin n b v.
Proof.
rewrite /lin scaler_sumr -big_split /=; apply: eq_big_nat => i /andP [_ ilt].
by rewrite nth_mkseq // scalerDl scalerA.
Qed.

Lemma lin_rcons (V : lmodType F) (m : seq F) (mp : F) (v : seq V) :
  lin (size m).+1 (rcons m mp) v = lin (size m) m v + mp *: v`_(size m).
Proof.
rewrite /lin big_nat_recr //= nth_rcons ltnn eqxx; congr (_ + _).
by apply: eq_big_nat => i /andP [_ ilt]; rewrite nth_rcons ilt.
Qed.

(* sum_i c_i * (y_i * g) = (sum_i c_i * y_i) * g, for vectors of public-key shape *)
Lemma lin_pk (V : lmodType F) n (c y : seq F) (g : V) : (n <= size y)%N ->
  lin n c [seq yi *: g | yi <- y] = (\sum_(0 <= i < n) c`_i * y`_i) *: g.
Proof.
move=> nle; rewrite /lin scaler_suml; apply: eq_big_nat => i /andP [_ ilt].
by rewrite (nth_map 0) ?scalerA // (leq_trans ilt nle).
Qed.

(* ---- the request proof ---- *)
Lemma loop1_fixed (u h : G1) c x y b idx d :
  loop1 true u h c x y b idx d = (all (fun i => eq1_at u h c x`_i y`_i d`_i b`_i) idx, d).
Proof. by elim: idx => [|i idx IH] //=; rewrite IH /eq1_at; case: (_ == _). Qed.

Lemma with_d_id (xi : bproof G1) : with_d xi (bd xi) = xi.
Proof. by case: xi. Qed.

Lemma verify_blinding_fixed n xi a b cm g g0 h u gs :
  verify_blinding true n xi a b cm g g0 h u gs =
  (sizes_ok n xi a b gs && blind_eqs n (RO1 (ro_blind_input n (bd xi) (bf xi) (bs xi) a b cm g g0 h u)) xi a b cm g g0 h u gs, xi).
Proof.
rewrite /verify_blinding /blind_eqs loop1_fixed /= with_d_id.
case: (sizes_ok _ _ _ _ _) => //=.
by case: (all _ _) => //=; case: (all _ _).
Qed.

Lemma eq1_honest (u h : G1) alpha beta c r m :
  (alpha + c * r) *: u + (beta + c * m) *: h = (beta *: h + alpha *: u) + c *: (m *: h + r *: u).
Proof.
rewrite !scalerDl scalerDr !scalerA addrACA.
by rewrite [alpha *: u + _]addrC [(c * r) *: u + _]addrC.
Qed.

Lemma eq2_honest (g : G1) alpha c r : (alpha + c * r) *: g = alpha *: g + c *: (r *: g).
Proof. by rewrite scalerDl scalerA. Qed.

Theorem request_accepted (pp : pparams) m rc z r alpha beta gamma :
  size m = (pn pp).-1 -> (0 < pn pp)%N ->
  (verify_request true pp (blind pp m rc z r alpha beta gamma).1).1 = true.
Proof.
move=> sm npos.
have sn : (size m).+1 = pn pp by rewrite sm prednK.
rewrite /verify_request /blind /= /req_h /req_cm /= verify_blinding_fixed /=.
set n := pn pp; set cm := full_cm _ _; set h := HG cm; set u := z *: pg pp; set msg := rcons m _.
set c := RO1 _.
apply/andP; split.
  by rewrite /sizes_ok /= !size_mkseq !eqxx /= /n /pn leqnn.
apply/and3P; split => /=.
- apply/allP => i; rewrite mem_iota add0n => /andP [_ ilt].
  by rewrite /eq1_at !nth_mkseq // eq1_honest.
- apply/allP => i; rewrite mem_iota add0n => /andP [_ ilt].
  by rewrite /eq2_at !nth_mkseq // eq2_honest.
rewrite /eq3 lin_mkseq_affine; apply/eqP.
have -> : lin n msg (pgs pp) = lin (size m) m (pgs pp) + Hm (commit pp rc m) *: last 0 (pgs pp).
  by rewrite -sn /msg lin_rcons -nth_last -/(pn pp) -sn.
rewrite /cm /full_cm /commit scalerDl scalerA !scalerDr -!addrA; congr (_ + _).
rewrite addrCA; congr (_ + _).
by rewrite addrC -!addrA; congr (_ + _); rewrite addrC.
Qed.
