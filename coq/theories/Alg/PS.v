(* Pointcheval-Sanders threshold blind signatures as /repo/mpc/ps computes them, in an ideal-group model.

   Scalars live in an arbitrary field F (MathComp fieldType); G1, G2, GT are F-modules written additively
   (a Go `P.Mul(s)` is `s *: P`, `P.Add(Q)` is `P + Q`, the unit of GT is 0), `e : G1 -> G2 -> GT` is the
   pairing (bilinearity is a hypothesis of the theorems that need it, not of the model), the hash functions
   are section functions:
     Hm  cm      = HashToZr(sha256(cm.Bytes()))               (m' of Blind / SignBlindSignature)
     HG  cm      = HashToG1(cm.Bytes())                        (h)
     RO1 inputs  = HashToZr(randomOracleForBlindingProof(..))  (challenge of the request proof)
     RO2 inputs  = HashToZr(randomOracleForPoKofSignature(..)) (challenge of the proof of knowledge)
   Every Go loop `for i := 0; i < n; i++ { ... v[i] ... }` is an `iota 0 n` / `\sum_(0 <= i < n)` over
   `v`_i` (= nth 0 v i); the length checks of the repaired code are explicit.  The model functions are plain
   computable Gallina: Corr/PSCorr.v runs exactly these definitions on a small prime field.

   Variant flag `fix_copy`: false = the pinned upstream tree, where BlindCorrectFormProof.Verify does
   `right := ξ.d[i]; right.Add(b[i].Mul(e))` and thereby adds into the proof's own point; true = the
   repaired tree (`ξ.d[i].Copy()`).  The proof object is threaded through verification as Go does. *)
From mathcomp Require Import all_ssreflect all_algebra.
From TSS Require Import Alg.Lagrange.
Set Implicit Arguments. Unset Strict Implicit. Unset Printing Implicit Defensive.
Import GRing.Theory.
Open Scope ring_scope.

Section Model.
Variable F : fieldType.
Variables G1 G2 GT : lmodType F.
Variable e : G1 -> G2 -> GT.
Variable Hm : G1 -> F.
Variable HG : G1 -> G1.
Variable RO1 : seq G1 -> F.
Variable RO2 : seq (G2 + G1) -> F.

Record pparams := PP { pg : G1; pg0 : G1; pgs : seq G1; pg2 : G2 }.
Record skey := SK { skx : F; sky : seq F }.
Record pkey := PK { pkX : G2; pkY : seq G2 }.
Record bproof := BProof { bx : seq F; by_ : seq F; bs : G1; bz : F; bd : seq G1; bf : seq G1 }.
Record request := Req { rxi : bproof; rcm : G1; rmp : F; ru : G1; ra : seq G1; rb : seq G1 }.
Record secret := Sec { smsg : seq F; sz : F; sh : G1 }.
Record bsig := Sig { sga : G1; sgb : G1 }.
Record pokproof := PokP { qx : seq F; qy : F; qGamma : G2; qPhi : G1 }.
Record sigpok := SigPoK { kpsi : pokproof; khe : G1; khpe : G1; knu : G1; kkappa : G2 }.

(* n = |m| + 1 = len(pp.gs) *)
Definition pn (pp : pparams) : nat := size (pgs pp).

(* sum_{i<n} c_i * v_i, the shape of every accumulation loop of ps.go *)
(* (the accumulations are written as folds, not as MathComp big operators, because those are sealed and do not
   reduce under vm_compute; linE, lagrE, combineE, agg_pointsE below state that they are the same sums) *)
Definition lin (V : lmodType F) (n : nat) (c : seq F) (v : seq V) : V :=
  foldr (fun i acc => c`_i *: v`_i + acc) 0 (iota 0 n).

(* LocalKeyGen / combineShares: public key of a secret key *)
Definition pk_of (pp : pparams) (sk : skey) : pkey :=
  PK (skx sk *: pg2 pp) [seq y *: pg2 pp | y <- sky sk].

(* ---- Blind ---------------------------------------------------------------------------------------- *)

(* commit: g0^rcm * prod_{i<len(m)} gs[i]^m[i] *)
Definition commit (pp : pparams) (rcm : F) (m : seq F) : G1 := rcm *: pg0 pp + lin (size m) m (pgs pp).

(* cm.Add(pp.gs[len(pp.gs)-1].Mul(mPrime)) with mPrime = HashToZr(hash(cm.Bytes())) *)
Definition full_cm (pp : pparams) (cm0 : G1) : G1 := cm0 + Hm cm0 *: last 0 (pgs pp).

(* encrypt: a_i = g^r_i, b_i = h^m_i * u^r_i *)
Definition encrypt (pp : pparams) (n : nat) (m r : seq F) (h u : G1) : seq G1 * seq G1 :=
  (mkseq (fun i => r`_i *: pg pp) n, mkseq (fun i => m`_i *: h + r`_i *: u) n).

(* the values written into sha256 by randomOracleForBlindingProof, in order; `gs[i].Bytes()` is evaluated
   there without being written, so gs is NOT an oracle input *)
Definition ro_blind_input (n : nat) (d f : seq G1) (s : G1) (a b : seq G1) (cm g g0 h u : G1) : seq G1 :=
  flatten (mkseq (fun i => [:: d`_i; f`_i; a`_i; b`_i]) n) ++ [:: s; cm; g; g0; h; u].

(* proveBlindingIsWellFormed; alpha, beta, gamma are the prover's nonces *)
Definition prove_blinding (n : nat) (m r : seq F) (a b : seq G1) (rc : F) (g g0 h u cm : G1) (gs : seq G1)
           (alpha beta : seq F) (gamma : F) : bproof :=
  let s := gamma *: g0 + lin n beta gs in
  let d := mkseq (fun i => beta`_i *: h + alpha`_i *: u) n in
  let f := mkseq (fun i => alpha`_i *: g) n in
  let c := RO1 (ro_blind_input n d f s a b cm g g0 h u) in
  BProof (mkseq (fun i => alpha`_i + c * r`_i) n) (mkseq (fun i => beta`_i + c * m`_i) n)
         s (gamma + c * rc) d f.

(* Blind: nonces rc (commitment), z (ElGamal key), r (encryption), alpha/beta/gamma (proof) *)
Definition blind (pp : pparams) (m : seq F) (rc z : F) (r alpha beta : seq F) (gamma : F) : request * secret :=
  let n := pn pp in
  let u := z *: pg pp in
  let cm0 := commit pp rc m in
  let mp := Hm cm0 in
  let cm := full_cm pp cm0 in
  let h := HG cm in
  let msg := rcons m mp in
  let ab := encrypt pp n msg r h u in
  let xi := prove_blinding n msg r ab.1 ab.2 rc (pg pp) (pg0 pp) h u cm (pgs pp) alpha beta gamma in
  (Req xi cm0 mp u ab.1 ab.2, Sec msg z h).

(* ---- BlindCorrectFormProof.Verify ----------------------------------------------------------------- *)

(* the three verification equations for a given challenge c *)
Definition eq1_at (u h : G1) (c : F) (x y : F) (d b : G1) : bool := x *: u + y *: h == d + c *: b.
Definition eq2_at (g : G1) (c : F) (x : F) (f a : G1) : bool := x *: g == f + c *: a.
Definition eq3 (n : nat) (cm g0 : G1) (gs : seq G1) (c : F) (s : G1) (z : F) (y : seq F) : bool :=
  c *: cm + s == z *: g0 + lin n y gs.

(* first loop, threading d: the pinned code stores right = d[i] + b[i]^c back into d[i] *)
Fixpoint loop1 (fix_copy : bool) (u h : G1) (c : F) (x y : seq F) (b : seq G1) (idx : seq nat) (d : seq G1)
  : bool * seq G1 :=
  if idx is i :: idx' then
    let right := d`_i + c *: b`_i in
    let d' := if fix_copy then d else set_nth 0 d i right in
    if x`_i *: u + y`_i *: h == right then loop1 fix_copy u h c x y b idx' d' else (false, d')
  else (true, d).

Definition sizes_ok (n : nat) (xi : bproof) (a b gs : seq G1) : bool :=
  [&& size a == n, size b == n, size (bx xi) == n, size (by_ xi) == n, size (bd xi) == n, size (bf xi) == n
    & n <= size gs]%N.

Definition with_d (xi : bproof) (d : seq G1) : bproof := BProof (bx xi) (by_ xi) (bs xi) (bz xi) d (bf xi).

(* all equations for a given challenge (what the second and third part of Verify check, and the first part
   when it does not mutate) *)
Definition blind_eqs (n : nat) (c : F) (xi : bproof) (a b : seq G1) (cm g g0 h u : G1) (gs : seq G1) : bool :=
  [&& all (fun i => eq1_at u h c (bx xi)`_i (by_ xi)`_i (bd xi)`_i b`_i) (iota 0 n),
      all (fun i => eq2_at g c (bx xi)`_i (bf xi)`_i a`_i) (iota 0 n)
    & eq3 n cm g0 gs c (bs xi) (bz xi) (by_ xi)].

(* returns the verdict and the proof object as it is after the call *)
Definition verify_blinding (fix_copy : bool) (n : nat) (xi : bproof) (a b : seq G1) (cm g g0 h u : G1) (gs : seq G1)
  : bool * bproof :=
  if ~~ sizes_ok n xi a b gs then (false, xi) else
  let c := RO1 (ro_blind_input n (bd xi) (bf xi) (bs xi) a b cm g g0 h u) in
  let r1 := loop1 fix_copy u h c (bx xi) (by_ xi) b (iota 0 n) (bd xi) in
  let xi' := with_d xi r1.2 in
  if ~~ r1.1 then (false, xi') else
  if ~~ all (fun i => eq2_at g c (bx xi)`_i (bf xi)`_i a`_i) (iota 0 n) then (false, xi') else
  (eq3 n cm g0 gs c (bs xi) (bz xi) (by_ xi), xi').

(* ---- SignBlindSignature --------------------------------------------------------------------------- *)

Definition with_xi (r : request) (xi : bproof) : request := Req xi (rcm r) (rmp r) (ru r) (ra r) (rb r).

(* what the signer recomputes from the request before verifying (note: the request's mPrime field is not used) *)
Definition req_cm (pp : pparams) (r : request) : G1 := full_cm pp (rcm r).
Definition req_h (pp : pparams) (r : request) : G1 := HG (req_cm pp r).

Definition verify_request (fix_copy : bool) (pp : pparams) (r : request) : bool * request :=
  let v := verify_blinding fix_copy (pn pp) (rxi r) (ra r) (rb r) (req_cm pp r) (pg pp) (pg0 pp) (req_h pp r) (ru r) (pgs pp) in
  (v.1, with_xi r v.2).

(* the only place where the secret key is used *)
Definition apply_sk (pp : pparams) (r : request) (sk : skey) : bsig :=
  let n := pn pp in
  Sig (lin n (sky sk) (ra r)) (skx sk *: req_h pp r + lin n (sky sk) (rb r)).

(* None = the error return; the second component is the request object after the call *)
Definition sign_blind (fix_copy : bool) (pp : pparams) (r : request) (sk : skey) : option bsig * request :=
  match verify_request fix_copy pp r with
  | (false, r') => (None, r')
  | (true, r') => (Some (apply_sk pp r' sk), r')
  end.

(* ---- UnBlind -------------------------------------------------------------------------------------- *)

Definition unblind_point (sg : bsig) (z : F) : G1 := sgb sg + (- z) *: sga sg.

Definition unblind (pp : pparams) (pk : pkey) (sg : bsig) (h : G1) (msg : seq F) (z : F) : option G1 :=
  if (size (pkY pk) < size msg)%N then None else
  let h' := unblind_point sg z in
  let E := pkX pk + lin (size msg) msg (pkY pk) in
  if e h' (- pg2 pp) + e h E == 0 then Some h' else None.

(* ---- PoKofSig / SigPoK.Verify --------------------------------------------------------------------- *)

(* the values written into sha256 by randomOracleForPoKofSignature, in order (h'^eps is not among them) *)
Definition ro_pok_input (Gamma : G2) (Phi nu he : G1) (g2 X kappa : G2) (Y : seq G2) : seq (G2 + G1) :=
  [seq inl Yi | Yi <- Y] ++ [:: inl X; inl g2; inl Gamma; inr Phi; inr nu; inr he; inl kappa].

Definition prove_pok (m : seq F) (delta : F) (nu he : G1) (kappa g2 X : G2) (Y : seq G2) (mu : F) (gam : seq F)
  : pokproof :=
  let n := size m in
  let Gamma := mu *: g2 + lin n gam Y in
  let Phi := mu *: he in
  let c := RO2 (ro_pok_input Gamma Phi nu he g2 X kappa Y) in
  PokP (mkseq (fun i => gam`_i + c * m`_i) n) (mu + c * delta) Gamma Phi.

Definition pok_of_sig (pp : pparams) (pk : pkey) (h h' : G1) (msg : seq F) (eps delta mu : F) (gam : seq F) : sigpok :=
  let kappa := pkX pk + lin (size (pkY pk)) msg (pkY pk) + delta *: pg2 pp in
  let he := eps *: h in
  let nu := delta *: he in
  let hpe := eps *: h' in
  SigPoK (prove_pok msg delta nu he kappa (pg2 pp) (pkX pk) (pkY pk) mu gam) he hpe nu kappa.

(* checkcommitmentForm, the nu equation, the h^eps != 0 test and the pairing test, for a given challenge *)
Definition pok_commit_eq (c : F) (psi : pokproof) (g2 X kappa : G2) (Y : seq G2) : bool :=
  qy psi *: g2 + lin (size (qx psi)) (qx psi) Y == qGamma psi + c *: (kappa - X).
Definition pok_nu_eq (c : F) (psi : pokproof) (nu he : G1) : bool := qy psi *: he == c *: nu + qPhi psi.
Definition pok_pairing_eq (g2 : G2) (he hpe nu : G1) (kappa : G2) : bool := e he kappa + e (hpe + nu) (- g2) == 0.

Definition pok_eqs (c : F) (pp : pparams) (pk : pkey) (p : sigpok) : bool :=
  [&& (size (qx (kpsi p)) <= size (pkY pk))%N,
      pok_commit_eq c (kpsi p) (pg2 pp) (pkX pk) (kkappa p) (pkY pk),
      pok_nu_eq c (kpsi p) (knu p) (khe p),
      khe p != 0
    & pok_pairing_eq (pg2 pp) (khe p) (khpe p) (knu p) (kkappa p)].

Definition pok_challenge (pp : pparams) (pk : pkey) (p : sigpok) : F :=
  RO2 (ro_pok_input (qGamma (kpsi p)) (qPhi (kpsi p)) (knu p) (khe p) (pg2 pp) (pkX pk) (kkappa p) (pkY pk)).

Definition verify_pok (pp : pparams) (pk : pkey) (p : sigpok) : bool := pok_eqs (pok_challenge pp pk p) pp pk p.

(* ---- threshold part ------------------------------------------------------------------------------- *)

(* party identifier / evaluation point as a scalar: c.NewZrFromInt *)
Definition pts (S : seq nat) : seq F := [seq i%:R | i <- S].

(* Prover.ProveKnowledgeOfSignature: witnesses combined with lagrangeCoefficient(signer, signers...) *)
(* lagrangeCoefficient(i, points...) = prod_{j in points, j != i} j / (j - i) *)
Definition lagr (xs : seq F) (i : F) : F := foldr (fun j acc => if j != i then j / (j - i) * acc else acc) 1 xs.

Definition combine_witnesses (S : seq nat) (ws : seq G1) : G1 :=
  foldr (fun p acc => lagr (pts S) (p.1)%:R *: p.2 + acc) 0 (zip S ws).

Definition prove_knowledge (pp : pparams) (tpk : pkey) (us : secret) (S : seq nat) (ws : seq G1)
           (eps delta mu : F) (gam : seq F) : sigpok :=
  pok_of_sig pp tpk (sh us) (combine_witnesses S ws) (smsg us) eps delta mu gam.

(* Party identifiers versus evaluation points.  TPS.Init gives parties[i] the RANK i+1 and the key generation deals,
   combines and aggregates at ranks; the prover is handed party IDENTIFIERS.  Variant flag fix_rank: false = the pinned
   tree, where ProveKnowledgeOfSignature used int64(signer), the identifier, as evaluation point; true = the repaired
   code, which looks up the rank recorded by Prover.Init (parties2EvalPoints[party] = i+1). *)
Definition rank_of (parties : seq nat) (id : nat) : nat := (index id parties).+1.
Definition eval_points (fix_rank : bool) (parties signer_ids : seq nat) : seq nat :=
  if fix_rank then [seq rank_of parties id | id <- signer_ids] else signer_ids.
Definition prove_knowledge_ids (fix_rank : bool) (pp : pparams) (tpk : pkey) (us : secret) (parties signer_ids : seq nat)
           (ws : seq G1) (eps delta mu : F) (gam : seq F) : sigpok :=
  prove_knowledge pp tpk us (eval_points fix_rank parties signer_ids) ws eps delta mu gam.

(* localAggregatePublicKeys / localAggregateECPoints over the evaluation points T (party k is pks[k-1]) *)
Definition agg_points (V : lmodType F) (T : seq nat) (pt : nat -> V) : V :=
  foldr (fun k acc => lagr (pts T) k%:R *: pt k + acc) 0 T.
Definition agg_pk (n : nat) (pks : seq pkey) (T : seq nat) : pkey :=
  let pk0 := PK 0 [::] in
  PK (agg_points T (fun k => pkX (nth pk0 pks k.-1)))
     (mkseq (fun j => agg_points T (fun k => (pkY (nth pk0 pks k.-1))`_j)) n).

(* DKG arithmetic: every party deals one polynomial (coefficient list, constant term first) for x and one per
   y_j; party i ends with the sum of the evaluations at i (own share + the received ones: combineShares) *)
Definition evalp (cs : seq F) (x : F) : F := foldr (fun c acc => acc * x + c) 0 cs.
Record dealing := Deal { dlx : seq F; dly : seq (seq F) }.
Definition dkg_sk (n : nat) (deals : seq dealing) (i : nat) : skey :=
  SK (foldr (fun d acc => evalp (dlx d) i%:R + acc) 0 deals)
     (mkseq (fun j => foldr (fun d acc => evalp (nth [::] (dly d) j) i%:R + acc) 0 deals) n).
Definition dkg_pks (pp : pparams) (n N : nat) (deals : seq dealing) : seq pkey :=
  [seq pk_of pp (dkg_sk n deals i) | i <- iota 1 N].

End Model.

(* ======================================================================================================
   Facts: completeness (C08).  Bilinearity of the pairing is the only assumption about the groups.
   ====================================================================================================== *)
Section Facts.
Variable F : fieldType.
Variables G1 G2 GT : lmodType F.
Variable e : G1 -> G2 -> GT.
Variable Hm : G1 -> F.
Variable HG : G1 -> G1.
Variable RO1 : seq G1 -> F.
Variable RO2 : seq (G2 + G1) -> F.

Hypothesis eDl : forall a a' b, e (a + a') b = e a b + e a' b.
Hypothesis eDr : forall a b b', e a (b + b') = e a b + e a b'.
Hypothesis eZl : forall c a b, e (c *: a) b = c *: e a b.
Hypothesis eZr : forall c a b, e a (c *: b) = c *: e a b.

Notation pparams := (pparams G1 G2).
Notation blind := (blind Hm HG RO1).
Notation verify_request := (verify_request Hm HG RO1).
Notation verify_blinding := (verify_blinding RO1).
Notation sign_blind := (sign_blind Hm HG RO1).
Notation apply_sk := (apply_sk Hm HG).
Notation unblind := (unblind e).
Notation verify_pok := (verify_pok e RO2).
Notation pok_of_sig := (pok_of_sig RO2).
Notation prove_knowledge := (prove_knowledge RO2).
Notation full_cm := (full_cm Hm).

Lemma eNr a b : e a (- b) = - e a b.
Proof. by rewrite -scaleN1r eZr scaleN1r. Qed.
Lemma e0r a : e a 0 = 0.
Proof. by rewrite -(scale0r (0 : G2)) eZr scale0r. Qed.

(* ---- the folds are the usual sums ---- *)
Lemma linE (V : lmodType F) n (c : seq F) (v : seq V) : lin n c v = \sum_(0 <= i < n) c`_i *: v`_i.
Proof. by rewrite /lin unlock /reducebig /index_iota subn0. Qed.

Lemma lagrE (xs : seq F) (i : F) : lagr xs i = lagrange0 xs i.
Proof. by rewrite /lagr /lagrange0 unlock /reducebig. Qed.

Lemma combineE (S : seq nat) (ws : seq G1) :
  combine_witnesses S ws = \sum_(p <- zip S ws) lagrange0 (pts F S) (p.1)%:R *: p.2.
Proof.
rewrite /combine_witnesses unlock /reducebig; elim: (zip S ws) => [|p r IH] //=.
by rewrite IH lagrE.
Qed.

Lemma agg_pointsE (V : lmodType F) (T : seq nat) (pt : nat -> V) :
  agg_points T pt = \sum_(k <- T) lagrange0 (pts F T) k%:R *: pt k.
Proof.
rewrite /agg_points unlock /reducebig; move: (pts F T) => xs; elim: T => [|k r IH] //=.
by rewrite IH lagrE.
Qed.

Lemma dkg_skE n (deals : seq (dealing F)) i :
  dkg_sk n deals i = SK (\sum_(d <- deals) evalp (dlx d) i%:R)
                        (mkseq (fun j => \sum_(d <- deals) evalp (nth [::] (dly d) j) i%:R) n).
Proof.
rewrite /dkg_sk; congr SK; first by rewrite unlock /reducebig.
by apply: eq_map => j; rewrite unlock /reducebig.
Qed.

(* ---- linear combinations ---- *)
Lemma lin_mkseq_affine (V : lmodType F) n (a b : seq F) (c : F) (v : seq V) :
  lin n (mkseq (fun i => a`_i + c * b`_i) n) v = lin n a v + c *: lin n b v.
Proof.
rewrite !linE scaler_sumr -big_split /=; apply: eq_big_nat => i /andP [_ ilt].
by rewrite nth_mkseq // scalerDl scalerA.
Qed.

Lemma lin_rcons (V : lmodType F) (m : seq F) (mp : F) (v : seq V) :
  lin (size m).+1 (rcons m mp) v = lin (size m) m v + mp *: v`_(size m).
Proof.
rewrite !linE big_nat_recr //= nth_rcons ltnn eqxx; congr (_ + _).
by apply: eq_big_nat => i /andP [_ ilt]; rewrite nth_rcons ilt.
Qed.

(* sum_i c_i * (y_i * g) = (sum_i c_i * y_i) * g, for vectors of public-key shape *)
Lemma lin_pk (V : lmodType F) n (c y : seq F) (g : V) : (n <= size y)%N ->
  lin n c [seq yi *: g | yi <- y] = (\sum_(0 <= i < n) c`_i * y`_i) *: g.
Proof.
move=> nle; rewrite linE scaler_suml; apply: eq_big_nat => i /andP [_ ilt].
by rewrite (nth_map 0) ?scalerA // (leq_trans ilt nle).
Qed.

(* ---- the request proof ---- *)
Lemma loop1_fixed (u h : G1) c x y b idx d :
  loop1 true u h c x y b idx d = (all (fun i => eq1_at u h c x`_i y`_i d`_i b`_i) idx, d).
Proof. by elim: idx => [|i idx IH] //=; rewrite IH /eq1_at; case: (_ == _). Qed.

Lemma with_d_id (xi : bproof G1) : with_d xi (bd xi) = xi.
Proof. by case: xi. Qed.

Lemma verify_blinding_fixed n xi a b cm g g0 h u gs :
  verify_blinding true n xi a b cm g g0 h u gs =
  (sizes_ok n xi a b gs && blind_eqs n (RO1 (ro_blind_input n (bd xi) (bf xi) (bs xi) a b cm g g0 h u)) xi a b cm g g0 h u gs, xi).
Proof.
rewrite /verify_blinding /blind_eqs loop1_fixed /= with_d_id.
case: (sizes_ok _ _ _ _ _) => //=.
by case: (all _ _) => //=; case: (all _ _).
Qed.

Lemma eq1_honest (u h : G1) alpha beta c r m :
  (alpha + c * r) *: u + (beta + c * m) *: h = (beta *: h + alpha *: u) + c *: (m *: h + r *: u).
Proof.
rewrite !scalerDl scalerDr !scalerA addrACA.
by rewrite [alpha *: u + _]addrC [(c * r) *: u + _]addrC.
Qed.

Lemma eq2_honest (g : G1) alpha c r : (alpha + c * r) *: g = alpha *: g + c *: (r *: g).
Proof. by rewrite scalerDl scalerA. Qed.

Lemma eq3_honest (g0 : G1) c rc gamma (B M : G1) :
  c *: (rc *: g0 + M) + (gamma *: g0 + B) = (gamma + c * rc) *: g0 + (B + c *: M).
Proof.
rewrite scalerDr scalerA scalerDl addrACA [(c * rc) *: g0 + _]addrC; congr (_ + _).
by rewrite addrC.
Qed.

Theorem request_accepted (pp : pparams) m rc z r alpha beta gamma :
  size m = (pn pp).-1 -> (0 < pn pp)%N ->
  (verify_request true pp (blind pp m rc z r alpha beta gamma).1).1 = true.
Proof.
move=> sm npos.
have sn : (size m).+1 = pn pp by rewrite sm prednK.
rewrite /verify_request /blind /= /req_h /req_cm /= verify_blinding_fixed /=.
set n := pn pp; set cm := full_cm _ _; set h := HG cm; set u := z *: pg pp; set msg := rcons m _.
set c := RO1 _.
apply/andP; split.
  by rewrite /sizes_ok /= !size_mkseq !eqxx /= /n /pn leqnn.
apply/and3P; split => /=.
- apply/allP => i; rewrite mem_iota add0n => /andP [_ ilt].
  by rewrite /eq1_at !nth_mkseq // eq1_honest.
- apply/allP => i; rewrite mem_iota add0n => /andP [_ ilt].
  by rewrite /eq2_at !nth_mkseq // eq2_honest.
rewrite /eq3 lin_mkseq_affine; apply/eqP.
have -> : lin n msg (pgs pp) = lin (size m) m (pgs pp) + Hm (commit pp rc m) *: last 0 (pgs pp).
  by rewrite /n -sn /msg lin_rcons -nth_last sm /pn.
rewrite -/c; clearbody c; rewrite /cm /full_cm /commit -addrA; exact: eq3_honest.
Qed.

(* ---- signing and unblinding ---- *)
Lemma lin_mkseq_r (V : lmodType F) n (c : seq F) (f : nat -> V) :
  lin n c (mkseq f n) = \sum_(0 <= i < n) c`_i *: f i.
Proof. by rewrite linE; apply: eq_big_nat => i /andP [_ ilt]; rewrite nth_mkseq. Qed.

(* the exponent of an unblinded signature: x + sum_j y_j m_j *)
Definition sig_exp (n : nat) (sk : skey F) (msg : seq F) : F := skx sk + \sum_(0 <= j < n) (sky sk)`_j * msg`_j.

Lemma unblind_point_honest (pp : pparams) m rc z r alpha beta gamma sk :
  let bl := blind pp m rc z r alpha beta gamma in
  unblind_point (apply_sk pp bl.1 sk) (sz bl.2) = sig_exp (pn pp) sk (smsg bl.2) *: sh bl.2.
Proof.
rewrite /= /unblind_point /apply_sk /= /req_h /req_cm /= !lin_mkseq_r /sig_exp.
set h := HG _; set msg := rcons m _; set n := pn pp.
rewrite scalerDl -addrA; congr (_ + _).
rewrite scaler_suml scaler_sumr -big_split /=; apply: eq_big_nat => i _.
rewrite scalerDr !scalerA addrAC -addrA -scalerDl.
by rewrite -mulrA mulNr [z * _]mulrC addNr scale0r addr0.
Qed.

Lemma pkY_pk_of (pp : pparams) sk : pkY (pk_of pp sk) = [seq y *: pg2 pp | y <- sky sk].
Proof. by []. Qed.

Lemma key_exp (pp : pparams) sk n msg : (n <= size (sky sk))%N ->
  pkX (pk_of pp sk) + lin n msg (pkY (pk_of pp sk)) = sig_exp n sk msg *: pg2 pp.
Proof.
move=> nle; rewrite /= lin_pk // /sig_exp scalerDl; congr (_ + _ *: _).
by apply: eq_bigr => i _; rewrite mulrC.
Qed.

Theorem partial_unblinds (pp : pparams) m rc z r alpha beta gamma sk :
  size m = (pn pp).-1 -> (0 < pn pp)%N -> size (sky sk) = pn pp ->
  let bl := blind pp m rc z r alpha beta gamma in
  unblind pp (pk_of pp sk) (apply_sk pp bl.1 sk) (sh bl.2) (smsg bl.2) (sz bl.2)
  = Some (sig_exp (pn pp) sk (smsg bl.2) *: sh bl.2).
Proof.
move=> sm npos ssk bl.
have smsg : size (smsg bl.2) = pn pp by rewrite /= size_rcons sm prednK.
rewrite /unblind smsg size_map ssk ltnn unblind_point_honest -/bl.
by rewrite key_exp ?ssk // eNr eZl eZr addNr eqxx.
Qed.

(* ---- proof of knowledge under one key ---- *)
Theorem pok_verifies_key (pp : pparams) sk (h : G1) msg eps delta mu gam :
  size (sky sk) = pn pp -> size msg = pn pp -> h != 0 -> eps != 0 ->
  verify_pok pp (pk_of pp sk)
    (pok_of_sig pp (pk_of pp sk) h (sig_exp (pn pp) sk msg *: h) msg eps delta mu gam) = true.
Proof.
move=> ssk smsg hn0 en0.
rewrite /verify_pok /pok_challenge /pok_eqs /= !size_mkseq !size_map ssk -smsg leqnn /=.
set Y := [seq _ | y <- sky sk]; set c := RO2 _.
have kE : skx sk *: pg2 pp + lin (size msg) msg Y = sig_exp (size msg) sk msg *: pg2 pp.
  by rewrite -(key_exp pp (n:=size msg) msg) ?ssk ?smsg.
apply/and4P; split.
- rewrite /pok_commit_eq /= size_mkseq lin_mkseq_affine -/c.
  have -> : skx sk *: pg2 pp + lin (size msg) msg Y + delta *: pg2 pp - skx sk *: pg2 pp
            = lin (size msg) msg Y + delta *: pg2 pp.
    by rewrite addrAC [skx sk *: _ + _]addrC addrK.
  rewrite scalerDl scalerDr scalerA -!addrA; apply/eqP; congr (_ + _).
  by rewrite addrC -addrA.
- by rewrite /pok_nu_eq /= -/c scalerDl addrC -!scalerA.
- by rewrite scaler_eq0 negb_or en0.
rewrite /pok_pairing_eq kE.
rewrite -scalerDl eNr !eZl eZr eDl !eZl !scalerA -scalerDl -scalerBl.
set k := sig_exp _ _ _.
have -> : eps * (k + delta) - (eps * k + delta * eps) = 0.
  by rewrite mulrDr [delta * eps]mulrC subrr.
by rewrite scale0r.
Qed.

(* ---- threshold: Lagrange in the exponent ---- *)
Variables (N t : nat).
(* party identifiers 0..N are distinct scalars (N < char F, e.g. N < the group order) *)
Hypothesis natF_inj : forall i j : nat, (i <= N)%N -> (j <= N)%N -> i%:R = j%:R :> F -> i = j.

(* a list of at least t distinct parties of 1..N *)
Definition signers_ok (S : seq nat) : bool :=
  [&& uniq S, all (fun i => (0 < i <= N)%N) S & (t <= size S)%N].

Lemma uniq_pts S : signers_ok S -> uniq (pts F S).
Proof.
case/and3P => uS /allP inS _; rewrite map_inj_in_uniq // => i j /inS /andP [_ iN] /inS /andP [_ jN].
exact: natF_inj.
Qed.

Lemma agg_points_poly (V : lmodType F) T (Q : {poly F}) (v : V) :
  signers_ok T -> (size Q <= t)%N -> agg_points T (fun k => Q.[k%:R] *: v) = Q.[0] *: v.
Proof.
move=> okT sQ; have [_ _ tT] := and3P okT.
rewrite -(reconstruct_at0 (uniq_pts okT)); last by rewrite size_map (leq_trans sQ).
rewrite agg_pointsE /pts big_map scaler_suml; apply: eq_bigr => k _.
by rewrite scalerA mulrC.
Qed.

Lemma combine_agg S (f : nat -> G1) : combine_witnesses S [seq f k | k <- S] = agg_points S f.
Proof. by rewrite combineE agg_pointsE -{1}(map_id S) zip_map big_map. Qed.

(* secret key of party i when the combined polynomials are Px, Py_j *)
Definition sk_at (Px : {poly F}) (Py : nat -> {poly F}) (n i : nat) : skey F :=
  SK Px.[i%:R] (mkseq (fun j => (Py j).[i%:R]) n).

Definition exp_poly (Px : {poly F}) (Py : nat -> {poly F}) (n : nat) (msg : seq F) : {poly F} :=
  Px + \sum_(0 <= j < n) msg`_j *: Py j.

Lemma sig_exp_poly Px Py n i msg : sig_exp n (sk_at Px Py n i) msg = (exp_poly Px Py n msg).[i%:R].
Proof.
rewrite /sig_exp /exp_poly hornerD horner_sum /=; congr (_ + _).
by apply: eq_big_nat => j /andP [_ jlt]; rewrite nth_mkseq // hornerZ mulrC.
Qed.

Lemma size_exp_poly (Px : {poly F}) (Py : nat -> {poly F}) n msg : (size Px <= t)%N -> (forall j, size (Py j) <= t)%N ->
  (size (exp_poly Px Py n msg) <= t)%N.
Proof.
move=> sx sy; apply: leq_trans (size_add _ _) _; rewrite geq_max sx /=.
elim/big_rec: _ => [|j acc _ IH]; first by rewrite size_poly0.
apply: leq_trans (size_add _ _) _; rewrite geq_max IH andbT.
exact: leq_trans (size_scale_leq _ _) (sy j).
Qed.

Lemma sk_at0 Px Py n : sk_at Px Py n 0 = SK Px.[0] (mkseq (fun j => (Py j).[0]) n).
Proof. by []. Qed.

(* the Lagrange-combined witnesses are the unblinded signature under the key at 0 *)
Lemma combine_honest (pp : pparams) (Px : {poly F}) (Py : nat -> {poly F}) S msg (h : G1) :
  signers_ok S -> (size Px <= t)%N -> (forall j, size (Py j) <= t)%N ->
  combine_witnesses S [seq sig_exp (pn pp) (sk_at Px Py (pn pp) k) msg *: h | k <- S]
  = sig_exp (pn pp) (sk_at Px Py (pn pp) 0) msg *: h.
Proof.
move=> okS sx sy; rewrite combine_agg sig_exp_poly -(agg_points_poly _ okS (size_exp_poly _ _ sx sy)).
by rewrite !agg_pointsE; apply: eq_bigr => k _; rewrite sig_exp_poly.
Qed.

Theorem pok_verifies (pp : pparams) (Px : {poly F}) (Py : nat -> {poly F}) m rc z r alpha beta gamma S eps delta mu gam :
  size m = (pn pp).-1 -> (0 < pn pp)%N ->
  signers_ok S -> (size Px <= t)%N -> (forall j, size (Py j) <= t)%N ->
  let n := pn pp in
  let bl := blind pp m rc z r alpha beta gamma in
  let ws := [seq unblind_point (apply_sk pp bl.1 (sk_at Px Py n k)) (sz bl.2) | k <- S] in
  let tpk := pk_of pp (sk_at Px Py n 0) in
  sh bl.2 != 0 -> eps != 0 ->
  verify_pok pp tpk (prove_knowledge pp tpk bl.2 S ws eps delta mu gam) = true.
Proof.
move=> sm npos okS sx sy n bl ws tpk hn0 en0.
have -> : ws = [seq sig_exp n (sk_at Px Py n k) (smsg bl.2) *: sh bl.2 | k <- S].
  by apply: eq_map => k; rewrite /bl unblind_point_honest.
rewrite /prove_knowledge combine_honest //.
by apply: pok_verifies_key => //=; rewrite ?size_mkseq // size_rcons sm prednK.
Qed.

(* ---- DKG arithmetic ---- *)
Lemma evalpE (cs : seq F) x : evalp cs x = (Poly cs).[x].
Proof. by elim: cs => [|c cs IH] /=; rewrite ?horner0 // horner_cons IH. Qed.

Definition poly_x (deals : seq (dealing F)) : {poly F} := \sum_(d <- deals) Poly (dlx d).
Definition poly_y (deals : seq (dealing F)) (j : nat) : {poly F} := \sum_(d <- deals) Poly (nth [::] (dly d) j).

(* every dealt polynomial has at most t coefficients (degree <= t-1) *)
Definition deals_ok (deals : seq (dealing F)) : bool :=
  all (fun d => (size (dlx d) <= t)%N && all (fun cs => (size cs <= t)%N) (dly d)) deals.

Lemma size_poly_x deals : deals_ok deals -> (size (poly_x deals) <= t)%N.
Proof.
elim: deals => [|d ds IH] /=; first by rewrite /poly_x big_nil size_poly0.
case/andP => /andP [sx _] /IH ok; rewrite /poly_x big_cons.
apply: leq_trans (size_add _ _) _; rewrite geq_max ok andbT.
exact: leq_trans (size_Poly _) sx.
Qed.

Lemma size_poly_y deals j : deals_ok deals -> (size (poly_y deals j) <= t)%N.
Proof.
elim: deals => [|d ds IH] /=; first by rewrite /poly_y big_nil size_poly0.
case/andP => /andP [_ /allP oky] /IH ok; rewrite /poly_y big_cons.
apply: leq_trans (size_add _ _) _; rewrite geq_max ok andbT.
apply: leq_trans (size_Poly _) _.
case: (ltnP j (size (dly d))) => jlt; first by apply: oky; rewrite mem_nth.
by rewrite nth_default.
Qed.

Lemma dkg_sk_poly n deals i : dkg_sk n deals i = sk_at (poly_x deals) (poly_y deals) n i.
Proof.
rewrite dkg_skE /sk_at /poly_x horner_sum; congr SK; first by apply: eq_bigr => d _; rewrite evalpE.
rewrite /mkseq; apply: eq_map => j; rewrite /poly_y horner_sum.
by apply: eq_bigr => d _; rewrite evalpE.
Qed.

(* all parties compute the same threshold key, whichever t-subset (indeed any list of >= t parties) they use *)
Theorem dkg_public_equal (pp : pparams) n deals T :
  deals_ok deals -> signers_ok T ->
  agg_pk n (dkg_pks pp n N deals) T = pk_of pp (sk_at (poly_x deals) (poly_y deals) n 0).
Proof.
move=> okd okT; have [_ /allP inT _] := and3P okT.
have nthpk k : k \in T -> nth (PK 0 [::]) (dkg_pks pp n N deals) k.-1 = pk_of pp (sk_at (poly_x deals) (poly_y deals) n k).
  move=> /inT /andP [k0 kN]; rewrite /dkg_pks (nth_map 0%N) ?size_iota ?prednK //.
  by rewrite nth_iota ?prednK // add1n prednK // dkg_sk_poly.
rewrite /agg_pk /pk_of /=; congr PK.
  rewrite -(agg_points_poly _ okT (size_poly_x okd)) !agg_pointsE; apply: eq_big_seq => k kin.
  by rewrite nthpk.
rewrite /mkseq -map_comp; apply/eq_in_map => j; rewrite mem_iota add0n => /andP [_ jlt] /=.
rewrite -(agg_points_poly _ okT (size_poly_y j okd)) !agg_pointsE; apply: eq_big_seq => k kin.
by rewrite nthpk //= (nth_map 0) ?size_mkseq // nth_mkseq.
Qed.

(* ---- the same statements for the keys that come out of the DKG ---- *)
Lemma nth_dkg_pks (pp : pparams) n deals k : (0 < k <= N)%N ->
  nth (PK 0 [::]) (dkg_pks pp n N deals) k.-1 = pk_of pp (dkg_sk n deals k).
Proof.
move=> /andP [k0 kN]; rewrite /dkg_pks (nth_map 0%N) ?size_iota ?prednK //.
by rewrite nth_iota ?prednK // add1n prednK.
Qed.

Theorem partial_unblinds_dkg (pp : pparams) deals m rc z r alpha beta gamma i :
  size m = (pn pp).-1 -> (0 < pn pp)%N -> (0 < i <= N)%N ->
  let n := pn pp in
  let bl := blind pp m rc z r alpha beta gamma in
  let sk := dkg_sk n deals i in
  unblind pp (nth (PK 0 [::]) (dkg_pks pp n N deals) i.-1) (apply_sk pp bl.1 sk) (sh bl.2) (smsg bl.2) (sz bl.2)
  = Some (sig_exp n sk (smsg bl.2) *: sh bl.2).
Proof.
move=> sm npos iN n bl sk; rewrite nth_dkg_pks //.
by apply: partial_unblinds => //; rewrite /sk dkg_skE /= size_mkseq.
Qed.

Theorem pok_verifies_dkg (pp : pparams) deals m rc z r alpha beta gamma S T eps delta mu gam :
  size m = (pn pp).-1 -> (0 < pn pp)%N -> deals_ok deals -> signers_ok S -> signers_ok T ->
  let n := pn pp in
  let bl := blind pp m rc z r alpha beta gamma in
  let ws := [seq unblind_point (apply_sk pp bl.1 (dkg_sk n deals k)) (sz bl.2) | k <- S] in
  let tpk := agg_pk n (dkg_pks pp n N deals) T in
  sh bl.2 != 0 -> eps != 0 ->
  verify_pok pp tpk (prove_knowledge pp tpk bl.2 S ws eps delta mu gam) = true.
Proof.
move=> sm npos okd okS okT n bl ws tpk hn0 en0.
rewrite /tpk dkg_public_equal //.
have -> : ws = [seq unblind_point (apply_sk pp bl.1 (sk_at (poly_x deals) (poly_y deals) n k)) (sz bl.2) | k <- S].
  by apply: eq_map => k; rewrite dkg_sk_poly.
apply: pok_verifies => //; first exact: size_poly_x.
by move=> j; exact: size_poly_y.
Qed.

(* arbitrary party identifiers: the witness of party id is made with the share of its rank; combined at ranks
   (repaired variant) the proof verifies for every list of at least t distinct parties of the party list *)
Lemma ranks_ok (parties sids : seq nat) :
  uniq parties -> size parties = N -> uniq sids -> {subset sids <= parties} -> (t <= size sids)%N ->
  signers_ok [seq rank_of parties id | id <- sids].
Proof.
move=> up sp us sub ts; apply/and3P; split; last by rewrite size_map.
  rewrite map_inj_in_uniq // => x y /sub xin /sub yin [eq].
  by rewrite -(nth_index 0%N xin) -(nth_index 0%N yin) eq.
by apply/allP => k /mapP [id /sub idin ->]; rewrite /rank_of /= -sp index_mem.
Qed.

Theorem pok_verifies_ids (pp : pparams) deals m rc z r alpha beta gamma parties sids T eps delta mu gam :
  size m = (pn pp).-1 -> (0 < pn pp)%N -> deals_ok deals ->
  uniq parties -> size parties = N -> uniq sids -> {subset sids <= parties} -> (t <= size sids)%N -> signers_ok T ->
  let n := pn pp in
  let bl := blind pp m rc z r alpha beta gamma in
  let ws := [seq unblind_point (apply_sk pp bl.1 (dkg_sk n deals (rank_of parties id))) (sz bl.2) | id <- sids] in
  let tpk := agg_pk n (dkg_pks pp n N deals) T in
  sh bl.2 != 0 -> eps != 0 ->
  verify_pok pp tpk (prove_knowledge_ids RO2 true pp tpk bl.2 parties sids ws eps delta mu gam) = true.
Proof.
move=> sm npos okd up sp us sub ts okT n bl ws tpk hn0 en0.
rewrite /prove_knowledge_ids /eval_points /=.
have -> : ws = [seq unblind_point (apply_sk pp bl.1 (dkg_sk n deals k)) (sz bl.2) | k <- [seq rank_of parties id | id <- sids]].
  by rewrite -map_comp.
by apply: pok_verifies_dkg => //; exact: ranks_ok.
Qed.

Theorem partial_unblinds_signed (pp : pparams) deals m rc z r alpha beta gamma i :
  size m = (pn pp).-1 -> (0 < pn pp)%N -> (0 < i <= N)%N ->
  let n := pn pp in
  let bl := blind pp m rc z r alpha beta gamma in
  let sk := dkg_sk n deals i in
  (sign_blind true pp bl.1 sk).1 = Some (apply_sk pp bl.1 sk) /\
  unblind pp (nth (PK 0 [::]) (dkg_pks pp n N deals) i.-1) (apply_sk pp bl.1 sk) (sh bl.2) (smsg bl.2) (sz bl.2)
  = Some (sig_exp n sk (smsg bl.2) *: sh bl.2).
Proof.
move=> sm npos iN n bl sk; split; last exact: partial_unblinds_dkg.
rewrite /sign_blind; have := @request_accepted pp m rc z r alpha beta gamma sm npos.
rewrite -/bl; case E: (verify_request true pp bl.1) => [[] r'] //= _.
have : (verify_request true pp bl.1).2 = bl.1.
  by rewrite /verify_request verify_blinding_fixed /=; case: (bl.1).
by rewrite E /= => ->.
Qed.

Theorem dkg_public_equal_all (pp : pparams) n deals T :
  deals_ok deals -> signers_ok T ->
  (forall i, dkg_sk n deals i = sk_at (poly_x deals) (poly_y deals) n i) /\
  (forall i, (0 < i <= N)%N -> nth (PK 0 [::]) (dkg_pks pp n N deals) i.-1 = pk_of pp (dkg_sk n deals i)) /\
  agg_pk n (dkg_pks pp n N deals) T = pk_of pp (sk_at (poly_x deals) (poly_y deals) n 0).
Proof.
move=> okd okT; split; first by move=> i; exact: dkg_sk_poly.
split; first by move=> i; exact: nth_dkg_pks.
exact: dkg_public_equal.
Qed.

End Facts.
