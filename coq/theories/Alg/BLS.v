(* Threshold BLS in the ideal-group model, on top of TSS.Alg.SSS (library for C01 / C09; no property file uses it yet).
   MathComp style.

   F            a field (Z/r);  G1, G2, GT  left F-modules (prime-order groups written additively:  P^a = a *: P)
   e            a bilinear map G2 x G1 -> GT, non-degenerate at the generator g2:  e g2 q = 0 -> q = 0
   sign sk h    = sk *: h                      (localSign:  HashToG1(digest)^sk,  h = H(m))
   verify pk h s = (e g2 s == e pk h)          (localVerify:  e(-g2, s) * e(pk, h) = 1)
   Hash-to-curve, the pairing and the group arithmetic of IBM/mathlib are ideal objects here (Section variables). *)
From mathcomp Require Import all_ssreflect all_algebra zify.
Require Import TSS.Alg.Lagrange TSS.Alg.Choose TSS.Alg.SSS.
Set Implicit Arguments. Unset Strict Implicit. Unset Printing Implicit Defensive.
Import GRing.Theory.
Local Open Scope ring_scope.

(* ------------------------------------------------------------------------------------------------
   Interpolation of arbitrary values (Lagrange.interp is stated for the values of a polynomial) *)
Section InterpValues.
Variable F : fieldType.

Definition interpf (xs : seq F) (f : F -> F) : {poly F} := \sum_(i <- xs) f i *: basis xs i.

Lemma size_interpf xs f : (size (interpf xs f) <= size xs)%N.
Proof.
rewrite /interpf big_seq; elim/big_rec: _ => [|i acc iin IH]; first by rewrite size_poly0.
apply: leq_trans (size_add _ _) _; rewrite geq_max IH andbT.
by apply: leq_trans (size_scale_leq _ _) (size_basis iin).
Qed.

Lemma interpf_at xs f k : uniq xs -> k \in xs -> (interpf xs f).[k] = f k.
Proof.
move=> uxs kin; rewrite /interpf horner_sum (bigD1_seq k) //= hornerZ basis_self mulr1.
rewrite big_seq_cond big1 ?addr0 // => i /andP [iin ink].
by rewrite hornerZ basis_other ?mulr0 // eq_sym.
Qed.

(* two polynomials of size <= |xs| that agree on the distinct nodes xs are equal *)
Lemma poly_eq_on_nodes xs (p q : {poly F}) : uniq xs -> (size p <= size xs)%N -> (size q <= size xs)%N ->
  (forall x, x \in xs -> p.[x] = q.[x]) -> p = q.
Proof.
move=> uxs sp sq e; rewrite -(interp_id uxs sp) -(interp_id uxs sq) /interp.
by rewrite big_seq [RHS]big_seq; apply: eq_bigr => i iin; rewrite e.
Qed.

(* Shamir secrecy: t-1 shares (at distinct non-zero points, with ANY values) are consistent with EVERY candidate
   secret s, through exactly one polynomial of degree < t.  So fewer than t shares determine nothing about the secret. *)
Theorem shamir_secrecy t (xs : seq F) (f : F -> F) (s : F) :
  (0 < t)%N -> uniq xs -> 0 \notin xs -> size xs = t.-1 ->
  exists! p : {poly F}, [/\ (size p <= t)%N, p.[0] = s & forall x, x \in xs -> p.[x] = f x].
Proof.
move=> t0 uxs z sz.
pose nodes := 0 :: xs.
have un : uniq nodes by rewrite /= z uxs.
have sn : size nodes = t by rewrite /= sz prednK.
pose f' := fun x => if x == 0 then s else f x.
exists (interpf nodes f'); split.
  split; first by rewrite -sn size_interpf.
    by rewrite interpf_at ?mem_head // /f' eqxx.
  move=> x xin; rewrite interpf_at // ?inE ?xin ?orbT // /f'.
  by case: eqP => // x0; move: z; rewrite -x0 xin.
move=> q [sq q0 qx]; apply: (@poly_eq_on_nodes nodes) => //; rewrite ?sn ?size_interpf // -?sn ?size_interpf //.
move=> x; rewrite inE => /orP [/eqP ->|xin].
  by rewrite interpf_at ?mem_head // /f' eqxx q0.
rewrite interpf_at ?inE ?xin ?orbT // qx // /f'.
by case: eqP => // x0; move: z; rewrite -x0 xin.
Qed.

End InterpValues.

(* ------------------------------------------------------------------------------------------------ BLS *)
Section BLS.
Variable F : fieldType.
Variables G1 G2 GT : lmodType F.
Variable e : G2 -> G1 -> GT.
Variable g2 : G2.

Hypothesis e_scale_l : forall a P Q, e (a *: P) Q = a *: e P Q.
Hypothesis e_scale_r : forall a P Q, e P (a *: Q) = a *: e P Q.
Hypothesis e_add_l : forall P P' Q, e (P + P') Q = e P Q + e P' Q.
Hypothesis e_add_r : forall P Q Q', e P (Q + Q') = e P Q + e P Q'.
Hypothesis e_nondeg : forall Q : G1, e g2 Q = 0 -> Q = 0.

Definition sign (sk : F) (h : G1) : G1 := sk *: h.
Definition pubkey (sk : F) : G2 := sk *: g2.
Definition verify (pk : G2) (h : G1) (s : G1) : bool := e g2 s == e pk h.

Lemma e_opp_r P Q : e P (- Q) = - e P Q.
Proof. by rewrite -scaleN1r e_scale_r scaleN1r. Qed.

Lemma e_sub_r P Q Q' : e P (Q - Q') = e P Q - e P Q'.
Proof. by rewrite e_add_r e_opp_r. Qed.

Lemma verify_sign sk h : verify (pubkey sk) h (sign sk h).
Proof. by rewrite /verify /pubkey /sign e_scale_l e_scale_r. Qed.

(* verification accepts exactly the one group element sk *: h (for every h; for h = 0 that element is 0) *)
Theorem verify_iff sk h s : verify (pubkey sk) h s <-> s = sign sk h.
Proof.
split=> [/eqP H|->]; last exact: verify_sign.
apply/eqP; rewrite -subr_eq0; apply/eqP/e_nondeg.
by rewrite e_sub_r H /pubkey /sign e_scale_l e_scale_r subrr.
Qed.

(* under another key the honest signature is rejected, provided H(m) != 0 *)
Theorem verify_other_key sk sk' h : h != 0 -> verify (pubkey sk') h (sign sk h) = (sk == sk').
Proof.
move=> hz; apply/idP/eqP => [/verify_iff|->]; last exact: verify_sign.
rewrite /sign => /eqP; rewrite -subr_eq0 -scalerBl scaler_eq0 (negbTE hz) orbF subr_eq0.
by move/eqP.
Qed.

(* ------------------------------------------------------------------------------------------------ threshold *)
Variables (n t : nat) (cs : seq F).
Hypothesis sm : small F n.
Hypothesis sc : (size cs <= t)%N.

Definition sk_of (x : nat) : F := (shares cs n)`_(x.-1).           (* StoredData.Sk of party x *)
Definition tpk : G2 := pubkey cs`_0.                                (* the public key of the dealt secret *)
Definition partial (h : G1) (x : nat) : G1 := sign (sk_of x) h.     (* TBLS.Sign of party x *)

Definition qualified (pts : seq nat) : bool := [&& (t <= size pts)%N, uniq pts & in_range n pts].

(* aggregated public keys of any qualified set = tpk (C18_in_exponent in G2) *)
Lemma agg_keys_tpk pts : qualified pts -> agg (keys cs n g2) pts = tpk.
Proof. by case/and3P => tp u rng; rewrite (C18_in_exponent g2 sm sc tp u rng). Qed.

(* aggregated partial signatures of any qualified set of signers, in the order given = F(0) *: H(m) *)
Theorem agg_sigs pts h : qualified pts ->
  agg_pos [seq partial h x | x <- pts] pts = sign cs`_0 h.
Proof.
case/and3P => tp u rng; rewrite agg_posE /sign -(C18_in_exponent h sm sc tp u rng) /agg /aggf.
rewrite big_seq [RHS]big_seq; apply: eq_bigr => x xin.
have /andP [x0 xn] := allP rng _ xin.
by rewrite /partial /sign /sk_of /keys (nth_map 0) // size_shares prednK.
Qed.

(* completeness: for all n, t, polynomials, messages, qualified signer lists and qualified key-aggregation sets *)
Theorem bls_complete pts pts' h : qualified pts -> qualified pts' ->
  verify (agg (keys cs n g2) pts') h (agg_pos [seq partial h x | x <- pts] pts).
Proof. by move=> q q'; rewrite agg_keys_tpk // agg_sigs //; exact: verify_sign. Qed.

(* soundness of the verifier against the threshold key: accepted iff sigma = F(0) *: H(m) *)
Theorem bls_accept_iff h s : verify tpk h s <-> s = sign cs`_0 h.
Proof. exact: verify_iff. Qed.

(* aggregation is affine in each partial signature: altering the one of signer i by d moves the aggregate by lambda_i *: d *)
Lemma aggf_alter (y : nat -> G1) pts i d : uniq pts -> i \in pts ->
  aggf (fun x => if x == i then y x + d else y x) pts = aggf y pts + lagrange_nat F pts i *: d.
Proof.
move=> u iin; rewrite /aggf (bigD1_seq i) //= [in RHS](bigD1_seq i) //= eqxx scalerDr -!addrA; congr (_ + _).
rewrite addrC; congr (_ + _); rewrite big_seq_cond [RHS]big_seq_cond; apply: eq_bigr => x /andP [_ /negbTE ->] //.
Qed.

(* altering one partial signature by ANY d != 0 (e.g. a share off by delta: d = delta *: H(m), H(m) != 0) changes the
   aggregate (lambda_i != 0 is proved), hence the verifier rejects *)
Theorem bls_altered_share_rejected pts h i d : qualified pts -> i \in pts -> d != 0 ->
  let y' := fun x => if x == i then partial h x + d else partial h x in
  aggf y' pts != sign cs`_0 h /\ ~~ verify tpk h (aggf y' pts).
Proof.
move=> q iin dz y'; have /and3P [tp u rng] := q.
have agg_ok : aggf (partial h) pts = sign cs`_0 h by rewrite -agg_posE agg_sigs.
have ne : aggf y' pts != sign cs`_0 h.
  rewrite /y' aggf_alter // agg_ok -subr_eq0 addrC addKr scaler_eq0 negb_or dz andbT.
  exact: lagrange_nat_neq0 sm rng (allP rng _ iin).
by split=> //; apply/negP => /bls_accept_iff /eqP; apply/negP.
Qed.

Corollary bls_share_off_by_delta pts h i delta : qualified pts -> i \in pts -> delta != 0 -> h != 0 ->
  ~~ verify tpk h (aggf (fun x => if x == i then sign (sk_of x + delta) h else partial h x) pts).
Proof.
move=> q iin dz hz.
have [] := @bls_altered_share_rejected pts h i (delta *: h) q iin; first by rewrite scaler_eq0 negb_or dz hz.
move=> _; congr (~~ verify _ _ _); apply: eq_bigr => x _; congr (_ *: _).
by case: eqP => // _; rewrite /partial /sign scalerDl.
Qed.

(* an altered aggregated signature, or the signature of another secret, is rejected *)
Corollary bls_altered_aggregate_rejected h d : d != 0 -> ~~ verify tpk h (sign cs`_0 h + d).
Proof.
move=> dz; apply/negP => /bls_accept_iff /eqP.
by rewrite -subr_eq0 addrC addKr (negbTE dz).
Qed.

End BLS.
