(* Bridge between the executable Z-model of sss.go (TSS.Alg.ZrModel: integers with explicit "mod r") and the field
   theorems of TSS.Alg.SSS.  MathComp style.

   For ANY field F of characteristic r (hypotheses "Z.of_nat p = r" and "p \in [char F]") the canonical ring morphism
   phi : Z -> F maps the model's ValueAt / Gen / lagrangeCoefficient / reconstruct to the field functions, and
   phi a = phi b forces a = b (mod r); hence the theorems about arbitrary fields hold for the integers the Go code
   actually computes.  Primality of the 254-bit constant r is NOT proved here: it enters exactly as the hypothesis
   that such a field exists, equivalently (theorems at the end, F := 'F_p) as "prime p" for the natural number p = r.
   The number p is a variable: nothing ever computes with a unary 254-bit natural. *)
From Coq Require Import ZArith.
Require Import TSS.Base.Base.
From mathcomp Require Import all_ssreflect all_algebra zify ssrZ.
Require Import TSS.Alg.Lagrange TSS.Alg.Choose TSS.Alg.SSS TSS.Alg.ZrModel.
Set Implicit Arguments. Unset Strict Implicit. Unset Printing Implicit Defensive.
Import GRing.Theory.
Local Open Scope ring_scope.
Delimit Scope Z_scope with ZZ.

(* standard-library list functions used by the model versus their MathComp twins *)
Lemma Lmap_map (A B : Type) (f : A -> B) (s : seq A) : List.map f s = map f s.
Proof. by elim: s => //= a s ->. Qed.
Lemma Lfilter_filter (A : Type) (f : A -> bool) (s : seq A) : List.filter f s = filter f s.
Proof. by elim: s => //= a s ->. Qed.
Lemma Lseq_iota a n : List.seq a n = iota a n.
Proof. by elim: n a => //= n IH a; rewrite IH. Qed.
Lemma Lnth_nth (A : Type) (d : A) (s : seq A) k : List.nth k s d = nth d s k.
Proof. by elim: s k => [|a s IH] [|k] //=. Qed.

(* a prime has no common divisor with a smaller positive number; R is a variable here (never a 254-bit literal) *)
Lemma gcd_prime_aux (R b : Z) (pn : nat) : Z.of_nat pn = R -> prime pn -> (0 < b < R)%ZZ -> Z.gcd R b = 1%ZZ.
Proof.
move=> pR pp [b0 bR].
have g0 := Z.gcd_nonneg R b.
have [q rq] := Z.gcd_divide_l R b.
have [q' bq'] := Z.gcd_divide_r R b.
move: g0 rq bq'; move: (Z.gcd R b) => g g0 rq bq'.
have gpos : (0 < g)%ZZ.
  by case: (Z.eq_dec g 0) => [e|]; [move: rq; rewrite e Z.mul_0_r; lia|lia].
have q'pos : (0 < q')%ZZ by nia.
have gb : (g <= b)%ZZ by nia.
have qpos : (0 < q)%ZZ by nia.
have dv : (Z.to_nat g %| pn)%N.
  apply/dvdnP; exists (Z.to_nat q); apply: Nat2Z.inj.
  by rewrite pR Nat2Z.inj_mul !Z2Nat.id; lia.
have /primeP [_ /(_ _ dv)] := pp.
case/orP => /eqP e; first by lia.
by move: e; rewrite -(Nat2Z.id pn) pR => /Z2Nat.inj; lia.
Qed.

Section Bridge.
Variable F : fieldType.
Variable p : nat.
Hypothesis p_r : Z.of_nat p = r.
Hypothesis charF : p \in [char F].

Definition phi (a : Z) : F := (int_of_Z a)%:~R.

Lemma phiD a b : phi (a + b)%ZZ = phi a + phi b.
Proof. by rewrite /phi -rmorphD; congr (_%:~R); exact: (rmorphD [rmorphism of int_of_Z] a b). Qed.
Lemma phiM a b : phi (a * b)%ZZ = phi a * phi b.
Proof. by rewrite /phi -rmorphM; congr (_%:~R); exact: (rmorphM [rmorphism of int_of_Z] a b). Qed.
Lemma phiN a : phi (- a)%ZZ = - phi a.
Proof. by rewrite /phi -rmorphN; congr (_%:~R); exact: (rmorphN [rmorphism of int_of_Z] a). Qed.
Lemma phiB a b : phi (a - b)%ZZ = phi a - phi b.
Proof. by rewrite -phiN -phiD. Qed.
Lemma phi0 : phi 0%ZZ = 0. Proof. by []. Qed.
Lemma phi1 : phi 1%ZZ = 1. Proof. by []. Qed.
Lemma phi_nat k : phi (Z.of_nat k) = k%:R.
Proof. by rewrite /phi (Z_of_intK (Posz k)). Qed.

Lemma phi_r : phi r = 0.
Proof. by rewrite -p_r phi_nat (charf0 charF). Qed.

Lemma r_gt1 : (1 < r)%ZZ. Proof. exact: r_pos. Qed.

Lemma phi_mod a : phi (a mod r)%ZZ = phi a.
Proof.
have r1 := r_gt1.
have H : a = (r * (a / r) + a mod r)%ZZ by apply: Z.div_mod; lia.
by rewrite [in RHS]H phiD phiM phi_r mul0r add0r.
Qed.

Lemma phi_eq0 a : phi a = 0 -> (a mod r)%ZZ = 0%ZZ.
Proof.
rewrite -phi_mod; have := Z.mod_pos_bound a r; have := r_gt1.
move: (a mod r)%ZZ => b r1 bb; have {bb}[b0 br] : (0 <= b < r)%ZZ by apply: bb; lia.
have -> : b = Z.of_nat (Z.to_nat b) by lia.
rewrite phi_nat => /eqP; rewrite -(dvdn_charf charF) => pb.
have lt : (Z.to_nat b < p)%N by move: br; rewrite -p_r; lia.
by move: pb; case: (Z.to_nat b) lt => // k lt /(dvdn_leq (ltn0Sn k)); rewrite leqNgt lt.
Qed.

Lemma phi_inj_mod a b : phi a = phi b -> (a mod r)%ZZ = (b mod r)%ZZ.
Proof.
move=> e; have : phi (a - b)%ZZ = 0 by rewrite phiB e subrr.
move/phi_eq0; have := r_gt1 => r1 H.
have [k ->] : exists k, a = (b + k * r)%ZZ.
  have [k Hk] : Z.divide r (a - b)%ZZ by apply/Z.mod_divide => //; lia.
  by exists k; lia.
by rewrite Z.mod_add //; lia.
Qed.

(* ---------------------------------------------------------------- the modular inverse *)
Lemma gcd_r a : phi a != 0 -> Z.gcd r (a mod r)%ZZ = 1%ZZ.
Proof.
move=> nz; have r1 := r_gt1.
have b0 : (a mod r)%ZZ <> 0%ZZ by move=> b0; move: nz; rewrite -phi_mod b0 phi0 eqxx.
have bb : (0 <= a mod r < r)%ZZ by apply: Z.mod_pos_bound; lia.
apply: (gcd_prime_aux p_r (charf_prime charF)); lia.
Qed.

Lemma phi_inv a : phi a != 0 -> phi (inv_mod a) = (phi a)^-1.
Proof.
move=> nz; have [H _] := inv_mod_spec _ (gcd_r nz).
apply: (mulIf nz); rewrite mulVf // -phiM -phi_mod H; exact: phi1.
Qed.

(* ---------------------------------------------------------------- ValueAt, Gen *)
Lemma phi_pow_mod x e : phi (pow_mod x e) = phi x ^+ e.
Proof. by elim: e => [|e IH] /=; rewrite phi_mod ?phi1 ?expr0 // phiM IH exprSr. Qed.

Lemma phi_value_at_from cs x i :
  phi (value_at_from cs x i) = \sum_(k < size cs) phi x ^+ (i + k) * (map phi cs)`_k.
Proof.
elim: cs i => [|c cs IH] i /=; first by rewrite big_ord0.
rewrite phiD phi_mod phiM phi_pow_mod IH big_ord_recl addn0 /=; congr (_ + _).
by apply: eq_bigr => k _; rewrite /bump /= add1n addSnnS.
Qed.

Lemma phi_value_at cs x : phi (ZrModel.value_at cs x) = SSS.value_at (map phi cs) (phi x).
Proof.
rewrite /ZrModel.value_at phi_mod phi_value_at_from /SSS.value_at size_map.
by apply: eq_bigr => k _; rewrite add0n.
Qed.

Lemma phi_gen_shares cs n : map phi (gen_shares cs n) = shares (map phi cs) n.
Proof.
rewrite /gen_shares /shares Lmap_map Lseq_iota -map_comp; apply: eq_map => x /=.
by rewrite phi_value_at phi_nat.
Qed.

(* ---------------------------------------------------------------- lagrangeCoefficient *)
Lemma phi_fold ds d :
  phi (List.fold_left (fun acc e => (acc * e) mod r)%ZZ ds d) = phi d * \prod_(e <- ds) phi e.
Proof.
elim: ds d => [|e ds IH] d /=; first by rewrite big_nil mulr1.
by rewrite IH phi_mod phiM big_cons mulrA.
Qed.

Lemma phi_lag_factor i j : phi j - phi i != 0 -> phi (lag_factor i j) = phi j / (phi j - phi i).
Proof.
by move=> nz; rewrite /lag_factor phi_mod phiM phi_inv phi_mod phiB.
Qed.

Lemma filter_of_nat (pts : seq nat) (i : nat) :
  List.filter (fun j => negb (j =? Z.of_nat i)%ZZ) (map Z.of_nat pts) =
  map Z.of_nat [seq j <- pts | j != i].
Proof.
rewrite Lfilter_filter filter_map; congr (map _ _); apply: eq_filter => j /=.
by congr (~~ _); lia.
Qed.

Variable n : nat.
Hypothesis n_lt_r : (Z.of_nat n < r)%ZZ.

Lemma small_n : small F n.
Proof. by apply: (small_char charF); move: n_lt_r; rewrite -p_r; lia. Qed.

(* the model's coefficient for party i among pts: Ok as soon as another party is present, and then the field value *)
Lemma phi_lagrange (pts : seq nat) (i : nat) :
  in_range n pts -> (i <= n)%N -> has (fun j => j != i) pts ->
  exists v, lagrange_coefficient (Z.of_nat i) (map Z.of_nat pts) = Ok v /\ phi v = lagrange_nat F pts i.
Proof.
move=> rng ile hasj; rewrite /lagrange_coefficient filter_of_nat /lagrange_nat -big_filter.
have : all (fun j => (j <= n)%N && (j != i)) [seq j <- pts | j != i].
  by apply/allP => j; rewrite mem_filter => /andP [-> jin]; rewrite (in_range_le rng jin).
have : [seq j <- pts | j != i] != [::] by rewrite -has_filter.
case: [seq j <- pts | j != i] => [|j l] //= _ /andP [/andP [jle ji] al].
have nz k : (k <= n)%N -> k != i -> phi (Z.of_nat k) - phi (Z.of_nat i) != 0.
  move=> kle ki; rewrite !phi_nat subr_eq0; apply: contra ki => /eqP e.
  by apply/eqP; exact: pt_inj small_n kle ile e.
eexists; split; first by reflexivity.
rewrite phi_fold big_cons phi_lag_factor ?nz // !phi_nat; congr (_ * _).
rewrite Lmap_map !big_map big_seq [RHS]big_seq; apply: eq_bigr => k kin.
by have /andP [kle ki] := allP al _ kin; rewrite phi_lag_factor ?nz // !phi_nat.
Qed.

(* ---------------------------------------------------------------- reconstruct *)
Lemma reconstruct_from_spec (sh : seq Z) (all pts : seq nat) (sum : Z) :
  in_range (size sh) all -> (size sh <= n)%N -> {subset pts <= all} ->
  (forall x, x \in pts -> has (fun j => j != x) all) ->
  (0 <= sum < r)%ZZ ->
  exists v, [/\ reconstruct_from sh (map Z.of_nat all) (map Z.of_nat pts) sum = Ok v, (0 <= v < r)%ZZ &
                phi v = phi sum + \sum_(x <- pts) (map phi sh)`_(x.-1) * lagrange_nat F all x].
Proof.
move=> rng sn; have rn : in_range n all.
  by apply/allP => x /(allP rng) /andP [-> xs]; exact: leq_trans xs sn.
elim: pts sum => [|x pts IH] sum sub hasj sumr /=.
  by exists sum; split=> //; rewrite big_nil addr0.
have xin : x \in all by apply: sub; rewrite inE eqxx.
have /andP [x0 xs] := allP rng _ xin.
have -> : nth_share sh (Z.of_nat x) = Ok (nth 0%ZZ sh x.-1).
  rewrite /nth_share Lnth_nth length_size.
  have -> : ((1 <=? Z.of_nat x)%ZZ && (Z.of_nat x <=? Z.of_nat (size sh))%ZZ) = true by lia.
  by congr (Ok (nth _ _ _)); lia.
have [l [-> phil]] := phi_lagrange rn (in_range_le rn xin) (hasj _ (mem_head _ _)).
set sum' := ((sum + _) mod r)%ZZ.
have sumr' : (0 <= sum' < r)%ZZ by apply: Z.mod_pos_bound; have := r_gt1; lia.
have sub' : {subset pts <= all} by move=> y yin; apply: sub; rewrite inE yin orbT.
have hasj' y : y \in pts -> has (fun j => j != y) all by move=> yin; apply: hasj; rewrite inE yin orbT.
have [v [-> vr phiv]] := IH sum' sub' hasj' sumr'.
exists v; split=> //.
rewrite phiv /sum' phi_mod phiD phi_mod phiM phil big_cons addrA; congr (_ + _ * _ + _).
by rewrite (nth_map 0%ZZ) // prednK.
Qed.

(* The model's reconstruct on ANY share vector and any >= 2 distinct parties: never panics, returns the canonical
   representative of what the field computes. *)
Theorem reconstruct_phi (sh : seq Z) (pts : seq nat) :
  (size sh <= n)%N -> in_range (size sh) pts -> uniq pts -> (2 <= size pts)%N ->
  exists v, [/\ ZrModel.reconstruct sh (map Z.of_nat pts) = Ok v, (0 <= v < r)%ZZ &
                phi v = SSS.reconstruct (map phi sh) pts].
Proof.
move=> sn rng upts sz.
have hasj x : x \in pts -> has (fun j => j != x) pts.
  move=> xin; apply/negPn/negP; rewrite -all_predC => /allP al.
  have /all_pred1P e : all (pred1 x) pts by apply/allP => j /al /=; rewrite negbK.
  by move: upts sz; rewrite e size_nseq; case: (size pts) => [|[|k]] //=; rewrite inE eqxx.
have r1 := r_gt1.
have sub : {subset pts <= pts} by [].
have z0 : (0 <= 0 < r)%ZZ by lia.
have [v [e vr phiv]] := reconstruct_from_spec rng sn sub hasj z0.
by exists v; split=> //; rewrite phiv phi0 add0r.
Qed.

(* C18 on the integers the Go code computes: dealing cs (any integers, t of them or fewer) to n < r parties and
   reconstructing from any >= t >= 2 distinct parties returns the secret cs_0 reduced modulo r. *)
Theorem reconstruct_Z_correct (cs : seq Z) (t : nat) (pts : seq nat) :
  (size cs <= t)%N -> (2 <= t)%N -> (t <= size pts)%N -> uniq pts -> in_range n pts ->
  ZrModel.reconstruct (gen_shares cs n) (map Z.of_nat pts) = Ok (nth 0%ZZ cs 0 mod r)%ZZ.
Proof.
move=> sc t2 tp upts rng.
have sg : size (gen_shares cs n) = n by rewrite /gen_shares Lmap_map size_map Lseq_iota size_iota.
have sz2 : (2 <= size pts)%N := leq_trans t2 tp.
have sn : (size (gen_shares cs n) <= n)%N by rewrite sg.
have rng' : in_range (size (gen_shares cs n)) pts by rewrite sg.
have [v [-> vr phiv]] := reconstruct_phi sn rng' upts sz2.
congr Ok; move: phiv; rewrite phi_gen_shares (C18_reconstruct small_n _ tp upts rng) ?size_map //.
have -> : (map phi cs)`_0 = phi (nth 0%ZZ cs 0) by case: (cs).
move/phi_inj_mod; rewrite Z.mod_small //.
Qed.

End Bridge.

(* ------------------------------------------------------------------------------------------------
   The same with the field instantiated: F := 'F_p.  The only hypothesis left is that the natural number p whose
   integer value is the constant r is prime. *)
Theorem C18_Zr_reconstruct (p : nat) : Z.of_nat p = r -> prime p ->
  forall (cs : seq Z) (n t : nat) (pts : seq nat),
  (Z.of_nat n < r)%ZZ -> (size cs <= t)%N -> (2 <= t)%N -> (t <= size pts)%N -> uniq pts -> in_range n pts ->
  ZrModel.reconstruct (gen_shares cs n) (map Z.of_nat pts) = Ok (nth 0%ZZ cs 0 mod r)%ZZ.
Proof.
move=> p_r pp cs n t pts nr; exact: (@reconstruct_Z_correct _ p p_r (char_Fp pp) n nr).
Qed.
