(* C09, BLS half: what bls.localVerify / Verifier.AggregateSignatures / Verifier.Verify accept, in the ideal-group model.
     localSign sk d        = HashToG1(d)^sk                                  -> sk *: H d
     localVerify pk d sig  = Pairing2(-g2, sig, pk, H(d)) is the unit        -> e sig (- g2) + e (H d) pk == 0
     localAggregateSignatures sigs points = sum_k lagrange(points[k]; points) * sigs[k]   (k-th signature, k-th point)
   The pairing is bilinear and non-degenerate on the G2 generator (prime-order groups). *)
From mathcomp Require Import all_ssreflect all_algebra.
From TSS Require Import Alg.Lagrange Alg.PS.
Set Implicit Arguments. Unset Strict Implicit. Unset Printing Implicit Defensive.
Import GRing.Theory.
Open Scope ring_scope.

Section LagrangeNonzero.
Variable F : fieldType.

(* the coefficient of a node among non-zero nodes is never 0 (so no share drops out of an aggregate) *)
Lemma lagrange0_neq0 (xs : seq F) (i : F) : 0 \notin xs -> lagrange0 xs i != 0.
Proof.
move=> n0; rewrite /lagrange0 prodf_seq_neq0; apply/allP => j jin; apply/implyP => ji.
rewrite mulf_neq0 ?invr_eq0 ?subr_eq0 //.
by apply: contraNneq n0 => <-.
Qed.

(* interpolation through arbitrary values (Lagrange.v has it for the values of a polynomial) *)
Definition interpv (xs : seq F) (f : F -> F) : {poly F} := \sum_(i <- xs) f i *: basis xs i.

Lemma size_interpv xs f : (size (interpv xs f) <= size xs)%N.
Proof.
rewrite /interpv big_seq; elim/big_rec: _ => [|i acc iin IH]; first by rewrite size_poly0.
apply: leq_trans (size_add _ _) _; rewrite geq_max IH andbT.
by apply: leq_trans (size_scale_leq _ _) (size_basis iin).
Qed.

Lemma interpv_at xs f k : uniq xs -> k \in xs -> (interpv xs f).[k] = f k.
Proof.
move=> uxs kin; rewrite /interpv horner_sum (bigD1_seq k) //= hornerZ basis_self mulr1.
rewrite big_seq_cond big1 ?addr0 // => i /andP [iin ink].
by rewrite hornerZ basis_other ?mulr0 // eq_sym.
Qed.

(* Shamir secrecy: t-1 shares at distinct non-zero points are consistent with every secret, each through
   exactly one polynomial of at most t coefficients *)
Theorem shamir_secrecy (t : nat) (T : seq F) (v : F -> F) (s : F) :
  uniq T -> 0 \notin T -> (size T).+1 = t ->
  exists! p : {poly F}, [/\ (size p <= t)%N, p.[0] = s & forall x, x \in T -> p.[x] = v x].
Proof.
move=> uT n0 sT.
have uxs : uniq (0 :: T) by rewrite /= n0.
pose f x := if x == 0 then s else v x.
exists (interpv (0 :: T) f); split.
  split; first by rewrite -sT; exact: size_interpv.
    by rewrite interpv_at ?mem_head // /f eqxx.
  move=> x xin; rewrite interpv_at ?inE ?xin ?orbT // /f.
  by case: eqP xin n0 => // -> ->.
move=> q [sq q0 qT]; rewrite -[RHS](@interp_id _ (0 :: T)) //=; last by rewrite sT.
rewrite /interp /interpv; apply: eq_big_seq => x; rewrite inE => /orP [/eqP ->|xin].
  by rewrite /f eqxx q0.
by rewrite /f qT //; case: eqP xin n0 => // -> ->.
Qed.
End LagrangeNonzero.

Section BLS.
Variable F : fieldType.
Variables G1 G2 GT : lmodType F.
Variable e : G1 -> G2 -> GT.
Variable g2 : G2.
Variable M : Type.
Variable H : M -> G1.

Hypothesis eDl : forall a a' b, e (a + a') b = e a b + e a' b.
Hypothesis eZl : forall c a b, e (c *: a) b = c *: e a b.
Hypothesis eZr : forall c a b, e a (c *: b) = c *: e a b.
Hypothesis e_nondeg : forall a, e a g2 = 0 -> a = 0.

Definition bls_sign (sk : F) (m : M) : G1 := sk *: H m.
Definition bls_verify (pk : G2) (m : M) (sig : G1) : bool := e sig (- g2) + e (H m) pk == 0.
(* k-th signature combined under the coefficient of the k-th signer *)
Definition bls_aggregate (S : seq nat) (sigs : seq G1) : G1 := combine_witnesses S sigs.

Lemma e0l b : e 0 b = 0.
Proof. by rewrite -(scale0r (0 : G1)) eZl scale0r. Qed.

(* verification under the key s*g2 accepts exactly the signature s*H(m) *)
Theorem bls_accept_iff (s : F) (m : M) (sig : G1) : bls_verify (s *: g2) m sig = (sig == s *: H m).
Proof.
rewrite /bls_verify -scaleN1r !eZr scaleN1r -eZl addrC -[- e _ _]scaleN1r -eZl scaleN1r -eDl.
apply/eqP/eqP => [/e_nondeg /eqP|->]; last by rewrite subrr e0l.
by rewrite subr_eq0 => /eqP.
Qed.

Corollary bls_altered_signature (s : F) m (delta : G1) : delta != 0 -> bls_verify (s *: g2) m (s *: H m + delta) = false.
Proof.
by move=> dn0; rewrite bls_accept_iff -subr_eq0 addrAC subrr add0r (negbTE dn0).
Qed.

Corollary bls_altered_key (s s' : F) m : H m != 0 -> s' != s -> bls_verify (s' *: g2) m (s *: H m) = false.
Proof.
move=> hn0 ne; rewrite bls_accept_iff -subr_eq0 -scalerBl scaler_eq0 (negbTE hn0) orbF subr_eq0.
by rewrite eq_sym (negbTE ne).
Qed.

Corollary bls_altered_message (s : F) m m' : s != 0 -> H m' != H m -> bls_verify (s *: g2) m' (s *: H m) = false.
Proof.
move=> sn0 ne; rewrite bls_accept_iff -subr_eq0 -scalerBr scaler_eq0 (negbTE sn0) /= subr_eq0.
by rewrite eq_sym (negbTE ne).
Qed.

(* the aggregate depends on the multiset of (signer, share) PAIRS only: handing the pairs over in another order changes
   nothing (while re-pairing shares and signers does: bls_assignment below) *)
Theorem bls_aggregate_perm (ps ps' : seq (nat * G1)) :
  perm_eq ps ps' ->
  bls_aggregate (unzip1 ps) (unzip2 ps) = bls_aggregate (unzip1 ps') (unzip2 ps').
Proof.
move=> pp; rewrite /bls_aggregate !combineE !zip_unzip.
have pts_perm : perm_eq (pts F (unzip1 ps)) (pts F (unzip1 ps')) by rewrite /pts /unzip1 !perm_map.
have -> : \sum_(p <- ps) lagrange0 (pts F (unzip1 ps)) (p.1)%:R *: p.2
        = \sum_(p <- ps) lagrange0 (pts F (unzip1 ps')) (p.1)%:R *: p.2.
  by apply: eq_bigr => p _; rewrite /lagrange0 (perm_big _ pts_perm).
exact: perm_big.
Qed.

(* ---- threshold ---- *)
Variables (N t : nat).
Hypothesis natF_inj : forall i j : nat, (i <= N)%N -> (j <= N)%N -> i%:R = j%:R :> F -> i = j.
Notation signers_ok := (signers_ok N t).

Lemma pts_nonzero S : signers_ok S -> (0 : F) \notin pts F S.
Proof.
case/and3P => _ /allP inS _; apply/mapP => -[k /inS /andP [k0 kN]] /esym/eqP.
by rewrite -[0]/(0%:R) => /eqP /(natF_inj kN (leq0n N)) k0'; rewrite k0' in k0.
Qed.

(* at least t genuine shares, each under its own signer index: accepted *)
Theorem bls_honest_accepts (P : {poly F}) S m :
  signers_ok S -> (size P <= t)%N ->
  bls_verify (P.[0] *: g2) m (bls_aggregate S [seq bls_sign P.[k%:R] m | k <- S]).
Proof.
move=> okS sP; rewrite bls_accept_iff /bls_aggregate combine_agg.
by rewrite (agg_points_poly natF_inj _ okS sP).
Qed.

(* one share altered by delta != 0 (whichever signer j of the list): rejected *)
Theorem bls_altered_share (P : {poly F}) S m j (delta : G1) :
  signers_ok S -> (size P <= t)%N -> j \in S -> delta != 0 ->
  bls_verify (P.[0] *: g2) m
    (bls_aggregate S [seq (if k == j then bls_sign P.[k%:R] m + delta else bls_sign P.[k%:R] m) | k <- S]) = false.
Proof.
move=> okS sP jin dn0; have [uS _ _] := and3P okS.
rewrite /bls_aggregate combine_agg agg_pointsE (bigD1_seq j) //= eqxx scalerDr.
have -> : \sum_(i <- S | i != j) lagrange0 (pts F S) i%:R *: (if i == j then bls_sign P.[i%:R] m + delta else bls_sign P.[i%:R] m)
        = \sum_(i <- S | i != j) lagrange0 (pts F S) i%:R *: bls_sign P.[i%:R] m.
  by apply: eq_bigr => i /negbTE ->.
rewrite addrAC -(bigD1_seq j (F:=fun k => lagrange0 (pts F S) k%:R *: bls_sign P.[k%:R] m)) //=.
have -> : \sum_(i <- S) lagrange0 (pts F S) i%:R *: bls_sign P.[i%:R] m = P.[0] *: H m.
  by rewrite -(agg_points_poly natF_inj (H m) okS sP) agg_pointsE.
apply: bls_altered_signature.
by rewrite scaler_eq0 negb_or dn0 andbT lagrange0_neq0 // pts_nonzero.
Qed.

(* signer-to-share assignment: the k-th share was made by party ys[k] but is combined under xs[k].  For shares
   f(party) * H(m) the aggregate is H(m) to the sum below, so it verifies iff that sum is the secret *)
Theorem bls_assignment (f : nat -> F) (xs ys : seq nat) m :
  size ys = size xs ->
  bls_aggregate xs [seq bls_sign (f y) m | y <- ys] = (\sum_(p <- zip xs ys) lagrange0 (pts F xs) (p.1)%:R * f p.2) *: H m.
Proof.
move=> sz; rewrite /bls_aggregate combineE scaler_suml.
have -> : zip xs [seq bls_sign (f y) m | y <- ys] = [seq (p.1, bls_sign (f p.2) m) | p <- zip xs ys].
  elim: xs ys sz => [|x xs IH] [|y ys] //= [sz]; by rewrite IH.
by rewrite big_map; apply: eq_bigr => p _; rewrite scalerA.
Qed.

Corollary bls_assignment_accept_iff (f : nat -> F) (s : F) (xs ys : seq nat) m :
  size ys = size xs -> H m != 0 ->
  bls_verify (s *: g2) m (bls_aggregate xs [seq bls_sign (f y) m | y <- ys])
  = (\sum_(p <- zip xs ys) lagrange0 (pts F xs) (p.1)%:R * f p.2 == s).
Proof.
move=> sz hn0; rewrite bls_accept_iff bls_assignment //.
apply/eqP/eqP => [/eqP|-> //].
by rewrite -subr_eq0 -scalerBl scaler_eq0 (negbTE hn0) orbF subr_eq0 => /eqP.
Qed.

(* with genuine shares of P: accepted iff the linear functional below vanishes on P (it does when ys = xs) *)
Corollary bls_assignment_poly (P : {poly F}) (xs ys : seq nat) m :
  signers_ok xs -> (size P <= t)%N -> size ys = size xs -> H m != 0 ->
  bls_verify (P.[0] *: g2) m (bls_aggregate xs [seq bls_sign P.[y%:R] m | y <- ys])
  = (\sum_(p <- zip xs ys) lagrange0 (pts F xs) (p.1)%:R * (P.[(p.2)%:R] - P.[(p.1)%:R]) == 0).
Proof.
move=> okS sP sz hn0; rewrite (bls_assignment_accept_iff (fun y => P.[y%:R])) //.
have <- : \sum_(p <- zip xs ys) lagrange0 (pts F xs) (p.1)%:R * P.[(p.1)%:R] = P.[0].
  rewrite -(reconstruct_at0 (uniq_pts natF_inj okS)); last first.
    by rewrite size_map; case/and3P: okS => _ _; exact: leq_trans.
  rewrite /pts big_map.
  have -> : xs = [seq p.1 | p <- zip xs ys] by rewrite -/(unzip1 _) unzip1_zip // sz.
  by rewrite big_map -/(unzip1 _) unzip1_zip ?sz //; apply: eq_bigr => p _; rewrite mulrC.
rewrite -subr_eq0 -sumrB; congr (_ == 0); apply: eq_bigr => p _.
by rewrite mulrBr.
Qed.
End BLS.
