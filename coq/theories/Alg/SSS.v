(* Shamir secret sharing as mpc/bls/sss.go / mpc/ps/sss.go compute it, over an arbitrary field, and the DKG cross-check
   of assembleThresholdPublicKey (mpc/bls/mpc.go, mpc/ps/tps.go).  MathComp style.

   F            any fieldType (the instance of interest is Z/r, r the BN254 group order: TSS.Alg.ZrBridge)
   G            any left F-module: a group of prime order r written additively is a module over Z/r
                (g^a is  a *: g,  the group law is +).  Nothing else about the curve groups is used.
   party x      evaluation point  pt x = x%:R  (c.NewZrFromInt(x)), x = 1..n
   small n      the points 1..n are pairwise different and non-zero in F:  d%:R != 0 for 0 < d <= n
                (true when n < char F, lemma small_char; for Z/r: n < r). *)
From mathcomp Require Import all_ssreflect all_algebra zify.
Require Import TSS.Alg.Lagrange TSS.Alg.Choose.
Set Implicit Arguments. Unset Strict Implicit. Unset Printing Implicit Defensive.
Import GRing.Theory.
Local Open Scope ring_scope.

Section SSS.
Variable F : fieldType.

(* ------------------------------------------------------------------------------------------------ ValueAt *)
(* Polynomial.ValueAt: sum_i x^i * p[i] over the coefficient slice (the leading entries may be 0) *)
Definition value_at (cs : seq F) (x : F) : F := \sum_(i < size cs) x ^+ i * cs`_i.

Lemma value_atE cs x : value_at cs x = (Poly cs).[x].
Proof.
rewrite (@horner_coef_wide _ (size cs)) ?size_Poly //.
by apply: eq_bigr => i _; rewrite coef_Poly mulrC.
Qed.

Lemma value_at0 cs : value_at cs 0 = cs`_0.
Proof. by rewrite value_atE horner_coef0 coef_Poly. Qed.

(* ------------------------------------------------------------------------------------------------ points *)
Definition pt (i : nat) : F := i%:R.

Definition small (n : nat) : Prop := forall d, (0 < d <= n)%N -> d%:R != 0 :> F.

Lemma small_char n p : p \in [char F] -> (n < p)%N -> small n.
Proof.
move=> charp np d /andP [d0 dn]; rewrite -(dvdn_charf charp).
by apply/negP => /(dvdn_leq d0) pd; move: (leq_trans pd dn); rewrite leqNgt np.
Qed.

Lemma small_char0 n : [char F] =i pred0 -> small n.
Proof.
move=> ch0 d /andP [d0 _]; apply/negP => dz.
have [p charp] := natf0_char d0 dz; by move: (ch0 p); rewrite charp.
Qed.

Lemma smallW n m : (m <= n)%N -> small n -> small m.
Proof. by move=> mn sm d /andP [d0 dm]; apply: sm; rewrite d0 (leq_trans dm mn). Qed.

Lemma pt_inj n i j : small n -> (i <= n)%N -> (j <= n)%N -> pt i = pt j -> i = j.
Proof.
move=> sm; wlog ij : i j / (i <= j)%N.
  move=> H ile jle e; case: (leqP i j) => [le|/ltnW le]; first exact: H.
  by apply/esym/H.
move=> ile jle e; apply/eqP; rewrite eqn_leq ij /= leqNgt; apply/negP => lt.
have dn : (0 < j - i <= n)%N by rewrite subn_gt0 lt /= (leq_trans (leq_subr _ _) jle).
have /negP := sm _ dn; apply.
by rewrite natrB // -/(pt j) -/(pt i) e subrr.
Qed.

Lemma pt_neq0 n i : small n -> (0 < i <= n)%N -> pt i != 0.
Proof. by move=> sm; apply: sm. Qed.

Definition in_range (n : nat) (pts : seq nat) : bool := all (fun x => (0 < x <= n)%N) pts.

Lemma in_range_le n pts x : in_range n pts -> x \in pts -> (x <= n)%N.
Proof. by move/allP => H /H /andP []. Qed.

Lemma uniq_pts n pts : small n -> in_range n pts -> uniq pts -> uniq (map pt pts).
Proof.
move=> sm rng u; rewrite map_inj_in_uniq // => i j iin jin.
exact: pt_inj sm (in_range_le rng iin) (in_range_le rng jin).
Qed.

(* ------------------------------------------------------------------------------------------------ lagrangeCoefficient *)
(* the Go loop skips j == evaluatedAt as INTEGERS and multiplies j/(j-i) in the field *)
Definition lagrange_nat (pts : seq nat) (i : nat) : F :=
  \prod_(j <- pts | j != i) (pt j / (pt j - pt i)).

Lemma lagrange_natE n pts i : small n -> in_range n pts -> (i <= n)%N ->
  lagrange_nat pts i = lagrange0 (map pt pts) (pt i).
Proof.
move=> sm rng ile; rewrite /lagrange_nat /lagrange0 big_map big_seq_cond [RHS]big_seq_cond.
apply: eq_bigl => j; case jin: (j \in pts) => //=.
congr (~~ _); apply/eqP/eqP => [->//|]; exact: pt_inj sm (in_range_le rng jin) ile.
Qed.

Lemma lagrange_nat_neq0 n pts i : small n -> in_range n pts -> (0 < i <= n)%N -> lagrange_nat pts i != 0.
Proof.
move=> sm rng /andP [i0 ile]; rewrite /lagrange_nat prodf_seq_neq0; apply/allP => j jin; apply/implyP => ji.
have jr := allP rng _ jin; rewrite mulf_neq0 ?invr_eq0 ?subr_eq0 //; first exact: pt_neq0 sm jr.
by apply: contra ji => /eqP /(pt_inj sm (in_range_le rng jin) ile) ->.
Qed.

(* lagrange0 on distinct non-zero nodes is non-zero (used for "altering one share changes the aggregate") *)
Lemma lagrange0_neq0 (xs : seq F) (i : F) : 0 \notin xs -> lagrange0 xs i != 0.
Proof.
move=> z; rewrite /lagrange0 prodf_seq_neq0; apply/allP => j jin; apply/implyP => ji.
rewrite mulf_neq0 ?invr_eq0 ?subr_eq0 //; by apply: contraNneq z => <-.
Qed.

(* ------------------------------------------------------------------------------------------------ Gen, reconstruct *)
Definition shares (cs : seq F) (n : nat) : seq F := [seq value_at cs (pt i) | i <- iota 1 n].

Lemma size_shares cs n : size (shares cs n) = n.
Proof. by rewrite size_map size_iota. Qed.

Lemma nth_shares cs n x : (0 < x <= n)%N -> (shares cs n)`_(x.-1) = value_at cs (pt x).
Proof.
move=> /andP [x0 xn]; rewrite (nth_map 0%N) ?size_iota ?nth_iota ?add1n ?prednK //; by rewrite prednK.
Qed.

(* Shares.reconstruct: sum over the given points of s[x-1] * lagrangeCoefficient(x, points) *)
Definition reconstruct (sh : seq F) (pts : seq nat) : F :=
  \sum_(x <- pts) sh`_(x.-1) * lagrange_nat pts x.

(* C18, scalar half: any >= t distinct parties of 1..n reconstruct the dealt secret, for every n, t, polynomial. *)
Theorem C18_reconstruct n t (cs : seq F) (pts : seq nat) :
  small n -> (size cs <= t)%N -> (t <= size pts)%N -> uniq pts -> in_range n pts ->
  reconstruct (shares cs n) pts = cs`_0.
Proof.
move=> sm sc tp upts rng; rewrite /reconstruct big_seq.
under eq_bigr => x xin.
  rewrite nth_shares ?(allP rng) // value_atE (lagrange_natE sm rng (in_range_le rng xin)); over.
rewrite -big_seq -(big_map pt xpredT (fun z => (Poly cs).[z] * lagrange0 (map pt pts) z)).
rewrite reconstruct_at0 ?horner_coef0 ?coef_Poly //; first exact: uniq_pts sm rng upts.
by rewrite size_map; apply: leq_trans (leq_trans (size_Poly _) sc) tp.
Qed.

(* the statement in terms of polynomials and arbitrary distinct nodes (TSS.Alg.Lagrange.reconstruct_at0) *)
Theorem C18_reconstruct_poly t (p : {poly F}) (xs : seq F) :
  (size p <= t)%N -> (t <= size xs)%N -> uniq xs ->
  \sum_(i <- xs) p.[i] * lagrange0 xs i = p.[0].
Proof. by move=> sp tx u; apply: reconstruct_at0 u (leq_trans sp tx). Qed.

(* ------------------------------------------------------------------------------------------------ in the exponent *)
Variable G : lmodType F.

(* localAggregatePublicKeys / localAggregateECPoints: sum_x lambda_x * pks[x-1];  as a function of the party *)
Definition aggf (y : nat -> G) (pts : seq nat) : G := \sum_(x <- pts) lagrange_nat pts x *: y x.
Definition agg (ys : seq G) (pts : seq nat) : G := aggf (fun x => ys`_(x.-1)) pts.

(* localAggregateSignatures: the k-th signature belongs to the k-th evaluation point *)
Definition agg_pos (sigs : seq G) (pts : seq nat) : G :=
  \sum_(k < size pts) lagrange_nat pts (nth 0%N pts k) *: sigs`_k.

Lemma agg_posE (y : nat -> G) pts : agg_pos [seq y x | x <- pts] pts = aggf y pts.
Proof.
rewrite /agg_pos /aggf (big_nth 0%N) big_mkord; apply: eq_bigr => k _.
by rewrite (nth_map 0%N).
Qed.

(* localCreatePublicKeys *)
Definition keys (cs : seq F) (n : nat) (g : G) : seq G := [seq s *: g | s <- shares cs n].

(* C18, group half: the public keys of >= t shares aggregate to the public key of the secret
   (g any element of any F-module: the G2 generator, H(m) in G1, ...). *)
Theorem C18_in_exponent n t (cs : seq F) (pts : seq nat) (g : G) :
  small n -> (size cs <= t)%N -> (t <= size pts)%N -> uniq pts -> in_range n pts ->
  agg (keys cs n g) pts = cs`_0 *: g.
Proof.
move=> sm sc tp upts rng; rewrite -(C18_reconstruct sm sc tp upts rng) /reconstruct scaler_suml /agg /aggf.
rewrite big_seq [RHS]big_seq; apply: eq_bigr => x xin.
have /andP [x0 xn] := allP rng _ xin.
by rewrite (nth_map 0) ?size_shares ?scalerA 1?mulrC // prednK.
Qed.

(* the same for any additive, F-linear image of the shares (phi = "g to the power of") *)
Theorem C18_in_exponent_linear n t (cs : seq F) (pts : seq nat) (phi : F -> G) :
  (forall a b, phi (a * b) = a *: phi b) ->
  small n -> (size cs <= t)%N -> (t <= size pts)%N -> uniq pts -> in_range n pts ->
  agg [seq phi s | s <- shares cs n] pts = phi cs`_0.
Proof.
move=> lin sm sc tp upts rng.
have phiE a : phi a = a *: phi 1 by rewrite -lin mulr1.
rewrite [RHS]phiE -(C18_in_exponent (phi 1) sm sc tp upts rng); congr (agg _ _).
by rewrite /keys; apply: eq_map => s; rewrite phiE.
Qed.

(* ------------------------------------------------------------------------------------------------ G-valued polynomials *)
(* c_0 + x c_1 + x^2 c_2 + ...  with coefficients in the module: "the keys lie on one polynomial of degree < t" is
   y_x = evalG c (pt x) with size c <= t; for cyclic G = <g> this is y_x = p(x) *: g (evalG_cyclic below). *)
Definition evalG (c : seq G) (x : F) : G := \sum_(k < size c) x ^+ k *: c`_k.

Lemma evalG0 c : evalG c 0 = c`_0.
Proof.
case: c => [|a c]; first by rewrite /evalG big_ord0.
rewrite /evalG big_ord_recl expr0 scale1r big1 ?addr0 // => i _.
by rewrite /bump /= ?add1n exprS mul0r scale0r.
Qed.

Lemma evalG_interp (xs : seq F) (c : seq G) (z : F) : uniq xs -> (size c <= size xs)%N ->
  \sum_(i <- xs) (basis xs i).[z] *: evalG c i = evalG c z.
Proof.
move=> uxs sc; rewrite /evalG.
under eq_bigr => i _ do rewrite scaler_sumr.
rewrite exchange_big /=; apply: eq_bigr => k _.
under eq_bigr => i _ do rewrite scalerA.
rewrite -scaler_suml; congr (_ *: _).
have sk : (size ('X^k : {poly F}) <= size xs)%N by rewrite size_polyXn (leq_trans _ sc).
have /(congr1 (fun p : {poly F} => p.[z])) := interp_id uxs sk.
rewrite /interp horner_sum hornerXn => <-; apply: eq_bigr => i _.
by rewrite hornerZ hornerXn mulrC.
Qed.

Lemma evalG_lagrange (xs : seq F) (c : seq G) : uniq xs -> (size c <= size xs)%N ->
  \sum_(i <- xs) lagrange0 xs i *: evalG c i = c`_0.
Proof.
move=> uxs sc; rewrite -(evalG0 c) -(evalG_interp 0 uxs sc).
by apply: eq_bigr => i _; rewrite basis_at0.
Qed.

(* keys on a G-valued polynomial of size <= |pts| aggregate to its constant term *)
Lemma aggf_on_poly n (c : seq G) (y : nat -> G) pts :
  small n -> uniq pts -> in_range n pts -> (size c <= size pts)%N ->
  (forall x, x \in pts -> y x = evalG c (pt x)) -> aggf y pts = c`_0.
Proof.
move=> sm upts rng sc yE; rewrite /aggf big_seq.
under eq_bigr => x xin do rewrite (yE _ xin) (lagrange_natE sm rng (in_range_le rng xin)).
rewrite -big_seq -(big_map pt xpredT (fun z => lagrange0 (map pt pts) z *: evalG c z)).
by rewrite evalG_lagrange ?size_map //; exact: uniq_pts sm rng upts.
Qed.

Lemma aggfD (y d : nat -> G) pts : aggf (fun x => y x + d x) pts = aggf y pts + aggf d pts.
Proof. by rewrite /aggf -big_split /=; apply: eq_bigr => x _; rewrite scalerDr. Qed.

Lemma evalG_cyclic (g : G) (a : seq F) z : evalG [seq b *: g | b <- a] z = (Poly a).[z] *: g.
Proof.
rewrite /evalG size_map (@horner_coef_wide _ (size a)) ?size_Poly // scaler_suml.
by apply: eq_bigr => k _; rewrite (nth_map 0) // scalerA coef_Poly mulrC.
Qed.

(* ------------------------------------------------------------------------------------------------ chooseKoutOfN, bridged *)
Lemma In_mem (T : eqType) (x : T) (s : seq T) : List.In x s <-> x \in s.
Proof.
elim: s => [|a s IH] /=; first by rewrite in_nil.
rewrite inE; split.
  by case=> [->|/IH ->]; rewrite ?eqxx ?orbT.
by case/orP => [/eqP ->|/IH H]; [left|right].
Qed.

Lemma length_size (T : Type) (s : seq T) : length s = size s.
Proof. by elim: s => //= a s ->. Qed.

Lemma incr_inP lo hi S : incr_in lo hi S <-> (path ltn lo S && all (fun x => x <= hi)%N S).
Proof.
elim: S lo => [|x S IH] lo //=; rewrite IH; split.
  by case=> /ltP lx [/leP xh /andP [p a]]; rewrite lx p xh a.
by case/andP => /andP [lx p] /andP [xh a]; split; [exact/ltP|split; [exact/leP|rewrite p a]].
Qed.

Lemma mem_choose n t S :
  (S \in Choose.choose n t) <-> (size S = t /\ path ltn 0%N S && all (fun x => x <= n)%N S).
Proof. by rewrite -In_mem choose_in length_size incr_inP. Qed.

Lemma choose_props n t S : S \in Choose.choose n t -> [/\ size S = t, uniq S & in_range n S].
Proof.
case/mem_choose => sz /andP [p a]; split=> //.
  by apply: (sorted_uniq ltn_trans ltnn); apply: path_sorted p.
have := order_path_min ltn_trans p; rewrite /in_range; elim: (S) a => //= x l IH /andP [-> al] /andP [-> mn] /=.
exact: IH.
Qed.

Lemma path_ltn_iota a b m : (a < b)%N -> path ltn a (iota b m).
Proof. by case: m => //= m ->; exact: (iota_ltn_sorted b m.+1). Qed.

Lemma path_ltn_rcons lo p k : path ltn lo p -> all (fun x => x < k)%N p -> (lo < k)%N -> path ltn lo (rcons p k).
Proof.
elim: p lo => [|x p IH] lo /=; first by move=> _ _ ->.
by case/andP => -> px /andP [xk al] _; apply: IH.
Qed.

(* the first t parties *)
Lemma choose_first n t : (t <= n)%N -> iota 1 t \in Choose.choose n t.
Proof.
move=> tn; apply/mem_choose; rewrite size_iota path_ltn_iota //; split=> //.
by apply/allP => x; rewrite mem_iota => ?; lia.
Qed.

(* parties 2..t and one later party k *)
Lemma choose_later n t k : (0 < t)%N -> (t < k <= n)%N -> rcons (iota 2 t.-1) k \in Choose.choose n t.
Proof.
move=> t0 /andP [tk kn]; apply/mem_choose; rewrite size_rcons size_iota prednK //; split=> //.
rewrite path_ltn_rcons ?path_ltn_iota //=; last by lia.
  by rewrite all_rcons kn; apply/allP => x; rewrite mem_iota => ?; lia.
by apply/allP => x; rewrite mem_iota => ?; lia.
Qed.

(* ------------------------------------------------------------------------------------------------ the cross-check *)
(* assembleThresholdPublicKey: aggregate the keys for every subset chooseKoutOfN(n,t) yields and collect the different
   results; KeyGen accepts iff there is at most one.  y x is the key party x revealed (x = 1..n). *)
Definition crosscheck (n t : nat) (y : nat -> G) : bool :=
  let subsets := Choose.choose n t in
  all (fun S => aggf y S == aggf y (head [::] subsets)) subsets.

Lemma crosscheckP n t y :
  reflect (forall S S', S \in Choose.choose n t -> S' \in Choose.choose n t -> aggf y S = aggf y S')
          (crosscheck n t y).
Proof.
rewrite /crosscheck; case: (Choose.choose n t) => [|H l] /=; first by constructor.
apply: (iffP idP) => [/andP [_ /allP al] S S' Sin S'in | eq].
  have e S1 : S1 \in H :: l -> aggf y S1 = aggf y H.
    by rewrite inE => /orP [/eqP ->|/al /eqP].
  by rewrite (e _ Sin) (e _ S'in).
by rewrite eqxx /=; apply/allP => S Sin; apply/eqP/eq; rewrite inE ?eqxx ?Sin ?orbT.
Qed.

Definition on_poly (n t : nat) (y : nat -> G) : Prop :=
  exists c : seq G, (size c <= t)%N /\ forall x, (0 < x <= n)%N -> y x = evalG c (pt x).

Section Interpolant.
Variables (n t : nat) (y : nat -> G).
Hypothesis t0 : (0 < t)%N.
Hypothesis tn : (t <= n)%N.
Hypothesis sm : small n.

Let S0 := iota 1 t.
Let X0 := map pt S0.

Let S0_range : in_range n S0.
Proof. by apply/allP => x; rewrite mem_iota => ?; lia. Qed.

Let X0_uniq : uniq X0.
Proof. exact: uniq_pts sm S0_range (iota_uniq _ _). Qed.

(* coefficients of the interpolant through the keys of parties 1..t *)
Definition interp_coeffs : seq G :=
  mkseq (fun k => \sum_(i <- S0) (basis X0 (pt i))`_k *: y i) t.

Lemma size_interp_coeffs : size interp_coeffs = t.
Proof. by rewrite size_mkseq. Qed.

Lemma interp_coeffs_eval z :
  evalG interp_coeffs z = \sum_(i <- S0) (basis X0 (pt i)).[z] *: y i.
Proof.
rewrite /evalG size_interp_coeffs /interp_coeffs.
under [LHS]eq_bigr => k _ do rewrite nth_mkseq // scaler_sumr.
rewrite exchange_big /= big_seq [RHS]big_seq; apply: eq_bigr => i iin.
under eq_bigr => k _ do rewrite scalerA.
rewrite -scaler_suml; congr (_ *: _).
have sb : (size (basis X0 (pt i)) <= t)%N.
  by apply: leq_trans (size_basis (map_f pt iin)) _; rewrite size_map size_iota.
by rewrite (horner_coef_wide z sb); apply: eq_bigr => k _; rewrite mulrC.
Qed.

Lemma interp_coeffs_on i : i \in S0 -> evalG interp_coeffs (pt i) = y i.
Proof.
move=> iin; rewrite interp_coeffs_eval (bigD1_seq i) ?iota_uniq //= basis_self scale1r.
rewrite big_seq_cond big1 ?addr0 // => j /andP [jin ji].
rewrite basis_other ?scale0r ?map_f //.
apply: contra ji => /eqP e; apply/eqP/esym.
exact: pt_inj sm (in_range_le S0_range iin) (in_range_le S0_range jin) e.
Qed.

(* if all t-subsets aggregate to one value, every later key lies on the interpolant as well *)
Lemma crosscheck_on_interp : crosscheck n t y ->
  forall x, (0 < x <= n)%N -> y x = evalG interp_coeffs (pt x).
Proof.
move=> /crosscheckP cc x /andP [x0 xn].
case: (leqP x t) => [xt|tx].
  by rewrite interp_coeffs_on // mem_iota; lia.
pose c := interp_coeffs.
pose d := fun i => y i - evalG c (pt i).
have split_y S : aggf y S = aggf (fun i => evalG c (pt i)) S + aggf d S.
  by rewrite -aggfD; apply: eq_bigr => i _; rewrite /d addrC subrK.
have on_c S : S \in Choose.choose n t -> aggf (fun i => evalG c (pt i)) S = c`_0.
  case/choose_props => sz uS rS; apply: (aggf_on_poly sm uS rS) => //.
  by rewrite size_interp_coeffs sz.
have d0 i : i \in S0 -> d i = 0 by move=> iin; rewrite /d interp_coeffs_on // subrr.
have in0 := choose_first tn.
have tkn : (t < x <= n)%N by rewrite tx xn.
have inx := choose_later t0 tkn.
have e0 : aggf d S0 = 0.
  by rewrite /aggf big_seq big1 // => i iin; rewrite d0 // scaler0.
have ex : aggf d (rcons (iota 2 t.-1) x) = lagrange_nat (rcons (iota 2 t.-1) x) x *: d x.
  rewrite /aggf -cats1 big_cat /= big_cons big_nil addr0 big_seq big1 ?add0r // => i.
  by rewrite mem_iota => ?; rewrite d0 ?scaler0 // mem_iota; lia.
have := cc _ _ inx in0; rewrite !split_y !on_c // e0 ex addr0 => /eqP.
rewrite -subr_eq0 addrC addKr scaler_eq0 => /orP [|/eqP].
  have [_ _ rS] := choose_props inx.
  by rewrite (negbTE (lagrange_nat_neq0 sm rS _)) // x0 xn.
by rewrite /d => /eqP; rewrite subr_eq0 => /eqP.
Qed.

End Interpolant.

(* C18, cross-check: for 1 <= t <= n parties at pairwise different non-zero points, KeyGen's test passes
   IF AND ONLY IF the n revealed keys lie on one polynomial of degree < t. *)
Theorem C18_crosscheck_iff n t (y : nat -> G) :
  (0 < t <= n)%N -> small n -> (crosscheck n t y <-> on_poly n t y).
Proof.
move=> /andP [t0 tn] sm; split.
  move=> cc; exists (interp_coeffs t y); rewrite size_interp_coeffs; split=> //.
  exact: crosscheck_on_interp.
case=> c [sc yE]; apply/crosscheckP => S S' Sin S'in.
have agg_c S1 : S1 \in Choose.choose n t -> aggf y S1 = c`_0.
  case/choose_props => sz uS rS; apply: (aggf_on_poly sm uS rS); first by rewrite sz.
  by move=> x xin; apply: yE; exact: (allP rS).
by rewrite !agg_c.
Qed.

(* keys on one polynomial are always accepted, and the accepted threshold key is the key of the secret *)
Theorem C18_crosscheck_accepts n t (c : seq G) (y : nat -> G) :
  (0 < t <= n)%N -> small n -> (size c <= t)%N -> (forall x, (0 < x <= n)%N -> y x = evalG c (pt x)) ->
  crosscheck n t y /\ forall S, S \in Choose.choose n t -> aggf y S = c`_0.
Proof.
move=> tn sm sc yE; split; first by apply/(C18_crosscheck_iff y tn sm); exists c.
move=> S /choose_props [sz uS rS]; apply: (aggf_on_poly sm uS rS); first by rewrite sz.
by move=> x xin; apply: yE; exact: (allP rS).
Qed.

(* a single key off the polynomial is detected, whichever party k it belongs to (needs a spare party: t < n;
   for t = n there is one subset only and every key vector lies on some polynomial of degree < n) *)
Theorem C18_crosscheck_detects n t (c : seq G) (y : nat -> G) k :
  (0 < t < n)%N -> small n -> (size c <= t)%N -> (0 < k <= n)%N ->
  (forall x, (0 < x <= n)%N -> x != k -> y x = evalG c (pt x)) ->
  y k != evalG c (pt k) ->
  ~~ crosscheck n t y.
Proof.
move=> /andP [t0 tn] sm sc kr yE yk; apply/negP => cc.
have tn' : (0 < t <= n)%N by rewrite t0 ltnW.
have [c' [sc' yE']] := (C18_crosscheck_iff y tn' sm).1 cc.
pose others := filter (predC1 k) (iota 1 n).
have ro : in_range n others.
  by apply/allP => x; rewrite mem_filter mem_iota => /andP [_ ?]; lia.
have uo : uniq others by rewrite filter_uniq ?iota_uniq.
have so : size others = n.-1.
  have := count_predC (pred1 k) (iota 1 n).
  rewrite size_iota (count_uniq_mem _ (iota_uniq _ _)) mem_iota -size_filter -/others.
  have -> : (1 <= k < 1 + n)%N by lia.
  by move=> <-.
have ux := uniq_pts sm ro uo.
have sz1 : (size c <= size (map pt others))%N by rewrite size_map so; lia.
have sz2 : (size c' <= size (map pt others))%N by rewrite size_map so; lia.
move/negP: yk; apply; rewrite (yE' _ kr).
rewrite -(evalG_interp (pt k) ux sz1) -(evalG_interp (pt k) ux sz2) !big_map big_seq [X in _ == X]big_seq.
apply/eqP; apply: eq_bigr => x xin; congr (_ *: _).
have xr := allP ro _ xin.
move: xin; rewrite mem_filter /= => /andP [xk _].
by rewrite -(yE _ xr xk) -(yE' _ xr).
Qed.

(* the same facts for a cyclic module G = <g> (a prime-order group with generator g): "on one polynomial" reads
   y_x = g^(p(x)) for a polynomial p over F of degree < t *)
Lemma on_poly_cyclic n t (y : nat -> G) (g : G) : (forall v : G, exists a : F, v = a *: g) ->
  on_poly n t y <->
  exists p : {poly F}, (size p <= t)%N /\ forall x, (0 < x <= n)%N -> y x = p.[pt x] *: g.
Proof.
move=> gen; split.
  case=> c [sc yE].
  have [a ca] : exists a : seq F, c = [seq b *: g | b <- a].
    elim: (c) => [|v l [a ->]]; first by exists [::].
    by have [b ->] := gen v; exists (b :: a).
  exists (Poly a); split.
    by apply: leq_trans (size_Poly _) _; move: sc; rewrite ca size_map.
  by move=> x xr; rewrite (yE _ xr) ca evalG_cyclic.
case=> p [sp yE]; exists [seq b *: g | b <- p]; rewrite size_map; split=> // x xr.
by rewrite (yE _ xr) evalG_cyclic polyseqK.
Qed.

Theorem C18_crosscheck_iff_cyclic n t (y : nat -> G) (g : G) :
  (forall v : G, exists a : F, v = a *: g) -> (0 < t <= n)%N -> small n ->
  (crosscheck n t y <->
   exists p : {poly F}, (size p <= t)%N /\ forall x, (0 < x <= n)%N -> y x = p.[pt x] *: g).
Proof. by move=> gen tn sm; rewrite (C18_crosscheck_iff y tn sm); exact: on_poly_cyclic. Qed.

(* the honest dealer: keys of dealt shares pass, for every polynomial; the slice form the Go code uses *)
Theorem C18_crosscheck_honest n t (cs : seq F) (g : G) :
  (0 < t <= n)%N -> small n -> (size cs <= t)%N ->
  crosscheck n t (fun x => (keys cs n g)`_(x.-1)) /\
  forall S, S \in Choose.choose n t -> agg (keys cs n g) S = cs`_0 *: g.
Proof.
move=> tn sm sc.
pose c : seq G := [seq b *: g | b <- cs].
have sz : (size c <= t)%N by rewrite size_map.
have yE x : (0 < x <= n)%N -> (keys cs n g)`_(x.-1) = evalG c (pt x).
  move=> xr; rewrite evalG_cyclic -value_atE (nth_map 0) ?size_shares ?nth_shares //.
  by case/andP: xr => x0 xn; rewrite prednK.
have [cc ag] := C18_crosscheck_accepts tn sm sz yE.
split=> // S Sin; rewrite /agg ag //.
by rewrite /c; case: (cs) => [|a l] /=; rewrite ?scale0r.
Qed.

End SSS.
