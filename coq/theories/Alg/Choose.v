(* chooseKoutOfN of mpc/bls/choose.go and mpc/ps/choose.go (byte-identical files).

   Go:   func choose(n, targetAmount, i int, currentSubGroup []int64, f func([]int64)) {
           if len(currentSubGroup) == targetAmount { f(currentSubGroup); return }
           itemsLeftToPick := n - i
           if targetAmount-len(currentSubGroup) > itemsLeftToPick { return }
           choose(n, targetAmount, i+1, concatInts(currentSubGroup, int64(i+1)), f)   // pick i+1
           choose(n, targetAmount, i+1, currentSubGroup, f)                           // or not
         }
         chooseKoutOfN(n, k, f) = choose(n, k, 0, nil, f)

   The model returns the list of the arguments f is called with, in call order.  The recursion is structural on
   m = n - i (the number of candidates left), no fuel.  Plain standard-library style. *)
From Coq Require Import List Arith Lia Sorted FinFun.
Import ListNotations.

Fixpoint choose_rec (m i k : nat) (cur : list nat) : list (list nat) :=
  if length cur =? k then [cur]                    (* len(currentSubGroup) == targetAmount *)
  else if m <? k - length cur then []              (* targetAmount-len(currentSubGroup) > n-i *)
  else match m with
       | 0 => []                                    (* not reachable: here k - length cur = 0 < ... *)
       | S m' => choose_rec m' (S i) k (cur ++ [S i]) ++ choose_rec m' (S i) k cur
       end.

Definition choose (n k : nat) : list (list nat) := choose_rec n 0 k [].

(* ------------------------------------------------------------------------------------------------
   Specification: the strictly increasing lists with entries in lo+1 .. hi *)
Fixpoint incr_in (lo hi : nat) (l : list nat) : Prop :=
  match l with
  | [] => True
  | x :: l' => lo < x /\ x <= hi /\ incr_in x hi l'
  end.

Fixpoint binom (n k : nat) : nat :=
  match n, k with
  | _, 0 => 1
  | 0, S _ => 0
  | S n', S k' => binom n' k' + binom n' k
  end.

(* the same enumeration without accumulator and without pruning *)
Fixpoint subs (m i need : nat) : list (list nat) :=
  match need with
  | 0 => [[]]
  | S need' =>
      match m with
      | 0 => []
      | S m' => map (cons (S i)) (subs m' (S i) need') ++ subs m' (S i) need
      end
  end.

Lemma subs_pruned m : forall i need, m < need -> subs m i need = [].
Proof.
  induction m as [|m IH]; intros i need H; destruct need as [|need]; try lia; simpl; auto.
  rewrite (IH (S i) need) by lia. rewrite (IH (S i) (S need)) by lia. reflexivity.
Qed.

Lemma choose_rec_subs m : forall i k cur, length cur <= k ->
  choose_rec m i k cur = map (app cur) (subs m i (k - length cur)).
Proof.
  induction m as [|m IH]; intros i k cur Hle.
  - simpl. destruct (Nat.eqb_spec (length cur) k) as [E|E].
    + rewrite E, Nat.sub_diag. simpl. now rewrite app_nil_r.
    + destruct (k - length cur) as [|d] eqn:D; [lia|]. reflexivity.
  - cbn [choose_rec]. destruct (Nat.eqb_spec (length cur) k) as [E|E].
    + rewrite E, Nat.sub_diag. simpl. now rewrite app_nil_r.
    + destruct (Nat.ltb_spec (S m) (k - length cur)) as [L|L].
      * rewrite subs_pruned by lia. reflexivity.
      * destruct (k - length cur) as [|d] eqn:D; [lia|].
        cbn [subs]. rewrite map_app, map_map.
        rewrite IH by (rewrite app_length; simpl; lia).
        rewrite IH by lia.
        rewrite app_length. simpl length.
        replace (k - (length cur + 1)) with d by lia. rewrite D.
        f_equal. apply map_ext. intros a. now rewrite <- app_assoc.
Qed.

Lemma choose_subs n k : choose n k = subs n 0 k.
Proof.
  unfold choose. rewrite choose_rec_subs by (simpl; lia). simpl. rewrite Nat.sub_0_r.
  rewrite <- (map_id (subs n 0 k)) at 2. apply map_ext. reflexivity.
Qed.

Lemma incr_in_weaken l : forall lo lo' hi, lo' <= lo -> incr_in lo hi l -> incr_in lo' hi l.
Proof. destruct l as [|x l]; simpl; intros; auto. intuition lia. Qed.

Lemma subs_spec m : forall i need l,
  In l (subs m i need) <-> length l = need /\ incr_in i (i + m) l.
Proof.
  induction m as [|m IH]; intros i need l.
  - destruct need as [|need]; simpl.
    + split.
      * intros [<-|[]]. simpl. auto.
      * intros [H _]. destruct l; [auto|discriminate].
    + split; [tauto|]. intros [H1 H2]. destruct l as [|x l]; [discriminate|]. simpl in H2. lia.
  - destruct need as [|need].
    + simpl. split.
      * intros [<-|[]]. simpl. auto.
      * intros [H _]. destruct l; [auto|discriminate].
    + cbn [subs]. rewrite in_app_iff, in_map_iff. split.
      * intros [[l' [<- Hin]]|Hin].
        -- apply IH in Hin. destruct Hin as [Hlen Hinc]. simpl. split; [lia|].
           split; [lia|]. split; [lia|]. replace (i + S m) with (S i + m) by lia. exact Hinc.
        -- apply IH in Hin. destruct Hin as [Hlen Hinc]. split; [exact Hlen|].
           replace (i + S m) with (S i + m) by lia. apply incr_in_weaken with (lo := S i); [lia|exact Hinc].
      * intros [Hlen Hinc]. destruct l as [|x l]; [discriminate|].
        replace (i + S m) with (S i + m) in Hinc by lia.
        cbn [incr_in length] in Hlen, Hinc. destruct Hinc as [Hlo [Hhi Hrest]].
        destruct (Nat.eq_dec x (S i)) as [->|Hne].
        -- left. exists l. split; [reflexivity|]. apply IH. split; [lia|]. exact Hrest.
        -- right. apply IH. split; [cbn [length]; lia|]. cbn [incr_in]. split; [lia|]. split; [lia|].
           exact Hrest.
Qed.

Lemma subs_NoDup m : forall i need, NoDup (subs m i need).
Proof.
  induction m as [|m IH]; intros i need; destruct need as [|need]; simpl;
    try (constructor; [simpl; tauto|constructor]); try constructor.
  assert (Hmap : NoDup (map (cons (S i)) (subs m (S i) need))).
  { apply Injective_map_NoDup; [|apply IH]. intros a b E. now inversion E. }
  revert Hmap. generalize (IH (S i) (S need)).
  generalize (subs_spec m (S i) (S need)).
  generalize (subs m (S i) (S need)) as B. generalize (subs m (S i) need) as A.
  intros A B HB NB NA.
  (* the two halves are disjoint: the first starts with S i, the second stays above S i *)
  induction (map (cons (S i)) A) as [|a L IHL] eqn:EL in A, NA |- *.
  - exact NB.
  - simpl. inversion NA as [|? ? Hnotin NL]; subst.
    destruct A as [|a0 A']; [discriminate|]. simpl in EL. inversion EL; subst.
    constructor.
    + rewrite in_app_iff. intros [H|H]; [contradiction|].
      apply HB in H. destruct H as [_ H]. simpl in H. lia.
    + apply (IHL A'); auto.
Qed.

Lemma subs_length m : forall i need, length (subs m i need) = binom m need.
Proof.
  induction m as [|m IH]; intros i need; destruct need as [|need]; simpl; auto.
  rewrite app_length, map_length, !IH. reflexivity.
Qed.

(* ------------------------------------------------------------------------------------------------
   The theorem: chooseKoutOfN(n, k, f) calls f exactly on the strictly increasing k-element lists over 1..n,
   each once; hence C(n,k) calls. *)
Theorem choose_in n k l : In l (choose n k) <-> length l = k /\ incr_in 0 n l.
Proof. rewrite choose_subs. apply subs_spec. Qed.

Theorem choose_NoDup n k : NoDup (choose n k).
Proof. rewrite choose_subs. apply subs_NoDup. Qed.

Theorem choose_length n k : length (choose n k) = binom n k.
Proof. rewrite choose_subs. apply subs_length. Qed.

(* incr_in in standard-library vocabulary *)
Lemma incr_in_sorted l : forall lo hi,
  incr_in lo hi l <-> StronglySorted lt l /\ Forall (fun x => lo < x <= hi) l.
Proof.
  induction l as [|x l IH]; intros lo hi; simpl.
  - split; auto. intros _. split; constructor.
  - rewrite IH. split.
    + intros [H1 [H2 [H3 H4]]]. split.
      * constructor; [exact H3|]. eapply Forall_impl; [|exact H4]. simpl. intros; lia.
      * constructor; [lia|]. eapply Forall_impl; [|exact H4]. simpl. intros; lia.
    + intros [H1 H2]. inversion H1; subst. inversion H2; subst. repeat split; try lia; auto.
      rewrite Forall_forall in *. intros y Hy. specialize (H4 y Hy). specialize (H6 y Hy). simpl in *. lia.
Qed.

Theorem choose_complete n k :
  NoDup (choose n k) /\
  length (choose n k) = binom n k /\
  forall l, In l (choose n k) <->
            (length l = k /\ StronglySorted lt l /\ Forall (fun x => 1 <= x <= n) l).
Proof.
  split; [apply choose_NoDup|]. split; [apply choose_length|].
  intros l. rewrite choose_in, incr_in_sorted. reflexivity.
Qed.

(* binom is the binomial coefficient: Pascal's rule with the usual boundary values *)
Lemma binom_0_r n : binom n 0 = 1. Proof. destruct n; reflexivity. Qed.
Lemma binom_small n : forall k, n < k -> binom n k = 0.
Proof. induction n as [|n IH]; intros [|k] H; simpl; try lia. rewrite !IH by lia. reflexivity. Qed.
Lemma binom_diag n : binom n n = 1.
Proof. induction n as [|n IH]; simpl; auto. rewrite IH, binom_small by lia. reflexivity. Qed.
Lemma binom_fact n : forall k, k <= n -> binom n k * (fact k * fact (n - k)) = fact n.
Proof.
  induction n as [|n IH]; intros k Hk.
  - replace k with 0 by lia. reflexivity.
  - destruct k as [|k]; [simpl; lia|].
    destruct (Nat.eq_dec k n) as [->|Hne].
    + rewrite binom_diag, Nat.sub_diag. simpl fact at 2. lia.
    + cbn [binom]. rewrite Nat.mul_add_distr_r.
      assert (H1 := IH k ltac:(lia)). assert (H2 := IH (S k) ltac:(lia)).
      replace (S n - S k) with (n - k) by lia.
      replace (n - k) with (S (n - S k)) in * by lia.
      change (fact (S n)) with (S n * fact n).
      change (fact (S k)) with (S k * fact k) in *.
      change (fact (S (n - S k))) with (S (n - S k) * fact (n - S k)) in *.
      nia.
Qed.

Example choose_4_2 : choose 4 2 = [[1;2];[1;3];[1;4];[2;3];[2;4];[3;4]].
Proof. reflexivity. Qed.
