(* The executable cross-check of TSS.Alg.ZrModel (number of different values reconstructed over chooseKoutOfN(n,t), which
   checks/alg.py compares with the number of different threshold keys the real assembleThresholdPublicKey finds) versus the
   field-level cross-check of TSS.Alg.SSS.  MathComp style; same hypotheses as TSS.Alg.ZrBridge (p is a variable with
   Z.of_nat p = r; nothing computes with it). *)
From Coq Require Import ZArith.
Require Import TSS.Base.Base.
From mathcomp Require Import all_ssreflect all_algebra zify ssrZ.
Require Import TSS.Alg.Lagrange TSS.Alg.Choose TSS.Alg.SSS TSS.Alg.ZrModel TSS.Alg.ZrBridge.
Set Implicit Arguments. Unset Strict Implicit. Unset Printing Implicit Defensive.
Import GRing.Theory.
Local Open Scope ring_scope.
Delimit Scope Z_scope with ZZ.

(* dedup keeps one copy of each value: at most one value is left iff all entries are equal *)
Lemma dedup_le1 (l : seq Z) : (length (dedup l) <= 1)%N <-> (forall a b, a \in l -> b \in l -> a = b).
Proof.
have mem_dedup x s : (x \in dedup s) = (x \in s).
  elim: s => //= a s IH; case E: (List.existsb (Z.eqb a) s); rewrite ?inE IH //.
  case: eqP => //= ->; move/List.existsb_exists: E => [y [yin /Z.eqb_eq ->]]; exact/In_mem.
have uniq_dedup s : uniq (dedup s).
  elim: s => //= a s IH; case E: (List.existsb (Z.eqb a) s) => //=; rewrite IH andbT mem_dedup.
  apply/negP => ain; move/negP: E; apply; apply/List.existsb_exists; exists a; split; first exact/In_mem.
  exact/Z.eqb_eq.
rewrite length_size; split.
  move=> sz a b; rewrite -(mem_dedup a l) -(mem_dedup b l); case: (dedup l) sz => [|x [|y s]] //= _; by rewrite !inE => /eqP -> /eqP ->.
move=> alleq; have := uniq_dedup l; have := mem_dedup ^~ l.
case: (dedup l) => [|x [|y s]] //= md /andP []; rewrite inE negb_or => /andP [/eqP xy _] _; case: xy.
by apply: alleq; rewrite -md !inE eqxx ?orbT.
Qed.

Section CrossBridge.
Variable F : fieldType.
Variable p : nat.
Hypothesis p_r : Z.of_nat p = r.
Hypothesis charF : p \in [char F].
Variable n : nat.
Hypothesis n_lt_r : (Z.of_nat n < r)%ZZ.

Notation phi := (phi F).

(* the number of different values the model reconstructs over chooseKoutOfN(n,t) is <= 1 exactly when the field-level
   cross-check (SSS.crosscheck, here in the module F over itself) accepts the images of the shares *)
Theorem crosscheck_distinct_phi (sh : seq Z) (t : nat) :
  size sh = n -> (2 <= t)%N ->
  ((crosscheck_distinct sh n t <= 1)%N <->
   crosscheck (G:=[lmodType F of F^o]) n t (fun x => (map phi sh)`_(x.-1))).
Proof.
move=> sz t2.
have val S : S \in Choose.choose n t ->
    exists v, [/\ ZrModel.reconstruct sh (map Z.of_nat S) = Ok v, (0 <= v < r)%ZZ &
                  phi v = aggf (G:=[lmodType F of F^o]) (fun x => (map phi sh)`_(x.-1)) S].
  case/choose_props => sS uS rS.
  have szn : (size sh <= n)%N by rewrite sz.
  have rS' : in_range (size sh) S by rewrite sz.
  have s2 : (2 <= size S)%N by rewrite sS.
  have [v [e vr phiv]] := reconstruct_phi p_r charF n_lt_r szn rS' uS s2.
  exists v; split=> //; rewrite phiv /SSS.reconstruct /aggf; apply: eq_bigr => x _.
  by rewrite mulrC.
rewrite /crosscheck_distinct dedup_le1 /crosscheck_values !Lmap_map -map_comp.
split.
  move=> alleq; apply/crosscheckP => S S' Sin S'in.
  have [v [ev vr <-]] := val _ Sin; have [v' [ev' vr' <-]] := val _ S'in.
  congr (phi _); apply: alleq; apply/mapP; [exists S|exists S'] => //=; by rewrite ?ev ?ev'.
move/crosscheckP => cc a b /mapP [S Sin ->] /mapP [S' S'in ->] /=.
have [v [-> vr pv]] := val _ Sin; have [v' [-> vr' pv']] := val _ S'in => /=.
have := cc _ _ Sin S'in; rewrite -pv -pv' => /(phi_inj_mod p_r charF).
by rewrite !Z.mod_small.
Qed.

End CrossBridge.

Theorem C18_Zr_crosscheck (p : nat) : Z.of_nat p = r -> prime p ->
  forall (sh : seq Z) (n t : nat),
  (Z.of_nat n < r)%ZZ -> size sh = n -> (2 <= t <= n)%N ->
  ((crosscheck_distinct sh n t <= 1)%N <->
   on_poly (G:=[lmodType 'F_p of ('F_p)^o]) n t (fun x => (map (phi [fieldType of 'F_p]) sh)`_(x.-1))).
Proof.
move=> p_r pp sh n t nr sz /andP [t2 tn].
have ch := char_Fp pp.
rewrite (crosscheck_distinct_phi p_r ch nr sz t2).
apply: C18_crosscheck_iff; first by rewrite (leq_trans _ t2).
exact: (@small_n [fieldType of 'F_p] p p_r ch n nr).
Qed.
