(* The wake-up protocol of the three waits of TBLS.KeyGen / TPS.KeyGen (mpc/bls/mpc.go, mpc/ps/tps.go), as the code has it:

     waiter (KeyGen goroutine), holding tbls.lock:      for !contextTimedOut(ctx) { if <all in> { return }; tbls.signal.Wait() }
     OnMsg (under the lock): store; tbls.signal.Signal()
     monitorContextTimeout: one goroutine; when ctx is done it takes the lock and calls tbls.signal.Signal() exactly ONCE

   sync.Cond: Signal wakes a parked waiter; with nobody parked it is lost.  Wait releases the lock and parks atomically, so
   a Signal (which needs the lock) cannot fall between the waiter's test and its parking: WaiterStep is atomic.
   The variant flag sleep_first is the loop   for <not all in> { Wait(); if contextTimedOut(ctx) { return } }
   (park first, look at the context only after waking up), which loses the monitor's only wake-up.  Standard-library style. *)
From Coq Require Import List Bool.
Import ListNotations.

Inductive wstate := AtLoopHead | Parked | Woken | Returned.

Record st := mk { ctx_done : bool; monitor_fired : bool; all_in : bool; waiter : wstate }.

Inductive ev :=
| Signal        (* OnMsg stored something that does not complete the wait and signalled *)
| Complete      (* OnMsg stored the last missing value and signalled *)
| CtxDone       (* the context is cancelled / its deadline passes *)
| MonitorFires  (* the monitor goroutine, enabled once the context is done: lock, Signal, exit *)
| WaiterStep.   (* the KeyGen goroutine runs until it returns or parks *)

Definition wake (w : wstate) : wstate := match w with Parked => Woken | x => x end.

Definition waiter_step (sleep_first : bool) (s : st) : wstate :=
  match waiter s with
  | AtLoopHead =>
      if sleep_first then (if all_in s then Returned else Parked)
      else if ctx_done s then Returned else if all_in s then Returned else Parked
  | Woken =>
      if sleep_first then (if ctx_done s then Returned else AtLoopHead) else AtLoopHead
  | x => x
  end.

Definition step (sleep_first : bool) (s : st) (e : ev) : st :=
  match e with
  | Signal => mk (ctx_done s) (monitor_fired s) (all_in s) (wake (waiter s))
  | Complete => mk (ctx_done s) (monitor_fired s) true (wake (waiter s))
  | CtxDone => mk true (monitor_fired s) (all_in s) (waiter s)
  | MonitorFires =>
      if ctx_done s && negb (monitor_fired s) then mk true true (all_in s) (wake (waiter s)) else s
  | WaiterStep => mk (ctx_done s) (monitor_fired s) (all_in s) (waiter_step sleep_first s)
  end.

Definition run (sf : bool) (s : st) (evs : list ev) : st := fold_left (step sf) evs s.

(* KeyGen enters the wait with whatever was stored early and with the context possibly done already *)
Definition init (ctx0 all0 : bool) : st := mk ctx0 false all0 AtLoopHead.

Definition reachable (sf : bool) (s : st) : Prop := exists c a evs, s = run sf (init c a) evs.

(* ---------------------------------------------------------------- the code's loop: no lost wake-up *)
(* a waiter parked while the context is done has not been signalled by the monitor yet *)
Definition Inv (s : st) : Prop := waiter s = Parked -> ctx_done s = true -> monitor_fired s = false.

Lemma step_inv s e : Inv s -> (monitor_fired s = true -> ctx_done s = true) ->
  Inv (step false s e) /\ (monitor_fired (step false s e) = true -> ctx_done (step false s e) = true).
Proof.
  unfold Inv. destruct s as [c m a w]; destruct c, m, a, w, e; simpl; intros HI HM; split; intros;
    try discriminate; try reflexivity; auto;
    try (specialize (HM eq_refl); discriminate); try (specialize (HI eq_refl eq_refl); discriminate).
Qed.

Lemma reachable_inv s : reachable false s -> Inv s /\ (monitor_fired s = true -> ctx_done s = true).
Proof.
  intros (c & a & evs & ->). unfold run. rewrite <- (rev_involutive evs). induction (rev evs) as [|e l IH]; simpl.
  - split; [intros H; discriminate|intros H; discriminate].
  - rewrite fold_left_app. simpl. destruct IH as [I1 I2]. apply step_inv; auto.
Qed.

Lemma run_app sf s a b : run sf s (a ++ b) = run sf (run sf s a) b.
Proof. unfold run. apply fold_left_app. Qed.

(* once the context is done it stays done; a returned waiter stays returned; with the context done the waiter never parks *)
Definition awake (s : st) : Prop := ctx_done s = true /\ waiter s <> Parked.
Definition heading (s : st) : Prop := ctx_done s = true /\ (waiter s = AtLoopHead \/ waiter s = Returned).
Definition returned (s : st) : Prop := ctx_done s = true /\ waiter s = Returned.

Lemma step_keeps s e :
  (awake s -> awake (step false s e)) /\ (heading s -> heading (step false s e)) /\ (returned s -> returned (step false s e)).
Proof.
  unfold awake, heading, returned. destruct s as [c m a w]; destruct c, m, a, w, e; simpl;
    repeat split; intros; try tauto; try discriminate; try (intuition discriminate); intuition congruence.
Qed.

Lemma run_keeps s evs :
  (awake s -> awake (run false s evs)) /\ (heading s -> heading (run false s evs)) /\ (returned s -> returned (run false s evs)).
Proof.
  revert s. induction evs as [|e evs IH]; intros s; [simpl; tauto|].
  change (run false s (e :: evs)) with (run false (step false s e) evs).
  destruct (step_keeps s e) as (A & B & C). destruct (IH (step false s e)) as (A' & B' & C'). tauto.
Qed.

Lemma run_ctx sf s evs : ctx_done s = true -> ctx_done (run sf s evs) = true.
Proof.
  revert s. induction evs as [|e evs IH]; intros s Hc; auto.
  change (run sf s (e :: evs)) with (run sf (step sf s e) evs). apply IH.
  destruct s as [c m x w]; destruct e; simpl in *; subst; auto. destruct (negb m); auto.
Qed.

(* C11 at the backend: from every reachable state in which the context is done, every fair continuation -- the monitor
   goroutine gets to run (if it has not yet), then the KeyGen goroutine gets to run twice; anything may happen in between
   and around: deliveries, further cancellations, extra steps -- ends with the waiter returned.  No wake-up is lost. *)
Theorem wait_returns : forall s, reachable false s -> ctx_done s = true ->
  forall a b c d, waiter (run false s (a ++ [MonitorFires] ++ b ++ [WaiterStep] ++ c ++ [WaiterStep] ++ d)) = Returned.
Proof.
  intros s Hr Hc a b c d. destruct (reachable_inv s Hr) as [HI HM].
  rewrite !run_app.
  set (s1 := run false s a).
  assert (R1 : reachable false s1).
  { destruct Hr as (c0 & a0 & evs & ->). exists c0, a0, (evs ++ a). unfold s1. now rewrite run_app. }
  destruct (reachable_inv s1 R1) as [I1 M1].
  assert (C1 : ctx_done s1 = true) by (apply run_ctx; exact Hc).
  (* after the monitor had its turn the waiter is not parked *)
  assert (A2 : awake (run false s1 [MonitorFires])).
  { unfold awake, Inv in *. destruct s1 as [c1 m1 a1 w1]; simpl in *. subst c1.
    destruct m1, w1; simpl; split; auto; try discriminate. specialize (I1 eq_refl eq_refl). discriminate. }
  set (s2 := run false s1 [MonitorFires]) in *.
  assert (A3 : awake (run false s2 b)) by (apply run_keeps; exact A2).
  set (s3 := run false s2 b) in *.
  assert (H4 : heading (run false s3 [WaiterStep])).
  { unfold awake, heading in *. destruct s3 as [c3 m3 a3 w3]; simpl in *. destruct A3 as [-> Hw].
    destruct w3; simpl; auto. contradiction. }
  set (s4 := run false s3 [WaiterStep]) in *.
  assert (H5 : heading (run false s4 c)) by (apply run_keeps; exact H4).
  set (s5 := run false s4 c) in *.
  assert (H6 : returned (run false s5 [WaiterStep])).
  { unfold heading, returned in *. destruct s5 as [c5 m5 a5 w5]; simpl in *. destruct H5 as [-> [->| ->]]; simpl; auto. }
  set (s6 := run false s5 [WaiterStep]) in *.
  apply (run_keeps s6 d). exact H6.
Qed.

(* ---------------------------------------------------------------- the sleep-first loop: the wake-up is lost *)
(* KeyGen reaches the wait after the context was cancelled and the monitor has fired (context done at invocation, or the
   deadline passes while the shares are being sent) and a value is missing: the waiter parks and nothing that is still
   going to happen without a peer -- more cancellations, the monitor, the waiter itself -- wakes it up again. *)
Definition quiet (e : ev) : Prop := e = CtxDone \/ e = MonitorFires \/ e = WaiterStep.

Theorem wait_returns_sleep_first_refuted :
  exists s, reachable true s /\ ctx_done s = true /\
            forall evs, Forall quiet evs -> waiter (run true s evs) = Parked.
Proof.
  exists (run true (init false false) [CtxDone; MonitorFires; WaiterStep]). split; [exists false, false; eauto|].
  split; [reflexivity|]. simpl.
  assert (G : forall evs s, Forall quiet evs -> s = mk true true false Parked -> waiter (run true s evs) = Parked).
  { induction evs as [|e evs IH]; intros s Hq ->; [reflexivity|]. inversion Hq as [|? ? Q Qs]; subst.
    change (run true (mk true true false Parked) (e :: evs)) with (run true (step true (mk true true false Parked) e) evs).
    apply IH; auto. destruct Q as [->|[->| ->]]; reflexivity. }
  intros evs Hq. apply G; auto.
Qed.

(* the same schedule on the code's loop returns at once *)
Example wait_returns_same_schedule :
  waiter (run false (init false false) [CtxDone; MonitorFires; WaiterStep]) = Returned.
Proof. reflexivity. Qed.
