(* The DKG among n parties, some of them Byzantine (C05), and the all-honest run (C01, part 3).  Standard-library style.

   Every honest party i runs the phase machine of TSS.Alg.DKG on its own event list  proj tr i  (the events of the global
   trace tr that happen at i: deliveries, wake-ups of its KeyGen goroutine, cancellation).  Nothing is assumed about the
   order of the trace, about withholding, duplication, early or late delivery, or about what Byzantine parties send --
   except what the layers below provide (record Network):
     net_from      deliveries are attributed to session participants other than the receiver
                   (authenticated links + rbcFilter: Props/C03.v C03_integrity, C03_p2p_authentic);
     net_int_*     a commitment / key attributed to an HONEST party was broadcast by that party (C03_integrity);
     net_agree_*   commitments / keys are broadcast-class (ClassifyMsg): any two honest parties that are handed such a value
                   from one sender -- honest or not -- are handed the same one (Props/C02.v C02_agreement, at most one per
                   sender and round by C03_at_most_once).  An unparsable key is one of the possible values (None). *)
From Coq Require Import List Arith Bool Lia.
Require Import TSS.Alg.DKG.
Import ListNotations.

Section System.
Variables (S V C : Type).
Variable add : S -> S -> S.
Variable pub : S -> V.
Variable H : V -> C.
Variable C_eqb : C -> C -> bool.
Variable crosscheck : list V -> bool.
Variable tpk_of : list V -> V.
Variable parties : list nat.
Hypothesis parties_nodup : NoDup parties.
Variable honest : nat -> Prop.
Variable dealt : nat -> nat -> S.          (* dealt j i: the share honest party j dealt for party i *)

Definition trace := list (nat * event S V C).

Definition proj (tr : trace) (i : nat) : list (event S V C) :=
  map snd (filter (fun x => fst x =? i) tr).

Definition fin (tr : trace) (i : nat) : state S V C :=
  final S V C add pub H C_eqb crosscheck tpk_of parties i (dealt i) (proj tr i).
Definition outs (tr : trace) (i : nat) : list (output S V C) :=
  outputs S V C add pub H C_eqb crosscheck tpk_of parties i (dealt i) (proj tr i).

Lemma in_proj tr i e : In e (proj tr i) <-> In (i, e) tr.
Proof.
  unfold proj. rewrite in_map_iff. split.
  - intros [[j e'] [<- Hin]]. apply filter_In in Hin. destruct Hin as [Hin Hj]. simpl in *.
    apply Nat.eqb_eq in Hj. now subst.
  - intros Hin. exists (i, e). split; auto. apply filter_In. split; auto. simpl. apply Nat.eqb_refl.
Qed.

Record Network (tr : trace) : Prop := {
  net_from : forall i e, honest i -> In (i, e) tr -> ev_ok S V C parties i e;
  net_int_commit : forall i j c, honest i -> honest j -> In (i, DeliverCommit j c) tr -> In (BcastCommit c) (outs tr j);
  net_int_reveal : forall i j ov, honest i -> honest j -> In (i, DeliverReveal j ov) tr ->
                   exists v, ov = Some v /\ In (BcastReveal v) (outs tr j);
  net_agree_commit : forall i i' j c c', honest i -> honest i' ->
                     In (i, DeliverCommit j c) tr -> In (i', DeliverCommit j c') tr -> c = c';
  net_agree_reveal : forall i i' j ov ov', honest i -> honest i' ->
                     In (i, DeliverReveal j ov) tr -> In (i', DeliverReveal j ov') tr -> ov = ov' }.

(* ---------------------------------------------------------------- stored values were delivered *)
Lemma first_share_in evs p v : first_share S V C evs p = Some v -> In (DeliverShare p v) evs.
Proof.
  induction evs as [|e evs IH]; simpl; [discriminate|].
  destruct e as [f x|f x|f [x|]| |]; auto. destruct (Nat.eqb_spec f p) as [->|]; [intros [= ->]; auto|auto].
Qed.
Lemma first_commit_in evs p c : first_commit S V C evs p = Some c -> In (DeliverCommit p c) evs.
Proof.
  induction evs as [|e evs IH]; simpl; [discriminate|].
  destruct e as [f x|f x|f [x|]| |]; auto. destruct (Nat.eqb_spec f p) as [->|]; [intros [= ->]; auto|auto].
Qed.
Lemma first_reveal_in evs p v : first_reveal S V C evs p = Some v -> In (DeliverReveal p (Some v)) evs.
Proof.
  induction evs as [|e evs IH]; simpl; [discriminate|].
  destruct e as [f x|f x|f [x|]| |]; auto. destruct (Nat.eqb_spec f p) as [->|]; [intros [= ->]; auto|auto].
Qed.

Lemma key_list_ext (pk pk' : list (nat * V)) ps :
  (forall p, In p ps -> lookup pk p = lookup pk' p) -> key_list V pk ps = key_list V pk' ps.
Proof.
  induction ps as [|p ps IH]; simpl; intros Hall; auto.
  rewrite (Hall p (or_introl eq_refl)), IH; auto.
Qed.

(* ---------------------------------------------------------------- C05: consistency *)
Section Byzantine.
Variable tr : trace.
Hypothesis net : Network tr.

Let ocf i := outcome_closed_form S V C add pub H C_eqb crosscheck tpk_of parties i (dealt i) (proj tr i).
Let ffirst i := final_first S V C add pub H C_eqb crosscheck tpk_of parties i (dealt i) (proj tr i).

(* what honest i stores as the key of p is what any other honest party stores for p -- including p = an honest party's
   own key, which the others know only through its broadcast *)
Lemma stored_keys_agree i i' p sk pkl tpk sk' pkl' tpk' :
  honest i -> honest i' -> In i parties -> In i' parties ->
  ph S V C (fin tr i) = Done sk pkl tpk -> ph S V C (fin tr i') = Done sk' pkl' tpk' ->
  In p parties -> lookup (pkeys S V C (fin tr i)) p = lookup (pkeys S V C (fin tr i')) p.
Proof.
  intros Hi Hi' Pi Pi' Hd Hd' Hp.
  destruct (ocf i _ _ _ Hd) as (A1 & A2 & A3 & A4 & A5 & A6).
  destruct (ocf i' _ _ _ Hd') as (B1 & B2 & B3 & B4 & B5 & B6).
  fold (fin tr i) in *. fold (fin tr i') in *.
  destruct (Nat.eq_dec i i') as [<-|Hii]; [reflexivity|].
  destruct (key_list_lookup V _ _ _ p A3 Hp) as [v Lv]. destruct (key_list_lookup V _ _ _ p B3 Hp) as [v' Lv'].
  rewrite Lv, Lv'. f_equal.
  (* own_key j k: the key honest k stores for honest j <> k is pub of j's secret *)
  assert (own_key : forall j k skj pj tj w, honest j -> honest k -> j <> k ->
            ph S V C (fin tr j) = Done skj pj tj -> lookup (pkeys S V C (fin tr k)) j = Some w -> w = pub skj).
  { intros j k skj pj tj w Hj Hk Hjk Hdj Lw.
    destruct (ffirst k j) as (_ & _ & F3). fold (fin tr k) in F3. rewrite F3 in Lw by assumption.
    apply first_reveal_in, in_proj in Lw.
    destruct (net_int_reveal tr net k j _ Hk Hj Lw) as [x [[= <-] Hx]].
    destruct (broadcasts_own_key S V C add pub H C_eqb crosscheck tpk_of parties j (dealt j) (proj tr j)) as [Bk _].
    rewrite (Bk w Hx). f_equal.
    apply (done_sk S V C add pub H C_eqb crosscheck tpk_of parties j (dealt j) (proj tr j) skj pj tj). exact Hdj. }
  destruct (Nat.eq_dec p i) as [->|Hpi].
  - rewrite A2 in Lv. injection Lv as <-. symmetry. eapply (own_key i i'); eauto.
  - destruct (Nat.eq_dec p i') as [->|Hpi'].
    + rewrite B2 in Lv'. injection Lv' as <-. eapply (own_key i' i); eauto.
    + destruct (ffirst i p) as (_ & _ & F3). destruct (ffirst i' p) as (_ & _ & G3).
      fold (fin tr i) in F3. fold (fin tr i') in G3. rewrite F3 in Lv by assumption. rewrite G3 in Lv' by assumption.
      apply first_reveal_in, in_proj in Lv. apply first_reveal_in, in_proj in Lv'.
      assert (E := net_agree_reveal tr net i i' p _ _ Hi Hi' Lv Lv'). congruence.
Qed.

(* C05: honest parties never complete with differing public material. *)
Theorem C05_consistent i i' sk pkl tpk sk' pkl' tpk' :
  honest i -> honest i' -> In i parties -> In i' parties ->
  ph S V C (fin tr i) = Done sk pkl tpk -> ph S V C (fin tr i') = Done sk' pkl' tpk' ->
  pkl = pkl' /\ tpk = tpk'.
Proof.
  intros Hi Hi' Pi Pi' Hd Hd'.
  destruct (ocf i _ _ _ Hd) as (A1 & A2 & A3 & A4 & A5 & A6).
  destruct (ocf i' _ _ _ Hd') as (B1 & B2 & B3 & B4 & B5 & B6).
  assert (E : pkl = pkl').
  { fold (fin tr i) in A3. fold (fin tr i') in B3.
    rewrite (key_list_ext _ (pkeys S V C (fin tr i')) parties) in A3; [congruence|].
    intros p Hp. eapply stored_keys_agree; eauto. }
  split; [exact E|]. subst. reflexivity.
Qed.

Hypothesis C_eqb_true : forall a b, C_eqb a b = true -> a = b.

(* C05: a revealed key that does not match the commitment -- shown to whichever honest parties -- makes every honest
   party other than the sender end without a result: it cannot be Ok (and by never_panics it does not panic; a party that
   finishes therefore returns an error). *)
Theorem C05_detects_commitment i i1 i2 j c v sk pkl tpk :
  honest i -> honest i1 -> honest i2 -> In j parties -> j <> i ->
  In (i1, DeliverCommit j c) tr -> In (i2, DeliverReveal j (Some v)) tr -> c <> H v ->
  ph S V C (fin tr i) <> Done sk pkl tpk.
Proof.
  intros Hi H1 H2 Pj Hji Dc Dv Hne Hd.
  destruct (ocf i _ _ _ Hd) as (A1 & A2 & A3 & A4 & A5 & A6). fold (fin tr i) in *.
  destruct (key_list_lookup V _ _ _ j A3 Pj) as [w Lw].
  destruct (A4 j w Pj Hji Lw) as [c0 [Lc Ec]]. apply C_eqb_true in Ec.
  destruct (ffirst i j) as (_ & F2 & F3). fold (fin tr i) in F2, F3.
  rewrite F3 in Lw by assumption. rewrite F2 in Lc.
  apply first_reveal_in, in_proj in Lw. apply first_commit_in, in_proj in Lc.
  assert (E1 := net_agree_reveal tr net i i2 j _ _ Hi H2 Lw Dv). injection E1 as ->.
  assert (E2 := net_agree_commit tr net i i1 j _ _ Hi H1 Lc Dc). apply Hne. rewrite <- E2. symmetry. exact Ec.
Qed.

Theorem C05_never_panics i : honest i -> In i parties -> ph S V C (fin tr i) <> Panicked.
Proof.
  intros Hi Pi. apply never_panics; auto. apply Forall_forall. intros e He. apply in_proj in He.
  apply (net_from tr net i e Hi He).
Qed.

(* C05, last sentence: in every run an honest party broadcasts its key only in a state holding n-1 commitments *)
Theorem C05_no_early_reveal i pk : In (BcastReveal pk) (outs tr i) ->
  exists evs1 e evs2, proj tr i = evs1 ++ e :: evs2 /\
    length (commits S V C (final S V C add pub H C_eqb crosscheck tpk_of parties i (dealt i) evs1)) = n parties - 1.
Proof. apply no_early_reveal. Qed.

End Byzantine.

(* ================================================================ C01 (3): the all-honest run, any interleaving *)
Section Honest.
Variable tr : trace.
Hypothesis C_eqb_refl : forall a, C_eqb a a = true.

Definition oth (i : nat) : list nat := others parties i.

(* the secret key party p ends with: its own dealt share plus what every other party dealt for it, in party order *)
Definition total (p : nat) : S := fold_left add (map (fun j => dealt j p) (oth p)) (dealt p p).

Record HonestRun : Prop := {
  hr_no_ctx : forall i e, In (i, e) tr -> e <> CtxDone;
  (* authenticity: what is delivered was sent, by another participant *)
  hr_share : forall i j v, In (i, DeliverShare j v) tr -> In j (oth i) /\ v = dealt j i;
  hr_commit : forall i j c, In (i, DeliverCommit j c) tr -> In j (oth i) /\ In (BcastCommit c) (outs tr j);
  hr_reveal : forall i j ov, In (i, DeliverReveal j ov) tr ->
              In j (oth i) /\ exists v, ov = Some v /\ In (BcastReveal v) (outs tr j);
  (* completeness: every message that is sent is delivered (in whatever order, possibly several times) *)
  hr_all_shares : forall i j, In i parties -> In j (oth i) -> In (i, DeliverShare j (dealt j i)) tr;
  hr_all_commits : forall i j c, In i parties -> In j (oth i) -> In (BcastCommit c) (outs tr j) -> In (i, DeliverCommit j c) tr;
  hr_all_reveals : forall i j v, In i parties -> In j (oth i) -> In (BcastReveal v) (outs tr j) ->
                   In (i, DeliverReveal j (Some v)) tr;
  (* fairness: the KeyGen goroutine of every party is woken after the last delivery (OnMsg signals the condition variable) *)
  hr_fair : forall i, In i parties -> exists a b, proj tr i = a ++ Wake :: b /\ Forall (fun e => e = Wake) b }.

Hypothesis run : HonestRun.

Lemma in_before_last_wake (a b : list (event S V C)) x :
  In x (a ++ Wake :: b) -> Forall (fun e => e = Wake) b -> x <> Wake -> In x a.
Proof.
  intros Hin Hb Hx. apply in_app_or in Hin. destruct Hin as [Hin|[Hin|Hin]]; auto; [congruence|].
  rewrite Forall_forall in Hb. specialize (Hb x Hin). congruence.
Qed.

Lemma first_share_some evs j v : In (DeliverShare j v) evs -> first_share S V C evs j <> None.
Proof.
  induction evs as [|e evs IH]; simpl; [tauto|]. intros [->|Hin]; [rewrite Nat.eqb_refl; discriminate|].
  destruct e as [f x|f x|f [x|]| |]; auto. destruct (f =? j); [discriminate|auto].
Qed.
Lemma first_commit_some evs j c : In (DeliverCommit j c) evs -> first_commit S V C evs j <> None.
Proof.
  induction evs as [|e evs IH]; simpl; [tauto|]. intros [->|Hin]; [rewrite Nat.eqb_refl; discriminate|].
  destruct e as [f x|f x|f [x|]| |]; auto. destruct (f =? j); [discriminate|auto].
Qed.
Lemma first_reveal_some evs j v : In (DeliverReveal j (Some v)) evs -> first_reveal S V C evs j <> None.
Proof.
  induction evs as [|e evs IH]; simpl; [tauto|]. intros [->|Hin]; [rewrite Nat.eqb_refl; discriminate|].
  destruct e as [f x|f x|f [x|]| |]; auto. destruct (f =? j); [discriminate|auto].
Qed.

Lemma proj_ok i : Forall (ev_ok S V C parties i) (proj tr i).
Proof.
  apply Forall_forall. intros e He. apply in_proj in He. destruct e as [f x|f x|f x| |]; simpl; auto.
  - apply (hr_share run i f x He).
  - apply (hr_commit run i f x He).
  - apply (hr_reveal run i f x He).
Qed.

Lemma proj_no_ctx i : no_ctx S V C (proj tr i).
Proof. apply Forall_forall. intros e He. apply in_proj in He. apply (hr_no_ctx run i e He). Qed.

Lemma oth_spec i p : In p (oth i) <-> In p parties /\ p <> i.
Proof. exact (others_spec S V C add pub H C_eqb parties i (dealt i) p). Qed.
Lemma oth_length i : In i parties -> length (oth i) = n parties - 1.
Proof. intros Pi. exact (others_length S V C add pub H C_eqb parties i (dealt i) parties_nodup Pi). Qed.

Definition fina (i : nat) (a : list (event S V C)) : state S V C :=
  final S V C add pub H C_eqb crosscheck tpk_of parties i (dealt i) a.

(* the state of party i at its last wake-up *)
Definition last_wake (i : nat) (a b : list (event S V C)) : Prop :=
  proj tr i = a ++ Wake :: b /\ Forall (fun e => e = Wake) b.

Lemma prefix_ok i a b : last_wake i a b -> Forall (ev_ok S V C parties i) a.
Proof. intros [E _]. assert (Hok := proj_ok i). rewrite E in Hok. apply Forall_app in Hok. tauto. Qed.

Lemma prefix_ninv i a b : In i parties -> last_wake i a b -> NInv S V C parties i (fina i a).
Proof.
  intros Pi Hl. apply (run_ninv S V C add pub H C_eqb crosscheck tpk_of parties i (dealt i) parties_nodup Pi);
    [apply NInv_init|eapply prefix_ok; eauto].
Qed.

Lemma held_shares i a b : In i parties -> last_wake i a b -> length (shares S V C (fina i a)) = n parties - 1.
Proof.
  intros Pi Hl. assert (HN := prefix_ninv i a b Pi Hl). destruct HN as (N1 & N2 & _).
  rewrite <- (oth_length i Pi). apply cover_length; auto; [apply others_nodup; exact parties_nodup|].
  intros j Hj. destruct (final_first S V C add pub H C_eqb crosscheck tpk_of parties i (dealt i) a j) as (F1 & _).
  unfold fina. rewrite F1. destruct Hl as [E Hb].
  assert (Hin := hr_all_shares run i j Pi Hj). apply in_proj in Hin. rewrite E in Hin.
  apply in_before_last_wake in Hin; auto; [|discriminate]. eapply first_share_some; eauto.
Qed.

Lemma all_commit i : In i parties -> exists c, In (BcastCommit c) (outs tr i).
Proof.
  intros Pi. destruct (hr_fair run i Pi) as (a & b & E & Hb). unfold outs. rewrite E.
  apply (emits_commit S V C add pub H C_eqb crosscheck tpk_of parties i (dealt i) parties_nodup Pi).
  - rewrite <- E. apply proj_ok.
  - rewrite <- E. apply proj_no_ctx.
  - apply (held_shares i a b Pi). split; auto.
Qed.

Lemma held_commits i a b : In i parties -> last_wake i a b -> length (commits S V C (fina i a)) = n parties - 1.
Proof.
  intros Pi Hl. assert (HN := prefix_ninv i a b Pi Hl). destruct HN as (_ & _ & N3 & N4 & _).
  rewrite <- (oth_length i Pi). apply cover_length; auto; [apply others_nodup; exact parties_nodup|].
  intros j Hj. destruct (final_first S V C add pub H C_eqb crosscheck tpk_of parties i (dealt i) a j) as (_ & F2 & _).
  unfold fina. rewrite F2. destruct Hl as [E Hb].
  assert (Pj : In j parties) by (apply oth_spec in Hj; tauto).
  destruct (all_commit j Pj) as [c Hc].
  assert (Hin := hr_all_commits run i j c Pi Hj Hc). apply in_proj in Hin. rewrite E in Hin.
  apply in_before_last_wake in Hin; auto; [|discriminate]. eapply first_commit_some; eauto.
Qed.

Lemma all_reveal i : In i parties -> exists v, In (BcastReveal v) (outs tr i).
Proof.
  intros Pi. destruct (hr_fair run i Pi) as (a & b & E & Hb). unfold outs. rewrite E.
  apply (emits_reveal S V C add pub H C_eqb crosscheck tpk_of parties i (dealt i) parties_nodup Pi).
  - rewrite <- E. apply proj_ok.
  - rewrite <- E. apply proj_no_ctx.
  - apply (held_shares i a b Pi). split; auto.
  - apply (held_commits i a b Pi). split; auto.
Qed.

Lemma held_reveals i a b : In i parties -> last_wake i a b ->
  forall j, In j (oth i) -> lookup (pkeys S V C (fina i a)) j <> None.
Proof.
  intros Pi Hl j Hj.
  destruct (final_first S V C add pub H C_eqb crosscheck tpk_of parties i (dealt i) a j) as (_ & _ & F3).
  unfold fina. rewrite F3 by (apply oth_spec in Hj; tauto). destruct Hl as [E Hb].
  assert (Pj : In j parties) by (apply oth_spec in Hj; tauto).
  destruct (all_reveal j Pj) as [v Hv].
  assert (Hin := hr_all_reveals run i j v Pi Hj Hv). apply in_proj in Hin. rewrite E in Hin.
  apply in_before_last_wake in Hin; auto; [|discriminate]. eapply first_reveal_some; eauto.
Qed.

Lemma combine_closed (m : list (nat * S)) (f : nat -> S) ps : forall acc s,
  (forall j v, In j ps -> lookup m j = Some v -> v = f j) ->
  combine S add m ps acc = Some s -> s = fold_left add (map f ps) acc.
Proof.
  induction ps as [|p ps IH]; simpl; intros acc s Hall E; [congruence|].
  destruct (lookup m p) as [v|] eqn:L; [|discriminate].
  rewrite (Hall p v (or_introl eq_refl) L) in E. apply IH; auto.
Qed.

Lemma key_list_closed (pk : list (nat * V)) (g : nat -> V) ps : forall l,
  (forall p v, In p ps -> lookup pk p = Some v -> v = g p) ->
  key_list V pk ps = Some l -> l = map g ps.
Proof.
  induction ps as [|p ps IH]; simpl; intros l Hall E; [congruence|].
  destruct (lookup pk p) as [v|] eqn:L; [|discriminate]. destruct (key_list V pk ps) as [l'|] eqn:K; [|discriminate].
  injection E as <-. rewrite (Hall p v (or_introl eq_refl) L). f_equal. apply IH; auto.
Qed.

Lemma fin_comb i : In i parties -> Comb S V C add pub parties i (dealt i) (fin tr i).
Proof.
  intros Pi. destruct (all_commit i Pi) as [c Hc].
  apply (final_comb S V C add pub H C_eqb crosscheck tpk_of parties i (dealt i) parties_nodup Pi);
    [apply proj_ok|apply proj_no_ctx|].
  eapply commit_past_shares; eauto.
Qed.

Lemma fin_sk i : In i parties -> sk S V C (fin tr i) = total i.
Proof.
  intros Pi. destruct (fin_comb i Pi) as [Hc _]. unfold total.
  apply (combine_closed (shares S V C (fin tr i)) (fun j => dealt j i)) in Hc; auto.
  intros j v Hj L.
  destruct (final_first S V C add pub H C_eqb crosscheck tpk_of parties i (dealt i) (proj tr i) j) as (F1 & _).
  fold (fin tr i) in F1. rewrite F1 in L. apply first_share_in, in_proj in L.
  apply (hr_share run i j v L).
Qed.

Lemma stored_key i p v : In i parties -> lookup (pkeys S V C (fin tr i)) p = Some v -> v = pub (total p).
Proof.
  intros Pi L. destruct (Nat.eq_dec p i) as [->|Hne].
  - destruct (fin_comb i Pi) as [_ Hs]. rewrite Hs in L. injection L as <-. now rewrite fin_sk.
  - destruct (final_first S V C add pub H C_eqb crosscheck tpk_of parties i (dealt i) (proj tr i) p) as (_ & _ & F3).
    fold (fin tr i) in F3. rewrite F3 in L by assumption. apply first_reveal_in, in_proj in L.
    destruct (hr_reveal run i p _ L) as [Ho [x [[= <-] Hx]]].
    assert (Pp : In p parties) by (apply oth_spec in Ho; tauto).
    destruct (broadcasts_own_key S V C add pub H C_eqb crosscheck tpk_of parties p (dealt p) (proj tr p)) as [B1 _].
    rewrite (B1 v Hx). fold (fin tr p). now rewrite fin_sk.
Qed.

Lemma stored_commit i p c : In i parties -> lookup (commits S V C (fin tr i)) p = Some c -> c = H (pub (total p)).
Proof.
  intros Pi L.
  destruct (final_first S V C add pub H C_eqb crosscheck tpk_of parties i (dealt i) (proj tr i) p) as (_ & F2 & _).
  fold (fin tr i) in F2. rewrite F2 in L. apply first_commit_in, in_proj in L.
  destruct (hr_commit run i p c L) as [Ho Hx].
  assert (Pp : In p parties) by (apply oth_spec in Ho; tauto).
  destruct (broadcasts_own_key S V C add pub H C_eqb crosscheck tpk_of parties p (dealt p) (proj tr p)) as [_ B2].
  rewrite (B2 c Hx). fold (fin tr p). now rewrite fin_sk.
Qed.

Definition honest_keys : list V := map (fun p => pub (total p)) parties.

(* C01 (3): with every party honest, every message delivered and no cancellation -- in ANY interleaving of deliveries
   and wake-ups, early messages included -- every party returns Ok with the same public material and the closed-form
   values, provided the cross-check accepts the honest key list (discharged by C18_crosscheck_honest in DKGAlg). *)
Theorem C01_dkg_honest : crosscheck honest_keys = true ->
  forall i, In i parties -> ph S V C (fin tr i) = Done (total i) honest_keys (tpk_of honest_keys).
Proof.
  intros Hcc i Pi. destruct (hr_fair run i Pi) as (a & b & E & Hb).
  assert (Hl : last_wake i a b) by (split; auto).
  destruct (completes S V C add pub H C_eqb crosscheck tpk_of parties i (dealt i) parties_nodup Pi
              (shares S V C (fin tr i)) (commits S V C (fin tr i)) (pkeys S V C (fin tr i))) with (a := a) (b := b)
    as (s & l & t & Hd).
  - intros s0 Hs0. destruct (fin_comb i Pi) as [Hc Hs]. rewrite Hc in Hs0. injection Hs0 as <-. exact Hs.
  - intros p v c Hne Lv Lc. rewrite (stored_key i p v Pi Lv), (stored_commit i p c Pi Lc). apply C_eqb_refl.
  - intros l K. rewrite (key_list_closed (pkeys S V C (fin tr i)) (fun p => pub (total p)) parties l); auto.
    intros p v _ L. eapply stored_key; eauto.
  - rewrite <- E. apply proj_ok.
  - rewrite <- E. apply proj_no_ctx.
  - rewrite <- E. repeat split; apply extends_refl.
  - apply (held_shares i a b Pi Hl).
  - apply (held_commits i a b Pi Hl).
  - apply (held_reveals i a b Pi Hl).
  - rewrite <- E in Hd. fold (fin tr i) in Hd. rewrite Hd.
    destruct (outcome_closed_form S V C add pub H C_eqb crosscheck tpk_of parties i (dealt i) (proj tr i) s l t Hd)
      as (_ & _ & A3 & _ & _ & A6).
    fold (fin tr i) in A3.
    assert (El : l = honest_keys).
    { apply (key_list_closed (pkeys S V C (fin tr i)) (fun p => pub (total p)) parties l); auto.
      intros p v _ L. eapply stored_key; eauto. }
    assert (Es : s = total i).
    { rewrite <- (fin_sk i Pi). symmetry.
      apply (done_sk S V C add pub H C_eqb crosscheck tpk_of parties i (dealt i) (proj tr i) s l t). exact Hd. }
    subst. reflexivity.
Qed.

End Honest.
End System.
