(* C09, PS half: what the verification equations of ps.go reject, what the random-oracle calls bind,
   request-before-key, and (non-)mutation of the verified objects.  Same model as Alg/PS.v. *)
From mathcomp Require Import all_ssreflect all_algebra.
From TSS Require Import Alg.Lagrange Alg.PS.
Set Implicit Arguments. Unset Strict Implicit. Unset Printing Implicit Defensive.
Import GRing.Theory.
Open Scope ring_scope.

Section Generic.
Variable V : zmodType.

(* add delta to component i of a vector *)
Definition bump (s : seq V) (i : nat) (delta : V) : seq V := set_nth 0 s i (s`_i + delta).

Lemma nth_bump s i delta : (bump s i delta)`_i = s`_i + delta.
Proof. by rewrite /bump nth_set_nth /= eqxx. Qed.

Lemma nth_bump_other s i j delta : j != i -> (bump s i delta)`_j = s`_j.
Proof. by move=> ne; rewrite /bump nth_set_nth /= (negbTE ne). Qed.

Lemma cancel_mid (A B D : V) : A + B == A + D + B -> D = 0.
Proof. by rewrite addrAC eq_sym -subr_eq0 addrAC subrr add0r => /eqP. Qed.

Lemma cancel_right (A D : V) : A == A + D -> D = 0.
Proof. by rewrite eq_sym -subr_eq0 addrAC subrr add0r => /eqP. Qed.
End Generic.

Lemma all_iota (P : pred nat) n i : (i < n)%N -> all P (iota 0 n) -> P i.
Proof. by move=> ilt /allP; apply; rewrite mem_iota. Qed.

Section Sigma.
Variable F : fieldType.
Variables G1 G2 GT : lmodType F.
Variable e : G1 -> G2 -> GT.
Variable Hm : G1 -> F.
Variable HG : G1 -> G1.
Variable RO1 : seq G1 -> F.
Variable RO2 : seq (G2 + G1) -> F.

Notation pparams := (pparams G1 G2).
Notation verify_request := (verify_request Hm HG RO1).
Notation verify_blinding := (verify_blinding RO1).
Notation sign_blind := (sign_blind Hm HG RO1).
Notation apply_sk := (apply_sk Hm HG).
Notation verify_pok := (verify_pok e RO2).

Lemma smul_cancel (W : lmodType F) (d : F) (v : W) : v != 0 -> d *: v == 0 -> d = 0.
Proof. by move=> vn0; rewrite scaler_eq0 (negbTE vn0) orbF => /eqP. Qed.

Lemma smul_cancel_r (W : lmodType F) (c : F) (v : W) : c != 0 -> c *: v == 0 -> v = 0.
Proof. by move=> cn0; rewrite scaler_eq0 (negbTE cn0) /= => /eqP. Qed.

Lemma lin_bump (W : lmodType F) n (x : seq F) i delta (v : seq W) : (i < n)%N ->
  lin n (bump x i delta) v = lin n x v + delta *: v`_i.
Proof.
move=> ilt.
have L (s : seq F) : lin n s v = s`_i *: v`_i + \sum_(j <- iota 0 n | j != i) s`_j *: v`_j.
  by rewrite linE /index_iota subn0 (bigD1_seq i) ?mem_iota ?iota_uniq.
rewrite !L nth_bump scalerDl addrAC; congr (_ + _ + _).
by apply: eq_bigr => j ne; rewrite nth_bump_other.
Qed.

(* ================================================================================================
   1. The request proof: for one and the same challenge c, a single-component change of any value
      occurring in an equation is rejected.  Premises: the operand the change is multiplied with
      is not the neutral element / the challenge is not 0.
   ================================================================================================ *)
Section RequestEquations.
Variables (n : nat) (c : F) (xi : bproof G1) (a b : seq G1) (cm g g0 h u : G1) (gs : seq G1).
Variable i : nat.
Hypothesis ilt : (i < n)%N.

Notation E xi a b cm u := (blind_eqs n c xi a b cm g g0 h u gs).

Definition with_f (x : bproof G1) f := BProof (bx x) (by_ x) (bs x) (bz x) (bd x) f.
Definition with_s (x : bproof G1) s := BProof (bx x) (by_ x) s (bz x) (bd x) (bf x).
Definition with_z (x : bproof G1) z := BProof (bx x) (by_ x) (bs x) z (bd x) (bf x).
Definition with_x (x : bproof G1) v := BProof v (by_ x) (bs x) (bz x) (bd x) (bf x).
Definition with_y (x : bproof G1) v := BProof (bx x) v (bs x) (bz x) (bd x) (bf x).

Lemma pert_d delta : E xi a b cm u -> E (with_d xi (bump (bd xi) i delta)) a b cm u -> delta = 0.
Proof.
move=> /and3P [/(all_iota ilt) e1 _ _] /and3P [/(all_iota ilt) e1' _ _]; move: e1 e1'.
by rewrite /eq1_at /= nth_bump => /eqP ->; exact: cancel_mid.
Qed.

Lemma pert_f delta : E xi a b cm u -> E (with_f xi (bump (bf xi) i delta)) a b cm u -> delta = 0.
Proof.
move=> /and3P [_ /(all_iota ilt) e2 _] /and3P [_ /(all_iota ilt) e2' _]; move: e2 e2'.
by rewrite /eq2_at /= nth_bump => /eqP ->; exact: cancel_mid.
Qed.

Lemma pert_s delta : E xi a b cm u -> E (with_s xi (bs xi + delta)) a b cm u -> delta = 0.
Proof.
move=> /and3P [_ _ e3] /and3P [_ _ e3']; move: e3 e3'; rewrite /eq3 /= => /eqP <-.
by rewrite addrA eq_sym; exact: cancel_right.
Qed.

Lemma pert_x delta : g != 0 ->
  E xi a b cm u -> E (with_x xi (bump (bx xi) i delta)) a b cm u -> delta = 0.
Proof.
move=> gn0 /and3P [_ /(all_iota ilt) e2 _] /and3P [_ /(all_iota ilt) e2' _]; move: e2 e2'.
rewrite /eq2_at /= nth_bump => /eqP <-; rewrite scalerDl eq_sym => /cancel_right/eqP.
exact: smul_cancel.
Qed.

Lemma pert_y delta : h != 0 ->
  E xi a b cm u -> E (with_y xi (bump (by_ xi) i delta)) a b cm u -> delta = 0.
Proof.
move=> hn0 /and3P [/(all_iota ilt) e1 _ _] /and3P [/(all_iota ilt) e1' _ _]; move: e1 e1'.
rewrite /eq1_at /= nth_bump => /eqP <-; rewrite scalerDl addrA eq_sym => /cancel_right/eqP.
exact: smul_cancel.
Qed.

Lemma pert_z delta : g0 != 0 -> E xi a b cm u -> E (with_z xi (bz xi + delta)) a b cm u -> delta = 0.
Proof.
move=> g0n0 /and3P [_ _ e3] /and3P [_ _ e3']; move: e3 e3'; rewrite /eq3 /= => /eqP ->.
rewrite scalerDl addrAC => /cancel_right/eqP; exact: smul_cancel.
Qed.

Lemma pert_a delta : c != 0 -> E xi a b cm u -> E xi (bump a i delta) b cm u -> delta = 0.
Proof.
move=> cn0 /and3P [_ /(all_iota ilt) e2 _] /and3P [_ /(all_iota ilt) e2' _]; move: e2 e2'.
rewrite /eq2_at /= nth_bump => /eqP ->; rewrite scalerDr addrA => /cancel_right/eqP.
exact: smul_cancel_r.
Qed.

Lemma pert_b delta : c != 0 -> E xi a b cm u -> E xi a (bump b i delta) cm u -> delta = 0.
Proof.
move=> cn0 /and3P [/(all_iota ilt) e1 _ _] /and3P [/(all_iota ilt) e1' _ _]; move: e1 e1'.
rewrite /eq1_at /= nth_bump => /eqP ->; rewrite scalerDr addrA => /cancel_right/eqP.
exact: smul_cancel_r.
Qed.

Lemma pert_cm delta : c != 0 -> E xi a b cm u -> E xi a b (cm + delta) u -> delta = 0.
Proof.
move=> cn0 /and3P [_ _ e3] /and3P [_ _ e3']; move: e3 e3'; rewrite /eq3 /= => /eqP <-.
rewrite scalerDr addrAC eq_sym => /cancel_right/eqP; exact: smul_cancel_r.
Qed.

Lemma pert_u delta : (bx xi)`_i != 0 -> E xi a b cm u -> E xi a b cm (u + delta) -> delta = 0.
Proof.
move=> xn0 /and3P [/(all_iota ilt) e1 _ _] /and3P [/(all_iota ilt) e1' _ _]; move: e1 e1'.
rewrite /eq1_at /= => /eqP <-; rewrite scalerDr addrAC eq_sym => /cancel_right/eqP.
exact: smul_cancel_r.
Qed.

(* a changed challenge with unchanged operands: the first equation already fails unless b_i = 0.
   (Any change of a hashed component changes the challenge only "with overwhelming probability over the
   oracle"; that part is not a theorem.  This lemma is the deterministic remainder.) *)
Lemma challenge_change c' : c' != c ->
  eq1_at u h c (bx xi)`_i (by_ xi)`_i (bd xi)`_i b`_i ->
  eq1_at u h c' (bx xi)`_i (by_ xi)`_i (bd xi)`_i b`_i -> b`_i = 0.
Proof.
move=> ne; rewrite /eq1_at => /eqP ->; rewrite eq_sym -subr_eq0 opprD addrACA subrr add0r -scalerBl.
by move=> /smul_cancel_r; apply; rewrite subr_eq0.
Qed.
End RequestEquations.

(* ================================================================================================
   2. The proof of knowledge, same statement
   ================================================================================================ *)
Section PokEquations.
Variables (c : F) (pp : pparams) (pk : pkey G2) (p : sigpok G1 G2).
Notation psi := (kpsi p).
Notation Q p := (pok_eqs e c pp pk p).

Definition with_psi (q : sigpok G1 G2) s := SigPoK s (khe q) (khpe q) (knu q) (kkappa q).
Definition with_he (q : sigpok G1 G2) v := SigPoK (kpsi q) v (khpe q) (knu q) (kkappa q).
Definition with_hpe (q : sigpok G1 G2) v := SigPoK (kpsi q) (khe q) v (knu q) (kkappa q).
Definition with_nu (q : sigpok G1 G2) v := SigPoK (kpsi q) (khe q) (khpe q) v (kkappa q).
Definition with_kappa (q : sigpok G1 G2) v := SigPoK (kpsi q) (khe q) (khpe q) (knu q) v.

Lemma pert_Gamma delta : Q p -> Q (with_psi p (PokP (qx psi) (qy psi) (qGamma psi + delta) (qPhi psi))) -> delta = 0.
Proof.
move=> /and5P [_ e1 _ _ _] /and5P [_ e1' _ _ _]; move: e1 e1'; rewrite /pok_commit_eq /= => /eqP ->.
by rewrite addrAC; exact: cancel_right.
Qed.

Lemma pert_Phi delta : Q p -> Q (with_psi p (PokP (qx psi) (qy psi) (qGamma psi) (qPhi psi + delta))) -> delta = 0.
Proof.
move=> /and5P [_ _ e2 _ _] /and5P [_ _ e2' _ _]; move: e2 e2'; rewrite /pok_nu_eq /= => /eqP ->.
by rewrite addrA; exact: cancel_right.
Qed.

(* the verifier itself checks h^eps != 0, so no premise *)
Lemma pert_psi_y delta : Q p -> Q (with_psi p (PokP (qx psi) (qy psi + delta) (qGamma psi) (qPhi psi))) -> delta = 0.
Proof.
move=> /and5P [_ _ e2 hn0 _] /and5P [_ _ e2' _ _]; move: e2 e2'; rewrite /pok_nu_eq /= => /eqP <-.
by rewrite scalerDl eq_sym => /cancel_right/eqP; exact: smul_cancel.
Qed.

Lemma pert_psi_x i delta : (i < size (qx psi))%N -> (pkY pk)`_i != 0 ->
  Q p -> Q (with_psi p (PokP (bump (qx psi) i delta) (qy psi) (qGamma psi) (qPhi psi))) -> delta = 0.
Proof.
move=> ilt yn0 /and5P [_ e1 _ _ _] /and5P [_ e1' _ _ _]; move: e1 e1'; rewrite /pok_commit_eq /=.
have -> : size (bump (qx psi) i delta) = size (qx psi).
  by rewrite /bump size_set_nth; apply/maxn_idPr.
move=> /eqP <-; rewrite lin_bump // addrA eq_sym => /cancel_right/eqP.
exact: smul_cancel.
Qed.

Lemma pert_nu delta : c != 0 -> Q p -> Q (with_nu p (knu p + delta)) -> delta = 0.
Proof.
move=> cn0 /and5P [_ _ e2 _ _] /and5P [_ _ e2' _ _]; move: e2 e2'; rewrite /pok_nu_eq /= => /eqP ->.
by rewrite scalerDr addrAC => /cancel_right/eqP; exact: smul_cancel_r.
Qed.

Lemma pert_he delta : qy psi != 0 -> Q p -> Q (with_he p (khe p + delta)) -> delta = 0.
Proof.
move=> yn0 /and5P [_ _ e2 _ _] /and5P [_ _ e2' _ _]; move: e2 e2'; rewrite /pok_nu_eq /= => /eqP <-.
by rewrite scalerDr eq_sym => /cancel_right/eqP; exact: smul_cancel_r.
Qed.

Lemma pert_kappa delta : c != 0 -> Q p -> Q (with_kappa p (kkappa p + delta)) -> delta = 0.
Proof.
move=> cn0 /and5P [_ /eqP e1 _ _ _] /and5P [_ /eqP e1' _ _ _]; move: e1'.
rewrite /= e1 => /addrI /(scalerI cn0) /addIr; rewrite -{1}[kkappa p]addr0 => /addrI.
by [].
Qed.

(* h'^eps is not an oracle input: it is bound by the pairing equation alone (non-degeneracy needed) *)
Hypothesis eDl : forall x x' y, e (x + x') y = e x y + e x' y.
Hypothesis eZr : forall k x y, e x (k *: y) = k *: e x y.
Lemma pert_hpe delta : (forall x, e x (pg2 pp) = 0 -> x = 0) ->
  Q p -> Q (with_hpe p (khpe p + delta)) -> delta = 0.
Proof.
move=> nd /and5P [_ _ _ _ /eqP e3] /and5P [_ _ _ _ /eqP e3']; move: e3'.
rewrite /= -e3 => /addrI; rewrite addrAC eDl => /eqP; rewrite eq_sym => /cancel_right.
by rewrite -scaleN1r eZr scaleN1r => /eqP; rewrite oppr_eq0 => /eqP; exact: nd.
Qed.
End PokEquations.

(* ================================================================================================
   3. What the random-oracle calls bind: the oracle argument is an injective function of every
      listed component (a change of any of them is a change of the oracle input).
   ================================================================================================ *)
Lemma mkseq_cons (T : Type) (f : nat -> T) n : mkseq f n.+1 = f 0%N :: mkseq (fun i => f i.+1) n.
Proof. by rewrite /mkseq /= -[1%N]/(1 + 0)%N iotaDl -map_comp. Qed.

Lemma flatten_blocks_inj (T : eqType) n (f f' : nat -> seq T) (t1 t2 : seq T) :
  (forall i, size (f i) = size (f' i)) ->
  flatten (mkseq f n) ++ t1 = flatten (mkseq f' n) ++ t2 ->
  (forall i, (i < n)%N -> f i = f' i) /\ t1 = t2.
Proof.
elim: n f f' => [|n IH] f f' sz; first by move=> /= ->.
rewrite !mkseq_cons /= -!catA => /eqP; rewrite eqseq_cat // => /andP [/eqP e0 /eqP rest].
have [|IHa IHb] := IH (fun i => f i.+1) (fun i => f' i.+1) _ rest; first by move=> i; exact: sz.
by split=> // -[|i] // ilt; exact: IHa.
Qed.

Theorem ro_blind_input_inj n (d f a b d' f' a' b' : seq G1) s cm g g0 h u s' cm' g' g0' h' u' :
  size d = n -> size f = n -> size a = n -> size b = n ->
  size d' = n -> size f' = n -> size a' = n -> size b' = n ->
  ro_blind_input n d f s a b cm g g0 h u = ro_blind_input n d' f' s' a' b' cm' g' g0' h' u' ->
  [/\ d = d', f = f', a = a' & b = b'] /\ [/\ s = s', cm = cm', h = h' & u = u'].
Proof.
move=> sd sf sa sb sd' sf' sa' sb'; rewrite /ro_blind_input => /flatten_blocks_inj [] // blk [-> -> _ _ -> ->].
split=> //; split; apply: (@eq_from_nth _ 0); rewrite ?sd ?sf ?sa ?sb ?sd' ?sf' ?sa' ?sb' // => i ilt.
- by case: (blk i ilt).
- by case: (blk i ilt).
- by case: (blk i ilt).
- by case: (blk i ilt).
Qed.

Theorem ro_pok_input_inj (Gamma Gamma' : G2) (Phi nu he Phi' nu' he' : G1) (g2 X kappa kappa' : G2) Y :
  ro_pok_input Gamma Phi nu he g2 X kappa Y = ro_pok_input Gamma' Phi' nu' he' g2 X kappa' Y ->
  [/\ Gamma = Gamma', Phi = Phi', nu = nu', he = he' & kappa = kappa'].
Proof. by rewrite /ro_pok_input => /eqP; rewrite eqseq_cat // eqxx /= => /eqP [-> -> -> -> ->]. Qed.

(* the challenge of a request really is the oracle at these components (so the above applies to it) *)
Lemma request_challenge_is_oracle fix_copy (pp : pparams) (r : request G1) :
  sizes_ok (pn pp) (rxi r) (ra r) (rb r) (pgs pp) ->
  (verify_request fix_copy pp r).1 ->
  let c := RO1 (ro_blind_input (pn pp) (bd (rxi r)) (bf (rxi r)) (bs (rxi r)) (ra r) (rb r)
                  (req_cm Hm pp r) (pg pp) (pg0 pp) (req_h Hm HG pp r) (ru r)) in
  all (fun i => eq2_at (pg pp) c (bx (rxi r))`_i (bf (rxi r))`_i (ra r)`_i) (iota 0 (pn pp)) /\
  eq3 (pn pp) (req_cm Hm pp r) (pg0 pp) (pgs pp) c (bs (rxi r)) (bz (rxi r)) (by_ (rxi r)).
Proof.
rewrite /verify_request /verify_blinding /= => -> /=.
case: (loop1 _ _ _ _ _ _ _ _ _).1 => //=.
by case: (all _ _) => //=.
Qed.

(* the mPrime FIELD of a request is bound by nothing: the signer recomputes m' from cm and never reads it *)
Theorem request_mprime_unused fix_copy (pp : pparams) (r : request G1) (v : F) :
  let r' := Req (rxi r) (rcm r) v (ru r) (ra r) (rb r) in
  (verify_request fix_copy pp r').1 = (verify_request fix_copy pp r).1 /\
  forall sk, (sign_blind fix_copy pp r' sk).1 = (sign_blind fix_copy pp r sk).1.
Proof.
split=> [|sk]; first by [].
rewrite /sign_blind /verify_request /= /req_h /req_cm /=.
by case: (verify_blinding _ _ _ _ _ _ _ _ _ _ _).1.
Qed.

(* ================================================================================================
   4. The request proof is checked before the secret key is used
   ================================================================================================ *)
Theorem request_checked_first fix_copy (pp : pparams) (r : request G1) :
  (verify_request fix_copy pp r).1 = false ->
  forall sk, sign_blind fix_copy pp r sk = (None, (verify_request fix_copy pp r).2).
Proof. by move=> bad sk; rewrite /sign_blind; case: (verify_request _ _ _) bad => [[] r'] //=. Qed.

Theorem sign_accepts_iff_verified fix_copy (pp : pparams) (r : request G1) sk :
  isSome (sign_blind fix_copy pp r sk).1 = (verify_request fix_copy pp r).1.
Proof. by rewrite /sign_blind; case: (verify_request _ _ _) => [[] r']. Qed.

(* ================================================================================================
   5. Verifying / signing does not change the object (repaired variant), hence the same verdict again
   ================================================================================================ *)
Lemma with_xi_id (r : request G1) : with_xi r (rxi r) = r.
Proof. by case: r. Qed.

Theorem verify_request_pure (pp : pparams) (r : request G1) : (verify_request true pp r).2 = r.
Proof. by rewrite /verify_request verify_blinding_fixed /= with_xi_id. Qed.

Theorem sign_blind_pure (pp : pparams) (r : request G1) sk : (sign_blind true pp r sk).2 = r.
Proof.
rewrite /sign_blind; move: (verify_request_pure pp r).
by case: (verify_request _ _ _) => [[] r'] /= ->.
Qed.

Theorem verify_request_idempotent (pp : pparams) (r : request G1) :
  verify_request true pp (verify_request true pp r).2 = verify_request true pp r.
Proof. by rewrite verify_request_pure. Qed.

Theorem sign_blind_idempotent (pp : pparams) (r : request G1) sk :
  sign_blind true pp (sign_blind true pp r sk).2 sk = sign_blind true pp r sk.
Proof. by rewrite sign_blind_pure. Qed.

End Sigma.
