From mathcomp Require Import all_ssreflect all_algebra zify.
Set Implicit Arguments. Unset Strict Implicit. Unset Printing Implicit Defensive.
Import GRing.Theory.
Open Scope ring_scope.

Section Lagrange.
Variable F : fieldType.

(* basis polynomial for node i among nodes xs:  prod_{j in xs, j != i} (j - X)/(j - i) *)
Definition basis (xs : seq F) (i : F) : {poly F} :=
  \prod_(j <- xs | j != i) ((j - i)^-1 *: (j%:P - 'X)).

(* the coefficient the Go code computes:  prod_{j != i} j / (j - i) *)
Definition lagrange0 (xs : seq F) (i : F) : F :=
  \prod_(j <- xs | j != i) (j / (j - i)).

Lemma basis_at0 xs i : (basis xs i).[0] = lagrange0 xs i.
Proof.
rewrite /basis /lagrange0 horner_prod; apply: eq_bigr => j _.
by rewrite hornerZ hornerD hornerC hornerN hornerX subr0 mulrC.
Qed.

Lemma basis_self xs i : (basis xs i).[i] = 1.
Proof.
rewrite /basis horner_prod big1_seq // => j /andP [jni _].
rewrite hornerZ hornerD hornerC hornerN hornerX mulVf // subr_eq0 //.
Qed.

Lemma basis_other xs i k : k \in xs -> k != i -> (basis xs i).[k] = 0.
Proof.
move=> kin kni; rewrite /basis horner_prod (big_rem k kin) /= kni.
by rewrite hornerZ hornerD hornerC hornerN hornerX subrr mulr0 mul0r.
Qed.

Lemma size_lin (c a : F) : (size (c *: (a%:P - 'X)) <= 2)%N.
Proof.
apply: leq_trans (size_scale_leq _ _) _.
by rewrite -opprB size_opp size_XsubC.
Qed.

Lemma size_basis_count xs i : (size (basis xs i) <= (count (fun j => j != i) xs).+1)%N.
Proof.
rewrite /basis; elim: xs => [|a xs IH]; first by rewrite big_nil size_poly1.
rewrite big_cons /=; case: ifP => _ /=; last by rewrite add0n.
apply: leq_trans (size_mul_leq _ _) _.
have s1 := size_lin (a - i)^-1 a.
move: IH s1; set u := size _; set v := size _ => IH s1; clearbody u v; move: (count _ _) IH => c IH; lia.
Qed.

Lemma size_basis xs i : i \in xs -> (size (basis xs i) <= size xs)%N.
Proof.
move=> iin; apply: leq_trans (size_basis_count xs i) _.
rewrite -(count_predC (fun j => j != i) xs) -addn1 leq_add2l.
by rewrite -has_count; apply/hasP; exists i => //=; rewrite negbK.
Qed.

Definition interp (xs : seq F) (p : {poly F}) : {poly F} := \sum_(i <- xs) p.[i] *: basis xs i.

Lemma size_interp xs (p : {poly F}) : (size (interp xs p) <= size xs)%N.
Proof.
rewrite /interp big_seq; elim/big_rec: _ => [|i acc iin IH]; first by rewrite size_poly0.
apply: leq_trans (size_add _ _) _; rewrite geq_max IH andbT.
by apply: leq_trans (size_scale_leq _ _) (size_basis iin).
Qed.

Lemma interp_at xs (p : {poly F}) k : uniq xs -> k \in xs -> (interp xs p).[k] = p.[k].
Proof.
move=> uxs kin; rewrite /interp horner_sum (bigD1_seq k) //= hornerZ basis_self mulr1.
rewrite big_seq_cond big1 ?addr0 // => i /andP [iin ink].
by rewrite hornerZ basis_other ?mulr0 // eq_sym.
Qed.

Theorem interp_id xs (p : {poly F}) : uniq xs -> (size p <= size xs)%N -> interp xs p = p.
Proof.
move=> uxs sp; apply/eqP; rewrite -subr_eq0; apply/negPn/negP => nz.
have roots : all (root (interp xs p - p)) xs.
  by apply/allP => k kin; rewrite /root hornerD hornerN interp_at // subrr.
have := max_poly_roots nz roots uxs.
rewrite ltnNge => /negP; apply.
by apply: leq_trans (size_add _ _) _; rewrite size_opp geq_max size_interp sp.
Qed.

(* what the Go code computes: sum_i share_i * prod_{j != i} j/(j-i) reconstructs p(0) *)
Theorem reconstruct_at0 xs (p : {poly F}) : uniq xs -> (size p <= size xs)%N ->
  \sum_(i <- xs) p.[i] * lagrange0 xs i = p.[0].
Proof.
move=> uxs sp; rewrite -{2}(interp_id uxs sp) /interp horner_sum.
by apply: eq_bigr => i _; rewrite hornerZ basis_at0.
Qed.
End Lagrange.


