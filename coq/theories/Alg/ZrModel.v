(* Executable model of mpc/bls/sss.go (= mpc/ps/sss.go) on Z with the reductions modulo the BN254 group order
   written out exactly where the Go code (IBM/mathlib BaseZr = math/big.Int) performs them:

     Zr.Plus            big.Int.Add, NOT reduced
     Zr.Mul             (a*b) mod r
     Zr.Mod(r)          Euclidean remainder, 0 <= . < r      (Coq's Z.modulo with r > 0 is the same function)
     Zr.PowMod(e)       a^e mod r
     c.ModSub(a,b,r)    (a-b) mod r
     Zr.InvModP(r)      big.Int.ModInverse: extended Euclid; value in [0,r); receiver unchanged when not invertible
     c.NewZrFromInt(x)  the integer x itself

   Panics are values (TSS.Base.Base.outcome).  Plain standard-library style; runs under vm_compute.
   The theorems about these functions (they compute Shamir sharing / Lagrange reconstruction in the field Z/r, given
   that r is prime) are in TSS.Alg.ZrBridge; this file only proves that inv_mod is the modular inverse. *)
From Coq Require Import ZArith List Lia.
Require Import TSS.Base.Base TSS.Alg.Choose.
Import ListNotations.
Local Open Scope Z_scope.

(* group order of BN254 = math.Curves[1].GroupOrder *)
Definition r : Z := 21888242871839275222246405745257275088548364400416034343698204186575808495617.

(* ---------------------------------------------------------------- modular inverse (extended Euclid) *)
Fixpoint egcd (fuel : nat) (a b u0 u1 : Z) : Z * Z :=
  match fuel with
  | O => (a, u0)
  | S f => if b =? 0 then (a, u0)
           else let '(q, m) := Z.div_eucl a b in egcd f b m u1 (u0 - q * u1)      (* q = a / b, m = a mod b *)
  end.

Definition egcd_fuel : nat := 520.

(* z.ModInverse(z, r) on z = a: the inverse in [0,r) when gcd(a,r) = 1, else z stays as it was *)
Definition inv_mod (a : Z) : Z :=
  let '(g, u) := egcd egcd_fuel r (a mod r) 0 1 in
  if g =? 1 then u mod r else a.

(* ---------------------------------------------------------------- lagrangeCoefficient *)
(* one loop iteration for j != evaluatedAt:  division = j * ((j - i) mod r)^-1  mod r *)
Definition lag_factor (i j : Z) : Z := (j * inv_mod ((j - i) mod r)) mod r.

Definition lagrange_coefficient (i : Z) (pts : list Z) : outcome Z :=
  match map (lag_factor i) (filter (fun j => negb (j =? i)) pts) with
  | [] => Panic                                               (* panic("empty lagrange coefficient vector") *)
  | d :: ds => Ok (fold_left (fun acc e => (acc * e) mod r) ds d)
  end.

(* ---------------------------------------------------------------- Polynomial.ValueAt *)
Fixpoint pow_mod (x : Z) (e : nat) : Z :=            (* x.PowMod(e) = x^e mod r *)
  match e with
  | O => 1 mod r
  | S e' => (pow_mod x e' * x) mod r
  end.

Fixpoint value_at_from (p : list Z) (x : Z) (i : nat) : Z :=
  match p with
  | [] => 0
  | c :: p' => (pow_mod x i * c) mod r + value_at_from p' x (S i)
  end.

Definition value_at (p : list Z) (x : Z) : Z := (value_at_from p x 0) mod r.

(* SSS.Gen after the coefficients are drawn: shares[x-1] = ValueAt(x), x = 1..n *)
Definition gen_shares (p : list Z) (n : nat) : list Z :=
  map (fun x => value_at p (Z.of_nat x)) (seq 1 n).

(* ---------------------------------------------------------------- Shares.reconstruct *)
Definition nth_share (s : list Z) (x : Z) : outcome Z :=       (* s[x-1] *)
  if (1 <=? x) && (x <=? Z.of_nat (length s)) then Ok (nth (Z.to_nat (x - 1)) s 0) else Panic.

Fixpoint reconstruct_from (s all pts : list Z) (sum : Z) : outcome Z :=
  match pts with
  | [] => Ok sum
  | x :: rest =>
      match nth_share s x, lagrange_coefficient x all with
      | Ok sh, Ok l => reconstruct_from s all rest ((sum + (sh * l) mod r) mod r)
      | _, _ => Panic
      end
  end.

Definition reconstruct (s pts : list Z) : outcome Z := reconstruct_from s pts pts 0.

(* ---------------------------------------------------------------- the DKG cross-check, at the level of exponents *)
(* value reconstructed from every t-subset, in the order chooseKoutOfN enumerates them *)
Definition crosscheck_values (s : list Z) (n t : nat) : list (outcome Z) :=
  map (fun S => reconstruct s (map Z.of_nat S)) (choose n t).

Definition oz_key (o : outcome Z) : Z := match o with Ok v => v | _ => -1 end.

Fixpoint dedup (l : list Z) : list Z :=
  match l with
  | [] => []
  | x :: l' => if existsb (Z.eqb x) l' then dedup l' else x :: dedup l'
  end.

(* number of different values = len(thresholdPublicKeyCombinations) when the keys are g^s_i *)
Definition crosscheck_distinct (s : list Z) (n t : nat) : nat :=
  length (dedup (map oz_key (crosscheck_values s n t))).

(* ================================================================ inv_mod is the inverse modulo r *)

Lemma r_pos : 1 < r. Proof. reflexivity. Qed.

Lemma egcd_spec x : forall f a b u0 u1,
  0 <= b < a -> a * b < 2 ^ Z.of_nat f ->
  (exists k, a = u0 * x + k * r) -> (exists k, b = u1 * x + k * r) ->
  let '(g, u) := egcd (S f) a b u0 u1 in
  g = Z.gcd a b /\ exists k, g = u * x + k * r.
Proof.
  induction f as [|f IH]; intros a b u0 u1 Hab Hprod Ha Hb.
  - assert (b = 0) by (change (2 ^ Z.of_nat 0) with 1 in Hprod; nia). subst b.
    simpl. split; [rewrite Z.gcd_0_r, Z.abs_eq; lia|exact Ha].
  - cbn [egcd]. destruct (Z.eqb_spec b 0) as [->|Hb0].
    + split; [rewrite Z.gcd_0_r, Z.abs_eq; lia|exact Ha].
    + assert (Hqm : Z.div_eucl a b = (a / b, a mod b)) by (unfold Z.div, Z.modulo; destruct (Z.div_eucl a b); reflexivity).
      rewrite Hqm.
      assert (Hmod := Z.mod_pos_bound a b ltac:(lia)).
      assert (Hq : 1 <= a / b) by (apply Z.div_le_lower_bound; lia).
      assert (Hdm := Z.div_mod a b Hb0).
      specialize (IH b (a mod b) u1 (u0 - a / b * u1)).
      cbn [egcd] in IH.
      assert (Hgcd : Z.gcd b (a mod b) = Z.gcd a b).
      { rewrite (Z.gcd_comm b), Z.gcd_mod by lia. apply Z.gcd_comm. }
      rewrite <- Hgcd. apply IH.
      * lia.
      * rewrite Nat2Z.inj_succ, Z.pow_succ_r in Hprod by lia. nia.
      * exact Hb.
      * destruct Ha as [k0 Ha], Hb as [k1 Hb]. exists (k0 - a / b * k1).
        rewrite Z.mod_eq by lia. set (q := a / b). clearbody q.
        rewrite Ha at 1. rewrite Hb at 1. ring.
Qed.

Lemma fuel_enough : r * r < 2 ^ Z.of_nat (pred egcd_fuel).
Proof. reflexivity. Qed.

Theorem inv_mod_spec a :
  Z.gcd r (a mod r) = 1 -> (inv_mod a * a) mod r = 1 /\ 0 <= inv_mod a < r.
Proof.
  intros Hg. unfold inv_mod.
  assert (Hr := r_pos). assert (Hm := Z.mod_pos_bound a r ltac:(lia)).
  assert (H := egcd_spec (a mod r) (pred egcd_fuel) r (a mod r) 0 1).
  change (S (pred egcd_fuel)) with egcd_fuel in H.
  destruct (egcd egcd_fuel r (a mod r) 0 1) as [g u].
  destruct H as [Hgg [k Hk]].
  - lia.
  - assert (F := fuel_enough). nia.
  - exists 1. ring.
  - exists 0. ring.
  - rewrite Hg in Hgg. subst g. simpl. split; [|apply Z.mod_pos_bound; lia].
    rewrite Z.mul_mod_idemp_l by lia.
    rewrite <- (Z.mul_mod_idemp_r u a) by lia.
    replace (u * (a mod r)) with (1 + (- k) * r) by lia.
    rewrite Z.mod_add by lia. apply Z.mod_small. lia.
Qed.

(* ================================================================ non-vacuity / sanity, by computation *)
Example inv_mod_5 : (inv_mod 5 * 5) mod r = 1. Proof. vm_compute. reflexivity. Qed.
Example inv_mod_m3 : (inv_mod (r - 3) * (r - 3)) mod r = 1. Proof. vm_compute. reflexivity. Qed.

(* n = 5, t = 3, p(X) = 1234567 + 89 X + (r-1) X^2: shares at 1..5; any three of them give back 1234567 *)
Example reconstruct_example :
  let p := [1234567; 89; r - 1] in
  let s := gen_shares p 5 in
  s = [1234655; 1234741; 1234825; 1234907; 1234987] /\
  reconstruct s [2; 4; 5] = Ok 1234567 /\
  reconstruct s [5; 1; 3] = Ok 1234567 /\
  reconstruct s [1; 2; 3; 4; 5] = Ok 1234567 /\
  reconstruct s [1] = Panic /\ reconstruct s [1; 6] = Panic /\
  crosscheck_distinct s 5 3 = 1%nat /\
  crosscheck_distinct [1234655; 1234741; 1234826; 1234907; 1234987] 5 3 = 7%nat.
Proof. vm_compute. repeat split; reflexivity. Qed.
