(* The per-party phase machine of TBLS.KeyGen / TPS.KeyGen + OnMsg (mpc/bls/mpc.go, mpc/ps/tps.go), generic in the algebra.
   Plain standard-library style, executable.

   S  secret shares / secret keys (bls: Zr; ps: the vector (x, y_0..y_L)),  add : combination of shares
   V  public keys as revealed on the wire,  pub : S -> V  (g2^sk),  H : V -> C  the commitment (SHA-256 of the bytes)
   crosscheck : the list of the n revealed keys in party order -> "len(thresholdPublicKeyCombinations) <= 1"
   tpk_of     : the threshold key assembleThresholdPublicKey returns (the aggregate for the last subset)

   Go structure mirrored here:
     OnMsg stores the FIRST value per sender in shares / commitments / publicKeysOfParties, whatever the phase (early
     messages are kept); a reveal that does not parse is not stored (DeliverReveal _ None).
     KeyGen sends the dealt shares, then runs three waits  len(shares) == n-1,  len(commitments) == n-1,
     len(publicKeysOfParties) == n  (its own key is put there by combineShares); each wait loop looks at the context first;
     after each wait KeyGen returns an error when the context is done (commits 5911a99 / 90d6d18).
     Wake = the KeyGen goroutine (re-)evaluates its wait condition; a satisfied wait falls through to the next one.
     The "programming error" sites (nil share in combineShares, missing commitment in validateCommitments, missing key in
     flattenPublicKeys / assembleThresholdPublicKey) are the phase Panicked. *)
From Coq Require Import List Arith Bool Lia.
Import ListNotations.

Section DKG.
Variables (S V C : Type).
Variable add : S -> S -> S.
Variable pub : S -> V.
Variable H : V -> C.
Variable C_eqb : C -> C -> bool.
Variable crosscheck : list V -> bool.
Variable tpk_of : list V -> V.

Variable parties : list nat.        (* party identifiers in session order *)
Variable self : nat.
Variable dealt : nat -> S.          (* the share this party dealt for party p (localGen / secretShare) *)

Definition n : nat := length parties.
Definition others : list nat := filter (fun p => negb (p =? self)) parties.

(* ---------------------------------------------------------------- first-value-wins maps *)
Fixpoint lookup {A} (m : list (nat * A)) (k : nat) : option A :=
  match m with
  | [] => None
  | (k', v) :: m' => if k' =? k then Some v else lookup m' k
  end.

Definition put {A} (m : list (nat * A)) (k : nat) (v : A) : list (nat * A) :=
  match lookup m k with Some _ => m | None => m ++ [(k, v)] end.           (* "Already got ... from": ignored *)

Fixpoint del {A} (m : list (nat * A)) (k : nat) : list (nat * A) :=
  match m with
  | [] => []
  | (k', v) :: m' => if k' =? k then del m' k else (k', v) :: del m' k
  end.

Definition set {A} (m : list (nat * A)) (k : nat) (v : A) := del m k ++ [(k, v)].    (* plain map assignment *)

Definition keys {A} (m : list (nat * A)) : list nat := map fst m.

(* ---------------------------------------------------------------- state, events, outputs *)
Inductive result := ROk (sk : S) (pks : list V) (tpk : V) | RErr.

Inductive phase := WaitShares | WaitCommits | WaitReveals | Done (sk : S) (pks : list V) (tpk : V) | Failed | Panicked.

Record state := mkState {
  shares : list (nat * S);
  commits : list (nat * C);
  pkeys : list (nat * V);
  sk : S;                            (* tbls.sk: own dealt share, after combineShares the sum *)
  ph : phase;
  ctx_done : bool }.

Inductive event :=
| DeliverShare (from : nat) (v : S)
| DeliverCommit (from : nat) (c : C)
| DeliverReveal (from : nat) (pk : option V)       (* None: the bytes do not parse as a key of the right shape *)
| Wake
| CtxDone.

Inductive output :=
| SendShare (to : nat) (v : S)
| BcastCommit (c : C)
| BcastReveal (pk : V)
| Return (r : result).

Definition init : state := mkState [] [] [] (dealt self) WaitShares false.

(* KeyGen before its first wait: shareDistribution *)
Definition start_outputs : list output := map (fun p => SendShare p (dealt p)) others.

Definition set_ph (st : state) (p : phase) : state :=
  mkState (shares st) (commits st) (pkeys st) (sk st) p (ctx_done st).

(* ---------------------------------------------------------------- the three steps of KeyGen after the waits *)
(* combineShares: tbls.sk += shares[party] for every other party; a missing entry is a nil dereference *)
Fixpoint combine (m : list (nat * S)) (ps : list nat) (acc : S) : option S :=
  match ps with
  | [] => Some acc
  | p :: ps' => match lookup m p with Some v => combine m ps' (add acc v) | None => None end
  end.

Inductive verdict := VOk | VErr | VPanic.

(* validateCommitments: every stored key of another party against that party's commitment *)
Fixpoint validate (cm : list (nat * C)) (pk : list (nat * V)) : verdict :=
  match pk with
  | [] => VOk
  | (p, v) :: pk' =>
      if p =? self then validate cm pk'
      else match lookup cm p with
           | None => VPanic
           | Some c => if C_eqb (H v) c then validate cm pk' else VErr
           end
  end.

(* flattenPublicKeys / the key list assembleThresholdPublicKey parses: in party order *)
Fixpoint key_list (pk : list (nat * V)) (ps : list nat) : option (list V) :=
  match ps with
  | [] => Some []
  | p :: ps' => match lookup pk p, key_list pk ps' with
                | Some v, Some l => Some (v :: l)
                | _, _ => None
                end
  end.

Definition finish (st : state) : state * list output :=
  match validate (commits st) (pkeys st) with
  | VPanic => (set_ph st Panicked, [])
  | VErr => (set_ph st Failed, [Return RErr])
  | VOk =>
      match key_list (pkeys st) parties with
      | None => (set_ph st Panicked, [])
      | Some l => if crosscheck l then let tk := tpk_of l in (set_ph st (Done (sk st) l tk), [Return (ROk (sk st) l tk)])
                  else (set_ph st Failed, [Return RErr])
      end
  end.

(* ---------------------------------------------------------------- the waits *)
Definition wake_reveals (st : state) : state * list output :=
  if length (pkeys st) =? n then finish st else (st, []).

Definition wake_commits (st : state) : state * list output :=
  if length (commits st) =? n - 1 then
    match lookup (pkeys st) self with
    | None => (set_ph st Panicked, [])                        (* not reachable: combineShares stored it *)
    | Some pk =>
        let (st', outs) := wake_reveals (set_ph st WaitReveals) in
        (st', BcastReveal pk :: outs)                          (* revealPhase *)
    end
  else (st, []).

Definition wake_shares (st : state) : state * list output :=
  if length (shares st) =? n - 1 then
    match combine (shares st) others (sk st) with
    | None => (set_ph st Panicked, [])
    | Some s =>
        let pk := pub s in
        let st1 := mkState (shares st) (commits st) (set (pkeys st) self pk) s WaitCommits (ctx_done st) in
        let (st', outs) := wake_commits st1 in
        (st', BcastCommit (H pk) :: outs)                      (* commitPhase *)
    end
  else (st, []).

Definition waiting (p : phase) : bool :=
  match p with WaitShares | WaitCommits | WaitReveals => true | _ => false end.

Definition wake (st : state) : state * list output :=
  if waiting (ph st) then
    if ctx_done st then (set_ph st Failed, [Return RErr])     (* the wait loop ends, KeyGen returns ctx.Err() *)
    else match ph st with
         | WaitShares => wake_shares st
         | WaitCommits => wake_commits st
         | WaitReveals => wake_reveals st
         | _ => (st, [])
         end
  else (st, []).

Definition step (st : state) (e : event) : state * list output :=
  match e with
  | DeliverShare from v =>
      (mkState (put (shares st) from v) (commits st) (pkeys st) (sk st) (ph st) (ctx_done st), [])
  | DeliverCommit from c =>
      (mkState (shares st) (put (commits st) from c) (pkeys st) (sk st) (ph st) (ctx_done st), [])
  | DeliverReveal from (Some pk) =>
      (mkState (shares st) (commits st) (put (pkeys st) from pk) (sk st) (ph st) (ctx_done st), [])
  | DeliverReveal from None => (st, [])
  | Wake => wake st
  | CtxDone => (mkState (shares st) (commits st) (pkeys st) (sk st) (ph st) true, [])
  end.

Fixpoint run (st : state) (evs : list event) : state * list output :=
  match evs with
  | [] => (st, [])
  | e :: evs' => let (st1, o1) := step st e in let (st2, o2) := run st1 evs' in (st2, o1 ++ o2)
  end.

Definition final (evs : list event) : state := fst (run init evs).
Definition outputs (evs : list event) : list output := snd (run init evs).

(* ================================================================ facts about the maps *)
Lemma lookup_app {A} (m1 m2 : list (nat * A)) k :
  lookup (m1 ++ m2) k = match lookup m1 k with Some v => Some v | None => lookup m2 k end.
Proof. induction m1 as [|[k' v] m1 IH]; simpl; auto. destruct (k' =? k); auto. Qed.

Lemma lookup_none_keys {A} (m : list (nat * A)) k : lookup m k = None <-> ~ In k (keys m).
Proof.
  induction m as [|[k' v] m IH]; simpl; [tauto|].
  destruct (Nat.eqb_spec k' k) as [->|Hne]; [split; [discriminate|tauto]|].
  rewrite IH. tauto.
Qed.

Lemma lookup_some_in {A} (m : list (nat * A)) k v : lookup m k = Some v -> In (k, v) m.
Proof.
  induction m as [|[k' v'] m IH]; simpl; [discriminate|].
  destruct (Nat.eqb_spec k' k) as [->|Hne]; [intros [= ->]; auto|auto].
Qed.

Lemma lookup_some_keys {A} (m : list (nat * A)) k v : lookup m k = Some v -> In k (keys m).
Proof. intros E. apply lookup_some_in in E. apply (in_map fst) in E. exact E. Qed.

(* first value wins: an entry, once there, never changes *)
Lemma lookup_put_some {A} (m : list (nat * A)) k v k' x : lookup m k' = Some x -> lookup (put m k v) k' = Some x.
Proof. intros E. unfold put. destruct (lookup m k); auto. rewrite lookup_app, E. reflexivity. Qed.

Lemma lookup_put_other {A} (m : list (nat * A)) k v k' : k <> k' -> lookup (put m k v) k' = lookup m k'.
Proof.
  intros Hne. unfold put. destruct (lookup m k); auto. rewrite lookup_app. simpl.
  destruct (Nat.eqb_spec k k'); [contradiction|]. destruct (lookup m k'); reflexivity.
Qed.

Lemma lookup_put_new {A} (m : list (nat * A)) k v : lookup m k = None -> lookup (put m k v) k = Some v.
Proof. intros E. unfold put. rewrite E, lookup_app, E. simpl. now rewrite Nat.eqb_refl. Qed.

Lemma keys_put {A} (m : list (nat * A)) k v :
  keys (put m k v) = if lookup m k then keys m else keys m ++ [k].
Proof. unfold put, keys. destruct (lookup m k); auto. now rewrite map_app. Qed.

Lemma keys_put_incl {A} (m : list (nat * A)) k v l : incl (keys m) l -> In k l -> incl (keys (put m k v)) l.
Proof.
  intros Hi Hk. rewrite keys_put. destruct (lookup m k); auto.
  intros x Hx. apply in_app_or in Hx. destruct Hx as [Hx|[<-|[]]]; auto.
Qed.

Lemma nodup_snoc (l : list nat) k : NoDup l -> ~ In k l -> NoDup (l ++ [k]).
Proof.
  induction l as [|a l IH]; simpl; intros Hn Hk; [constructor; [tauto|constructor]|].
  inversion Hn; subst. constructor; [|apply IH; tauto].
  intros Hin. apply in_app_or in Hin. destruct Hin as [|[->|[]]]; tauto.
Qed.

Lemma keys_put_nodup {A} (m : list (nat * A)) k v : NoDup (keys m) -> NoDup (keys (put m k v)).
Proof.
  intros Hn. rewrite keys_put. destruct (lookup m k) eqn:E; auto.
  apply lookup_none_keys in E. apply nodup_snoc; auto.
Qed.

Lemma lookup_del_same {A} (m : list (nat * A)) k : lookup (del m k) k = None.
Proof. induction m as [|[k' v] m IH]; simpl; auto. destruct (Nat.eqb_spec k' k); simpl; auto.
  destruct (Nat.eqb_spec k' k); [contradiction|auto]. Qed.

Lemma lookup_del_other {A} (m : list (nat * A)) k k' : k <> k' -> lookup (del m k) k' = lookup m k'.
Proof.
  intros Hne. induction m as [|[k0 v] m IH]; simpl; auto.
  destruct (Nat.eqb_spec k0 k) as [->|H0]; simpl.
  - destruct (Nat.eqb_spec k k'); [contradiction|auto].
  - destruct (k0 =? k'); auto.
Qed.

Lemma lookup_set_same {A} (m : list (nat * A)) k v : lookup (set m k v) k = Some v.
Proof. unfold set. rewrite lookup_app, lookup_del_same. simpl. now rewrite Nat.eqb_refl. Qed.

Lemma lookup_set_other {A} (m : list (nat * A)) k v k' : k <> k' -> lookup (set m k v) k' = lookup m k'.
Proof.
  intros Hne. unfold set. rewrite lookup_app, lookup_del_other by assumption. simpl.
  destruct (Nat.eqb_spec k k'); [contradiction|]. destruct (lookup m k'); reflexivity.
Qed.

Lemma keys_del {A} (m : list (nat * A)) k : keys (del m k) = filter (fun x => negb (x =? k)) (keys m).
Proof. induction m as [|[k' v] m IH]; simpl; auto. destruct (k' =? k); simpl; [auto|f_equal; auto]. Qed.

(* the results of combine / key_list depend on the looked-up entries only, and those persist *)
Definition extends {A} (m m' : list (nat * A)) : Prop := forall k v, lookup m k = Some v -> lookup m' k = Some v.

Lemma extends_refl {A} (m : list (nat * A)) : extends m m. Proof. intros k v E; exact E. Qed.
Lemma extends_put {A} (m : list (nat * A)) k v : extends m (put m k v).
Proof. intros k' x E. now apply lookup_put_some. Qed.
Lemma extends_trans {A} (a b c : list (nat * A)) : extends a b -> extends b c -> extends a c.
Proof. intros H1 H2 k v E. auto. Qed.

Lemma combine_extends m m' ps acc s : extends m m' -> combine m ps acc = Some s -> combine m' ps acc = Some s.
Proof.
  intros He. revert acc. induction ps as [|p ps IH]; simpl; intros acc E; auto.
  destruct (lookup m p) eqn:L; [|discriminate]. rewrite (He _ _ L). auto.
Qed.

Lemma key_list_extends pk pk' ps l : extends pk pk' -> key_list pk ps = Some l -> key_list pk' ps = Some l.
Proof.
  intros He. revert l. induction ps as [|p ps IH]; simpl; intros l E; auto.
  destruct (lookup pk p) eqn:L; [|discriminate]. destruct (key_list pk ps) eqn:K; [|discriminate].
  rewrite (He _ _ L), (IH _ eq_refl). exact E.
Qed.

Lemma combine_total m ps acc : (forall p, In p ps -> lookup m p <> None) -> combine m ps acc <> None.
Proof.
  revert acc. induction ps as [|p ps IH]; simpl; intros acc Hall; [discriminate|].
  destruct (lookup m p) eqn:L; [apply IH; auto|]. exfalso. apply (Hall p); auto.
Qed.

Lemma key_list_total pk ps : (forall p, In p ps -> lookup pk p <> None) -> key_list pk ps <> None.
Proof.
  induction ps as [|p ps IH]; simpl; intros Hall; [discriminate|].
  destruct (lookup pk p) eqn:L; [|exfalso; apply (Hall p); auto].
  destruct (key_list pk ps) eqn:K; [discriminate|]. exfalso. apply IH; auto.
Qed.

Lemma validate_ok cm pk : validate cm pk = VOk ->
  forall p v, In (p, v) pk -> p <> self -> exists c, lookup cm p = Some c /\ C_eqb (H v) c = true.
Proof.
  induction pk as [|[q w] pk IH]; simpl; intros E p v Hin Hne; [contradiction|].
  destruct (Nat.eqb_spec q self) as [->|Hq].
  - destruct Hin as [[= <- <-]|Hin]; [contradiction|eauto].
  - destruct (lookup cm q) eqn:L; [|discriminate]. destruct (C_eqb (H w) c) eqn:Ec; [|discriminate].
    destruct Hin as [[= <- <-]|Hin]; eauto.
Qed.

Lemma validate_no_panic cm pk :
  (forall p v, In (p, v) pk -> p <> self -> lookup cm p <> None) -> validate cm pk <> VPanic.
Proof.
  induction pk as [|[q w] pk IH]; simpl; intros Hall; [discriminate|].
  destruct (Nat.eqb_spec q self) as [->|Hq]; [apply IH; intros; eapply Hall; eauto|].
  destruct (lookup cm q) eqn:L; [|exfalso; eapply (Hall q w); auto].
  destruct (C_eqb (H w) c); [apply IH; intros; eapply Hall; eauto|discriminate].
Qed.

(* ================================================================ runs *)
Lemma run_app st evs1 evs2 :
  run st (evs1 ++ evs2) =
  (fst (run (fst (run st evs1)) evs2), snd (run st evs1) ++ snd (run (fst (run st evs1)) evs2)).
Proof.
  revert st. induction evs1 as [|e evs1 IH]; intros st; simpl.
  - destruct (run st evs2); reflexivity.
  - destruct (step st e) as [st1 o1]. rewrite IH.
    destruct (run st1 evs1) as [st2 o2]. simpl. destruct (run st2 evs2). simpl. now rewrite app_assoc.
Qed.

Lemma run_snoc st evs e :
  run st (evs ++ [e]) = (fst (step (fst (run st evs)) e), snd (run st evs) ++ snd (step (fst (run st evs)) e)).
Proof.
  rewrite run_app. simpl. destruct (step (fst (run st evs)) e). simpl. now rewrite app_nil_r.
Qed.

(* every output of a run is the output of one of its steps *)
Lemma run_outputs st evs o : In o (snd (run st evs)) ->
  exists evs1 e evs2, evs = evs1 ++ e :: evs2 /\ In o (snd (step (fst (run st evs1)) e)).
Proof.
  revert st. induction evs as [|e evs IH]; intros st; simpl; [contradiction|].
  destruct (step st e) as [st1 o1] eqn:E1. destruct (run st1 evs) as [st2 o2] eqn:E2. simpl.
  intros Hin. apply in_app_or in Hin. destruct Hin as [Hin|Hin].
  - exists [], e, evs. simpl. rewrite E1. auto.
  - specialize (IH st1). rewrite E2 in IH. destruct (IH Hin) as (a & e' & b & -> & H').
    exists (e :: a), e', b. simpl. rewrite E1. destruct (run st1 a). auto.
Qed.

(* ---------------------------------------------------------------- no early reveal *)
Lemma finish_outputs st o : In o (snd (finish st)) -> exists r, o = Return r.
Proof.
  unfold finish. destruct (validate _ _); simpl; try tauto; [|intros [<-|[]]; eauto].
  destruct (key_list _ _); simpl; [|tauto]. destruct (crosscheck l); simpl; intros [<-|[]]; eauto.
Qed.

Lemma wake_reveals_outputs st o : In o (snd (wake_reveals st)) -> exists r, o = Return r.
Proof. unfold wake_reveals. destruct (_ =? _); [apply finish_outputs|simpl; tauto]. Qed.

Lemma wake_commits_reveal st pk : In (BcastReveal pk) (snd (wake_commits st)) ->
  length (commits st) = n - 1 /\ lookup (pkeys st) self = Some pk.
Proof.
  unfold wake_commits. destruct (Nat.eqb_spec (length (commits st)) (n - 1)) as [E|E]; [|simpl; tauto].
  destruct (lookup (pkeys st) self) eqn:L; [|simpl; tauto].
  destruct (wake_reveals (set_ph st WaitReveals)) as [st' outs] eqn:W. simpl.
  intros [[= ->]|Hin]; [auto|]. assert (Ho := wake_reveals_outputs (set_ph st WaitReveals) (BcastReveal pk)).
  rewrite W in Ho. destruct (Ho Hin) as [r Hr]. discriminate.
Qed.

Lemma step_reveal st e pk : In (BcastReveal pk) (snd (step st e)) -> length (commits st) = n - 1.
Proof.
  destruct e as [f v|f c|f [v|]| |]; simpl; try tauto.
  unfold wake. destruct (waiting (ph st)); [|simpl; tauto].
  destruct (ctx_done st); [simpl; intros [H0|[]]; discriminate|].
  destruct (ph st); simpl; try tauto.
  - unfold wake_shares. destruct (_ =? _); [|simpl; tauto].
    destruct (combine _ _ _); [|simpl; tauto].
    match goal with |- context [wake_commits ?s] => destruct (wake_commits s) as [st' outs] eqn:W;
      assert (Hc := wake_commits_reveal s pk); rewrite W in Hc end.
    simpl. intros [H0|Hin]; [discriminate|]. apply Hc in Hin. simpl in Hin. tauto.
  - intros Hin. apply wake_commits_reveal in Hin. tauto.
  - intros Hin. apply wake_reveals_outputs in Hin. destruct Hin as [r Hr]. discriminate.
Qed.

(* C05 "no honest party discloses its key before it holds the commitments of all others": in EVERY run (any events,
   any order, duplicates, early or late messages, context expiry) a reveal is broadcast only by a step that starts in a
   state holding n-1 commitments. *)
Theorem no_early_reveal evs pk : In (BcastReveal pk) (outputs evs) ->
  exists evs1 e evs2, evs = evs1 ++ e :: evs2 /\ length (commits (final evs1)) = n - 1.
Proof.
  intros Hin. apply run_outputs in Hin. destruct Hin as (a & e & b & -> & Hin).
  exists a, e, b. split; [reflexivity|]. eapply step_reveal; eauto.
Qed.

(* once the context is done, the only thing the party still emits is the error return *)
Lemma step_ctx_done st e : ctx_done st = true ->
  ctx_done (fst (step st e)) = true /\ forall o, In o (snd (step st e)) -> o = Return RErr.
Proof.
  intros Hc. destruct e as [f v|f c|f [v|]| |]; simpl; try (split; [auto|tauto]).
  unfold wake. rewrite Hc. destruct (waiting (ph st)); simpl; split; auto; try tauto.
  intros o [<-|[]]; reflexivity.
Qed.

Theorem ctx_done_silent st evs : ctx_done st = true -> forall o, In o (snd (run st evs)) -> o = Return RErr.
Proof.
  revert st. induction evs as [|e evs IH]; intros st Hc o; simpl; [tauto|].
  destruct (step_ctx_done st e Hc) as [Hc' Ho]. destruct (step st e) as [st1 o1]. simpl in *.
  specialize (IH st1 Hc' o). destruct (run st1 evs) as [st2 o2]. simpl in *.
  intros Hin. apply in_app_or in Hin. destruct Hin; auto.
Qed.

Theorem ctx_done_fails st : ctx_done st = true -> waiting (ph st) = true -> step st Wake = (set_ph st Failed, [Return RErr]).
Proof. intros Hc Hw. simpl. unfold wake. now rewrite Hw, Hc. Qed.

(* ================================================================ what a returned result is made of *)
Definition Comb (st : state) : Prop :=
  combine (shares st) others (dealt self) = Some (sk st) /\ lookup (pkeys st) self = Some (pub (sk st)).

Definition DoneFacts (st : state) (sk0 : S) (pkl : list V) (tpk : V) : Prop :=
  sk st = sk0 /\
  key_list (pkeys st) parties = Some pkl /\
  (forall p v, In p parties -> p <> self -> lookup (pkeys st) p = Some v ->
               exists c, lookup (commits st) p = Some c /\ C_eqb (H v) c = true) /\
  crosscheck pkl = true /\ tpk = tpk_of pkl.

Definition PInv (st : state) : Prop :=
  match ph st with
  | WaitShares => sk st = dealt self
  | WaitCommits | WaitReveals => Comb st
  | Done a b c => Comb st /\ DoneFacts st a b c
  | Failed => ctx_done st = true \/ Comb st          (* an error either by cancellation or after combineShares *)
  | Panicked => True
  end.

Lemma key_list_lookup pk ps l p : key_list pk ps = Some l -> In p ps -> exists v, lookup pk p = Some v.
Proof.
  revert l. induction ps as [|q ps IH]; simpl; intros l E Hin; [contradiction|].
  destruct (lookup pk q) eqn:L; [|discriminate]. destruct (key_list pk ps) eqn:K; [|discriminate].
  destruct Hin as [->|Hin]; eauto.
Qed.

(* deliveries only extend the three maps *)
Lemma PInv_extends st sh cm pk :
  extends (shares st) sh -> extends (commits st) cm -> extends (pkeys st) pk ->
  PInv st -> PInv (mkState sh cm pk (sk st) (ph st) (ctx_done st)).
Proof.
  intros Es Ec Ep. unfold PInv, Comb, DoneFacts. simpl.
  destruct (ph st); auto.
  - intros [H1 H2]. split; [eapply combine_extends; eauto|auto].
  - intros [H1 H2]. split; [eapply combine_extends; eauto|auto].
  - intros [[H1 H2] (H3 & H4 & H5 & H6 & H7)]. split; [split; [eapply combine_extends; eauto|auto]|].
    split; [auto|]. split; [eapply key_list_extends; eauto|]. split; [|auto].
    intros p v Hp Hne L. destruct (key_list_lookup _ _ _ p H4 Hp) as [v' L'].
    assert (v = v') by (apply Ep in L'; congruence). subst v'.
    destruct (H5 p v Hp Hne L') as [c [Lc Hc]]. eauto.
  - intros [Hc|[H1 H2]]; [left; exact Hc|right; split; [eapply combine_extends; eauto|auto]].
Qed.

Lemma finish_inv st : Comb st -> PInv (fst (finish st)).
Proof.
  intros HC. unfold finish. destruct (validate (commits st) (pkeys st)) eqn:Ev; simpl; try exact I;
    [|right; exact HC].
  destruct (key_list (pkeys st) parties) as [l|] eqn:K; simpl; [|exact I].
  destruct (crosscheck l) eqn:X; simpl; [|right; exact HC].
  unfold PInv. simpl. split; [exact HC|]. unfold DoneFacts. simpl. repeat split; auto.
  intros p v _ Hne L. eapply validate_ok; eauto. now apply lookup_some_in.
Qed.

Lemma wake_reveals_inv st : Comb st -> ph st = WaitReveals -> PInv (fst (wake_reveals st)).
Proof.
  intros HC Hp. unfold wake_reveals. destruct (_ =? _); [now apply finish_inv|].
  simpl. unfold PInv. now rewrite Hp.
Qed.

Lemma wake_commits_inv st : Comb st -> ph st = WaitCommits -> PInv (fst (wake_commits st)).
Proof.
  intros HC Hp. unfold wake_commits. destruct (_ =? _); [|simpl; unfold PInv; now rewrite Hp].
  destruct (lookup (pkeys st) self); [|exact I].
  destruct (wake_reveals (set_ph st WaitReveals)) as [st' outs] eqn:W. simpl.
  change st' with (fst (st', outs)). rewrite <- W. apply wake_reveals_inv; auto.
Qed.

Lemma wake_shares_inv st : sk st = dealt self -> ph st = WaitShares -> PInv (fst (wake_shares st)).
Proof.
  intros Hs Hp. unfold wake_shares. destruct (_ =? _); [|simpl; unfold PInv; now rewrite Hp].
  destruct (combine (shares st) others (sk st)) as [s|] eqn:Ec; [|exact I].
  match goal with |- context [wake_commits ?x] => destruct (wake_commits x) as [st' outs] eqn:W;
    change st' with (fst (st', outs)); rewrite <- W; apply wake_commits_inv; auto end.
  split; simpl; [now rewrite <- Hs|apply lookup_set_same].
Qed.

Lemma step_inv st e : PInv st -> PInv (fst (step st e)).
Proof.
  intros HI. destruct e as [f v|f c|f [v|]| |]; simpl; auto.
  - apply PInv_extends; auto using extends_refl, extends_put.
  - apply PInv_extends; auto using extends_refl, extends_put.
  - apply PInv_extends; auto using extends_refl, extends_put.
  - unfold wake. destruct (waiting (ph st)) eqn:Hw; [|exact HI].
    destruct (ctx_done st) eqn:Hc; [left; exact Hc|].
    unfold PInv in HI. destruct (ph st) eqn:Hp; try discriminate.
    + now apply wake_shares_inv.
    + now apply wake_commits_inv.
    + now apply wake_reveals_inv.
  - unfold PInv in *. simpl. destruct (ph st); auto.
Qed.

Lemma run_inv st evs : PInv st -> PInv (fst (run st evs)).
Proof.
  revert st. induction evs as [|e evs IH]; intros st HI; simpl; auto.
  assert (H1 := step_inv st e HI). destruct (step st e) as [st1 o1]. simpl in H1.
  specialize (IH st1 H1). destruct (run st1 evs). exact IH.
Qed.

(* If KeyGen returns Ok (sk, pks, tpk) -- after ANY event list -- then: sk is the own dealt share plus the stored share of
   every other party (all present); pks lists, in party order, the own key pub sk and the stored key of every other
   party (all present); every other party's stored commitment is H of its stored key; the cross-check accepted exactly
   this list; tpk is assembled from it.  "Stored" = the FIRST value delivered from that sender (final_*_first below). *)
Theorem outcome_closed_form evs sk0 pkl tpk : ph (final evs) = Done sk0 pkl tpk ->
  combine (shares (final evs)) others (dealt self) = Some sk0 /\
  lookup (pkeys (final evs)) self = Some (pub sk0) /\
  key_list (pkeys (final evs)) parties = Some pkl /\
  (forall p v, In p parties -> p <> self -> lookup (pkeys (final evs)) p = Some v ->
               exists c, lookup (commits (final evs)) p = Some c /\ C_eqb (H v) c = true) /\
  crosscheck pkl = true /\ tpk = tpk_of pkl.
Proof.
  intros Hd. assert (HI : PInv (final evs)) by (apply run_inv; reflexivity).
  unfold PInv in HI. rewrite Hd in HI. destruct HI as [[H1 H2] (H3 & H4 & H5 & H6 & H7)].
  rewrite <- H3. auto 10.
Qed.

(* ================================================================ "stored" = the first value delivered *)
Fixpoint first_share (evs : list event) (p : nat) : option S :=
  match evs with
  | [] => None
  | DeliverShare f v :: r => if f =? p then Some v else first_share r p
  | _ :: r => first_share r p
  end.
Fixpoint first_commit (evs : list event) (p : nat) : option C :=
  match evs with
  | [] => None
  | DeliverCommit f c :: r => if f =? p then Some c else first_commit r p
  | _ :: r => first_commit r p
  end.
Fixpoint first_reveal (evs : list event) (p : nat) : option V :=      (* unparsable reveals are not stored *)
  match evs with
  | [] => None
  | DeliverReveal f (Some v) :: r => if f =? p then Some v else first_reveal r p
  | _ :: r => first_reveal r p
  end.

Definition or_else {A} (a b : option A) : option A := match a with Some x => Some x | None => b end.

Lemma lookup_put {A} (m : list (nat * A)) k v k' :
  lookup (put m k v) k' = or_else (lookup m k') (if k =? k' then Some v else None).
Proof.
  destruct (lookup m k') eqn:L; simpl; [now apply lookup_put_some|].
  destruct (Nat.eqb_spec k k') as [->|Hne]; [now apply lookup_put_new|]. now rewrite lookup_put_other.
Qed.

(* Wake never touches shares and commitments, and of the keys only the own entry *)
Definition same_maps (st st' : state) : Prop :=
  shares st' = shares st /\ commits st' = commits st /\
  (forall p, p <> self -> lookup (pkeys st') p = lookup (pkeys st) p).

Lemma same_maps_refl st : same_maps st st. Proof. repeat split. Qed.
Lemma same_maps_set_ph st p : same_maps st (set_ph st p). Proof. repeat split. Qed.

Lemma finish_same st : same_maps st (fst (finish st)).
Proof.
  unfold finish. destruct (validate _ _); simpl; try apply same_maps_set_ph.
  destruct (key_list _ _); simpl; [|apply same_maps_set_ph]. destruct (crosscheck l); apply same_maps_set_ph.
Qed.

Lemma wake_reveals_same st : same_maps st (fst (wake_reveals st)).
Proof. unfold wake_reveals. destruct (_ =? _); [apply finish_same|apply same_maps_refl]. Qed.

Lemma wake_commits_same st : same_maps st (fst (wake_commits st)).
Proof.
  unfold wake_commits. destruct (_ =? _); [|apply same_maps_refl].
  destruct (lookup (pkeys st) self); [|apply same_maps_set_ph].
  assert (Hs := wake_reveals_same (set_ph st WaitReveals)).
  destruct (wake_reveals (set_ph st WaitReveals)). exact Hs.
Qed.

Lemma wake_same st : same_maps st (fst (wake st)).
Proof.
  unfold wake. destruct (waiting (ph st)); [|apply same_maps_refl].
  destruct (ctx_done st); [apply same_maps_set_ph|].
  destruct (ph st); try apply same_maps_refl.
  - unfold wake_shares. destruct (_ =? _); [|apply same_maps_refl].
    destruct (combine _ _ _); [|apply same_maps_set_ph].
    match goal with |- context [wake_commits ?x] => assert (Hs := wake_commits_same x); destruct (wake_commits x) end.
    destruct Hs as (H1 & H2 & H3). simpl in *. repeat split; auto.
    intros p Hp. rewrite H3 by assumption. apply lookup_set_other. congruence.
  - apply wake_commits_same.
  - apply wake_reveals_same.
Qed.

Lemma run_cons_fst st e evs : fst (run st (e :: evs)) = fst (run (fst (step st e)) evs).
Proof. simpl. destruct (step st e) as [st1 o1]. simpl. destruct (run st1 evs). reflexivity. Qed.

Lemma run_first st evs p :
  lookup (shares (fst (run st evs))) p = or_else (lookup (shares st) p) (first_share evs p) /\
  lookup (commits (fst (run st evs))) p = or_else (lookup (commits st) p) (first_commit evs p) /\
  (p <> self -> lookup (pkeys (fst (run st evs))) p = or_else (lookup (pkeys st) p) (first_reveal evs p)).
Proof.
  revert st. induction evs as [|e evs IH]; intros st.
  - simpl. repeat split; intros; destruct (lookup _ p); reflexivity.
  - rewrite run_cons_fst. destruct (IH (fst (step st e))) as (I1 & I2 & I3).
    split; [rewrite I1|split; [rewrite I2|intros Hp; rewrite (I3 Hp)]];
      destruct e as [f v|f c|f [v|]| |]; simpl; try reflexivity.
    all: try (destruct (wake_same st) as (W1 & W2 & W3); rewrite ?W1, ?W2, ?W3 by assumption; reflexivity).
    all: rewrite lookup_put; match goal with |- or_else (or_else ?a _) _ = _ => destruct a end; simpl; auto;
         destruct (f =? p); auto.
Qed.

Theorem final_first evs p :
  lookup (shares (final evs)) p = first_share evs p /\
  lookup (commits (final evs)) p = first_commit evs p /\
  (p <> self -> lookup (pkeys (final evs)) p = first_reveal evs p).
Proof. destruct (run_first init evs p) as (H1 & H2 & H3). repeat split; auto. Qed.

(* ================================================================ never panics *)
(* Premise (provided by rbcFilter + authenticated links, C03): whatever is delivered comes from a session participant
   other than the party itself.  Without it the Go code does panic: a "share" attributed to an outsider makes
   len(shares) reach n-1 with a participant's share missing, and combineShares dereferences nil. *)
Definition ev_ok (e : event) : Prop :=
  match e with
  | DeliverShare f _ | DeliverCommit f _ | DeliverReveal f _ => In f others
  | _ => True
  end.

Hypothesis parties_nodup : NoDup parties.
Hypothesis self_in : In self parties.

Lemma filter_notin (l : list nat) x : ~ In x l -> filter (fun p => negb (p =? x)) l = l.
Proof.
  induction l as [|b l IH]; simpl; intros Hx; auto.
  destruct (Nat.eqb_spec b x) as [->|]; simpl; [exfalso; apply Hx; auto|]. f_equal. apply IH. tauto.
Qed.

Lemma filter_length_remove (l : list nat) x : NoDup l -> In x l ->
  length (filter (fun p => negb (p =? x)) l) = length l - 1.
Proof.
  induction l as [|a l IH]; simpl; intros Hn Hin; [contradiction|].
  inversion Hn as [|? ? Hnotin Hn']; subst.
  destruct (Nat.eqb_spec a x) as [->|Hne]; simpl.
  - rewrite Nat.sub_0_r, filter_notin by assumption. reflexivity.
  - destruct Hin as [->|Hin]; [contradiction|]. rewrite IH by assumption.
    destruct l; [contradiction|simpl; lia].
Qed.

Lemma others_length : length others = n - 1.
Proof. apply filter_length_remove; assumption. Qed.

Lemma others_spec p : In p others <-> In p parties /\ p <> self.
Proof.
  unfold others. rewrite filter_In. destruct (Nat.eqb_spec p self) as [->|Hne]; simpl; split.
  - intros [_ H0]; discriminate.
  - intros [_ H0]; contradiction.
  - tauto.
  - tauto.
Qed.

Lemma keys_length {A} (m : list (nat * A)) : length (keys m) = length m.
Proof. apply map_length. Qed.

(* a duplicate-free key set inside L with as many entries as L covers L *)
Lemma full_cover {A} (m : list (nat * A)) (L : list nat) p :
  NoDup (keys m) -> incl (keys m) L -> length m = length L -> In p L -> lookup m p <> None.
Proof.
  intros Hn Hi Hl Hp E. apply lookup_none_keys in E. apply E.
  apply (@NoDup_length_incl nat (keys m) L Hn); auto. rewrite keys_length. lia.
Qed.

Definition terminal (p : phase) : Prop := p = Failed \/ exists a b c, p = Done a b c.

Definition NInv (st : state) : Prop :=
  NoDup (keys (shares st)) /\ incl (keys (shares st)) others /\
  NoDup (keys (commits st)) /\ incl (keys (commits st)) others /\
  NoDup (keys (pkeys st)) /\
  (ph st = WaitShares -> incl (keys (pkeys st)) others) /\
  (ph st = WaitCommits \/ ph st = WaitReveals -> incl (keys (pkeys st)) parties /\ lookup (pkeys st) self <> None) /\
  (ph st = WaitReveals -> length (commits st) = n - 1) /\
  ph st <> Panicked.

Lemma keys_set_nodup {A} (m : list (nat * A)) k v : NoDup (keys m) -> NoDup (keys (set m k v)).
Proof.
  intros Hn. unfold set, keys. rewrite map_app. simpl. apply nodup_snoc.
  - fold (keys (del m k)). rewrite keys_del. now apply NoDup_filter.
  - fold (keys (del m k)). rewrite keys_del, filter_In. rewrite Nat.eqb_refl. simpl. intros [_ H0]. discriminate.
Qed.

Lemma keys_set_incl {A} (m : list (nat * A)) k v L : incl (keys m) L -> In k L -> incl (keys (set m k v)) L.
Proof.
  intros Hi Hk x Hx. unfold set, keys in Hx. rewrite map_app in Hx. apply in_app_or in Hx.
  destruct Hx as [Hx|[<-|[]]]; auto. fold (keys (del m k)) in Hx. rewrite keys_del in Hx.
  apply filter_In in Hx. apply Hi. tauto.
Qed.

Lemma others_incl : incl others parties.
Proof. intros p Hp. apply others_spec in Hp. tauto. Qed.

Lemma put_length_present {A} (m : list (nat * A)) k v : lookup m k <> None -> put m k v = m.
Proof. unfold put. destruct (lookup m k); [reflexivity|congruence]. Qed.

Lemma NInv_terminal st P : NInv st -> terminal P -> NInv (set_ph st P).
Proof.
  intros (N1 & N2 & N3 & N4 & N5 & N6 & N7 & N8 & N9) HT.
  destruct HT as [->|(a & b & c & ->)]; unfold NInv; simpl; repeat split; auto; try discriminate;
    try (intros [HH|HH]; discriminate HH);
    try (match goal with Hor : _ \/ _ |- _ => destruct Hor as [HH|HH]; discriminate HH end).
Qed.

Lemma NInv_to_reveals st : NInv st -> ph st = WaitCommits -> length (commits st) = n - 1 -> NInv (set_ph st WaitReveals).
Proof.
  intros (N1 & N2 & N3 & N4 & N5 & N6 & N7 & N8 & N9) Hp Hl.
  unfold NInv. simpl. repeat split; auto; try discriminate; apply N7; auto.
Qed.

Lemma finish_ninv st : NInv st -> ph st = WaitReveals -> length (pkeys st) = n -> NInv (fst (finish st)).
Proof.
  intros HN Hp Hl. assert (HN' := HN). destruct HN' as (N1 & N2 & N3 & N4 & N5 & N6 & N7 & N8 & N9).
  assert (Hnw : ph st = WaitCommits \/ ph st = WaitReveals) by auto. destruct (N7 Hnw) as [N7a N7b].
  assert (Hc : length (commits st) = n - 1) by auto.
  unfold finish.
  destruct (validate (commits st) (pkeys st)) eqn:Ev; simpl.
  - destruct (key_list (pkeys st) parties) as [l|] eqn:K; simpl.
    + destruct (crosscheck l); apply NInv_terminal; auto; [right; eauto|left; reflexivity].
    + exfalso. revert K. apply key_list_total. intros p Hpp. apply (full_cover (pkeys st) parties); auto.
  - apply NInv_terminal; auto. left; reflexivity.
  - exfalso. revert Ev. apply validate_no_panic. intros p v Hin Hne.
    apply (full_cover (commits st) others); auto; [now rewrite others_length|].
    apply others_spec. split; [|assumption]. apply N7a. apply (in_map fst) in Hin. exact Hin.
Qed.

Lemma wake_reveals_ninv st : NInv st -> ph st = WaitReveals -> NInv (fst (wake_reveals st)).
Proof.
  intros HN Hp. unfold wake_reveals. destruct (Nat.eqb_spec (length (pkeys st)) n); [now apply finish_ninv|exact HN].
Qed.

Lemma wake_commits_ninv st : NInv st -> ph st = WaitCommits -> NInv (fst (wake_commits st)).
Proof.
  intros HN Hp. unfold wake_commits. destruct (Nat.eqb_spec (length (commits st)) (n - 1)) as [E|E]; [|exact HN].
  assert (HN' := HN). destruct HN' as (N1 & N2 & N3 & N4 & N5 & N6 & N7 & N8 & N9).
  assert (Hnw : ph st = WaitCommits \/ ph st = WaitReveals) by auto. destruct (N7 Hnw) as [N7a N7b].
  destruct (lookup (pkeys st) self) eqn:L; [|congruence].
  assert (H1 : NInv (set_ph st WaitReveals)) by (apply NInv_to_reveals; auto).
  assert (H2 := wake_reveals_ninv (set_ph st WaitReveals) H1 eq_refl).
  destruct (wake_reveals (set_ph st WaitReveals)). exact H2.
Qed.

Lemma wake_shares_ninv st : NInv st -> ph st = WaitShares -> NInv (fst (wake_shares st)).
Proof.
  intros HN Hp. unfold wake_shares. destruct (Nat.eqb_spec (length (shares st)) (n - 1)) as [E|E]; [|exact HN].
  assert (HN' := HN). destruct HN' as (N1 & N2 & N3 & N4 & N5 & N6 & N7 & N8 & N9).
  destruct (combine (shares st) others (sk st)) as [s|] eqn:Ec.
  - match goal with |- context [wake_commits ?x] => assert (H2 := wake_commits_ninv x); destruct (wake_commits x) end.
    apply H2; [|reflexivity]. unfold NInv. simpl. repeat split; auto; try discriminate.
    + now apply keys_set_nodup.
    + apply keys_set_incl; [|exact self_in]. intros x Hx. apply others_incl. apply (N6 Hp). exact Hx.
    + rewrite lookup_set_same. discriminate.
  - exfalso. revert Ec. apply combine_total. intros p Hpp.
    apply (full_cover (shares st) others); auto. now rewrite others_length.
Qed.

Lemma NInv_init : NInv init.
Proof.
  unfold NInv, init. simpl.
  split; [constructor|]. split; [intros x []|]. split; [constructor|]. split; [intros x []|]. split; [constructor|].
  split; [intros _ x []|]. split; [intros [HH|HH]; discriminate HH|]. split; [intros HH; discriminate HH|discriminate].
Qed.

Lemma step_ninv st e : NInv st -> ev_ok e -> NInv (fst (step st e)).
Proof.
  intros HN Hok. assert (HN' := HN). destruct HN' as (N1 & N2 & N3 & N4 & N5 & N6 & N7 & N8 & N9).
  destruct e as [f v|f c|f [v|]| |]; simpl in *; auto.
  - unfold NInv; simpl. split; [now apply keys_put_nodup|]. split; [now apply keys_put_incl|]. auto 10.
  - unfold NInv; simpl. split; [auto|]. split; [auto|]. split; [now apply keys_put_nodup|].
    split; [now apply keys_put_incl|]. split; [auto|]. split; [auto|]. split; [auto|]. split; [|auto].
    intros Hp. rewrite put_length_present; auto.
    apply (full_cover (commits st) others); auto. rewrite others_length. auto.
  - unfold NInv; simpl. split; [auto|]. split; [auto|]. split; [auto|]. split; [auto|].
    split; [now apply keys_put_nodup|]. split; [intros Hp; apply keys_put_incl; auto|]. split; [|auto].
    intros Hp. destruct (N7 Hp) as [Ha Hs]. split.
    + apply keys_put_incl; auto. now apply others_incl.
    + destruct (lookup (pkeys st) self) eqn:L; [|congruence]. rewrite (lookup_put_some _ f v self v0 L). discriminate.
  - unfold wake. destruct (waiting (ph st)) eqn:Hw; [|exact HN].
    destruct (ctx_done st); [apply NInv_terminal; auto; left; reflexivity|].
    destruct (ph st) eqn:Hp; try discriminate.
    + now apply wake_shares_ninv.
    + now apply wake_commits_ninv.
    + now apply wake_reveals_ninv.
Qed.

Lemma run_ninv st evs : NInv st -> Forall ev_ok evs -> NInv (fst (run st evs)).
Proof.
  revert st. induction evs as [|e evs IH]; intros st HN Hok; simpl; auto.
  inversion Hok; subst. change (NInv (fst (run st (e :: evs)))). rewrite run_cons_fst.
  apply IH; auto. now apply step_ninv.
Qed.

(* No event list whose deliveries come from other session participants drives KeyGen into one of its
   "programming error" panics (nil share, missing commitment, missing public key). *)
Theorem never_panics evs : Forall ev_ok evs -> ph (final evs) <> Panicked.
Proof. intros Hok. apply (run_ninv init evs NInv_init Hok). Qed.

(* ================================================================ what the party broadcasts *)
(* every commitment / key it ever broadcasts is that of its combined secret, which never changes afterwards *)
Definition BInv (st : state) (outs : list output) : Prop :=
  (forall v, In (BcastReveal v) outs -> v = pub (sk st) /\ ph st <> WaitShares) /\
  (forall c, In (BcastCommit c) outs -> c = H (pub (sk st)) /\ ph st <> WaitShares).

Lemma finish_sk st : sk (fst (finish st)) = sk st /\ (ph st <> WaitShares -> ph (fst (finish st)) <> WaitShares).
Proof.
  unfold finish. destruct (validate _ _); simpl; try (split; [reflexivity|intros; discriminate]).
  destruct (key_list _ _); simpl; [|split; [reflexivity|intros; discriminate]].
  destruct (crosscheck l); simpl; split; auto; intros; discriminate.
Qed.

Lemma wake_reveals_sk st : ph st = WaitReveals ->
  sk (fst (wake_reveals st)) = sk st /\ ph (fst (wake_reveals st)) <> WaitShares.
Proof.
  intros Hp. unfold wake_reveals. destruct (_ =? _).
  - destruct (finish_sk st) as [H1 H2]. split; auto. apply H2. congruence.
  - simpl. split; auto. congruence.
Qed.

Lemma wake_commits_sk st : ph st = WaitCommits -> Comb st ->
  sk (fst (wake_commits st)) = sk st /\ ph (fst (wake_commits st)) <> WaitShares /\
  forall o, In o (snd (wake_commits st)) -> o = BcastReveal (pub (sk st)) \/ exists r, o = Return r.
Proof.
  intros Hp [_ Hs]. unfold wake_commits. destruct (_ =? _); [|simpl; repeat split; auto; [congruence|tauto]].
  rewrite Hs. destruct (wake_reveals_sk (set_ph st WaitReveals) eq_refl) as [H1 H2].
  assert (Ho := wake_reveals_outputs (set_ph st WaitReveals)).
  destruct (wake_reveals (set_ph st WaitReveals)) as [st' outs]. simpl in *. repeat split; auto.
  intros o [<-|Hin]; auto.
Qed.

Lemma BInv_same st st' outs new :
  sk st' = sk st -> (ph st <> WaitShares -> ph st' <> WaitShares) ->
  (forall o, In o new -> exists r, o = Return r) ->
  BInv st outs -> BInv st' (outs ++ new).
Proof.
  intros Hs Hp Hn [B1 B2]. split; intros x Hin; apply in_app_or in Hin; destruct Hin as [Hin|Hin].
  - destruct (B1 x Hin). rewrite Hs. auto.
  - destruct (Hn _ Hin) as [r Hr]. discriminate.
  - destruct (B2 x Hin). rewrite Hs. auto.
  - destruct (Hn _ Hin) as [r Hr]. discriminate.
Qed.

Lemma step_binv st e outs : PInv st -> BInv st outs -> BInv (fst (step st e)) (outs ++ snd (step st e)).
Proof.
  intros HP HB.
  destruct e as [f v|f c|f [v|]| |]; simpl; try (rewrite app_nil_r; exact HB).
  unfold wake. destruct (waiting (ph st)) eqn:Hw; [|simpl; rewrite app_nil_r; exact HB].
  destruct (ctx_done st).
  { apply (BInv_same st); auto; simpl; [intros; discriminate|intros o [<-|[]]; eauto]. }
  unfold PInv in HP. destruct (ph st) eqn:Hp; try discriminate.
  - (* WaitShares: nothing was broadcast so far *)
    assert (Hno : forall o, In o outs -> (forall v, o <> BcastReveal v) /\ (forall c, o <> BcastCommit c)).
    { destruct HB as [B1 B2]. intros o Hin. split; intros x ->; [destruct (B1 x Hin)|destruct (B2 x Hin)]; congruence. }
    unfold wake_shares. destruct (_ =? _); [|simpl; rewrite app_nil_r; exact HB].
    destruct (combine (shares st) others (sk st)) as [s|] eqn:Ec.
    + match goal with |- context [wake_commits ?x] =>
        assert (Hc : Comb x) by (split; simpl; [now rewrite <- HP|apply lookup_set_same]);
        destruct (wake_commits_sk x eq_refl Hc) as (H1 & H2 & H3); destruct (wake_commits x) as [st' o'] end.
      simpl in *. split; intros x Hin; apply in_app_or in Hin; destruct Hin as [Hin|Hin].
      * exfalso. destruct (Hno _ Hin) as [Hn _]. apply (Hn x). reflexivity.
      * destruct Hin as [Hin|Hin]; [discriminate|]. destruct (H3 _ Hin) as [[= ->]|[r Hr]]; [|discriminate].
        rewrite H1. auto.
      * exfalso. destruct (Hno _ Hin) as [_ Hn]. apply (Hn x). reflexivity.
      * destruct Hin as [[= <-]|Hin]; [rewrite H1; auto|]. destruct (H3 _ Hin) as [Hr|[r Hr]]; discriminate.
    + simpl. rewrite app_nil_r. destruct HB as [B1 B2].
      split; intros x Hin; exfalso; destruct (Hno _ Hin) as [Hn1 Hn2]; [apply (Hn1 x)|apply (Hn2 x)]; reflexivity.
  - destruct (wake_commits_sk st Hp HP) as (H1 & H2 & H3). destruct HB as [B1 B2].
    split; intros x Hin; apply in_app_or in Hin; destruct Hin as [Hin|Hin].
    + destruct (B1 x Hin). rewrite H1. auto.
    + destruct (H3 _ Hin) as [[= ->]|[r Hr]]; [|discriminate]. rewrite H1. auto.
    + destruct (B2 x Hin). rewrite H1. auto.
    + destruct (H3 _ Hin) as [Hr|[r Hr]]; discriminate.
  - destruct (wake_reveals_sk st Hp) as [H1 H2]. apply (BInv_same st); auto. apply wake_reveals_outputs.
Qed.

Lemma run_binv st evs outs : PInv st -> BInv st outs -> BInv (fst (run st evs)) (outs ++ snd (run st evs)).
Proof.
  revert st outs. induction evs as [|e evs IH]; intros st outs HP HB; simpl; [now rewrite app_nil_r|].
  assert (H1 := step_inv st e HP). assert (H2 := step_binv st e outs HP HB).
  destruct (step st e) as [st1 o1]. simpl in *. specialize (IH st1 (outs ++ o1) H1 H2).
  destruct (run st1 evs) as [st2 o2]. simpl in *. now rewrite app_assoc.
Qed.

(* whatever key (commitment) the party broadcast in a run is the key of (the commitment to) its final secret *)
Theorem broadcasts_own_key evs :
  (forall v, In (BcastReveal v) (outputs evs) -> v = pub (sk (final evs))) /\
  (forall c, In (BcastCommit c) (outputs evs) -> c = H (pub (sk (final evs)))).
Proof.
  assert (HB : BInv init []) by (split; intros x []).
  assert (HP : PInv init) by reflexivity.
  destruct (run_binv init evs [] HP HB) as [B1 B2]. simpl in *.
  split; intros x Hin; [apply (B1 x Hin)|apply (B2 x Hin)].
Qed.

Lemma done_sk evs sk0 pkl tpk : ph (final evs) = Done sk0 pkl tpk -> sk (final evs) = sk0.
Proof.
  intros Hd. assert (HI : PInv (final evs)) by (apply run_inv; reflexivity).
  unfold PInv in HI. rewrite Hd in HI. destruct HI as [_ (H3 & _)]. exact H3.
Qed.

(* ================================================================ completion (for C01: the honest run) *)
Lemma in_lookup {A} (m : list (nat * A)) k v : NoDup (keys m) -> In (k, v) m -> lookup m k = Some v.
Proof.
  induction m as [|[k' v'] m IH]; simpl; intros Hn Hin; [contradiction|]. inversion Hn as [|? ? Hnot Hn']; subst.
  destruct Hin as [[= -> ->]|Hin]; [now rewrite Nat.eqb_refl|].
  destruct (Nat.eqb_spec k' k) as [->|Hne]; [|auto]. exfalso. apply Hnot. apply (in_map fst) in Hin. exact Hin.
Qed.

Lemma validate_ok_intro cm pk :
  (forall p v, In (p, v) pk -> p <> self -> exists c, lookup cm p = Some c /\ C_eqb (H v) c = true) ->
  validate cm pk = VOk.
Proof.
  induction pk as [|[q w] pk IH]; simpl; intros Hall; auto.
  destruct (Nat.eqb_spec q self) as [->|Hq]; [apply IH; intros; eapply Hall; eauto|].
  destruct (Hall q w (or_introl eq_refl) Hq) as [c [-> ->]]. apply IH; intros; eapply Hall; eauto.
Qed.

Lemma cover_length {A} (m : list (nat * A)) (L : list nat) :
  NoDup (keys m) -> incl (keys m) L -> NoDup L -> (forall p, In p L -> lookup m p <> None) -> length m = length L.
Proof.
  intros Hn Hi HL Hall. rewrite <- keys_length. apply Nat.le_antisymm; apply NoDup_incl_length; auto.
  intros p Hp. specialize (Hall p Hp). destruct (lookup m p) eqn:E; [|congruence]. eapply lookup_some_keys; eauto.
Qed.

Lemma others_nodup : NoDup others.
Proof. now apply NoDup_filter. Qed.

Lemma set_length_new {A} (m : list (nat * A)) k v : ~ In k (keys m) -> length (set m k v) = length m + 1.
Proof.
  intros Hk. unfold set. rewrite app_length. simpl. f_equal.
  induction m as [|[k' v'] m IH]; simpl in *; auto.
  destruct (Nat.eqb_spec k' k) as [->|]; [tauto|]. simpl. f_equal. apply IH. tauto.
Qed.

Lemma set_extends_new {A} (m : list (nat * A)) k v : ~ In k (keys m) -> extends m (set m k v).
Proof.
  intros Hk k' x E. destruct (Nat.eq_dec k k') as [->|Hne].
  - apply lookup_some_keys in E. contradiction.
  - now rewrite lookup_set_other.
Qed.

(* the values the party will eventually hold: SH, CM, PK extend every intermediate store *)
Section Completion.
Variables (SH : list (nat * S)) (CM : list (nat * C)) (PK : list (nat * V)).
Hypothesis HS : forall s, combine SH others (dealt self) = Some s -> lookup PK self = Some (pub s).
Hypothesis HV : forall p v c, p <> self -> lookup PK p = Some v -> lookup CM p = Some c -> C_eqb (H v) c = true.
Hypothesis HX : forall l, key_list PK parties = Some l -> crosscheck l = true.

Definition below (st : state) : Prop := extends (shares st) SH /\ extends (commits st) CM /\ extends (pkeys st) PK.

Lemma finish_done st : NInv st -> ph st = WaitReveals -> length (pkeys st) = n -> below st ->
  exists a b c, ph (fst (finish st)) = Done a b c.
Proof.
  intros HN Hp Hl (Es & Ec & Ep). assert (HN' := HN). destruct HN' as (N1 & N2 & N3 & N4 & N5 & N6 & N7 & N8 & N9).
  destruct (N7 (or_intror Hp)) as [N7a N7b]. assert (Hc : length (commits st) = n - 1) by auto.
  unfold finish. rewrite validate_ok_intro.
  - destruct (key_list (pkeys st) parties) as [l|] eqn:K.
    + rewrite (HX l) by (eapply key_list_extends; eauto). simpl. eauto.
    + exfalso. revert K. apply key_list_total. intros p Hpp. apply (full_cover (pkeys st) parties); auto.
  - intros p v Hin Hne. assert (Lp : lookup (pkeys st) p = Some v) by (apply in_lookup; auto).
    assert (Ho : In p others).
    { apply others_spec. split; [|assumption]. apply N7a. eapply lookup_some_keys; eauto. }
    destruct (lookup (commits st) p) as [c|] eqn:Lc.
    + exists c. split; auto. eapply HV; eauto.
    + exfalso. revert Lc. apply (full_cover (commits st) others); auto. now rewrite others_length.
Qed.

Lemma wake_reveals_done st : NInv st -> ph st = WaitReveals -> below st ->
  (forall p, In p parties -> lookup (pkeys st) p <> None) -> exists a b c, ph (fst (wake_reveals st)) = Done a b c.
Proof.
  intros HN Hp Hb Hall. destruct HN as (N1 & N2 & N3 & N4 & N5 & N6 & N7 & N8 & N9) eqn:HNe.
  destruct (N7 (or_intror Hp)) as [N7a N7b].
  assert (Hl : length (pkeys st) = n) by (apply cover_length; auto).
  unfold wake_reveals. rewrite Hl, Nat.eqb_refl. apply finish_done; auto.
Qed.

Lemma wake_commits_done st : NInv st -> ph st = WaitCommits -> below st -> length (commits st) = n - 1 ->
  (forall p, In p parties -> lookup (pkeys st) p <> None) -> exists a b c, ph (fst (wake_commits st)) = Done a b c.
Proof.
  intros HN Hp Hb Hc Hall. unfold wake_commits. rewrite Hc, Nat.eqb_refl.
  destruct (lookup (pkeys st) self) eqn:L; [|exfalso; apply (Hall self); auto].
  assert (H1 : NInv (set_ph st WaitReveals)) by (apply NInv_to_reveals; auto).
  destruct (wake_reveals_done (set_ph st WaitReveals) H1 eq_refl Hb Hall) as (a & b & c & Hd).
  destruct (wake_reveals (set_ph st WaitReveals)). simpl in *. eauto.
Qed.

Lemma wake_shares_done st : NInv st -> sk st = dealt self -> ph st = WaitShares -> below st ->
  length (shares st) = n - 1 -> length (commits st) = n - 1 ->
  (forall p, In p others -> lookup (pkeys st) p <> None) -> exists a b c, ph (fst (wake_shares st)) = Done a b c.
Proof.
  intros HN Hs Hp (Es & Ec & Ep) Hls Hlc Hall. assert (HN' := HN).
  destruct HN' as (N1 & N2 & N3 & N4 & N5 & N6 & N7 & N8 & N9).
  unfold wake_shares. rewrite Hls, Nat.eqb_refl.
  destruct (combine (shares st) others (sk st)) as [s|] eqn:Ecomb.
  - assert (Hself : ~ In self (keys (pkeys st))).
    { intros Hin. apply (N6 Hp) in Hin. apply others_spec in Hin. tauto. }
    assert (HPK : lookup PK self = Some (pub s)).
    { apply HS. rewrite <- Hs. eapply combine_extends; eauto. }
    match goal with |- context [wake_commits ?x] => assert (H2 := wake_commits_done x); destruct (wake_commits x) end.
    apply H2; auto.
    + unfold NInv. simpl. repeat split; auto; try discriminate.
      * now apply keys_set_nodup.
      * apply keys_set_incl; [|exact self_in]. intros x Hx. apply others_incl. apply (N6 Hp). exact Hx.
      * rewrite lookup_set_same. discriminate.
    + split; [exact Es|]. split; [exact Ec|]. simpl. intros k v E.
      destruct (Nat.eq_dec self k) as [<-|Hne]; [rewrite lookup_set_same in E; congruence|].
      rewrite lookup_set_other in E by assumption. auto.
    + simpl. intros p Hpp. destruct (Nat.eq_dec self p) as [<-|Hne]; [rewrite lookup_set_same; discriminate|].
      rewrite lookup_set_other by assumption. apply Hall. apply others_spec. split; auto.
  - exfalso. revert Ecomb. apply combine_total. intros p Hpp.
    apply (full_cover (shares st) others); auto. now rewrite others_length.
Qed.

Lemma finish_pkeys st : pkeys (fst (finish st)) = pkeys st.
Proof.
  unfold finish. destruct (validate (commits st) (pkeys st)); try reflexivity.
  destruct (key_list (pkeys st) parties) as [l|]; try reflexivity. destruct (crosscheck l); reflexivity.
Qed.
Lemma wake_reveals_pkeys st : pkeys (fst (wake_reveals st)) = pkeys st.
Proof. unfold wake_reveals. destruct (_ =? _); [apply finish_pkeys|reflexivity]. Qed.
Lemma wake_commits_pkeys st : pkeys (fst (wake_commits st)) = pkeys st.
Proof.
  unfold wake_commits. destruct (_ =? _); auto. destruct (lookup (pkeys st) self); auto.
  assert (Hs := wake_reveals_pkeys (set_ph st WaitReveals)). destruct (wake_reveals (set_ph st WaitReveals)). exact Hs.
Qed.

Lemma wake_pkeys st : pkeys (fst (wake st)) = pkeys st \/
  (ph st = WaitShares /\ exists v, pkeys (fst (wake st)) = set (pkeys st) self v).
Proof.
  unfold wake. destruct (waiting (ph st)); auto. destruct (ctx_done st); auto.
  destruct (ph st) eqn:Hp; auto.
  - unfold wake_shares. destruct (_ =? _); auto. destruct (combine (shares st) others (sk st)); auto. right. split; auto.
    match goal with |- context [wake_commits ?x] => assert (Hs := wake_commits_pkeys x); destruct (wake_commits x) end.
    simpl in *. eauto.
  - left. apply wake_commits_pkeys.
  - left. apply wake_reveals_pkeys.
Qed.

Lemma step_extends st e : NInv st -> ev_ok e ->
  extends (shares st) (shares (fst (step st e))) /\ extends (commits st) (commits (fst (step st e))) /\
  extends (pkeys st) (pkeys (fst (step st e))).
Proof.
  intros HN Hok. destruct e as [f v|f c|f [v|]| |]; simpl; auto using extends_refl, extends_put.
  destruct (wake_same st) as (W1 & W2 & _). rewrite W1, W2. repeat split; auto using extends_refl.
  destruct (wake_pkeys st) as [->|[Hp [v ->]]]; [apply extends_refl|].
  apply set_extends_new. destruct HN as (_ & _ & _ & _ & _ & N6 & _).
  intros Hin. apply (N6 Hp) in Hin. apply others_spec in Hin. tauto.
Qed.

Lemma run_extends st evs : NInv st -> Forall ev_ok evs ->
  extends (shares st) (shares (fst (run st evs))) /\ extends (commits st) (commits (fst (run st evs))) /\
  extends (pkeys st) (pkeys (fst (run st evs))).
Proof.
  revert st. induction evs as [|e evs IH]; intros st HN Hok; [simpl; auto using extends_refl|].
  inversion Hok; subst. rewrite run_cons_fst.
  destruct (step_extends st e HN) as (E1 & E2 & E3); auto.
  destruct (IH (fst (step st e))) as (F1 & F2 & F3); auto using step_ninv.
  repeat split; eapply extends_trans; eauto.
Qed.

Lemma done_absorbing st e a b c : ph st = Done a b c -> ph (fst (step st e)) = Done a b c.
Proof.
  intros Hd. destruct e as [f v|f x|f [v|]| |]; simpl; auto. unfold wake. now rewrite Hd.
Qed.

Lemma run_done_absorbing st evs a b c : ph st = Done a b c -> ph (fst (run st evs)) = Done a b c.
Proof.
  revert st. induction evs as [|e evs IH]; intros st Hd; auto. rewrite run_cons_fst. apply IH. now apply done_absorbing.
Qed.

Lemma wake_reveals_nf st : NInv st -> ph st = WaitReveals -> below st -> ph (fst (wake_reveals st)) <> Failed.
Proof.
  intros HN Hp Hb. unfold wake_reveals. destruct (Nat.eqb_spec (length (pkeys st)) n) as [E|E].
  - destruct (finish_done st HN Hp E Hb) as (a & b & c & ->). discriminate.
  - simpl. congruence.
Qed.

Lemma wake_commits_nf st : NInv st -> ph st = WaitCommits -> below st -> ph (fst (wake_commits st)) <> Failed.
Proof.
  intros HN Hp Hb. unfold wake_commits. destruct (Nat.eqb_spec (length (commits st)) (n - 1)) as [E|E]; [|simpl; congruence].
  destruct (lookup (pkeys st) self) eqn:L; [|simpl; discriminate].
  assert (H1 : NInv (set_ph st WaitReveals)) by (apply NInv_to_reveals; auto).
  assert (H2 := wake_reveals_nf (set_ph st WaitReveals) H1 eq_refl Hb).
  destruct (wake_reveals (set_ph st WaitReveals)). exact H2.
Qed.

Lemma after_combine st s : NInv st -> sk st = dealt self -> ph st = WaitShares -> below st ->
  combine (shares st) others (sk st) = Some s ->
  let st1 := mkState (shares st) (commits st) (set (pkeys st) self (pub s)) s WaitCommits (ctx_done st) in
  NInv st1 /\ below st1.
Proof.
  intros HN Hs Hp (Es & Ec & Ep) Ecomb. destruct HN as (N1 & N2 & N3 & N4 & N5 & N6 & N7 & N8 & N9).
  assert (HPK : lookup PK self = Some (pub s)).
  { apply HS. rewrite <- Hs. eapply combine_extends; eauto. }
  split.
  - unfold NInv. simpl. repeat split; auto; try discriminate.
    + now apply keys_set_nodup.
    + apply keys_set_incl; [|exact self_in]. intros x Hx. apply others_incl. apply (N6 Hp). exact Hx.
    + rewrite lookup_set_same. discriminate.
  - split; [exact Es|]. split; [exact Ec|]. simpl. intros k v E.
    destruct (Nat.eq_dec self k) as [<-|Hne]; [rewrite lookup_set_same in E; congruence|].
    rewrite lookup_set_other in E by assumption. auto.
Qed.

Lemma wake_shares_nf st : NInv st -> sk st = dealt self -> ph st = WaitShares -> below st ->
  ph (fst (wake_shares st)) <> Failed.
Proof.
  intros HN Hs Hp Hb. unfold wake_shares. destruct (_ =? _); [|simpl; congruence].
  destruct (combine (shares st) others (sk st)) as [s|] eqn:Ecomb; [|simpl; discriminate].
  destruct (after_combine st s HN Hs Hp Hb Ecomb) as [H1 H2].
  match goal with |- context [wake_commits ?x] => assert (H3 := wake_commits_nf x H1 eq_refl H2); destruct (wake_commits x) end.
  exact H3.
Qed.

Lemma finish_ctx st : ctx_done (fst (finish st)) = ctx_done st.
Proof.
  unfold finish. destruct (validate (commits st) (pkeys st)); try reflexivity.
  destruct (key_list (pkeys st) parties) as [l|]; try reflexivity. destruct (crosscheck l); reflexivity.
Qed.
Lemma wake_reveals_ctx st : ctx_done (fst (wake_reveals st)) = ctx_done st.
Proof. unfold wake_reveals. destruct (_ =? _); [apply finish_ctx|reflexivity]. Qed.
Lemma wake_commits_ctx st : ctx_done (fst (wake_commits st)) = ctx_done st.
Proof.
  unfold wake_commits. destruct (_ =? _); auto. destruct (lookup (pkeys st) self); auto.
  assert (Hs := wake_reveals_ctx (set_ph st WaitReveals)). destruct (wake_reveals (set_ph st WaitReveals)). exact Hs.
Qed.
Lemma wake_ctx st : ctx_done (fst (wake st)) = ctx_done st.
Proof.
  unfold wake. destruct (waiting (ph st)); auto. destruct (ctx_done st) eqn:Hc; auto.
  destruct (ph st); auto.
  - unfold wake_shares. destruct (_ =? _); auto. destruct (combine (shares st) others (sk st)); auto.
    match goal with |- context [wake_commits ?x] => assert (Hs := wake_commits_ctx x); destruct (wake_commits x) end.
    simpl in *. congruence.
  - rewrite wake_commits_ctx. exact Hc.
  - rewrite wake_reveals_ctx. exact Hc.
Qed.

Lemma step_nf st e : NInv st -> PInv st -> ctx_done st = false -> ph st <> Failed -> below st ->
  e <> CtxDone -> ctx_done (fst (step st e)) = false /\ ph (fst (step st e)) <> Failed.
Proof.
  intros HN HP Hc Hf Hb He. destruct e as [f v|f c|f [v|]| |]; simpl; auto; [|congruence].
  split; [now rewrite wake_ctx|]. unfold wake. destruct (waiting (ph st)) eqn:Hw; [|auto]. rewrite Hc.
  unfold PInv in HP. destruct (ph st) eqn:Hp; try discriminate.
  - now apply wake_shares_nf.
  - now apply wake_commits_nf.
  - now apply wake_reveals_nf.
Qed.

Definition no_ctx (evs : list event) : Prop := Forall (fun e => e <> CtxDone) evs.

Lemma below_trans st st' : extends (shares st) (shares st') -> extends (commits st) (commits st') ->
  extends (pkeys st) (pkeys st') -> below st' -> below st.
Proof. intros E1 E2 E3 (B1 & B2 & B3). repeat split; eapply extends_trans; eauto. Qed.

Lemma run_good evs : forall st, NInv st -> PInv st -> ctx_done st = false -> ph st <> Failed ->
  Forall ev_ok evs -> no_ctx evs -> below (fst (run st evs)) ->
  NInv (fst (run st evs)) /\ PInv (fst (run st evs)) /\ ctx_done (fst (run st evs)) = false /\
  ph (fst (run st evs)) <> Failed.
Proof.
  induction evs as [|e evs IH]; intros st HN HP Hc Hf Hok Hnc Hb; [simpl; auto|].
  inversion Hok; subst. inversion Hnc; subst. rewrite run_cons_fst in *.
  assert (Hbst : below st).
  { destruct (run_extends st (e :: evs) HN Hok) as (E1 & E2 & E3). rewrite run_cons_fst in *.
    eapply below_trans; eauto. }
  destruct (step_nf st e HN HP Hc Hf Hbst) as [Hc' Hf']; auto.
  apply IH; auto using step_ninv, step_inv.
Qed.

Lemma wake_done st : NInv st -> PInv st -> ctx_done st = false -> ph st <> Failed -> below st ->
  length (shares st) = n - 1 -> length (commits st) = n - 1 ->
  (forall p, In p others -> lookup (pkeys st) p <> None) -> exists a b c, ph (fst (wake st)) = Done a b c.
Proof.
  intros HN HP Hc Hf Hb Hls Hlc Hall. assert (HN' := HN). destruct HN' as (N1 & N2 & N3 & N4 & N5 & N6 & N7 & N8 & N9).
  assert (Hpar : ph st = WaitCommits \/ ph st = WaitReveals -> forall p, In p parties -> lookup (pkeys st) p <> None).
  { intros Hp p Hpp. destruct (N7 Hp) as [_ Hs]. destruct (Nat.eq_dec p self) as [->|Hne]; auto.
    apply Hall. apply others_spec. auto. }
  unfold wake. rewrite Hc. unfold PInv in HP. destruct (ph st) eqn:Hp; simpl; eauto; try congruence.
  - now apply wake_shares_done.
  - apply wake_commits_done; auto.
  - apply wake_reveals_done; auto.
Qed.

(* A party that is never cancelled, hears only from the other participants, and is woken once after it holds a share,
   a commitment and a key of every other participant, returns Ok -- provided the commitments match the keys and the
   cross-check accepts the key list (HV, HX: discharged for honest peers in DKGSystem / DKGAlg). *)
Theorem completes a b : Forall ev_ok (a ++ Wake :: b) -> no_ctx (a ++ Wake :: b) -> below (final (a ++ Wake :: b)) ->
  length (shares (final a)) = n - 1 -> length (commits (final a)) = n - 1 ->
  (forall p, In p others -> lookup (pkeys (final a)) p <> None) ->
  exists s l t, ph (final (a ++ Wake :: b)) = Done s l t.
Proof.
  intros Hok Hnc Hb Hls Hlc Hall. unfold final in *. rewrite run_app in *. cbn [fst] in *.
  apply Forall_app in Hok. destruct Hok as [Hoka Hokb]. apply Forall_app in Hnc. destruct Hnc as [Hnca Hncb].
  set (sa := fst (run init a)) in *.
  assert (HNa : NInv sa) by (apply run_ninv; auto using NInv_init).
  assert (Hba : below sa).
  { destruct (run_extends sa (Wake :: b) HNa Hokb) as (E1 & E2 & E3). eapply below_trans; eauto. }
  destruct (run_good a init NInv_init) as (G1 & G2 & G3 & G4); auto; try reflexivity; try discriminate.
  fold sa in G1, G2, G3, G4.
  destruct (wake_done sa G1 G2 G3 G4 Hba Hls Hlc Hall) as (s & l & t & Hd).
  exists s, l, t. rewrite run_cons_fst. apply run_done_absorbing. exact Hd.
Qed.

End Completion.

(* ================================================================ what has been broadcast by which phase *)
Definition past_shares (p : phase) : Prop := p <> WaitShares.
Definition past_commits (p : phase) : Prop := p <> WaitShares /\ p <> WaitCommits.

Definition EInv (st : state) (outs : list output) : Prop :=
  (past_shares (ph st) -> exists c, In (BcastCommit c) outs) /\
  (past_commits (ph st) -> exists v, In (BcastReveal v) outs).

Lemma wake_reveals_phase st : ph st = WaitReveals -> past_commits (ph (fst (wake_reveals st))).
Proof.
  intros Hp. unfold wake_reveals. destruct (_ =? _); [|simpl; rewrite Hp; split; discriminate].
  unfold finish. destruct (validate (commits st) (pkeys st)); simpl; try (split; discriminate).
  destruct (key_list (pkeys st) parties) as [l|]; simpl; try (split; discriminate).
  destruct (crosscheck l); simpl; split; discriminate.
Qed.

Lemma wake_commits_emits st : ph st = WaitCommits -> lookup (pkeys st) self <> None ->
  (ph (fst (wake_commits st)) = WaitCommits /\ length (commits st) <> n - 1) \/
  (past_commits (ph (fst (wake_commits st))) /\ exists v, In (BcastReveal v) (snd (wake_commits st))).
Proof.
  intros Hp Hs. unfold wake_commits. destruct (Nat.eqb_spec (length (commits st)) (n - 1)) as [E|E]; [|left; auto].
  destruct (lookup (pkeys st) self) as [pk|]; [|congruence]. right.
  assert (H1 := wake_reveals_phase (set_ph st WaitReveals) eq_refl).
  destruct (wake_reveals (set_ph st WaitReveals)) as [st' o]. simpl in *. split; eauto.
Qed.

Lemma step_einv st e outs : NInv st -> ctx_done st = false -> EInv st outs ->
  EInv (fst (step st e)) (outs ++ snd (step st e)).
Proof.
  intros HN Hc [E1 E2].
  assert (Hkeep : forall st', ph st' = ph st -> EInv st' (outs ++ [])).
  { intros st' Hp. rewrite app_nil_r. split; rewrite Hp; auto. }
  destruct e as [f v|f c|f [v|]| |]; simpl; try (apply Hkeep; reflexivity).
  unfold wake. destruct (waiting (ph st)) eqn:Hw; [|apply Hkeep; reflexivity]. rewrite Hc.
  destruct HN as (N1 & N2 & N3 & N4 & N5 & N6 & N7 & N8 & N9).
  destruct (ph st) eqn:Hp; try discriminate.
  - unfold wake_shares. destruct (Nat.eqb_spec (length (shares st)) (n - 1)) as [El|El]; [|apply Hkeep; simpl; auto].
    destruct (combine (shares st) others (sk st)) as [s|] eqn:Ecomb.
    + match goal with |- context [wake_commits ?x] =>
        destruct (wake_commits_emits x eq_refl) as [[H1 _]|[H1 [v Hv]]];
          [simpl; rewrite lookup_set_same; discriminate| |]; destruct (wake_commits x) as [st' o] end; simpl in *.
      * split; [intros _; exists (H (pub s)); apply in_or_app; right; left; reflexivity|].
        intros [_ Hx]. congruence.
      * split; [intros _; exists (H (pub s)); apply in_or_app; right; left; reflexivity|].
        intros _. exists v. apply in_or_app. right. right. exact Hv.
    + exfalso. revert Ecomb. apply combine_total. intros p Hpp.
      apply (full_cover (shares st) others); auto. now rewrite others_length.
  - destruct (N7 (or_introl eq_refl)) as [_ Hs].
    destruct (wake_commits_emits st Hp Hs) as [[H1 _]|[H1 [v Hv]]]; destruct (wake_commits st) as [st' o]; simpl in *.
    + split; [intros _; destruct E1 as [c Hc']; [unfold past_shares; congruence|exists c; apply in_or_app; auto]|].
      intros [_ Hx]. congruence.
    + split; [intros _; destruct E1 as [c Hc']; [unfold past_shares; congruence|exists c; apply in_or_app; auto]|].
      intros _. exists v. apply in_or_app. auto.
  - assert (H1 := wake_reveals_phase st Hp). destruct (wake_reveals st) as [st' o]. simpl in *.
    assert (P1 : past_shares WaitReveals) by (unfold past_shares; discriminate).
    assert (P2 : past_commits WaitReveals) by (split; discriminate).
    destruct (E1 P1) as [c Hc']. destruct (E2 P2) as [v Hv].
    split; intros _; [exists c|exists v]; apply in_or_app; auto.
Qed.

Lemma run_einv st evs outs : NInv st -> ctx_done st = false -> Forall ev_ok evs -> no_ctx evs -> EInv st outs ->
  EInv (fst (run st evs)) (outs ++ snd (run st evs)).
Proof.
  revert st outs. induction evs as [|e evs IH]; intros st outs HN Hc Hok Hnc HE; simpl; [now rewrite app_nil_r|].
  inversion Hok as [|? ? Oe Oevs]; subst. inversion Hnc as [|? ? Ce Cevs]; subst.
  assert (G1 := step_ninv st e HN Oe). assert (G2 := step_einv st e outs HN Hc HE).
  assert (G3 : ctx_done (fst (step st e)) = false).
  { destruct e as [f v|f c|f [v|]| |]; simpl; auto; [now rewrite wake_ctx|congruence]. }
  destruct (step st e) as [st1 o1]. simpl in *. specialize (IH st1 (outs ++ o1) G1 G3 Oevs Cevs G2).
  destruct (run st1 evs) as [st2 o2]. simpl in *. now rewrite app_assoc.
Qed.


Lemma wake_commits_phase st : ph st = WaitCommits -> past_shares (ph (fst (wake_commits st))).
Proof.
  intros Hp. unfold wake_commits, past_shares. destruct (_ =? _); [|simpl; congruence].
  destruct (lookup (pkeys st) self); [|simpl; discriminate].
  assert (H1 := wake_reveals_phase (set_ph st WaitReveals) eq_refl).
  destruct (wake_reveals (set_ph st WaitReveals)). simpl in *. apply H1.
Qed.

Lemma step_past st e :
  (past_shares (ph st) -> past_shares (ph (fst (step st e)))) /\
  (past_commits (ph st) -> past_commits (ph (fst (step st e)))).
Proof.
  destruct e as [f v|f c|f [v|]| |]; simpl; auto.
  unfold wake. destruct (waiting (ph st)) eqn:Hw; auto.
  destruct (ctx_done st); [split; intros _; simpl; [discriminate|split; discriminate]|].
  destruct (ph st) eqn:Hp; try discriminate.
  - split; [intros Hx; exfalso; apply Hx; reflexivity|intros [Hx _]; exfalso; apply Hx; reflexivity].
  - split; [intros _; now apply wake_commits_phase|intros [_ Hx]; exfalso; apply Hx; reflexivity].
  - split; intros _; [apply (wake_reveals_phase st Hp)|apply (wake_reveals_phase st Hp)].
Qed.

Lemma run_past st evs :
  (past_shares (ph st) -> past_shares (ph (fst (run st evs)))) /\
  (past_commits (ph st) -> past_commits (ph (fst (run st evs)))).
Proof.
  revert st. induction evs as [|e evs IH]; intros st; [simpl; auto|]. rewrite run_cons_fst.
  destruct (step_past st e) as [S1 S2]. destruct (IH (fst (step st e))) as [I1 I2]. auto.
Qed.

Lemma EInv_init : EInv init [].
Proof. split; [intros Hx; exfalso; apply Hx; reflexivity|intros [Hx _]; exfalso; apply Hx; reflexivity]. Qed.

(* a party that is never cancelled and is woken once while holding all shares has broadcast its commitment;
   if it also held all commitments at that moment it has broadcast its key *)
Theorem emits_commit a b : Forall ev_ok (a ++ Wake :: b) -> no_ctx (a ++ Wake :: b) ->
  length (shares (final a)) = n - 1 -> exists c, In (BcastCommit c) (outputs (a ++ Wake :: b)).
Proof.
  intros Hok Hnc Hls.
  destruct (run_einv init (a ++ Wake :: b) [] NInv_init eq_refl Hok Hnc EInv_init) as [E1 _]. apply E1.
  unfold final in *. rewrite run_app. cbn [fst]. apply Forall_app in Hok. destruct Hok as [Hoka _].
  set (sa := fst (run init a)) in *. rewrite run_cons_fst.
  destruct (run_past (fst (step sa Wake)) b) as [R1 _]. apply R1. clear R1.
  assert (HN : NInv sa) by (apply run_ninv; auto using NInv_init).
  simpl. unfold wake, past_shares. destruct (waiting (ph sa)) eqn:Hw; [|simpl; destruct (ph sa); try discriminate].
  unfold past_shares in *.
  destruct (ctx_done sa); [simpl; discriminate|].
  destruct (ph sa) eqn:Hp; try discriminate.
  - unfold wake_shares. rewrite Hls, Nat.eqb_refl.
    destruct (combine (shares sa) others (sk sa)); [|simpl; discriminate].
    match goal with |- context [wake_commits ?x] => assert (H1 := wake_commits_phase x eq_refl); destruct (wake_commits x) end.
    exact H1.
  - now apply wake_commits_phase.
  - apply (wake_reveals_phase sa Hp).
Qed.

Theorem emits_reveal a b : Forall ev_ok (a ++ Wake :: b) -> no_ctx (a ++ Wake :: b) ->
  length (shares (final a)) = n - 1 -> length (commits (final a)) = n - 1 ->
  exists v, In (BcastReveal v) (outputs (a ++ Wake :: b)).
Proof.
  intros Hok Hnc Hls Hlc.
  destruct (run_einv init (a ++ Wake :: b) [] NInv_init eq_refl Hok Hnc EInv_init) as [_ E2]. apply E2.
  unfold final in *. rewrite run_app. cbn [fst]. apply Forall_app in Hok. destruct Hok as [Hoka _].
  set (sa := fst (run init a)) in *. rewrite run_cons_fst.
  destruct (run_past (fst (step sa Wake)) b) as [_ R2]. apply R2. clear R2.
  assert (HN : NInv sa) by (apply run_ninv; auto using NInv_init).
  assert (Hc : ctx_done sa = false).
  { apply Forall_app in Hnc. destruct Hnc as [Hnca _]. clear -Hnca. unfold sa.
    assert (G : forall evs st, no_ctx evs -> ctx_done st = false -> ctx_done (fst (run st evs)) = false).
    { induction evs as [|e evs IH]; intros st Hn Hc0; auto. inversion Hn; subst. rewrite run_cons_fst. apply IH; auto.
      destruct e as [f v|f c|f [v|]| |]; simpl; auto; [now rewrite wake_ctx|congruence]. }
    apply G; auto. }
  destruct HN as (N1 & N2 & N3 & N4 & N5 & N6 & N7 & N8 & N9).
  simpl. unfold wake. rewrite Hc. destruct (waiting (ph sa)) eqn:Hw.
  - destruct (ph sa) eqn:Hp; try discriminate.
    + unfold wake_shares. rewrite Hls, Nat.eqb_refl.
      destruct (combine (shares sa) others (sk sa)) as [s|] eqn:Ecomb.
      * match goal with |- context [wake_commits ?x] =>
          destruct (wake_commits_emits x eq_refl) as [[_ H1]|[H1 _]];
            [simpl; rewrite lookup_set_same; discriminate|simpl in H1; congruence|]; destruct (wake_commits x) end.
        exact H1.
      * exfalso. revert Ecomb. apply combine_total. intros p Hpp.
        apply (full_cover (shares sa) others); auto. now rewrite others_length.
    + destruct (N7 (or_introl eq_refl)) as [_ Hs].
      destruct (wake_commits_emits sa Hp Hs) as [[_ H1]|[H1 _]]; [congruence|exact H1].
    + apply (wake_reveals_phase sa Hp).
  - simpl. destruct (ph sa); try discriminate; split; discriminate.
Qed.

(* ---------------------------------------------------------------- consequences used by the system-level proofs *)
Lemma run_no_ctx evs : forall st, no_ctx evs -> ctx_done st = false -> ctx_done (fst (run st evs)) = false.
Proof.
  induction evs as [|e evs IH]; intros st Hn Hc0; auto. inversion Hn; subst. rewrite run_cons_fst. apply IH; auto.
  destruct e as [f v|f c|f [v|]| |]; simpl; auto; [now rewrite wake_ctx|congruence].
Qed.

Theorem commit_past_shares evs c : In (BcastCommit c) (outputs evs) -> ph (final evs) <> WaitShares.
Proof.
  assert (HB : BInv init []) by (split; intros x []).
  assert (HP : PInv init) by reflexivity.
  destruct (run_binv init evs [] HP HB) as [_ B2]. simpl in *. intros Hin. apply (B2 c Hin).
Qed.

(* after combineShares, and unless cancelled: the secret is the own dealt share plus the stored shares, the own key is stored *)
Theorem final_comb evs : Forall ev_ok evs -> no_ctx evs -> ph (final evs) <> WaitShares -> Comb (final evs).
Proof.
  intros Hok Hnc Hp. assert (HI : PInv (final evs)) by (apply run_inv; reflexivity).
  assert (HN := never_panics evs Hok). assert (Hc := run_no_ctx evs init Hnc eq_refl). fold (final evs) in Hc.
  unfold PInv in HI. destruct (ph (final evs)); try congruence; try tauto.
  destruct HI as [HI|HI]; [congruence|exact HI].
Qed.

End DKG.

Arguments ROk {S V}. Arguments RErr {S V}.
Arguments WaitShares {S V}. Arguments WaitCommits {S V}. Arguments WaitReveals {S V}. Arguments Done {S V}.
Arguments Failed {S V}. Arguments Panicked {S V}.
Arguments DeliverShare {S V C}. Arguments DeliverCommit {S V C}. Arguments DeliverReveal {S V C}.
Arguments Wake {S V C}. Arguments CtxDone {S V C}.
Arguments SendShare {S V C}. Arguments BcastCommit {S V C}. Arguments BcastReveal {S V C}. Arguments Return {S V C}.
