#!/usr/bin/env python3
"""gen_lockset.py <repo> <gendir>

Translator for property C20 (lock discipline).  Runs the Go helper tools/lockset (go/ast + go/types, standard library
only) over the packages of the files below and writes

  <gendir>/Lockset.v        `accesses : list access` -- one entry per (field, read/write, locks held, function, set-up?) --
                            and `translator_ok : bool` (false, with the reasons as a comment, when a construct was not
                            understood: nothing is skipped silently);
  <gendir>/LocksetKnown.v   `known : list (string * string)` = (field, function) sites of the `known: property=C20` lines of
                            KNOWN_FINDINGS.txt, removed from the table by `remove_known` in Props/C20.v.

It is run before every Coq build (vlib.regen).  Files are rewritten only when their content changes.

The JUDGEMENTS the table rests on are listed in `judgements()` below and printed into the generated file and the evidence.
"""
import hashlib, json, os, re, subprocess, sys

HERE = os.path.dirname(os.path.abspath(__file__))
VERIF = os.path.dirname(HERE)
FILES = ["threshold/threshold.go", "mpc/bls/mpc.go", "mpc/ps/tps.go", "msg/msgbox.go", "disc/discovery.go", "disc/silent.go",
         "rbc/rbc.go"]
GOENV = dict(os.environ, GOFLAGS="-mod=mod", GOPROXY="off", GOSUMDB="off", GOTOOLCHAIN="local")

# mpc instances: methods driven by the one session goroutine of the instance (J-session)
SESSION = {"bls.TBLS": ["Init", "KeyGen", "Sign", "SetShareData", "ThresholdPK"],
           "ps.TPS": ["Init", "KeyGen", "Sign", "SetShareData", "ThresholdPK"]}
# set-up methods: run before the object can be reached by another goroutine (J-init)
INIT = ["bls.TBLS.Init", "ps.TPS.Init"]
# objects that are only ever entered through a wrapper installed by threshold.Scheme.setup (J-wrapper)
WRAPPED = {"rbc.Receiver.Receive": ("threshold.threadSafeRBC", "h", "threshold.Scheme.RBF"),
           "discovery.Member.HandleMessage": ("threshold.threadSafeSync", "Synchronizer", "threshold.Scheme.SyncFactory"),
           "discovery.SilentSynchronizer.HandleMessage": ("threshold.threadSafeSync", "Synchronizer", "threshold.Scheme.SyncFactory")}


def judgements():
    return [
        "J-fields: locations are the fields of the structs declared in %s; a write to what a field contains (map entry, "
        "element, nested value reached by indexing/selection) counts as a write of the field; slices/maps/pointers copied "
        "out of a critical section are not followed" % ", ".join(FILES),
        "J-object: a lock reached through an expression B guards a field reached through B or through a path that starts "
        "with B (B.f[k].g: a sub-object owned by B), in the same function or in a method called on B with that lock held; "
        "locks of other objects are not counted",
        "J-sync: sync/atomic operations on a field, methods of a sync.Map field and of a sync.Cond field are synchronised "
        "(modelled as an exclusive pseudo-lock per field); channel operations only read the field holding the channel",
        "J-fresh: writes through a local variable initialised in the same function by T{..}, &T{..}, new(T) or `var x T`, "
        "and the fields of a composite literal, are set-up accesses (the object is published afterwards)",
        "J-init: %s are set-up functions: the caller (threshold initializeDKG / initializeThresholdSigning) runs them "
        "before the instance is registered for dispatch" % ", ".join(INIT),
        "J-once: the body of x.once.Do(..) (and functions only it calls) is set-up for a field exactly when every other "
        "access of that field lies behind a call of that Do (directly, through a wrapper method, or in every caller); "
        "otherwise its accesses are ordinary accesses",
        "J-session: %s of one mpc instance are called from one goroutine at a time (threshold creates the instance per "
        "session and drives it from the session goroutine): modelled as an exclusive pseudo-lock `<type>#session`; "
        "OnMsg / ClassifyMsg and every goroutine or stored closure they start do not hold it"
        % "; ".join("%s.{%s}" % (t, ",".join(ms)) for t, ms in sorted(SESSION.items())),
        "J-wrapper: %s are entered only through threshold.threadSafeRBC.Receive / threadSafeSync.HandleMessage, one "
        "wrapper per wrapped object; granted only while the translator finds (a) the wrapper method calling its target "
        "under its own exclusive lock, (b) Scheme.setup assigning to RBF / SyncFactory a function literal that builds the "
        "wrapper, (c) no other assignment of these fields outside constructors" % ", ".join(sorted(WRAPPED)),
        "J-payload (checked, not assumed): a value with hidden mutable state stored in a struct field, a composite literal field or "
        "a sync.Map field of these structs makes every retrieval (plain read of the field; Load, LoadOrStore, Range, Swap, "
        "CompareAndSwap, LoadAndDelete of the sync.Map) a WRITE of the extra location <field>@payload under the real locks held "
        "there (the pseudo-lock of the container does not count), so all users need one common lock.  Recognised as stateful: a "
        "function literal that assigns a captured variable of its enclosing function or captures a variable whose type is one "
        "of a fixed list of standard-library types not safe for concurrent use (hash.Hash/Hash32/Hash64 incl. hmac, "
        "cipher.Stream/BlockMode, bytes.Buffer/Reader, strings.Builder/Reader, math/rand.Rand/Source, bufio.*, json/gob "
        "encoders and decoders, tabwriter, gzip); the result of a function or method of the package that returns such a "
        "literal; a local variable bound to one of these; any expression whose static type is in the list.  Methods called on a "
        "field whose type is in the list are writes of the field.  Standard-library types come from go/importer \"source\"",
        "J-callback (assumed): every other function value or interface value kept in a field (configuration callbacks such as "
        "Send, RBF, SyncFactory, Logger, sendMsg, ForwardToBackend; method values; literals that only read what they capture; "
        "values that reach a field through parameters, other functions, struct wrappers, slices or channels) is assumed to be "
        "safe to call from several goroutines; hidden state behind pointers captured by a literal is not analysed",
        "J-closure: a function literal handed to a function of the same package or called on the spot runs there (it "
        "inherits the locks); every other literal, `go` and `defer` start with no lock held",
        "J-flow: locks held after if/switch/select = those held on every branch that falls through; loops must leave the "
        "lock set unchanged; a deferred Unlock keeps the lock to the end of the function",
    ]


# sync.Map methods that hand out a stored value
RETRIEVES = ("Load", "LoadOrStore", "Range", "Swap", "CompareAndSwap", "LoadAndDelete")


class Shape(Exception):
    pass


def helper_binary():
    src = os.path.join(HERE, "lockset")
    bindir = os.path.join(VERIF, "build", "bin")
    os.makedirs(bindir, exist_ok=True)
    h = hashlib.sha256()
    for f in sorted(os.listdir(src)):
        if f.endswith(".go") or f == "go.mod":
            h.update(open(os.path.join(src, f), "rb").read())
    exe = os.path.join(bindir, "lockset-" + h.hexdigest()[:12])
    if not os.path.exists(exe):
        p = subprocess.run(["go", "build", "-o", exe + ".tmp%d" % os.getpid(), "."], cwd=src, env=GOENV, capture_output=True, text=True)
        if p.returncode != 0:
            raise Shape("tools/lockset does not build: " + p.stdout + p.stderr)
        os.replace(exe + ".tmp%d" % os.getpid(), exe)
    return exe


def extract(repo):
    p = subprocess.run([helper_binary()] + [os.path.join(repo, f) for f in FILES], capture_output=True, text=True, env=GOENV)
    if p.returncode != 0:
        raise Shape("tools/lockset failed: " + p.stderr[-2000:])
    return json.loads(p.stdout)


def covers(lock_base, base):
    """J-object: the lock reached through `lock_base` guards what is reached through `base`"""
    return base == lock_base or (base.startswith(lock_base) and base[len(lock_base)] in ".[")


def meet(a, b):
    """intersection of two lock sets {lock: excl}; None = not yet known (top)"""
    if a is None:
        return dict(b)
    if b is None:
        return dict(a)
    return {l: a[l] and b[l] for l in a if l in b}


class Analysis:
    def __init__(self, data, repo="/repo"):
        self.repo = os.path.realpath(repo)
        self.units = {u["name"]: u for u in (data.get("units") or [])}
        data["structs"] = data.get("structs") or []
        self.problems = list(data.get("problems") or [])
        self.notes = list(data.get("notes") or [])
        base = {os.path.basename(f) for f in FILES}
        self.tracked = {s["name"] + "." + f for s in data["structs"] if s["file"] in base for f in s["fields"]}
        self.ftype = {s["name"] + "." + f: t for s in data["structs"] for f, t in s["fields"].items()}
        self.refs, self.callers = set(), {}
        for u in self.units.values():
            for op in u["ops"]:
                if op["t"] == "ref":
                    self.refs.add(op["callee"])
                elif op["t"] in ("call", "once") and op.get("callee") in self.units:
                    self.callers.setdefault(op["callee"], []).append((u, op))
        self.payload = {}
        for u in self.units.values():
            for op in u["ops"]:
                if op["t"] == "payload" and op["loc"] in self.tracked:
                    self.payload.setdefault(op["loc"], [])
                    if op["why"] not in self.payload[op["loc"]]:
                        self.payload[op["loc"]].append(op["why"])
        for loc, why in sorted(self.payload.items()):
            self.notes.append("J-payload: %s holds values with hidden mutable state (%s): every retrieval is an access of %s@payload "
                              "under the real locks held" % (loc, "; ".join(why), loc))
        self.granted = self.wrappers()
        self.inh = self.fix_locks()
        self.inh_once = self.fix_onces()
        self.once_units = self.once_bodies()

    def rel(self, path):
        p = os.path.realpath(path)
        return os.path.relpath(p, self.repo) if p.startswith(self.repo + os.sep) else path

    # ---- who may call a unit from outside / what is held at such an entry
    def is_entry(self, u):
        if u.get("lit_kind"):
            return u["lit_kind"] in ("go", "value", "defer")
        return u["exported"] or u["name"] in self.refs or not self.callers.get(u["name"])

    def entry_held(self, u):
        n = u["name"]
        if u.get("lit_kind"):
            return {}
        for t, ms in SESSION.items():
            if u.get("recv_type") == t and n.split(".")[-1] in ms:
                return {t + "#session": True}
        if n in WRAPPED and self.granted.get(n):
            return {WRAPPED[n][0] + ".lock": True}
        return {}

    def wrappers(self):
        res = {}
        for target, (wt, field, sfield) in WRAPPED.items():
            why = None
            w = self.units.get(wt + "." + target.split(".")[-1])
            setup = self.units.get("threshold.Scheme.setup")
            if target not in self.units:
                continue
            if w is None or setup is None:
                why = "wrapper method or Scheme.setup not found"
            else:
                lock = dict(lock=wt + ".lock", excl=True, base=w.get("recv_name", ""))
                if not any(o["t"] == "acc" and o["loc"] == wt + "." + field and o["k"] == "r" for o in w["ops"]) or \
                        not all(lock in o["held"] for o in w["ops"]):
                    why = "%s does not call its target under its own exclusive lock" % w["name"]
                ops = setup["ops"]
                idx = [i for i, o in enumerate(ops) if o["t"] == "acc" and o["loc"] == sfield and o["k"] == "w"]
                if len(idx) != 1 or idx[0] == 0 or ops[idx[0] - 1]["t"] != "ref" or ops[idx[0] - 1]["callee"] not in self.units or \
                        not any(o["t"] == "acc" and o["loc"] == wt + "." + field and o["k"] == "w" and o.get("fresh")
                                for o in self.units[ops[idx[0] - 1]["callee"]]["ops"]):
                    why = why or "Scheme.setup does not assign to %s a function literal that builds %s" % (sfield, wt)
                for u in self.units.values():
                    if u["name"] != "threshold.Scheme.setup" and any(
                            o["t"] == "acc" and o["loc"] == sfield and o["k"] == "w" and not o.get("fresh") for o in u["ops"]):
                        why = why or "%s is also assigned in %s" % (sfield, u["name"])
            res[target] = why is None
            if why:
                self.notes.append("J-wrapper NOT granted for %s: %s" % (target, why))
        return res

    def fix_locks(self):
        inh = {n: None for n in self.units}
        while True:
            new = {}
            for n, u in self.units.items():
                k = u.get("lit_kind")
                if k:
                    new[n] = inh[u["parent"]] if (k == "sync" or k.startswith("once:")) else {}
                    continue
                val = dict(self.entry_held(u)) if self.is_entry(u) else None
                for v, op in self.callers.get(n, []):
                    if op.get("go"):
                        site = {}
                    else:
                        if inh[v["name"]] is None:
                            continue
                        base = op.get("base", "")
                        site = dict(inh[v["name"]]) if base and base == v.get("recv_name") else {}
                        if base:
                            for h in op["held"]:
                                if h["base"] == base:
                                    site[h["lock"]] = h["excl"] or site.get(h["lock"], False)
                    val = meet(val, site)
                new[n] = val
            if new == inh:
                return {n: (v or {}) for n, v in inh.items()}
            inh = new

    def fix_onces(self):
        inh = {n: None for n in self.units}
        while True:
            new = {}
            for n, u in self.units.items():
                if u.get("lit_kind"):
                    p = inh[u["parent"]]
                    new[n] = None if p is None else set(u.get("inherit_onces") or []) | p
                    continue
                val = set() if self.is_entry(u) else None
                for v, op in self.callers.get(n, []):
                    if inh[v["name"]] is None:
                        continue
                    site = set(op["onces"]) | inh[v["name"]]
                    val = site if val is None else val & site
                new[n] = val
            if new == inh:
                return {n: (v or set()) for n, v in inh.items()}
            inh = new

    def once_bodies(self):
        """sync.Once field -> units that run only inside its Do"""
        res = {}
        for u in self.units.values():
            for op in u["ops"]:
                if op["t"] == "once":
                    res.setdefault(op["loc"], set()).add(op["callee"])
        for once, body in res.items():
            grown = True
            while grown:
                grown = False
                for n, u in self.units.items():
                    if n in body or n in self.refs or u["exported"] and not u.get("lit_kind"):
                        continue
                    cs = self.callers.get(n, [])
                    if u.get("lit_kind") in ("sync",) and u["parent"] in body or \
                            (not u.get("lit_kind") and cs and all(v["name"] in body for v, _ in cs)):
                        body.add(n)
                        grown = True
        return res

    # ---- the table
    def accesses(self):
        """list of dict(loc, kind, held=[(lock, excl)], fn, setup, why, lines=[(file, line)])"""
        raw = []
        for n, u in self.units.items():
            body_of = [o for o, b in self.once_units.items() if n in b]
            for op in u["ops"]:
                if op["t"] != "acc" or op["loc"] not in self.tracked:
                    continue
                held = {}
                for h in op["held"]:
                    if covers(h["base"], op["base"]):
                        held[h["lock"]] = h["excl"]
                if u.get("recv_name") and covers(u["recv_name"], op["base"]):
                    for l, x in self.inh[n].items():
                        held[l] = held.get(l, False) or x
                if op["via"] != "plain":
                    held[op["loc"] + "#" + op["via"]] = True
                why = "fresh" if op.get("fresh") else "init" if n in INIT else None
                real = dict(held)
                if op["via"] != "plain":
                    real.pop(op["loc"] + "#" + op["via"], None)
                raw.append(dict(loc=op["loc"], kind=op["k"], held=held, fn=n, why=why, once_body=body_of,
                                onces=set(op["onces"]) | self.inh_once[n], file=self.rel(u["file"]), line=op["line"], via=op["via"]))
                # J-payload: taking a value with hidden mutable state out of the field = using that state (a write), and the
                # container's own synchronisation does not extend to it
                if op["loc"] in self.payload and ((op["via"] == "syncmap" and op.get("m") in RETRIEVES) or
                                                  (op["via"] == "plain" and op["k"] == "r")):
                    raw.append(dict(loc=op["loc"] + "@payload", kind="w", held=real, fn=n, why=why, once_body=body_of,
                                    onces=set(op["onces"]) | self.inh_once[n], file=self.rel(u["file"]), line=op["line"], via="plain"))
        # J-once: the body of a Do is set-up for a field iff every other access of the field is behind that Do
        by_loc = {}
        for a in raw:
            by_loc.setdefault(a["loc"], []).append(a)
        for loc, accs in by_loc.items():
            for once in {o for a in accs for o in a["once_body"]}:
                outside = [a for a in accs if once not in a["once_body"] and not a["why"]]
                bad = [a for a in outside if once not in a["onces"]]
                for a in accs:
                    if once in a["once_body"] and not a["why"]:
                        if not bad:
                            a["why"] = "once"
                        else:
                            self.notes.append("J-once: %s in %s is NOT set-up: %s reaches the field without %s.Do" % (
                                loc, a["fn"], sorted({b["fn"] for b in bad})[0], once))
        merged = {}
        for a in raw:
            k = (a["loc"], a["kind"], tuple(sorted(a["held"].items())), a["fn"], bool(a["why"]))
            m = merged.setdefault(k, dict(loc=a["loc"], kind=a["kind"], held=sorted(a["held"].items()), fn=a["fn"],
                                          setup=bool(a["why"]), why=a["why"], lines=[]))
            if (a["file"], a["line"]) not in m["lines"]:
                m["lines"].append((a["file"], a["line"]))
        return [merged[k] for k in sorted(merged)]


def has_lock(e, l):
    return any(n == l and (x or e["kind"] == "r") for n, x in e["held"])


def loc_report(table):
    """per field: protecting lock or the unprotected pairs (mirrors Discipline.loc_ok)"""
    rep = {}
    for loc in sorted({e["loc"] for e in table}):
        live = [e for e in table if e["loc"] == loc and not e["setup"]]
        if not any(e["kind"] == "w" for e in live):
            rep[loc] = dict(ok=True, lock=None, reason="no write outside set-up" if live else "set-up only", pairs=[])
            continue
        common = [l for l, _ in live[0]["held"] if all(has_lock(e, l) for e in live)]
        pairs = []
        if not common:
            for i, a in enumerate(live):
                for b in live[i:]:
                    if (a["kind"] == "w" or b["kind"] == "w") and not any(has_lock(a, l) and has_lock(b, l) for l, _ in a["held"]):
                        pairs.append((a, b))
        rep[loc] = dict(ok=bool(common), lock=common[0] if common else None, reason="", pairs=pairs)
    return rep


def known_sites(path=None):
    """(field, function) sites of the known: property=C20 lines: sig=<field>|<fnA>|<fnB> drops site (field, fnA)"""
    path = path or os.path.join(VERIF, "KNOWN_FINDINGS.txt")
    res = []
    if os.path.exists(path):
        for line in open(path):
            if line.startswith("known:") and "property=C20 " in line:
                m = re.search(r"sig=(\S+)", line)
                i = re.search(r"id=(\S+)", line)
                if m and m.group(1).count("|") == 2:
                    loc, fa, fb = m.group(1).split("|")
                    res.append(dict(id=i.group(1) if i else "?", loc=loc, fn=fa, other=fb, sig=m.group(1)))
    return res


def qs(s):
    return '"' + s.replace('"', '""') + '"'


def write_if_changed(path, text):
    if os.path.exists(path) and open(path, encoding="utf-8").read() == text:
        return False
    tmp = path + ".tmp%d" % os.getpid()
    with open(tmp, "w", encoding="utf-8") as f:
        f.write(text)
    os.replace(tmp, path)
    return True


def render(table, problems, notes):
    out = ["(* GENERATED by tools/gen_lockset.py from %s -- do not edit. *)" % ", ".join(FILES),
           "From Coq Require Import List String.", "Require Import TSS.Lockset.Discipline.", "Import ListNotations.",
           "Local Open Scope string_scope.", "", "(* judgements of the translator:"]
    out += ["   " + j.replace("*)", "* )") for j in judgements()] + ["*)"]
    if notes:
        out += ["(* notes:"] + ["   " + n.replace("*)", "* )") for n in notes] + ["*)"]
    if problems:
        out += ["(* NOT UNDERSTOOD:"] + ["   " + p.replace("*)", "* )") for p in problems] + ["*)"]
    out += ["", "Definition translator_ok : bool := %s." % ("false" if problems else "true"), "",
            "Definition accesses : list access := ["]
    rows = []
    for e in table:
        held = "; ".join("(%s, %s)" % (qs(l), "true" if x else "false") for l, x in e["held"])
        rows.append("  mkAccess %s %s [%s] %s %s" % (qs(e["loc"]), "KWr" if e["kind"] == "w" else "KRd", held, qs(e["fn"]),
                                                     "true" if e["setup"] else "false"))
    out.append(";\n".join(rows))
    out += ["].", ""]
    return "\n".join(out)


def render_known(sites):
    rows = ";\n".join("  (%s, %s)" % (qs(s["loc"]), qs(s["fn"])) for s in sites)
    return ("(* GENERATED by tools/gen_lockset.py from the `known: property=C20` lines of KNOWN_FINDINGS.txt -- do not edit. *)\n"
            "From Coq Require Import List String.\nImport ListNotations.\nLocal Open Scope string_scope.\n\n"
            "Definition known : list (string * string) := [\n%s\n].\n" % rows)


def build(repo):
    """-> (table, problems, notes, analysis)"""
    try:
        data = extract(repo)
    except Shape as e:
        return [], [str(e)], [], None
    an = Analysis(data, repo)
    table = an.accesses()
    return table, an.problems, an.notes, an


def main():
    repo, gendir = sys.argv[1], sys.argv[2]
    try:
        table, problems, notes, _ = build(repo)
    except Exception as e:  # never break the builds of other properties: an empty table with translator_ok = false
        table, problems, notes = [], ["translator crashed: %r" % (e,)], []
    if problems:
        sys.stderr.write("gen_lockset: not understood:\n  " + "\n  ".join(problems) + "\n")
    os.makedirs(gendir, exist_ok=True)
    write_if_changed(os.path.join(gendir, "Lockset.v"), render(table, problems, notes))
    write_if_changed(os.path.join(gendir, "LocksetKnown.v"), render_known(known_sites()))


if __name__ == "__main__":
    main()
