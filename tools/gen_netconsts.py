#!/usr/bin/env python3
"""Translator for the transport engine (C16/C17):  gen_netconsts.py <repo> <gendir>

Reads <repo>/net/net.go and writes <gendir>/NetConsts.v with
  * max_buff_len        value of the constant maxBuffLen (the frame size limit of readMsg)
  * msg_type_none/discovery/mpc   the MsgType constants (iota block)
  * topic_types         the message types mapped to true in the shouldHaveTopic table (sorted)
  * send_timeout_panics syntactic flag: the onTimeout closure of SocketRemoteParties.Send contains a panic call
  * accept_loop_hands_off syntactic flag: the accept loop only hands an accepted connection to `go handleConn`
  * single_writer_once_guarded syntactic flag: the writer goroutine of a destination is started only through a sync.Once
The file is only rewritten when its content changes (so that an unchanged tree does not trigger a rebuild).
Anything it cannot parse is an error (exit 1): a silent default would hide an edit of the Go source."""
import os, re, sys


def strip_comments(src):
    src = re.sub(r"/\*.*?\*/", "", src, flags=re.S)
    return re.sub(r"//[^\n]*", "", src)


def eval_int(expr):
    expr = expr.strip()
    if not re.fullmatch(r"[0-9xXa-fA-F_\s*+\-()<]+", expr):
        raise ValueError("unsupported constant expression: %r" % expr)
    return int(eval(expr.replace("_", ""), {"__builtins__": {}}, {}))


def block_after(src, start):
    """text of the balanced {...} or (...) that opens at src[start]"""
    op = src[start]
    cl = {"{": "}", "(": ")"}[op]
    depth = 0
    for i in range(start, len(src)):
        if src[i] == op:
            depth += 1
        elif src[i] == cl:
            depth -= 1
            if depth == 0:
                return src[start + 1:i]
    raise ValueError("unbalanced block")


def parse(src):
    src = strip_comments(src)
    consts = {}
    # every const ( ... ) block: iota counting for typed MsgType constants, plain `name = expr`
    for m in re.finditer(r"\bconst\s*\(", src):
        body = block_after(src, m.end() - 1)
        iota, implicit = 0, None
        for line in body.split("\n"):
            line = line.strip()
            if not line:
                continue
            mm = re.fullmatch(r"(\w+)(?:\s+(\w+))?\s*=\s*(.+)", line)
            if mm:
                name, typ, expr = mm.groups()
                if expr.strip() == "iota":
                    consts[name] = iota
                    implicit = "iota"
                else:
                    consts[name] = eval_int(expr)
                    implicit = None
            else:
                mm = re.fullmatch(r"(\w+)", line)
                if not mm or implicit != "iota":
                    raise ValueError("cannot parse const line: %r" % line)
                consts[mm.group(1)] = iota
            iota += 1
    for need in ("maxBuffLen", "MsgTypeNone", "MsgTypeDiscovery", "MsgTypeMPC"):
        if need not in consts:
            raise ValueError("constant %s not found in net.go" % need)
    # shouldHaveTopic = map[MsgType]bool{ K: true, ... }
    m = re.search(r"\bshouldHaveTopic\s*=\s*map\[MsgType\]bool\s*\{", src)
    if not m:
        raise ValueError("shouldHaveTopic table not found")
    topic = []
    for entry in block_after(src, m.end() - 1).split(","):
        entry = entry.strip()
        if not entry:
            continue
        mm = re.fullmatch(r"(\w+)\s*:\s*(true|false)", entry)
        if not mm:
            raise ValueError("cannot parse shouldHaveTopic entry: %r" % entry)
        k = mm.group(1)
        if k not in consts and not k.isdigit():
            raise ValueError("unknown key in shouldHaveTopic: %s" % k)
        if mm.group(2) == "true":
            topic.append(consts[k] if k in consts else int(k))
    # readMsg must consult that table (and nothing else) for the topic decision
    m = re.search(r"\bfunc\s+readMsg\s*\(", src)
    if not m:
        raise ValueError("readMsg not found")
    body = block_after(src, src.index("{", m.end()))
    if not re.search(r"if\s+shouldHaveTopic\[msgType\]\s*\{", body):
        raise ValueError("readMsg does not decide topic presence by `if shouldHaveTopic[msgType]` any more")
    # Send's onTimeout closure
    m = re.search(r"\bfunc\s*\(\s*parties\s+SocketRemoteParties\s*\)\s*Send\s*\(", src)
    if not m:
        raise ValueError("SocketRemoteParties.Send not found")
    body = block_after(src, src.index("{", m.end()))
    m = re.search(r"\bonTimeout\s*:=\s*func\s*\(\s*\)\s*\{", body)
    if not m:
        raise ValueError("onTimeout closure of Send not found")
    ot = block_after(body, m.end() - 1)
    panics = bool(re.search(r"\bpanic\s*\(", ot))
    # single writer per destination: sendMessages is started from exactly one site, inside startOnce, guarded by a sync.Once
    # field of the destination object, and Send reaches it only through startOnce
    m = re.search(r"\bfunc\s*\(\s*rp\s+\*remoteParty\s*\)\s*startOnce\s*\(\s*\)\s*\{", src)
    if not m:
        raise ValueError("remoteParty.startOnce not found")
    so = re.sub(r"\s+", "", block_after(src, m.end() - 1))
    m = re.search(r"\btype\s+remoteParty\s+struct\s*\{", src)
    if not m:
        raise ValueError("type remoteParty not found")
    fields = block_after(src, m.end() - 1)
    once_fields = re.findall(r"^\s*(\w+)\s+sync\.Once\s*$", fields, re.M)
    starts = len(re.findall(r"\bgo\s+\w+\.sendMessages\s*\(", src))
    calls = len(re.findall(r"\.sendMessages\s*\(", src))     # the method declaration has no leading dot
    single = (starts == 1 and calls == 1 and
              any(so == "rp.%s.Do(func(){gorp.sendMessages()})" % f for f in once_fields) and
              bool(re.search(r"\bp\.startOnce\(\)", body)))
    # accept loop of ServiceConnections: an accepted connection is only handed to its own goroutine -- besides the
    # `conn, err := listener.Accept()` that defines it, every mention of conn sits in one `go handleConn(...)` statement,
    # so nothing in the (single) accept goroutine can block on a client
    m = re.search(r"\bfunc\s+ServiceConnections\s*\(", src)
    if not m:
        raise ValueError("ServiceConnections not found")
    sc = block_after(src, src.index("{", src.index(")", m.end())))
    m = re.search(r"\bfor\s+atomic\.LoadUint32\(&stopFlag\)\s*==\s*0\s*\{", sc)
    if not m:
        raise ValueError("accept loop of ServiceConnections not found")
    loop = block_after(sc, m.end() - 1)
    accepts = re.findall(r"\b(\w+)\s*,\s*err\s*:=\s*listener\.Accept\(\)", loop)
    handoff = False
    if len(accepts) == 1:
        cv = accepts[0]
        mentions = len(re.findall(r"\b%s\b" % re.escape(cv), loop))
        gos = re.findall(r"\bgo\s+handleConn\(([^()]*)\)", loop)
        handoff = (mentions == 2 and len(gos) == 1 and len(re.findall(r"\b%s\b" % re.escape(cv), gos[0])) == 1 and
                   not re.search(r"\.Handshake\s*\(|\.Read\s*\(|\.Write\s*\(|io\.Read", loop))
    return consts, sorted(set(topic)), panics, single, handoff


def main():
    repo, gendir = sys.argv[1], sys.argv[2]
    src = open(os.path.join(repo, "net", "net.go"), encoding="utf-8").read()
    try:
        consts, topic, panics, single, handoff = parse(src)
    except Exception as e:  # noqa
        print("gen_netconsts: %s" % e)
        sys.exit(1)
    out = "\n".join([
        "(* GENERATED by tools/gen_netconsts.py from <repo>/net/net.go -- do not edit. *)",
        "Require Import TSS.Base.Base.",
        "",
        "(* const maxBuffLen: the largest payload length readMsg accepts *)",
        "Definition max_buff_len : N := %d." % consts["maxBuffLen"],
        "",
        "(* MsgType constants *)",
        "Definition msg_type_none : N := %d." % consts["MsgTypeNone"],
        "Definition msg_type_discovery : N := %d." % consts["MsgTypeDiscovery"],
        "Definition msg_type_mpc : N := %d." % consts["MsgTypeMPC"],
        "",
        "(* keys of shouldHaveTopic mapped to true: the message types whose frames carry a 32-byte topic *)",
        "Definition topic_types : list N := [%s]." % "; ".join(str(x) for x in topic),
        "",
        "(* syntactic: the onTimeout closure of SocketRemoteParties.Send contains a panic call *)",
        "Definition send_timeout_panics : bool := %s." % ("true" if panics else "false"),
        "",
        "(* syntactic: sendMessages is started at exactly one site, `rp.<f>.Do(func() { go rp.sendMessages() })` in startOnce with",
        "   <f> a sync.Once field of remoteParty, and Send calls startOnce: at most one writer goroutine per destination object *)",
        "Definition single_writer_once_guarded : bool := %s." % ("true" if single else "false"),
        "",
        "(* syntactic: in the accept loop of ServiceConnections the accepted connection is mentioned only where it is defined",
        "   (listener.Accept) and in one `go handleConn(...)`: the accept goroutine never waits for a client *)",
        "Definition accept_loop_hands_off : bool := %s." % ("true" if handoff else "false"),
        "",
    ])
    os.makedirs(gendir, exist_ok=True)
    path = os.path.join(gendir, "NetConsts.v")
    old = open(path, encoding="utf-8").read() if os.path.exists(path) else None
    if old != out:
        with open(path, "w", encoding="utf-8") as f:
            f.write(out)


if __name__ == "__main__":
    main()
