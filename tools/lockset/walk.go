package main

import (
	"fmt"
	"go/ast"
	"go/token"
	"go/types"
	"sort"
)

type walker struct {
	pi    *pkgInfo
	u     *Unit
	held  map[string]Held // base|lock -> held lock
	onces map[string]bool
	fresh map[string]bool   // local identifiers that denote an object still under construction in this unit
	svars map[string]string // local identifiers bound to a value with hidden mutable state -> why
	litN  *int
	top   string
	loops []map[string]Held // held sets at the entry of the enclosing loops / switches / selects
}

func key(h Held) string { return h.Base + "|" + h.Lock }

func copyHeld(m map[string]Held) map[string]Held {
	r := map[string]Held{}
	for k, v := range m {
		r[k] = v
	}
	return r
}

func copySet(m map[string]bool) map[string]bool {
	r := map[string]bool{}
	for k, v := range m {
		r[k] = v
	}
	return r
}

func sameHeld(a, b map[string]Held) bool {
	if len(a) != len(b) {
		return false
	}
	for k, v := range a {
		if w, ok := b[k]; !ok || w != v {
			return false
		}
	}
	return true
}

func (w *walker) heldList() []Held {
	r := []Held{}
	for _, h := range w.held {
		r = append(r, h)
	}
	sort.Slice(r, func(i, j int) bool { return key(r[i]) < key(r[j]) })
	return r
}

func (w *walker) onceList() []string {
	r := []string{}
	for o := range w.onces {
		r = append(r, o)
	}
	sort.Strings(r)
	return r
}

func (w *walker) line(p token.Pos) int { return w.pi.fset.Position(p).Line }

func (w *walker) problem(p token.Pos, f string, a ...interface{}) {
	problem(w.pi.fset, p, "%s: %s", w.u.Name, fmt.Sprintf(f, a...))
}

func (w *walker) emit(op Op, p token.Pos) {
	op.Held = w.heldList()
	op.Onces = w.onceList()
	op.Line = w.line(p)
	w.u.Ops = append(w.u.Ops, op)
}

func (pi *pkgInfo) funcDecl(fd *ast.FuncDecl) {
	name := pi.pkg + "." + fd.Name.Name
	u := &Unit{Pkg: pi.pkg, Exported: fd.Name.IsExported(), Ops: []Op{}}
	if fd.Recv != nil && len(fd.Recv.List) == 1 {
		t := fd.Recv.List[0].Type
		if st, ok := t.(*ast.StarExpr); ok {
			t = st.X
		}
		if id, ok := t.(*ast.Ident); ok {
			u.RecvType = pi.pkg + "." + id.Name
			name = u.RecvType + "." + fd.Name.Name
		}
		if len(fd.Recv.List[0].Names) == 1 {
			u.RecvName = fd.Recv.List[0].Names[0].Name
		}
	}
	u.Name = name
	pos := pi.fset.Position(fd.Pos())
	u.File, u.Line, u.EndLine = pos.Filename, pos.Line, pi.fset.Position(fd.End()).Line
	out.Units = append(out.Units, u)
	n := 0
	w := &walker{pi: pi, u: u, held: map[string]Held{}, onces: map[string]bool{}, fresh: map[string]bool{}, svars: map[string]string{}, litN: &n, top: name}
	w.stmts(fd.Body.List)
	w.returnsStateful(name, fd.Body)
}

// lit analyses a function literal as a unit of its own.  kind: go | value | defer (new context: no lock held) or
// sync | once:<field> (runs where it stands: inherits the locks held here).
func (w *walker) lit(fl *ast.FuncLit, kind string) string {
	*w.litN++
	u := &Unit{Name: fmt.Sprintf("%s$%d", w.top, *w.litN), Pkg: w.pi.pkg, Parent: w.u.Name, LitKind: kind, Ops: []Op{},
		RecvType: w.u.RecvType, RecvName: w.u.RecvName, InhOnces: w.onceList()}
	pos := w.pi.fset.Position(fl.Pos())
	u.File, u.Line, u.EndLine = pos.Filename, pos.Line, w.pi.fset.Position(fl.End()).Line
	out.Units = append(out.Units, u)
	nw := &walker{pi: w.pi, u: u, held: map[string]Held{}, onces: copySet(w.onces), fresh: map[string]bool{}, svars: map[string]string{}, litN: w.litN, top: w.top}
	if kind == "sync" || len(kind) > 5 && kind[:5] == "once:" {
		u.Inherit = w.heldList()
		nw.held = copyHeld(w.held)
	}
	nw.stmts(fl.Body.List)
	u.Stateful = w.captured(fl)
	w.pi.lits[fl] = u
	return u.Name
}

// fieldOf: the expression selects a field of a struct declared in the package
func (w *walker) fieldOf(e ast.Expr) (se *ast.SelectorExpr, loc string, ok bool) {
	se, ok = e.(*ast.SelectorExpr)
	if !ok {
		return nil, "", false
	}
	sel := w.pi.info.Selections[se]
	if sel == nil || sel.Kind() != types.FieldVal {
		return nil, "", false
	}
	v, _ := sel.Obj().(*types.Var)
	own := w.pi.owner[v]
	if own == "" {
		return nil, "", false
	}
	return se, own + "." + v.Name(), true
}

func (w *walker) isFresh(x ast.Expr) bool {
	if p, ok := x.(*ast.ParenExpr); ok {
		x = p.X
	}
	id, ok := x.(*ast.Ident)
	return ok && w.fresh[id.Name]
}

func (w *walker) access(se *ast.SelectorExpr, loc, k, via string) {
	w.emit(Op{T: "acc", Loc: loc, K: k, Via: via, Base: types.ExprString(se.X), Fresh: w.isFresh(se.X)}, se.Pos())
}
