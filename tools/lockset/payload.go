package main

import (
	"fmt"
	"go/ast"
	"go/token"
	"go/types"
	"sort"
	"strings"
)

// Types of the standard library whose values are NOT safe for concurrent use (hidden mutable state).  A fixed list.
var unsafeNames = map[string]bool{
	"hash.Hash": true, "hash.Hash32": true, "hash.Hash64": true,
	"crypto/cipher.Stream": true, "crypto/cipher.BlockMode": true,
	"bytes.Buffer": true, "bytes.Reader": true, "strings.Builder": true, "strings.Reader": true,
	"math/rand.Rand": true, "math/rand.Source": true, "math/rand.Source64": true,
	"bufio.Reader": true, "bufio.Writer": true, "bufio.Scanner": true, "bufio.ReadWriter": true,
	"encoding/json.Encoder": true, "encoding/json.Decoder": true, "encoding/gob.Encoder": true, "encoding/gob.Decoder": true,
	"text/tabwriter.Writer": true, "compress/gzip.Writer": true, "compress/gzip.Reader": true,
}

// unsafeType: t is (a pointer to) one of the types above
func unsafeType(t types.Type) string {
	for t != nil {
		if p, ok := t.(*types.Pointer); ok {
			t = p.Elem()
			continue
		}
		break
	}
	if n, ok := t.(*types.Named); ok && n.Obj() != nil && n.Obj().Pkg() != nil {
		q := n.Obj().Pkg().Path() + "." + n.Obj().Name()
		if unsafeNames[q] {
			return q
		}
	}
	return ""
}

// captured: why the function literal carries hidden mutable state -- it captures a variable of its enclosing function
// that it assigns, or whose type is one of the types above.
func (w *walker) captured(fl *ast.FuncLit) []string {
	info := w.pi.info
	outside := func(id *ast.Ident) *types.Var {
		v, ok := info.Uses[id].(*types.Var)
		if !ok || v.IsField() || v.Pkg() == nil || v.Parent() == nil || v.Parent() == v.Pkg().Scope() {
			return nil
		}
		if v.Pos() >= fl.Pos() && v.Pos() <= fl.End() {
			return nil
		}
		return v
	}
	why := map[string]bool{}
	ast.Inspect(fl.Body, func(n ast.Node) bool {
		switch n := n.(type) {
		case *ast.Ident:
			if v := outside(n); v != nil {
				if t := unsafeType(v.Type()); t != "" {
					why[fmt.Sprintf("captures %s of type %s", v.Name(), t)] = true
				}
			}
		case *ast.AssignStmt:
			if n.Tok != token.DEFINE {
				for _, l := range n.Lhs {
					if id, ok := l.(*ast.Ident); ok {
						if v := outside(id); v != nil {
							why["assigns the captured variable "+v.Name()] = true
						}
					}
				}
			}
		case *ast.IncDecStmt:
			if id, ok := n.X.(*ast.Ident); ok {
				if v := outside(id); v != nil {
					why["assigns the captured variable "+v.Name()] = true
				}
			}
		}
		return true
	})
	res := []string{}
	for k := range why {
		res = append(res, k)
	}
	sort.Strings(res)
	return res
}

// stateful: the value of e carries hidden mutable state ("" = not known to): a stateful function literal, the result of a
// function of this package that returns one, a local variable bound to such a value, a value of one of the types above.
func (w *walker) stateful(e ast.Expr) string {
	switch x := e.(type) {
	case *ast.ParenExpr:
		return w.stateful(x.X)
	case *ast.FuncLit:
		if u := w.pi.lits[x]; u != nil && len(u.Stateful) > 0 {
			return "function literal " + u.Name + " " + strings.Join(u.Stateful, ", ")
		}
	case *ast.Ident:
		if r := w.svars[x.Name]; r != "" {
			return r
		}
	case *ast.CallExpr:
		callee := ""
		switch f := x.Fun.(type) {
		case *ast.Ident:
			if fn, ok := w.pi.info.Uses[f].(*types.Func); ok {
				callee = w.pi.pkg + "." + fn.Name()
			}
		case *ast.SelectorExpr:
			callee = w.localMethodOf(f)
		}
		if r := w.pi.rets[callee]; r != "" {
			return "result of " + callee + ": " + r
		}
	}
	if tv, ok := w.pi.info.Types[e]; ok && tv.Type != nil {
		if t := unsafeType(tv.Type); t != "" {
			return "value of type " + t
		}
	}
	return ""
}

func (w *walker) payload(loc, why string, pos token.Pos) {
	w.emit(Op{T: "payload", Loc: loc, Why: why}, pos)
}

// storeInto: e is stored into the assignment target l; when l is a field of a package struct (or an element of it)
// and e is stateful, the field holds a payload with hidden state
func (w *walker) storeInto(l ast.Expr, e ast.Expr) {
	why := w.stateful(e)
	if why == "" {
		return
	}
	for {
		switch x := l.(type) {
		case *ast.IndexExpr:
			l = x.X
			continue
		case *ast.ParenExpr:
			l = x.X
			continue
		}
		break
	}
	if id, ok := l.(*ast.Ident); ok {
		w.svars[id.Name] = why
		return
	}
	if _, loc, ok := w.fieldOf(l); ok {
		w.payload(loc, why, e.Pos())
	}
}

// returnsStateful records that the function returns a stateful function value (directly a literal, or a local bound to one)
func (w *walker) returnsStateful(name string, body *ast.BlockStmt) {
	ast.Inspect(body, func(n ast.Node) bool {
		switch n := n.(type) {
		case *ast.FuncLit:
			return false
		case *ast.ReturnStmt:
			for _, r := range n.Results {
				if why := w.stateful(r); why != "" {
					w.pi.rets[name] = why
				}
			}
		}
		return true
	})
}
