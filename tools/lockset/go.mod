module verif/tools/lockset

go 1.18
