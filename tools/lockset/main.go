// lockset: syntactic lock / shared-field access extraction for property C20.
//
//	lockset <file.go>...      (files of one or several packages; each file's package is analysed on its own)
//
// Prints JSON: for every function, method and function literal ("unit") of the given files the list of field accesses,
// lock operations already folded into the set of locks held at each access / call, calls, references to functions as
// values, sync.Once uses -- plus everything that was not understood ("problems": the Python side turns any problem
// into translator_ok = false).  Only the standard library is used (go/ast, go/parser, go/token, go/types with an
// importer that returns empty packages: fields and methods of the structs declared in the files resolve, everything
// imported stays opaque).
package main

import (
	"encoding/json"
	"fmt"
	"go/importer"
	"go/token"
	"go/types"
	"os"
	"path/filepath"
	"sort"
	"strings"
)

type Held struct {
	Lock string `json:"lock"`
	Excl bool   `json:"excl"`
	Base string `json:"base"`
}

type Op struct {
	T      string   `json:"t"`             // acc | call | ref | once | dyncall | payload
	M      string   `json:"m,omitempty"`   // method of a sync.Map access (Load, Store, ...)
	Why    string   `json:"why,omitempty"` // payload: why the stored value carries hidden mutable state
	Loc    string   `json:"loc,omitempty"`
	K      string   `json:"k,omitempty"`   // r | w
	Via    string   `json:"via,omitempty"` // plain | atomic | syncmap | cond
	Base   string   `json:"base,omitempty"`
	Fresh  bool     `json:"fresh,omitempty"`
	Callee string   `json:"callee,omitempty"`
	Go     bool     `json:"go,omitempty"`
	Defer  bool     `json:"defer,omitempty"`
	Held   []Held   `json:"held"`
	Onces  []string `json:"onces"` // sync.Once fields whose Do (or a wrapper of it) was called earlier in this unit
	Line   int      `json:"line"`
}

type Unit struct {
	Name     string   `json:"name"`
	Pkg      string   `json:"pkg"`
	File     string   `json:"file"`
	Line     int      `json:"line"`
	EndLine  int      `json:"end_line"`
	RecvType string   `json:"recv_type,omitempty"`
	RecvName string   `json:"recv_name,omitempty"`
	Exported bool     `json:"exported"`
	Parent   string   `json:"parent,omitempty"`
	LitKind  string   `json:"lit_kind,omitempty"` // go | sync | defer | once:<field> | value
	Inherit  []Held   `json:"inherit,omitempty"`  // for sync / once literals: locks held where the literal is called
	InhOnces []string `json:"inherit_onces,omitempty"`
	Stateful []string `json:"stateful,omitempty"` // function literal: captured variables that make it stateful
	Ops      []Op     `json:"ops"`
}

type Struct struct {
	Name   string            `json:"name"`
	Fields map[string]string `json:"fields"` // field -> type text
	File   string            `json:"file"`
}

type Out struct {
	Units    []*Unit   `json:"units"`
	Structs  []*Struct `json:"structs"`
	Problems []string  `json:"problems"`
	Notes    []string  `json:"notes"` // judgements made on the way (not failures)
}

var out Out

func problem(fset *token.FileSet, pos token.Pos, format string, a ...interface{}) {
	p := fset.Position(pos)
	out.Problems = append(out.Problems, fmt.Sprintf("%s:%d: ", filepath.Base(p.Filename), p.Line)+fmt.Sprintf(format, a...))
}

// hybridImporter: packages of the standard library are type-checked from source (go/importer "source": their types, e.g.
// hash.Hash or bytes.Buffer, are needed to recognise values that are not safe for concurrent use); every other import is
// an empty package (opaque).
type hybridImporter struct{ std types.Importer }

func (h hybridImporter) Import(path string) (*types.Package, error) {
	first := path
	if i := strings.Index(path, "/"); i >= 0 {
		first = path[:i]
	}
	if !strings.Contains(first, ".") && h.std != nil {
		if p, err := h.std.Import(path); err == nil {
			return p, nil
		}
		out.Notes = append(out.Notes, "standard package "+path+" could not be type-checked from source: treated as opaque")
	}
	name := path[strings.LastIndex(path, "/")+1:]
	p := types.NewPackage(path, name)
	p.MarkComplete()
	return p, nil
}

var theImporter = hybridImporter{std: importer.ForCompiler(token.NewFileSet(), "source", nil)}

func main() {
	if len(os.Args) < 2 {
		fmt.Fprintln(os.Stderr, "usage: lockset <file.go>...")
		os.Exit(2)
	}
	byDir := map[string][]string{}
	var dirs []string
	for _, f := range os.Args[1:] {
		d := filepath.Dir(f)
		if _, ok := byDir[d]; !ok {
			dirs = append(dirs, d)
		}
		byDir[d] = append(byDir[d], f)
	}
	for _, d := range dirs {
		analysePackage(byDir[d])
	}
	sort.Strings(out.Problems)
	sort.Strings(out.Notes)
	enc := json.NewEncoder(os.Stdout)
	enc.SetIndent("", " ")
	if err := enc.Encode(out); err != nil {
		fmt.Fprintln(os.Stderr, err)
		os.Exit(1)
	}
}
