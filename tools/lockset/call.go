package main

import (
	"go/ast"
	"go/types"
	"strings"
)

// args: a function literal handed to a function is analysed as a unit; `sync` = the callee is known to run it at once
func (w *walker) args(l []ast.Expr, litKind string) {
	for _, a := range l {
		if fl, ok := a.(*ast.FuncLit); ok {
			n := w.lit(fl, litKind)
			if litKind == "value" {
				w.emit(Op{T: "ref", Callee: n}, a.Pos())
			}
			continue
		}
		w.expr(a)
	}
}

func (w *walker) emitCall(op Op, c *ast.CallExpr, mode string) {
	w.emit(op, c.Pos())
	last := &w.u.Ops[len(w.u.Ops)-1]
	if mode != "" { // runs at function exit / in a new goroutine: nothing is known to be held there
		last.Held = []Held{}
		last.Go, last.Defer = mode == "go", mode == "defer"
	}
}

func (w *walker) call(c *ast.CallExpr, mode string) {
	info := w.pi.info
	switch f := c.Fun.(type) {
	case *ast.SelectorExpr:
		if se, loc, ok := w.fieldOf(f.X); ok {
			switch syncTypes[w.pi.ftype[loc]] {
			case "mutex":
				if acq, excl, isOp := lockMode(f.Sel.Name); isOp {
					w.lockOp(c, Held{Lock: loc, Excl: excl, Base: types.ExprString(se.X)}, acq, mode)
					w.expr(se.X)
					return
				}
			case "once":
				if f.Sel.Name == "Do" && len(c.Args) == 1 && mode == "" {
					w.onceDo(c, loc)
					w.expr(se.X)
					return
				}
				w.problem(c.Pos(), "use of sync.Once %s not understood", loc)
			case "cond":
				w.access(se, loc, "r", "cond")
				w.expr(se.X)
				return
			case "syncmap":
				k := "w"
				if f.Sel.Name == "Load" || f.Sel.Name == "Range" {
					k = "r"
				}
				w.access(se, loc, k, "syncmap")
				w.u.Ops[len(w.u.Ops)-1].M = f.Sel.Name
				w.expr(se.X)
				w.args(c.Args, "sync") // Range runs its argument before it returns
				if f.Sel.Name != "Load" && f.Sel.Name != "Range" && f.Sel.Name != "Delete" && f.Sel.Name != "LoadAndDelete" {
					for _, a := range c.Args { // Store, LoadOrStore, Swap, CompareAndSwap: what is put into the map
						if why := w.stateful(a); why != "" {
							w.payload(loc, why, a.Pos())
						}
					}
				}
				return
			case "wg":
				w.expr(se.X)
				return
			}
		}
		if se, loc, ok := w.fieldOf(f.X); ok {
			if tv, okT := info.Types[f.X]; okT && unsafeType(tv.Type) != "" { // a method of a value that is not safe for concurrent use
				w.access(se, loc, "w", "plain")
			}
		}
		if _, _, isOp := lockMode(f.Sel.Name); isOp && len(c.Args) == 0 && w.localMethodOf(f) == "" {
			w.problem(c.Pos(), "lock operation %s on an expression that is not a mutex field of a package struct", types.ExprString(c.Fun))
		}
		if isPkg(info, f.X, "sync/atomic") {
			w.atomic(c, f.Sel.Name)
			return
		}
		if id, ok := f.X.(*ast.Ident); ok {
			if _, isPkgName := info.Uses[id].(*types.PkgName); isPkgName {
				w.args(c.Args, "value")
				return
			}
		}
		if callee := w.localMethodOf(f); callee != "" {
			w.expr(f.X)
			w.args(c.Args, "value")
			w.emitCall(Op{T: "call", Callee: callee, Base: types.ExprString(f.X)}, c, mode)
			if once, ok := w.pi.wraps[callee]; ok && mode == "" {
				w.onces[once] = true
			}
			return
		}
		if _, loc, ok := w.fieldOf(f); ok { // call through a function-typed field
			w.expr(f)
			w.args(c.Args, "value")
			w.emitCall(Op{T: "dyncall", Loc: loc}, c, mode)
			return
		}
		w.expr(f.X)
		w.args(c.Args, "value")
	case *ast.Ident:
		switch obj := info.Uses[f].(type) {
		case *types.Builtin:
			if (f.Name == "delete" || f.Name == "copy") && len(c.Args) > 0 {
				w.lhs(c.Args[0])
				w.expr(c.Args[0])
				w.exprs(c.Args[1:])
				return
			}
			w.exprs(c.Args)
		case *types.Func: // function of this package: a function literal handed to it is run by it
			w.args(c.Args, "sync")
			w.emitCall(Op{T: "call", Callee: w.pi.pkg + "." + obj.Name()}, c, mode)
		case *types.TypeName:
			w.exprs(c.Args)
		default: // local function value, or something dot-imported
			w.args(c.Args, "value")
			w.emitCall(Op{T: "dyncall", Loc: "<" + f.Name + ">"}, c, mode)
		}
	case *ast.FuncLit:
		w.exprs(c.Args)
		kind := map[string]string{"": "sync", "go": "go", "defer": "defer"}[mode]
		n := w.lit(f, kind)
		w.emitCall(Op{T: "call", Callee: n}, c, mode)
	default:
		w.expr(c.Fun)
		w.args(c.Args, "value")
	}
}

func (w *walker) localMethodOf(f *ast.SelectorExpr) string {
	if sel := w.pi.info.Selections[f]; sel != nil && sel.Kind() == types.MethodVal {
		return w.localMethod(sel)
	}
	return ""
}

func (w *walker) lockOp(c *ast.CallExpr, h Held, acquire bool, mode string) {
	cur, isHeld := w.held[key(h)]
	switch {
	case mode == "go":
		w.problem(c.Pos(), "lock operation in a go statement")
	case acquire && mode == "defer":
		w.problem(c.Pos(), "deferred acquisition of %s", h.Lock)
	case acquire:
		if isHeld {
			w.problem(c.Pos(), "%s acquired while already held through %s", h.Lock, h.Base)
		}
		w.held[key(h)] = h
	default:
		if !isHeld || cur.Excl != h.Excl {
			w.problem(c.Pos(), "release of %s (through %s) which this function did not acquire in that mode", h.Lock, h.Base)
		}
		if mode != "defer" { // a deferred release keeps the lock to the end of the function
			delete(w.held, key(h))
		}
	}
}

func (w *walker) onceDo(c *ast.CallExpr, loc string) {
	switch a := c.Args[0].(type) {
	case *ast.FuncLit:
		n := w.lit(a, "once:"+loc)
		w.emit(Op{T: "once", Loc: loc, Callee: n}, c.Pos())
	case *ast.SelectorExpr:
		if callee := w.localMethodOf(a); callee != "" {
			w.expr(a.X)
			w.emit(Op{T: "once", Loc: loc, Callee: callee, Base: types.ExprString(a.X)}, c.Pos())
		} else {
			w.problem(c.Pos(), "argument of %s.Do not understood", loc)
		}
	default:
		w.problem(c.Pos(), "argument of %s.Do not understood", loc)
	}
	w.onces[loc] = true
}

func (w *walker) atomic(c *ast.CallExpr, fn string) {
	if len(c.Args) == 0 {
		return
	}
	if u, ok := c.Args[0].(*ast.UnaryExpr); ok {
		if se, loc, ok := w.fieldOf(u.X); ok {
			k := "w"
			if strings.HasPrefix(fn, "Load") {
				k = "r"
			}
			w.access(se, loc, k, "atomic")
			w.expr(se.X)
			w.exprs(c.Args[1:])
			return
		}
	}
	w.exprs(c.Args)
}
