package main

import (
	"fmt"
	"go/ast"
	"go/token"
	"go/types"
	"path/filepath"
	"strings"
)

var syncTypes = map[string]string{"sync.Mutex": "mutex", "sync.RWMutex": "mutex", "*sync.Mutex": "mutex", "*sync.RWMutex": "mutex",
	"sync.Once": "once", "sync.Cond": "cond", "*sync.Cond": "cond", "sync.Map": "syncmap", "sync.WaitGroup": "wg"}

func (w *walker) exprs(l []ast.Expr) {
	for _, e := range l {
		w.expr(e)
	}
}

func (w *walker) localStruct(t ast.Expr) bool {
	if id, ok := t.(*ast.Ident); ok {
		for _, s := range out.Structs {
			if s.Name == w.pi.pkg+"."+id.Name {
				return true
			}
		}
	}
	return false
}

// constructs: the expression creates a new object of a struct of this package (T{..}, &T{..}, new(T))
func (w *walker) constructs(e ast.Expr) bool {
	if u, ok := e.(*ast.UnaryExpr); ok && u.Op == token.AND {
		e = u.X
	}
	if cl, ok := e.(*ast.CompositeLit); ok && cl.Type != nil {
		return w.localStruct(cl.Type)
	}
	if c, ok := e.(*ast.CallExpr); ok && len(c.Args) == 1 {
		if id, ok := c.Fun.(*ast.Ident); ok && id.Name == "new" {
			return w.localStruct(c.Args[0])
		}
	}
	return false
}

// expr: everything the evaluation of e reads
func (w *walker) expr(e ast.Expr) {
	switch e := e.(type) {
	case nil, *ast.Ident, *ast.BasicLit:
	case *ast.SelectorExpr:
		if se, loc, ok := w.fieldOf(e); ok {
			w.access(se, loc, "r", "plain")
		} else if sel := w.pi.info.Selections[e]; sel != nil && sel.Kind() == types.MethodVal {
			if c := w.localMethod(sel); c != "" { // method value: the method may be called from anywhere
				w.emit(Op{T: "ref", Callee: c, Base: types.ExprString(e.X)}, e.Pos())
			}
		}
		w.expr(e.X)
	case *ast.CallExpr:
		w.call(e, "")
	case *ast.FuncLit:
		n := w.lit(e, "value")
		w.emit(Op{T: "ref", Callee: n}, e.Pos())
	case *ast.CompositeLit:
		for _, el := range e.Elts {
			if kv, ok := el.(*ast.KeyValueExpr); ok {
				if id, ok := kv.Key.(*ast.Ident); ok && e.Type != nil && w.localStruct(e.Type) {
					loc := w.pi.pkg + "." + e.Type.(*ast.Ident).Name + "." + id.Name
					w.emit(Op{T: "acc", Loc: loc, K: "w", Via: "plain", Base: "<literal>", Fresh: true}, kv.Pos())
					w.expr(kv.Value)
					if why := w.stateful(kv.Value); why != "" {
						w.payload(loc, why, kv.Pos())
					}
					continue
				}
				w.expr(kv.Key)
				w.expr(kv.Value)
			} else {
				w.expr(el)
			}
		}
	case *ast.UnaryExpr:
		if e.Op == token.AND {
			if _, loc, ok := w.fieldOf(e.X); ok {
				if syncTypes[w.pi.ftype[loc]] == "" { // a pointer to the field is handed on: counted as a read here
					p := w.pi.fset.Position(e.Pos())
					out.Notes = append(out.Notes, fmt.Sprintf("%s:%d: %s: address of %s taken; counted as a read, assumed not to be written through the pointer",
						filepath.Base(p.Filename), p.Line, w.u.Name, loc))
					w.expr(e.X)
					return
				}
				w.expr(e.X.(*ast.SelectorExpr).X)
				return
			}
		}
		w.expr(e.X)
	case *ast.BinaryExpr:
		w.expr(e.X)
		w.expr(e.Y)
	case *ast.ParenExpr:
		w.expr(e.X)
	case *ast.StarExpr:
		w.expr(e.X)
	case *ast.IndexExpr:
		w.expr(e.X)
		w.expr(e.Index)
	case *ast.SliceExpr:
		w.expr(e.X)
		w.expr(e.Low)
		w.expr(e.High)
		w.expr(e.Max)
	case *ast.TypeAssertExpr:
		w.expr(e.X)
	case *ast.KeyValueExpr:
		w.expr(e.Key)
		w.expr(e.Value)
	case *ast.ArrayType, *ast.MapType, *ast.ChanType, *ast.FuncType, *ast.StructType, *ast.InterfaceType, *ast.Ellipsis:
	default:
		w.problem(e.Pos(), "expression %T not understood", e)
	}
}

// lhs: e is assigned to.  The first field of a package struct met on the way down (through indexing, field selection of
// foreign or nested values, dereference) is written: either the field itself or what it contains.
func (w *walker) lhs(e ast.Expr) {
	switch e := e.(type) {
	case *ast.Ident:
	case *ast.SelectorExpr:
		if se, loc, ok := w.fieldOf(e); ok {
			w.access(se, loc, "w", "plain")
			w.expr(e.X)
			return
		}
		w.lhs(e.X)
	case *ast.IndexExpr:
		w.expr(e.Index)
		w.lhs(e.X)
	case *ast.StarExpr:
		w.lhs(e.X)
	case *ast.ParenExpr:
		w.lhs(e.X)
	case *ast.SliceExpr:
		w.lhs(e.X)
	case *ast.CallExpr: // f(x)[i] = v : the result of a call is written through
		w.expr(e)
	default:
		w.problem(e.Pos(), "assignment target %T not understood", e)
	}
}

func (w *walker) localMethod(sel *types.Selection) string {
	f, ok := sel.Obj().(*types.Func)
	if !ok {
		return ""
	}
	sig, ok := f.Type().(*types.Signature)
	if !ok || sig.Recv() == nil {
		return ""
	}
	t := sig.Recv().Type()
	if p, ok := t.(*types.Pointer); ok {
		t = p.Elem()
	}
	n, ok := t.(*types.Named)
	if !ok || n.Obj().Pkg() == nil || n.Obj().Pkg().Name() != w.pi.pkg {
		return ""
	}
	if _, isIface := n.Underlying().(*types.Interface); isIface {
		return ""
	}
	return w.pi.pkg + "." + n.Obj().Name() + "." + f.Name()
}

func isPkg(info *types.Info, x ast.Expr, path string) bool {
	id, ok := x.(*ast.Ident)
	if !ok {
		return false
	}
	pn, ok := info.Uses[id].(*types.PkgName)
	return ok && pn.Imported().Path() == path
}

func lockMode(m string) (acquire, excl, isLockOp bool) {
	switch m {
	case "Lock":
		return true, true, true
	case "RLock":
		return true, false, true
	case "Unlock":
		return false, true, true
	case "RUnlock":
		return false, false, true
	}
	return false, false, false
}

var _ = strings.HasPrefix
