package main

import (
	"go/ast"
	"go/build/constraint"
	"go/parser"
	"go/token"
	"go/types"
	"os"
	"path/filepath"
	"sort"
	"strings"
)

type pkgInfo struct {
	fset  *token.FileSet
	info  *types.Info
	pkg   string
	owner map[*types.Var]string // field object -> "pkg.Struct"
	ftype map[string]string     // "pkg.Struct.field" -> type text
	rets  map[string]string     // function / method -> why the function value it returns is stateful
	lits  map[*ast.FuncLit]*Unit
	wraps map[string]string // method whose whole body is `x.once.Do(..)` -> that sync.Once field
}

// buildOK: the file takes part in a build without the `verif` tag
func buildOK(path string) bool {
	src, err := os.ReadFile(path)
	if err != nil {
		return false
	}
	for _, line := range strings.Split(string(src), "\n") {
		t := strings.TrimSpace(line)
		if strings.HasPrefix(t, "package ") {
			break
		}
		if constraint.IsGoBuild(t) {
			x, err := constraint.Parse(t)
			if err != nil {
				return false
			}
			return x.Eval(func(tag string) bool { return tag == "linux" || tag == "amd64" || tag == "gc" })
		}
	}
	return true
}

func analysePackage(listed []string) {
	dir := filepath.Dir(listed[0])
	entries, err := os.ReadDir(dir)
	if err != nil {
		out.Problems = append(out.Problems, "cannot read "+dir+": "+err.Error())
		return
	}
	fset := token.NewFileSet()
	var files []*ast.File
	seen := map[string]bool{}
	for _, e := range entries {
		n := e.Name()
		if !strings.HasSuffix(n, ".go") || strings.HasSuffix(n, "_test.go") {
			continue
		}
		p := filepath.Join(dir, n)
		if !buildOK(p) {
			continue
		}
		f, err := parser.ParseFile(fset, p, nil, parser.SkipObjectResolution)
		if err != nil {
			out.Problems = append(out.Problems, "parse error: "+err.Error())
			return
		}
		files = append(files, f)
		seen[p] = true
	}
	for _, l := range listed {
		if !seen[l] {
			out.Problems = append(out.Problems, "listed file is not part of the untagged build: "+l)
		}
	}
	if len(files) == 0 {
		return
	}
	info := &types.Info{
		Types:      map[ast.Expr]types.TypeAndValue{},
		Defs:       map[*ast.Ident]types.Object{},
		Uses:       map[*ast.Ident]types.Object{},
		Selections: map[*ast.SelectorExpr]*types.Selection{},
	}
	conf := types.Config{Importer: theImporter, Error: func(error) {}, DisableUnusedImportCheck: true}
	tp, _ := conf.Check(files[0].Name.Name, fset, files, info)
	pi := &pkgInfo{fset: fset, info: info, pkg: files[0].Name.Name, owner: map[*types.Var]string{}, ftype: map[string]string{}, wraps: map[string]string{}, rets: map[string]string{}, lits: map[*ast.FuncLit]*Unit{}}
	// structs declared in the package: owner of every field object, declared type text of every field
	for _, f := range files {
		fname := filepath.Base(fset.Position(f.Pos()).Filename)
		for _, d := range f.Decls {
			gd, ok := d.(*ast.GenDecl)
			if !ok || gd.Tok != token.TYPE {
				continue
			}
			for _, s := range gd.Specs {
				ts := s.(*ast.TypeSpec)
				st, ok := ts.Type.(*ast.StructType)
				if !ok {
					continue
				}
				sname := pi.pkg + "." + ts.Name.Name
				rec := &Struct{Name: sname, Fields: map[string]string{}, File: fname}
				for _, fld := range st.Fields.List {
					tt := types.ExprString(fld.Type)
					if len(fld.Names) == 0 { // embedded
						n := tt[strings.LastIndexAny(tt, ".*")+1:]
						rec.Fields[n] = tt
						pi.ftype[sname+"."+n] = tt
					}
					for _, n := range fld.Names {
						rec.Fields[n.Name] = tt
						pi.ftype[sname+"."+n.Name] = tt
					}
				}
				out.Structs = append(out.Structs, rec)
				if tp != nil {
					if obj := tp.Scope().Lookup(ts.Name.Name); obj != nil {
						if stt, ok := obj.Type().Underlying().(*types.Struct); ok {
							for i := 0; i < stt.NumFields(); i++ {
								pi.owner[stt.Field(i)] = sname
							}
						}
					}
				}
			}
		}
	}
	sort.Slice(out.Structs, func(i, j int) bool { return out.Structs[i].Name < out.Structs[j].Name })
	probe := &walker{pi: pi, u: &Unit{}}
	for _, f := range files {
		for _, d := range f.Decls {
			fd, ok := d.(*ast.FuncDecl)
			if !ok || fd.Body == nil || len(fd.Body.List) != 1 || fd.Recv == nil || len(fd.Recv.List) != 1 {
				continue
			}
			if es, ok := fd.Body.List[0].(*ast.ExprStmt); ok {
				if c, ok := es.X.(*ast.CallExpr); ok {
					if se, ok := c.Fun.(*ast.SelectorExpr); ok && se.Sel.Name == "Do" {
						if _, loc, ok := probe.fieldOf(se.X); ok && syncTypes[pi.ftype[loc]] == "once" {
							t := fd.Recv.List[0].Type
							if st, ok := t.(*ast.StarExpr); ok {
								t = st.X
							}
							if id, ok := t.(*ast.Ident); ok {
								pi.wraps[pi.pkg+"."+id.Name+"."+fd.Name.Name] = loc
							}
						}
					}
				}
			}
		}
	}
	// pass 1 only learns which functions return stateful function values (pi.rets); its output is discarded
	nu, np, nn := len(out.Units), len(out.Problems), len(out.Notes)
	for _, f := range files {
		for _, d := range f.Decls {
			if fd, ok := d.(*ast.FuncDecl); ok && fd.Body != nil {
				pi.funcDecl(fd)
			}
		}
	}
	out.Units, out.Problems, out.Notes = out.Units[:nu], out.Problems[:np], out.Notes[:nn]
	pi.lits = map[*ast.FuncLit]*Unit{}
	for _, f := range files {
		for _, d := range f.Decls {
			if fd, ok := d.(*ast.FuncDecl); ok && fd.Body != nil {
				pi.funcDecl(fd)
			}
		}
	}
}
