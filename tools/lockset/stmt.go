package main

import (
	"go/ast"
	"go/token"
)

// merge: the locks held after a branching statement are those held at the end of every branch that falls through
func (w *walker) merge(states []map[string]Held, onces []map[string]bool, entry map[string]Held) {
	if len(states) == 0 { // every branch leaves the function / loop
		return
	}
	r := copyHeld(states[0])
	for _, s := range states[1:] {
		for k, v := range r {
			if o, ok := s[k]; !ok || o != v {
				delete(r, k)
			}
		}
	}
	o := copySet(onces[0])
	for _, s := range onces[1:] {
		for k := range o {
			if !s[k] {
				delete(o, k)
			}
		}
	}
	w.held, w.onces = r, o
}

// branches runs each body from the current state; fall = the construct can also be skipped entirely
func (w *walker) branches(bodies [][]ast.Stmt, fall bool, breakable bool) {
	entryH, entryO := copyHeld(w.held), copySet(w.onces)
	var hs []map[string]Held
	var os []map[string]bool
	if breakable {
		w.loops = append(w.loops, entryH)
	}
	for _, b := range bodies {
		w.held, w.onces = copyHeld(entryH), copySet(entryO)
		if !w.stmts(b) {
			hs, os = append(hs, w.held), append(os, w.onces)
		}
	}
	if breakable {
		w.loops = w.loops[:len(w.loops)-1]
	}
	if fall {
		hs, os = append(hs, entryH), append(os, entryO)
	}
	w.held, w.onces = entryH, entryO
	w.merge(hs, os, entryH)
}

func (w *walker) stmts(list []ast.Stmt) (terminated bool) {
	for _, s := range list {
		if w.stmt(s) {
			return true
		}
	}
	return false
}

func (w *walker) stmt(s ast.Stmt) (terminated bool) {
	switch s := s.(type) {
	case nil, *ast.EmptyStmt:
	case *ast.ExprStmt:
		if c, ok := s.X.(*ast.CallExpr); ok {
			if id, ok := c.Fun.(*ast.Ident); ok && id.Name == "panic" {
				w.exprs(c.Args)
				return true
			}
		}
		w.expr(s.X)
	case *ast.AssignStmt:
		w.exprs(s.Rhs)
		for i, l := range s.Lhs {
			if len(s.Lhs) == len(s.Rhs) {
				w.storeInto(l, s.Rhs[i])
			}
			if s.Tok == token.DEFINE {
				if id, ok := l.(*ast.Ident); ok && len(s.Lhs) == len(s.Rhs) && w.constructs(s.Rhs[i]) {
					w.fresh[id.Name] = true
				}
				continue
			}
			if s.Tok != token.ASSIGN { // += etc. read the target as well
				w.expr(l)
			}
			w.lhs(l)
		}
	case *ast.IncDecStmt:
		w.expr(s.X)
		w.lhs(s.X)
	case *ast.DeclStmt:
		if gd, ok := s.Decl.(*ast.GenDecl); ok && gd.Tok == token.VAR {
			for _, sp := range gd.Specs {
				vs := sp.(*ast.ValueSpec)
				w.exprs(vs.Values)
				for i, n := range vs.Names {
					if len(vs.Values) == len(vs.Names) {
						w.storeInto(n, vs.Values[i])
					}
					if (len(vs.Values) == 0 && vs.Type != nil && w.localStruct(vs.Type)) ||
						(len(vs.Values) == len(vs.Names) && w.constructs(vs.Values[i])) {
						w.fresh[n.Name] = true
					}
				}
			}
		}
	case *ast.ReturnStmt:
		w.exprs(s.Results)
		return true
	case *ast.BranchStmt:
		if s.Tok == token.BREAK || s.Tok == token.CONTINUE {
			if len(w.loops) == 0 || !sameHeld(w.held, w.loops[len(w.loops)-1]) {
				w.problem(s.Pos(), "%s with a different set of locks than at the entry of the enclosing statement", s.Tok)
			}
			return true
		}
		w.problem(s.Pos(), "%s statement not understood", s.Tok)
	case *ast.BlockStmt:
		return w.stmts(s.List)
	case *ast.LabeledStmt:
		return w.stmt(s.Stmt)
	case *ast.SendStmt:
		w.expr(s.Chan)
		w.expr(s.Value)
	case *ast.GoStmt:
		w.call(s.Call, "go")
	case *ast.DeferStmt:
		w.call(s.Call, "defer")
	case *ast.IfStmt:
		w.stmt(s.Init)
		w.expr(s.Cond)
		bodies := [][]ast.Stmt{s.Body.List}
		fall := true
		if s.Else != nil {
			bodies, fall = append(bodies, []ast.Stmt{s.Else}), false
		}
		w.branches(bodies, fall, false)
	case *ast.ForStmt:
		w.stmt(s.Init)
		w.expr(s.Cond)
		entry := copyHeld(w.held)
		w.loops = append(w.loops, entry)
		body := append(append([]ast.Stmt{}, s.Body.List...), s.Post)
		if !w.stmts(body) && !sameHeld(w.held, entry) {
			w.problem(s.Pos(), "loop body changes the set of held locks")
		}
		w.loops = w.loops[:len(w.loops)-1]
		w.held = entry
	case *ast.RangeStmt:
		w.expr(s.X)
		entry := copyHeld(w.held)
		w.loops = append(w.loops, entry)
		if !w.stmts(s.Body.List) && !sameHeld(w.held, entry) {
			w.problem(s.Pos(), "loop body changes the set of held locks")
		}
		w.loops = w.loops[:len(w.loops)-1]
		w.held = entry
	case *ast.SwitchStmt:
		w.stmt(s.Init)
		w.expr(s.Tag)
		w.clauses(s.Body.List, true)
	case *ast.TypeSwitchStmt:
		w.stmt(s.Init)
		w.stmt(s.Assign)
		w.clauses(s.Body.List, true)
	case *ast.SelectStmt:
		w.clauses(s.Body.List, false) // a select runs exactly one of its clauses
	default:
		w.problem(s.Pos(), "statement %T not understood", s)
	}
	return false
}

func (w *walker) clauses(list []ast.Stmt, skippable bool) {
	var bodies [][]ast.Stmt
	hasDefault := false
	for _, c := range list {
		switch c := c.(type) {
		case *ast.CaseClause:
			w.exprs(c.List)
			hasDefault = hasDefault || c.List == nil
			bodies = append(bodies, c.Body)
		case *ast.CommClause:
			hasDefault = hasDefault || c.Comm == nil
			bodies = append(bodies, append([]ast.Stmt{c.Comm}, c.Body...))
		}
	}
	w.branches(bodies, skippable && !hasDefault, true)
}
