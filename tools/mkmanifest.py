#!/usr/bin/env python3
"""Writes /verif/MANIFEST.json from the table below (kept in one place so it stays valid)."""
import json, os, sys
sys.path.insert(0, os.path.dirname(os.path.dirname(os.path.abspath(__file__))))
from checks.registry import REGISTRY, META

BASE = ("for m in $(cat /w/out/gomods.txt); do MF=$(cd /repo/$m && . /w/out/goenv.sh && gomodflag); "
        "(cd /repo/$m && go test $MF -json -vet=off -count=1 -timeout 25m ./...); done")

props = [json.loads(l)["id"] for l in open(os.path.join(os.path.dirname(__file__), "..", "properties.jsonl"))]
checks, na = [], []
for pid in props:
    if pid in REGISTRY:
        m = META[pid]
        checks.append(dict(
            property_id=pid,
            quick_cmd="./check %s --tier quick" % pid,
            thorough_cmd="./check %s --tier thorough" % pid,
            evidence_file="evidence/%s.json" % pid,
            replay_cmd_template="./check %s --replay {path}" % pid,
            engine=m["engine"],
            level_claimed=dict(category="proof", text=m["text"], design_ref=m.get("ref", "DESIGN.md section 5 / " + pid)),
            level_note=m["note"],
            technique="machine-checked proof in Coq 8.16 (model theorems) + differential correspondence check model vs Go",
        ))
    else:
        na.append(dict(property_id=pid, reason=META.get(pid, {}).get("na", "check not built yet in this round")))
man = dict(
    version=1,
    setup_cmd="./check --setup",
    hooks=dict(guard="verif", enable="go build -tags verif (harness modules replace github.com/IBM/TSS... => /repo)",
               baseline_off_cmd=BASE, add_only=True,
               source_commits=[l.strip() for l in open(os.path.join(os.path.dirname(__file__), "..", "HOOK_COMMITS.txt"))
                               if l.strip() and not l.startswith("#")]),
    engines=[dict(name=k, path=v["path"], serves_properties=v["props"], kind_free_text=v["kind"]) for k, v in
             sorted(__import__("checks.registry", fromlist=["ENGINES"]).ENGINES.items())],
    checks=checks,
    not_applicable=na,
    notes="Coq 8.16.1 development under coq/ (coq_makefile, full .vo build); Go harness modules under harness/ built against "
          "/repo's working tree with -tags verif; see DESIGN.md.",
)
json.dump(man, open(os.path.join(os.path.dirname(__file__), "..", "MANIFEST.json"), "w"), indent=1)
print("MANIFEST.json: %d checks, %d not_applicable" % (len(checks), len(na)))
