#!/usr/bin/env python3
"""gen_adapters.py <repo> <gendir>

Translator for property C19 (tss-lib adapters).  Reads /repo/mpc/binance/{ecdsa,eddsa}/mpc.go and writes

  <gendir>/Adapters.v         the two classification tables of each adapter (msgURL2Round, broadcastMessages) as Coq
                              lists, the constants of the `round > K -> round - D` rule, the identifier bound of OnMsg,
                              and the *shape* of the two decision rules (is claimedFrom compared with from?  is the
                              signed digest compared, and with what?) as booleans;
  <gendir>/AdaptersRouting.v  the routing table captured from real tss-lib runs (corpus/C19/routing_<scheme>.json).

It is run before every Coq build (vlib.regen), so the theorems of Adapters/ClassifyFacts.v and Props/C19.v are re-checked
against what the Go source says now.  Tables and rule constants: the shape must be recognised; otherwise the translator says so on stderr and
writes empty tables with `translator_ok := false` (C19_translator_ok and the table theorems then fail, nothing else does).  Decision-rule shapes: an absent comparison is emitted as `false` (the theorems that need it then fail).
"""
import json, os, re, sys

ADAPTERS = [("ecdsa", "mpc/binance/ecdsa/mpc.go"), ("eddsa", "mpc/binance/eddsa/mpc.go")]
MATH_CONSTS = {"MaxUint8": 255, "MaxUint16": 65535, "MaxInt16": 32767, "MaxUint32": 4294967295}


class Shape(Exception):
    pass


def strip_comments(src):
    # the file has no string literal containing "//" other than none at all in the parsed regions; line comments only
    out = []
    for line in src.splitlines():
        # keep "//" inside string literals (type URLs contain "type.googleapis.com/" but never "//")
        m = re.search(r'//', line)
        if m and line.count('"', 0, m.start()) % 2 == 0:
            line = line[:m.start()]
        out.append(line)
    src = "\n".join(out)
    return re.sub(r"/\*.*?\*/", "", src, flags=re.S)


def map_literal(src, name, typ):
    m = re.search(r"\b%s\s*=\s*%s\s*\{" % (re.escape(name), re.escape(typ)), src)
    if not m:
        raise Shape("no `%s = %s{` literal" % (name, typ))
    i = m.end()
    depth, j = 1, i
    while depth:
        if j >= len(src):
            raise Shape("unterminated literal of " + name)
        c = src[j]
        if c == '"':
            j = src.index('"', j + 1)
        elif c == "{":
            depth += 1
        elif c == "}":
            depth -= 1
        j += 1
    if len(re.findall(r"\b%s\s*=" % re.escape(name), src)) != 1 or re.search(r"\b%s\s*\[[^\]]*\]\s*=[^=]" % re.escape(name), src) \
            or re.search(r"delete\(\s*%s\b" % re.escape(name), src):
        raise Shape("%s is assigned or modified outside its literal" % name)
    return src[i:j - 1]


def parse_rounds(body):
    res, rest = [], body
    for m in re.finditer(r'\s*"([^"\\]*)"\s*:\s*(\d+)\s*,', body):
        res.append((m.group(1), int(m.group(2))))
    rest = re.sub(r'\s*"([^"\\]*)"\s*:\s*(\d+)\s*,', "", body)
    if rest.strip():
        raise Shape("msgURL2Round: unrecognised text %r" % rest.strip()[:80])
    return res


def parse_set(body):
    res = [m.group(1) for m in re.finditer(r'\s*"([^"\\]*)"\s*:\s*(?:struct\{\})?\{\}\s*,', body)]
    rest = re.sub(r'\s*"([^"\\]*)"\s*:\s*(?:struct\{\})?\{\}\s*,', "", body)
    if rest.strip():
        raise Shape("broadcastMessages: unrecognised text %r" % rest.strip()[:80])
    return res


def func_body(src, sig_re):
    m = re.search(sig_re, src)
    if not m:
        raise Shape("function not found: " + sig_re)
    i = src.index("{", m.end() - 1)
    depth, j = 1, i + 1
    while depth:
        c = src[j]
        if c == '"':
            j = src.index('"', j + 1)
        elif c == "`":
            j = src.index("`", j + 1)
        elif c == "{":
            depth += 1
        elif c == "}":
            depth -= 1
        j += 1
    return src[i + 1:j - 1]


def parse_adapter(path):
    raw = open(path, encoding="utf-8").read()
    src = strip_comments(raw)
    a = {}
    a["rounds"] = parse_rounds(map_literal(src, "msgURL2Round", "map[string]uint8"))
    a["broadcast"] = parse_set(map_literal(src, "broadcastMessages", "map[string]struct{}"))
    if not a["rounds"] or not a["broadcast"]:
        raise Shape("empty table")
    for u, r in a["rounds"]:
        if not (0 <= r < 256) or not all(32 <= ord(c) < 127 for c in u):
            raise Shape("table entry outside uint8 / printable ASCII: %r" % ((u, r),))
    if len(set(u for u, _ in a["rounds"])) != len(a["rounds"]) or len(set(a["broadcast"])) != len(a["broadcast"]):
        raise Shape("duplicate key (would not compile)")
    # ---- ClassifyMsg: lookups and the `round > K -> round - D` rule
    cl = func_body(src, r"func \(p \*party\) ClassifyMsg\(msgBytes \[\]byte\) \(uint8, bool, error\)\s*\{")
    if not re.search(r"_,\s*isBroadcast\s*:=\s*broadcastMessages\[msg\.TypeUrl\]", cl) or \
            not re.search(r"round\s*:=\s*msgURL2Round\[msg\.TypeUrl\]", cl) or \
            not re.search(r"return\s+round\s*,\s*isBroadcast\s*,\s*nil", cl):
        raise Shape("ClassifyMsg: table lookups / result not in the recognised form")
    m = re.search(r"if\s+round\s*>\s*(\d+)\s*\{\s*round\s*=\s*round\s*-\s*(\d+)\s*\}", cl)
    if not m:
        raise Shape("ClassifyMsg: no `if round > K { round = round - D }` rule")
    a["round_threshold"], a["round_offset"] = int(m.group(1)), int(m.group(2))
    if a["round_offset"] > 255 or a["round_threshold"] > 255:
        raise Shape("rule constants outside uint8")
    leftover = re.sub(r"if\s+round\s*>\s*(\d+)\s*\{\s*round\s*=\s*round\s*-\s*(\d+)\s*\}", "", cl)
    if len(re.findall(r"\bround\b\s*(=[^=]|\+=|-=|\+\+|--)", leftover)) != 0:
        raise Shape("ClassifyMsg: round is modified outside the recognised rule")
    if len(re.findall(r"\bisBroadcast\b\s*(=[^=])", leftover)) != 0:
        raise Shape("ClassifyMsg: isBroadcast is modified outside the lookup")
    # ---- OnMsg: identifier bound and sender comparison
    on = func_body(src, r"func \(p \*party\) OnMsg\(msgBytes \[\]byte, from uint16, broadcast bool\)\s*\{")
    m = re.search(r"if\s+key\s*==\s*nil\s*\|\|\s*key\.Cmp\(big\.NewInt\(int64\(math\.(\w+)\)\)\)\s*(>=|>)\s*0\s*\{[^{}]*?\breturn\b[^{}]*\}", on)
    if m:
        if m.group(1) not in MATH_CONSTS:
            raise Shape("OnMsg: unknown constant math." + m.group(1))
        a["onmsg_checks_key"] = True
        a["key_limit"] = MATH_CONSTS[m.group(1)] + (0 if m.group(2) == ">=" else 1)   # valid keys are < key_limit
    else:
        a["onmsg_checks_key"], a["key_limit"] = False, 0
    a["onmsg_checks_sender"] = bool(
        re.search(r"key\s*:=\s*msg\.GetFrom\(\)\.KeyInt\(\)", on) and
        re.search(r"claimedFrom\s*:=\s*uint16\(key\.Uint64\(\)\)", on) and
        re.search(r"if\s+claimedFrom\s*!=\s*from\s*\{[^{}]*?\breturn\b[^{}]*\}\s*p\.in\s*<-\s*msg", on))
    if not re.search(r"p\.in\s*<-\s*msg", on):
        raise Shape("OnMsg: no `p.in <- msg`")
    # ---- slot lookup: locatePartyIndex = index of the party with the EQUAL key, -1 otherwise; used by OnMsg for the PartyID
    #      built from the transport sender; Init sorts the identifiers (tss.SortPartyIDs), so slots are positions in key order
    try:
        lp = re.sub(r"\s+", " ", func_body(src, r"func \(p \*party\) locatePartyIndex\(id \*tss\.PartyID\) int\s*\{")).strip()
    except (Shape, ValueError):
        lp = ""
    scan = bool(re.fullmatch(r"for (\w+), (\w+) := range p\.params\.Parties\(\)\.IDs\(\) \{ "
                             r"if bytes\.Equal\((?:\2\.Key, id\.Key|id\.Key, \2\.Key)\) \{ return \1 \} \} return -1", lp))
    uses = bool(re.search(r"id\s*:=\s*tss\.NewPartyID\(fmt\.Sprintf\(\"%d\",\s*from\),\s*\"\",\s*big\.NewInt\(int64\(from\)\)\)\s*"
                          r"id\.Index\s*=\s*p\.locatePartyIndex\(id\)\s*"
                          r"msg,\s*err\s*:=\s*tss\.ParseWireMessage\(msgBytes,\s*id,\s*broadcast\)", on))
    try:
        pn = func_body(src, r"func partyIDsFromNumbers\(parties \[\]uint16\) \[\]\*tss\.PartyID\s*\{")
        ini = func_body(src, r"func \(p \*party\) Init\(parties \[\]uint16, threshold int, sendMsg func\(msg \[\]byte, isBroadcast bool, to uint16\)\)\s*\{")
    except (Shape, ValueError):
        pn, ini = "", ""
    sorts = bool(re.search(r"return\s+tss\.SortPartyIDs\(partyIDs\)", pn) and
                 re.search(r"partyIDs\s*:=\s*partyIDsFromNumbers\(parties\)\s*ctx\s*:=\s*tss\.NewPeerContext\(partyIDs\)", ini))
    a["locate_scan"], a["locate_used"], a["locate_sorted"] = scan, uses, sorts
    a["locate_exact"] = scan and uses and sorts
    # ---- Sign: what is signed, what the result is compared with
    sg = func_body(src, r"func \(p \*party\) Sign\(ctx context\.Context, msgHash \[\]byte\) \(\[\]byte, error\)\s*\{")
    m = re.search(r"msgToSign\s*:=\s*(hashToInt\(msgHash,\s*elliptic\.P256\(\)\)|big\.NewInt\(0\)\.SetBytes\(msgHash\))", sg)
    if not m:
        raise Shape("Sign: msgToSign is not derived from msgHash in a recognised way")
    a["sign_hash_to_int"] = m.group(1).startswith("hashToInt")
    m = re.search(r"signing\.NewLocalParty\(msgToSign,\s*p\.params,\s*\*p\.shareData,\s*p\.out,\s*end(\s*,\s*len\(msgHash\))?\s*\)", sg)
    if not m:
        raise Shape("Sign: signing.NewLocalParty call not in a recognised form")
    a["sign_full_len"] = bool(m.group(1))
    m = re.search(r"case\s+sigOut\s*:=\s*<-end:\s*if\s+!bytes\.Equal\(sigOut\.M,\s*(msgToSign\.Bytes\(\)|msgHash)\)\s*\{\s*return\s+nil\s*,", sg)
    a["sign_compares"] = bool(m)
    a["sign_target_full"] = bool(m and m.group(1) == "msgHash")
    if a["sign_hash_to_int"]:
        hb = func_body(src, r"func hashToInt\(hash \[\]byte, c elliptic\.Curve\) \*big\.Int\s*\{")
        a["hash_to_int_std"] = bool(re.search(r"orderBits\s*:=\s*c\.Params\(\)\.N\.BitLen\(\)", hb) and
                                    re.search(r"orderBytes\s*:=\s*\(orderBits\s*\+\s*7\)\s*/\s*8", hb) and
                                    re.search(r"if\s+len\(hash\)\s*>\s*orderBytes\s*\{\s*hash\s*=\s*hash\[:orderBytes\]\s*\}", hb) and
                                    re.search(r"excess\s*:=\s*len\(hash\)\*8\s*-\s*orderBits", hb))
    else:
        a["hash_to_int_std"] = False
    m = re.search(r"in:\s*make\(chan tss\.Message,\s*(\d+)\)", src)
    a["in_capacity"] = int(m.group(1)) if m else 0
    return a


def coq_str(s):
    return '"' + s.replace('"', '""') + '"'


def coq_bool(b):
    return "true" if b else "false"


EMPTY = dict(rounds=[], broadcast=[], round_threshold=0, round_offset=0, onmsg_checks_key=False, key_limit=0,
             onmsg_checks_sender=False, sign_compares=False, sign_target_full=False, sign_full_len=False, sign_hash_to_int=False,
             hash_to_int_std=False, in_capacity=0, locate_exact=False)


def emit_adapters(ads, error=None):
    L = ["(* GENERATED by tools/gen_adapters.py from mpc/binance/{ecdsa,eddsa}/mpc.go -- do not edit.",
         "   Regenerated before every Coq build; a change of the Go tables or decision rules changes this file. *)",
         "From Coq Require Import String Ascii List NArith Bool.",
         "Import ListNotations.",
         "Open Scope string_scope.",
         "Open Scope N_scope.",
         ""]
    if error is not None:
        L.append("(* THE GO SOURCE IS NOT IN THE RECOGNISED SHAPE: %s" % error.replace("*)", "* )"))
        L.append("   Empty tables are written so that the rest of the development still builds; C19_translator_ok fails. *)")
    L.append("Definition translator_ok : bool := %s." % coq_bool(error is None))
    L.append("")
    for name, a in ads:
        L.append("(* ---- %s : msgURL2Round *)" % name)
        L.append("Definition %s_rounds : list (string * N) :=\n  [ %s ]." % (
            name, ";\n    ".join("(%s, %d)" % (coq_str(u), r) for u, r in a["rounds"])))
        L.append("(* ---- %s : broadcastMessages *)" % name)
        L.append("Definition %s_broadcast : list string :=\n  [ %s ]." % (name, ";\n    ".join(coq_str(u) for u in a["broadcast"])))
        L.append("(* ClassifyMsg: if round > %d { round = round - %d } *)" % (a["round_threshold"], a["round_offset"]))
        L.append("Definition %s_round_threshold : N := %d." % (name, a["round_threshold"]))
        L.append("Definition %s_round_offset : N := %d." % (name, a["round_offset"]))
        L.append("(* OnMsg: keys >= key_limit are refused (math.MaxUint16 compared with >=); claimedFrom != from refused *)")
        L.append("Definition %s_onmsg_checks_key : bool := %s." % (name, coq_bool(a["onmsg_checks_key"])))
        L.append("Definition %s_key_limit : N := %d." % (name, a["key_limit"]))
        L.append("Definition %s_onmsg_checks_sender : bool := %s." % (name, coq_bool(a["onmsg_checks_sender"])))
        L.append("(* slot lookup: locatePartyIndex is the linear scan returning the index of the party with the equal key (-1 otherwise),")
        L.append("   OnMsg files the message under locatePartyIndex(PartyID of the transport sender), Init sorts the identifiers *)")
        L.append("Definition %s_locate_exact : bool := %s." % (name, coq_bool(a["locate_exact"])))
        L.append("(* Sign: is sigOut.M compared at all; with msgHash itself (true) or with msgToSign.Bytes() (false); is len(msgHash)")
        L.append("   handed to the library as fullBytesLen; is the digest converted by the standard-library hashToInt *)")
        L.append("Definition %s_sign_compares : bool := %s." % (name, coq_bool(a["sign_compares"])))
        L.append("Definition %s_sign_target_full : bool := %s." % (name, coq_bool(a["sign_target_full"])))
        L.append("Definition %s_sign_full_len : bool := %s." % (name, coq_bool(a["sign_full_len"])))
        L.append("Definition %s_sign_hash_to_int : bool := %s." % (name, coq_bool(a["sign_hash_to_int"])))
        L.append("Definition %s_hash_to_int_std : bool := %s." % (name, coq_bool(a["hash_to_int_std"])))
        L.append("Definition %s_in_capacity : N := %d." % (name, a["in_capacity"]))
        L.append("")
    return "\n".join(L)


def load_routing(corpus, name):
    p = os.path.join(corpus, "routing_%s.json" % name)
    d = json.load(open(p))
    rows = d["routing"]
    seen = {}
    for r in rows:
        u = r["url"]
        if not all(32 <= ord(c) < 127 for c in u) or r["phase"] not in ("keygen", "signing") or not isinstance(r["is_broadcast"], bool):
            raise Shape("%s: bad row %r" % (p, r))
        if u in seen:
            raise Shape("%s: URL twice: %s" % (p, u))
        seen[u] = 1
    if not rows:
        raise Shape(p + ": empty capture")
    return rows


def emit_routing(corpus):
    L = ["(* GENERATED by tools/gen_adapters.py from corpus/C19/routing_{ecdsa,eddsa}.json -- do not edit.",
         "   Captured from complete key-generation and signing runs of tss-lib v2.0.2 (harness/binance): per protobuf type URL",
         "   the library's own MessageRouting.IsBroadcast and the phase in which the type was emitted (true = signing). *)",
         "From Coq Require Import String Ascii List NArith Bool.",
         "Import ListNotations.",
         "Open Scope string_scope.",
         ""]
    tabs, error = {}, None
    for name, _ in ADAPTERS:
        try:
            tabs[name] = load_routing(corpus, name)
        except (Shape, OSError, ValueError, KeyError, TypeError) as e:
            tabs[name], error = [], "%s: %s" % (name, e)
    if error is not None:
        L.append("(* THE CAPTURED ROUTING IS NOT READABLE: %s *)" % error.replace("*)", "* )"))
    L.append("Definition routing_ok : bool := %s." % coq_bool(error is None))
    L.append("")
    for name, _ in ADAPTERS:
        rows = tabs[name]
        L.append("Definition %s_routing : list (string * (bool * bool)) :=\n  [ %s ]." % (
            name, ";\n    ".join("(%s, (%s, %s))" % (coq_str(r["url"]), coq_bool(r["is_broadcast"]), coq_bool(r["phase"] == "signing"))
                                 for r in rows)))
        L.append("")
    return "\n".join(L), error


def write_if_changed(path, text):
    old = open(path).read() if os.path.exists(path) else None
    if old != text:
        with open(path, "w") as f:
            f.write(text)
        return True
    return False


def main():
    if len(sys.argv) != 3:
        print(__doc__)
        return 2
    repo, gendir = sys.argv[1], sys.argv[2]
    os.makedirs(gendir, exist_ok=True)
    error = None
    try:
        ads = [(name, parse_adapter(os.path.join(repo, rel))) for name, rel in ADAPTERS]
    except (Shape, OSError, ValueError, KeyError) as e:
        # Loud, but not fatal for the other engines sharing the Coq build: empty tables + translator_ok = false,
        # so that exactly the C19 obligations fail (C19_translator_ok first) and checks/adapters.py reports why.
        error = str(e)
        ads = [(name, EMPTY) for name, _ in ADAPTERS]
        print("gen_adapters: ERROR: Go source not in the recognised shape: %s" % error, file=sys.stderr)
    corpus = os.path.join(os.path.dirname(os.path.dirname(os.path.abspath(__file__))), "corpus", "C19")
    t1 = emit_adapters(ads, error)
    t2, rerr = emit_routing(corpus)
    if rerr:
        print("gen_adapters: ERROR: captured routing not readable: %s" % rerr, file=sys.stderr)
    c1 = write_if_changed(os.path.join(gendir, "Adapters.v"), t1)
    c2 = write_if_changed(os.path.join(gendir, "AdaptersRouting.v"), t2)
    print("gen_adapters: Adapters.v %s, AdaptersRouting.v %s" % ("changed" if c1 else "unchanged", "changed" if c2 else "unchanged"))
    return 0


if __name__ == "__main__":
    sys.exit(main())
