"""C02 / C03 / C04 (and the RBC part of C10): reliable broadcast engine."""
import json, os, collections
import vlib
from vlib import Emitter


def scen_to_coq(em, sc, h):
    evs = []
    for e in sc["events"]:
        if e["h"] != h:
            continue
        onmsg = Emitter.lst("(%s, %d, %s)" % (em.bytes(o["p"]), o["from"], Emitter.b(o["b"])) for o in e["onmsg"])
        acks = Emitter.lst(em.bytes(a["data"]) for a in e["acks"])
        evs.append("mkEv %d %s %s %s %s" % (e["from"], em.bytes(e["data"]), onmsg, acks, Emitter.b(e["panic"])))
    hs = Emitter.lst("(%s, %s)" % (em.bytes(k), em.bytes(v)) for k, v in sc["hash"])
    return "mkScen %d %d %s %s %s\n  %s" % (h, sc["n"], Emitter.nlist(sorted(sc["members"])), Emitter.b(sc["accept_empty"]),
                                            hs, Emitter.lst(evs))


def correspondence(chk, tag, scenarios):
    """Model vs implementation on every (scenario, honest party).  Returns list of (scenario, party, event index)."""
    em = Emitter()
    items, index = [], []
    for sc in scenarios:
        if sc.get("err"):
            continue
        for h in sc["honest"]:
            items.append(scen_to_coq(em, sc, h))
            index.append((sc, h))
    body = "\n".join(em.defs) + "\nDefinition cases : list scen :=\n [" + ";\n  ".join(items) + "].\n" + \
           "Definition M_def := mismatches cases.\n"
    val, out, dt = vlib.coq_eval(tag, ["TSS.Base.Base", "TSS.RBC.Model", "TSS.Corr.RBCCorr"], body)
    chk.notes.append("%s: in-Coq evaluation of %d party runs in %.1fs" % (tag, len(items), dt))
    if val is None:
        return None, out
    pairs = vlib.parse_pairs(val)
    if pairs is None:
        return None, "cannot parse result of the evaluation: " + val[:500]
    mism = []
    for a, b in pairs:
        sc, h = index[a]
        mism.append((sc, h, b))
    return mism, out


def rnd_of(phex):
    return bytes.fromhex(phex)[0] % 8 if phex else 0


def monitor_agreement(sc):
    """C02: two honest parties never hand over different broadcast payloads for one (sender, round)."""
    seen = {}
    hits = []
    for i, e in enumerate(sc["events"]):
        for o in e["onmsg"]:
            if o["b"]:
                key = (o["from"], rnd_of(o["p"]))
                for (h2, p2, i2) in seen.get(key, []):
                    if h2 != e["h"] and p2 != o["p"]:
                        hits.append(dict(what="agreement", sender=o["from"], round=key[1], a=h2, pa=p2, b=e["h"], pb=o["p"],
                                         events=[i2, i]))
                seen.setdefault(key, []).append((e["h"], o["p"], i))
    return hits


def monitor_integrity(sc):
    """C03: authentic, members only, at most once, non-empty; p2p verbatim."""
    hits = []
    got = collections.Counter()
    direct = set()
    members = set(sc["members"])
    for i, e in enumerate(sc["events"]):
        d = e["data"]
        if len(d) >= 2 and int(d[:2], 16) >= 128:
            direct.add((e["h"], e["from"], d[2:]))
        for o in e["onmsg"]:
            if o["b"]:
                k = (e["h"], o["from"], rnd_of(o["p"]))
                got[k] += 1
                if got[k] > 1:
                    hits.append(dict(what="handed over more than once", at=e["h"], sender=o["from"], round=k[2], event=i))
                if o["p"] == "":
                    hits.append(dict(what="empty placeholder handed over", at=e["h"], event=i))
                if o["from"] not in members:
                    hits.append(dict(what="sender is not a participant", at=e["h"], sender=o["from"], event=i))
                if (e["h"], o["from"], o["p"]) not in direct:
                    hits.append(dict(what="payload never transmitted directly by its sender", at=e["h"], sender=o["from"], event=i))
            else:
                if not (len(d) >= 2 and int(d[:2], 16) >= 128 and d[2:] == o["p"] and o["from"] == e["from"]):
                    hits.append(dict(what="p2p hand-over differs from what was received", at=e["h"], event=i))
                if o["from"] not in members:
                    hits.append(dict(what="p2p from non-participant handed over", at=e["h"], event=i))
    return hits


def monitor_totality(sc):
    """C04: fault-free, every message delivered: each broadcast exactly once at every other participant,
    each p2p exactly once at its addressee, nothing else, nobody halted (probe answered)."""
    hits = []
    if not sc["drained"]:
        return [dict(what="network did not drain")]
    got = collections.Counter()
    for e in sc["events"]:
        if e["panic"]:
            hits.append(dict(what="panic", at=e["h"]))
        for o in e["onmsg"]:
            got[(e["h"], o["from"], o["p"], o["b"])] += 1
    expected = collections.Counter()
    for s in sc["sent"]:
        if s["b"]:
            for x in sc["members"]:
                if x != s["s"]:
                    expected[(x, s["s"], s["p"], True)] += 1
        else:
            expected[(s["t"], s["s"], s["p"], False)] += 1
    if got != expected:
        missing = list((expected - got).items())[:5]
        extra = list((got - expected).items())[:5]
        hits.append(dict(what="hand-overs differ from the closed form", missing=missing, extra=extra))
    return hits


def nontrivial(sc):
    return any(e["onmsg"] for e in sc["events"])


def distinct_nontrivial(scenarios):
    seen = set()
    for sc in scenarios:
        if sc.get("err") or not nontrivial(sc):
            continue
        seen.add(vlib.canon_hash([(e["h"], e["from"], e["data"]) for e in sc["events"]]))
    return len(seen)


def kinds_histogram(scenarios):
    c = collections.Counter()
    for sc in scenarios:
        for e in sc.get("events", []):
            c[e["kind"]] += 1
    return dict(c)


def run(pid, tier, seed):
    chk = vlib.Check(pid, tier, seed)
    proved = vlib.proof_stage(chk)
    ok, blog = vlib.go_build("core", "core")
    if not ok:
        chk.violation("go_build.txt", "harness does not build against /repo:\n" + blog[-4000:], no_input=True)
        return chk.finish()
    n_adv = {"quick": 400, "thorough": 6000}[tier]
    n_ff = {"quick": 300, "thorough": 4000}[tier]
    d = chk.rundir()
    scen_all = []
    if pid in ("C02", "C03"):
        path = os.path.join(d, "adv.jsonl")
        rc, out = vlib.run_harness("core", ["rbc-adv", "-n", str(n_adv), "-seed", str(seed)], path)
        if rc != 0:
            chk.violation("harness.txt", "harness failed (exit %d):\n%s" % (rc, out[-4000:]), no_input=True)
            return chk.finish()
        scen_all += vlib.read_jsonl(path)
        path = os.path.join(d, "attack.jsonl")
        rc, out = vlib.run_harness("core", ["rbc-attack", "-n", str(n_adv), "-seed", str(seed + 1)], path)
        if rc != 0:
            chk.violation("harness.txt", "harness failed (exit %d):\n%s" % (rc, out[-4000:]), no_input=True)
            return chk.finish()
        scen_all += vlib.read_jsonl(path)
    if pid in ("C04",):
        path = os.path.join(d, "ff.jsonl")
        rc, out = vlib.run_harness("core", ["rbc-ff", "-n", str(n_ff), "-seed", str(seed)], path)
        if rc != 0:
            chk.violation("harness.txt", "harness failed (exit %d):\n%s" % (rc, out[-4000:]), no_input=True)
            return chk.finish()
        scen_all += vlib.read_jsonl(path)
    errs = [s for s in scen_all if s.get("err")]
    if errs:
        chk.violation("fixture.json", dict(what="session fixture failed: KeyGen/Sign never reached the backend", cases=errs[:3]),
                      no_input=True)
    scen = [s for s in scen_all if not s.get("err")]
    # monitors on the implementation traces
    mon = {"C02": monitor_agreement, "C03": monitor_integrity, "C04": monitor_totality}[pid]
    nhits = 0
    for sc in scen:
        hits = mon(sc)
        if hits:
            nhits += 1
            if nhits <= 3:
                chk.monitor_hit("", "monitor_%d.json" % sc["id"], dict(hits=hits[:5], scenario=sc), hits[0]["what"])
            else:
                chk.cov["monitor_hits"] += 1
    # correspondence in shards of 150 scenarios
    mism_total = []
    shards = [(i // 100, scen[i:i + 100]) for i in range(0, len(scen), 100)]
    for mism, out in vlib.parallel_map(lambda s: correspondence(chk, "%s_%d" % (pid, s[0]), s[1]), shards):
        if mism is None:
            chk.violation("corr_eval.txt", "in-Coq evaluation failed:\n" + out, no_input=True)
            break
        mism_total += mism
    chk.cov["mismatches"] = len(mism_total)
    if mism_total and not chk.violations:
        sc, h, j = mism_total[0]
        evs = [e for e in sc["events"] if e["h"] == h]
        chk.violation("corr_%d_%d.json" % (sc["id"], h),
                      dict(what="correspondence TSS.Corr.RBCCorr.check_scen no longer holds: model and implementation "
                                "differ at event %d of party %d" % (j, h), theorems="Props/%s.v rest on this correspondence" % pid,
                           event=evs[j] if j < len(evs) else None, scenario=sc), no_input=True)
    chk.cov["evaluations"] = sum(len(s["events"]) for s in scen)
    chk.cov["scenarios"] = len(scen)
    chk.cov["distinct_nontrivial"] = distinct_nontrivial(scen)
    chk.cov["rule"] = ("event lists generated by harness/core (seeded splitmix64) and executed on real threshold.Scheme + rbc.Receiver "
                       "instances through HandleMessage; an event list is non-trivial when at least one hand-over to the backend "
                       "happens; distinct = distinct (receiver, source, bytes) sequences; evaluations = events executed")
    chk.cov["input_distribution"] = dict(event_kinds=kinds_histogram(scen),
                                         sizes=dict(collections.Counter(s["n"] for s in scen)),
                                         modes=dict(collections.Counter(s["mode"] for s in scen)),
                                         schedules=dict(collections.Counter(s["sched"] for s in scen)))
    chk.cov["traces_validated_against_impl"] = len(scen)
    if scen:
        s0 = scen[0]
        chk.cov["samples"] = [dict(n=s0["n"], members=s0["members"], honest=s0["honest"], mode=s0["mode"],
                                   events=[dict(h=e["h"], frm=e["from"], data=e["data"], kind=e["kind"], onmsg=e["onmsg"])
                                           for e in s0["events"][:8]])]
    return chk.finish(extra_assumptions=ASSUME)


ASSUME = [
    "authenticated links: the transport-level source of a message is its real origin, and never the receiver itself (C16)",
    "SHA-256 is collision free on the payloads of a run (digest equality = payload equality)",
    "the model (coq/theories/RBC/Model.v, Scheme.v) is hand-written; it is tied to rbc/rbc.go and threshold/threshold.go by the "
    "differential run of this check, not by translation",
]
