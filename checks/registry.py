from checks import rbc, codec, box

REGISTRY = {
    "C02": rbc.run,
    "C03": rbc.run,
    "C04": rbc.run,
    "C13": codec.run,
    "C15": box.run,
}

RBC_NOTE = ("Trusted: Coq kernel + vm_compute; no axioms (Print Assumptions: closed under the global context). Premises in the "
            "theorem statements: authenticated links (transport source = real origin, never the receiver itself), honest "
            "parties emit only the acknowledgements their code emits, SHA-256 collision-freeness for payload equality. "
            "The model of rbc.Receiver/rbcFilter/handleMPC is hand-written and tied to the Go code by differential runs "
            "through real threshold.Scheme instances on every run.")

META = {
    "C02": dict(engine="rbc", note=RBC_NOTE,
                text="Agreement proved in Coq for every participant set, every set of Byzantine participants/outsiders and every "
                     "arrival order (inductive invariant over unbounded event lists); model tied to the code by executing generated "
                     "adversarial event lists on real Scheme+Receiver instances and comparing every hand-over/ack with the model; "
                     "agreement monitor on the implementation traces."),
    "C03": dict(engine="rbc", note=RBC_NOTE,
                text="Integrity (authentic, participant, at most once, non-empty; p2p verbatim) proved in Coq for all adversaries "
                     "and schedules; same correspondence run as C02 plus an integrity monitor on implementation traces."),
    "C04": dict(engine="rbc", note=RBC_NOTE,
                text="Totality in fault-free runs proved in Coq for every N, every set of concurrent senders/rounds and every "
                     "interleaving that delivers each message once; tied to the code by complete fault-free schedules executed on "
                     "real instances and compared with the model and with the closed form."),
}

META["C13"] = dict(engine="codec",
    note="Trusted: Coq kernel + vm_compute, no axioms. The codec model is hand-written and tied to the Go functions through verif "
         "hooks on every run; SHA-256 and encoding/asn1 are not modelled (topic theorem = injectivity of the hashed bytes; ASN.1 glue "
         "covered by real round trips only).",
    text="Round-trip theorems for the ack, synchroniser and membership-topic encodings proved in Coq for every 16-bit identifier, "
         "round 0..127, digest, tag and view; model tied to the code by differential evaluation on structured and malformed inputs; "
         "in addition the implementation's own round trip is run exhaustively over all 65536 identifiers.")

BOX_NOTE = ("Trusted: Coq kernel + vm_compute, no axioms. Sequential model of msg.Box hand-written and tied to msg/msgbox.go on every "
            "run (per-operation observables + snapshot of the bookkeeping through a verif hook); the GC clock is the injected ticker.")
META["C15"] = dict(engine="box", note=BOX_NOTE,
    text="Bounds, shed-not-fail, release on start, release on expiry and not-throttled proved in Coq for arbitrary operation lists "
         "(inductive invariant); four upstream defects repaired (fix: commits) with their witnesses kept as _refuted theorems; "
         "model tied to the real Box by differential runs with bursts beyond each limit and idle periods.")

ENGINES = {
    "box": dict(path="coq/theories/Box + harness/core/box.go + checks/box.py", props=["C15"],
                kind="Coq model of msg.Box (sequential + lock-granular concurrent); Go harness drives the real Box"),
    "codec": dict(path="coq/theories/Wire + harness/core/codec.go + checks/codec.py", props=["C13"],
                  kind="Coq model of the wire codecs; Go harness calls the real encoders/decoders through verif hooks"),
    "rbc": dict(path="coq/theories/RBC + harness/core/rbc.go + checks/rbc.py", props=["C02", "C03", "C04"],
                kind="Coq model of rbc.Receiver behind threshold.Scheme dispatch; Go harness drives real instances"),
}
