from checks import rbc, codec, box, orch, c10

REGISTRY = {
    "C02": rbc.run,
    "C03": rbc.run,
    "C04": rbc.run,
    "C13": codec.run,
    "C15": box.run,
    "C14": box.run,
    "C10": c10.run,
    "C06": orch.run,
    "C11": orch.run,
    "C12": orch.run,
}

RBC_NOTE = ("Trusted: Coq kernel + vm_compute; no axioms (Print Assumptions: closed under the global context). Premises in the "
            "theorem statements: authenticated links (transport source = real origin, never the receiver itself), honest "
            "parties emit only the acknowledgements their code emits, SHA-256 collision-freeness for payload equality. "
            "The model of rbc.Receiver/rbcFilter/handleMPC is hand-written and tied to the Go code by differential runs "
            "through real threshold.Scheme instances on every run.")

META = {
    "C02": dict(engine="rbc", note=RBC_NOTE,
                text="Agreement proved in Coq for every participant set, every set of Byzantine participants/outsiders and every "
                     "arrival order (inductive invariant over unbounded event lists); model tied to the code by executing generated "
                     "adversarial event lists on real Scheme+Receiver instances and comparing every hand-over/ack with the model; "
                     "agreement monitor on the implementation traces."),
    "C03": dict(engine="rbc", note=RBC_NOTE,
                text="Integrity (authentic, participant, at most once, non-empty; p2p verbatim) proved in Coq for all adversaries "
                     "and schedules; same correspondence run as C02 plus an integrity monitor on implementation traces."),
    "C04": dict(engine="rbc", note=RBC_NOTE,
                text="Totality in fault-free runs proved in Coq for every N, every set of concurrent senders/rounds and every "
                     "interleaving that delivers each message once; tied to the code by complete fault-free schedules executed on "
                     "real instances and compared with the model and with the closed form."),
}

META["C13"] = dict(engine="codec",
    note="Trusted: Coq kernel + vm_compute, no axioms. The codec model is hand-written and tied to the Go functions through verif "
         "hooks on every run; SHA-256 and encoding/asn1 are not modelled (topic theorem = injectivity of the hashed bytes; ASN.1 glue "
         "covered by real round trips only).",
    text="Round-trip theorems for the ack, synchroniser and membership-topic encodings proved in Coq for every 16-bit identifier, "
         "round 0..127, digest, tag and view; model tied to the code by differential evaluation on structured and malformed inputs; "
         "in addition the implementation's own round trip is run exhaustively over all 65536 identifiers.")

BOX_NOTE = ("Trusted: Coq kernel + vm_compute, no axioms. Sequential model of msg.Box hand-written and tied to msg/msgbox.go on every "
            "run (per-operation observables + snapshot of the bookkeeping through a verif hook); the GC clock is the injected ticker.")
META["C15"] = dict(engine="box", note=BOX_NOTE,
    text="Bounds, shed-not-fail, release on start, release on expiry and not-throttled proved in Coq for arbitrary operation lists "
         "(inductive invariant); four upstream defects repaired (fix: commits) with their witnesses kept as _refuted theorems; "
         "model tied to the real Box by differential runs with bursts beyond each limit and idle periods.")

ORCH_NOTE = ("Trusted: Coq kernel + vm_compute, no axioms. The session model is hand-written (one event = one external decision; "
             "backends and ordinary synchronisers honour their context; goroutine scheduling inside a step is not modelled) and tied to "
             "threshold/threshold.go on every run by histories executed on a real Scheme with scripted synchroniser/backend.")
META["C06"] = dict(engine="orch", note=ORCH_NOTE,
    text="Translation theorems (Init gets the sorted duplicate-free party ids, duplicates refused, source = party of the authenticated "
         "sender, a p2p message goes to the unique participant representing the party) proved for every membership map and participant "
         "list; three upstream defects repaired; tied to the code by session histories over identity/offset/permuted/replicated maps.")
META["C11"] = dict(engine="orch", note=ORCH_NOTE + " The built-in DKG backends' own waits are covered by the full-stack fault runs of C05/C01.",
    text="Proved on the session model for every history: cancellation makes the API call return from every state, no step panics, "
         "failed preconditions / synchronisations / backend errors are returned at once, nothing stays registered; upstream defects "
         "(dropped prepareSigning error, hung pre-signing failure, KeyGen continuing after timed-out waits) repaired; tied to the code by "
         "histories with every cut point (before sync, at the gate, in the backend) cancelled, by the backend cancellation matrix, and by "
         "a lone real Scheme (real disc.Member / msg.Box) called with contexts that are already over or end at once (child process per case).")
META["C12"] = dict(engine="orch", note=ORCH_NOTE,
    text="No-residue, re-admission, refusal of a concurrent same-topic session, traffic filtering and non-interference proved as an "
         "inductive ownership invariant over arbitrary histories of KeyGen/Sign/cancel/late-continuation/inject; upstream residue defects "
         "repaired; tied to the code by executing such histories on a real Scheme and comparing API results, table keys and reached instances; "
         "the model's atomic admission step is checked on the code by K concurrent calls for one session name held together inside the "
         "application's synchroniser factory (exactly one admitted).")

META["C14"] = dict(engine="box", note=BOX_NOTE + " Concurrent half: lock-granular small-step model Box/Sync.v (goroutines = scripts of calls with "
    "a program counter between lock boundaries; the draining table) tied to the real Box by a cooperative scheduler at yield points placed "
    "at the lock boundaries (build tag verif); preemption inside a critical section cannot change the outcome (every shared access is under "
    "the box lock, C20); the garbage collector is outside the concurrent model (no clock tick during the schedules; it is part of the "
    "sequential model).",
    text="Proved for ALL lock-granular interleavings of any number of goroutines making any sequences of HandleMessage and Send calls, at "
         "every point of the run: per topic and sender, hand-overs ++ waiting (in the drain's hands, in its queue, buffered, in the reader's "
         "hands) = arrivals, in arrival order (C14_exactly_once_in_order); nothing waits once every call has returned and nothing is buffered "
         "for a started topic (C14_complete_when_quiescent); arrival order = the reader's call order; no panic. The pinned upstream Box "
         "violated the statement (three refutation witnesses kept in Props/C14.v: late / lost / order): genuine defects, repaired in /repo "
         "by b40b5e7 (decision and store in one critical section, draining queue). Sequential half with GC and clock proved for all operation lists.")

META["C10"] = dict(engine="c10",
    note="Trusted: Coq kernel, no axioms. Per-entry-point totality theorems over the engines' models (each tied to the code by its own engine's "
         "correspondence; this check re-runs the RBC one); ASN.1/protobuf/x509/TLS/curve parsing is not modelled and is covered by the harness "
         "streams under recover + watchdog only.",
    text="Totality (never Panic, for every byte string and every state) proved for the MPC and synchroniser decoders, the dispatcher->filter->RBC "
         "path, the silent-mode buffer, the session orchestrator, the frame reader and the connection handshake, with isolation lemmas; eighteen "
         "peer-triggered panics of the pinned tree repaired (fix: commits); every engine's malformed stream is run against the real code in every "
         "session state with a panic-and-hang monitor.")

ENGINES = {
    "c10": dict(path="coq/theories/Props/C10.v + harness/core/fuzz.go + checks/c10.py (+ every engine's malformed stream)", props=["C10"],
                kind="aggregation of per-entry-point totality theorems; fuzz of the real dispatcher in every session state"),
    "orch": dict(path="coq/theories/Orch + harness/core/orch.go + checks/orch.py", props=["C06", "C11", "C12"],
                 kind="Coq model of session life cycle and id translation; Go harness drives a real Scheme with scripted sync/backend"),
    "box": dict(path="coq/theories/Box + harness/core/box.go + checks/box.py", props=["C14", "C15"],
                kind="Coq model of msg.Box (sequential + lock-granular concurrent); Go harness drives the real Box"),
    "codec": dict(path="coq/theories/Wire + harness/core/codec.go + checks/codec.py", props=["C13"],
                  kind="Coq model of the wire codecs; Go harness calls the real encoders/decoders through verif hooks"),
    "rbc": dict(path="coq/theories/RBC + harness/core/rbc.go + checks/rbc.py", props=["C02", "C03", "C04"],
                kind="Coq model of rbc.Receiver behind threshold.Scheme dispatch; Go harness drives real instances"),
}

# ---- C19: tss-lib adapters (engine "adapters")
from checks import adapters
REGISTRY["C19"] = adapters.run
META["C19"] = dict(engine="adapters",
    note="Trusted: Coq kernel + vm_compute, no axioms. tss-lib v2.0.2 is not modelled: its routing is a table captured from real runs "
         "(corpus/C19, re-captured and compared on every run) and what it signs is an arbitrary function in the digest theorems. The "
         "classification tables, the constants of the round rule, the identifier bound and the presence/shape of the sender and digest "
         "comparisons are extracted from mpc.go by tools/gen_adapters.py before every build (tables cross-checked against the compiled "
         "package). The wire format carries no sender, so `claimedFrom != from` is checked as a rule (theorem over the extracted shape) and "
         "through attribution of every queued message; protobuf, ed25519/ECDSA verification are not modelled.",
    text="Theorems over the tables regenerated from the Go source: distinct broadcast-class types of a phase get distinct rounds, every "
         "type tss-lib emitted in complete ECDSA/EdDSA key-generation and signing runs is classified as the library routed it and every "
         "table key was emitted, broadcast URLs all have rounds, rounds are phase-relative 1..k < 128; the sender rule and the digest rule "
         "as implications for the shapes extracted from OnMsg/Sign (EdDSA: for every behaviour of the library a signature comes back only "
         "for the requested bytes; refuted for the pinned upstream code). Tied to the code by running the real adapters: full runs for "
         "(3,1),(4,2) incl. boundary identifiers and signer subsets, ClassifyMsg vs routing flag on every message, OnMsg under a grid of "
         "transport senders, malformed inputs, Sign on digests with leading zeros / odd lengths verified under the threshold key.")
ENGINES["adapters"] = dict(path="tools/gen_adapters.py + coq/theories/Adapters + coq/theories/Corr/AdaptersCorr.v + harness/binance + checks/adapters.py",
                           props=["C19"],
                           kind="translator for the Go tables and rule shapes, Coq decision-rule model with finite-table theorems, Go harness "
                                "running complete tss-lib sessions through the real adapters")

# ---- C16 / C17: bundled TLS transport (engine "net")
from checks import net as net_engine
NET_NOTE = ("Trusted: Coq kernel + vm_compute, no axioms (Print Assumptions: closed under the global context). The models of "
            "Handshake.Read/authenticateConnection/handleConn, remoteParty.send/readMsg and Send/enqueue/sendMessages are hand-written and "
            "tied to net/net.go on every run by differential execution of the real functions (verif hooks + public API) on real TLS 1.3 "
            "connections; maxBuffLen, MsgType constants and the shouldHaveTopic table are re-extracted from net.go before every build. "
            "crypto/tls, encoding/asn1, pem, x509, ECDSA and SHA-256 are oracles (universally quantified in the theorems; their values per "
            "case are computed by the harness with the standard library); sockets, real time and the Go scheduler are not modelled.")
REGISTRY["C16"] = net_engine.run
REGISTRY["C17"] = net_engine.run
META["C16"] = dict(engine="net", note=NET_NOTE + " Premises in the statements: exporter values of distinct connections differ; a signature "
                   "verifying under a key exists only if its holder signed that digest.",
    text="Soundness of every attribution proved in Coq for all byte streams and all behaviours of the ASN.1/PEM/x509/ECDSA/SHA-256 oracles: "
         "an attributed (domain, node) implies this connection's binding, a signature valid under the presented identity's ECDSA key over "
         "the handshake re-encoded without signature, and a table entry for hash(domain, identity); corollaries for each mutation class "
         "(unknown/substituted identity, wrong/missing/foreign signature, replay on another connection, other domain, non-ECDSA key, "
         "malformed/truncated): never attributed, never a panic (two panics of the pinned code refuted and repaired); what reaches the "
         "channel carries exactly the decided attribution. Tied to the code by a catalogue of ~1500 real handshakes per run (every field "
         "altered/substituted/replayed, five key types, every truncation length, bit flips, whole connections, a scripted faulty peer "
         "interleaved with honest loopback traffic) with an attribution monitor on the implementation.")
META["C17"] = dict(engine="net", note=NET_NOTE,
    text="Stream round trip proved in Coq for every list of legal frames with payloads 0..limit (any length of list, by induction), refusal "
         "of every header above the limit with nothing delivered, totality of the reader on all byte strings, prefix-safety under "
         "truncation at any byte; for the per-destination queue + single writer as a state machine over arbitrary operation lists: FIFO "
         "exactly-once while the connection stays up, isolation between destinations, boundedness, no panic (the pinned panic on a full "
         "queue refuted and repaired). Tied to the code by the real writer/reader on TLS connections (all type/topic combinations, sizes "
         "0..limit+1, truncations, oversize and mis-shaped frames), queue operation sequences, concurrent senders and each peer in turn "
         "down / stalled / garbling on real loopback TLS, each scenario in its own process with order/duplication/panic monitors.")
ENGINES["net"] = dict(path="tools/gen_netconsts.py + coq/theories/Net + coq/theories/Corr/NetCorr.v + harness/net + checks/net.py",
                      props=["C16", "C17"],
                      kind="Coq models of the handshake decision (over oracles), the frame codec and the send queue; Go harness running the "
                           "real transport on TLS connections (net.Pipe and loopback), scenarios isolated in child processes")

# ---------------------------------------------------------------------------------------------- alg engine (C18)
from checks import alg as alg_engine
REGISTRY["C18"] = alg_engine.run
META["C18"] = dict(engine="alg",
    note="Trusted: Coq kernel + vm_compute, no axioms (Print Assumptions: closed under the global context for all ten theorems). "
         "Premises in the statements: the evaluation points 1..n are pairwise different and non-zero in the field (n < char F; for Z/r: "
         "n < r), the curve groups are modules over that field (prime-order groups), and for the integer-level theorem that the BN254 "
         "group order r is prime (hypothesis 'prime p', not re-proved). The model of sss.go/choose.go (Z with explicit mod r, extended "
         "Euclid inverse proved correct) is hand-written and tied to the Go code of mpc/bls and mpc/ps on every run by exact-integer "
         "differential execution through verif hooks with a seeded reader; IBM/mathlib group arithmetic and pairing are exercised, not verified.",
    text="Proved in Coq (MathComp) for every field, every n, every threshold, every polynomial and every list of >= t distinct parties: "
         "Lagrange reconstruction as the Go code computes it returns the dealt secret; the same in the exponent for any module (aggregated "
         "public keys = public key of the secret); chooseKoutOfN enumerates exactly the C(n,k) increasing k-subsets, each once (the model "
         "mirrors recursion and pruning); the DKG cross-check accepts IF AND ONLY IF the n keys lie on one polynomial of degree < t, honest "
         "keys are always accepted with the right threshold key, and a single key off the polynomial is rejected whichever party it belongs "
         "to (t < n). A bridge theorem transfers reconstruction to the executable Z-model (integers mod r) the Go code is compared with. "
         "Tie: all (n,t) up to 6 (10 thorough), all subsets, scripted edge polynomials and random ones, shares / Lagrange coefficients / "
         "reconstructions / subset enumerations / number of distinct cross-check results compared as exact integers with the model for "
         "both packages; group-level monitors on the real curve code (aggregate key = g2^secret, aggregated signatures verify, "
         "assembleThresholdPublicKey accepts honest keys and rejects each single moved key).")
ENGINES["alg"] = dict(path="coq/theories/Alg/{Lagrange,Choose,SSS,ZrModel,ZrBridge}.v + coq/theories/Corr/AlgCorr.v + harness/bls + checks/alg.py",
                      props=["C18"],
                      kind="MathComp theorems over an arbitrary field/module + executable Z-model of sss.go/choose.go; Go harness driving "
                           "the real mpc/bls and mpc/ps functions (verif hooks, seeded reader, real BN254 groups)")

# ---------------------------------------------------------------------------------------------- ps engine (C08, C09)
from checks import ps as ps_engine
REGISTRY["C08"] = ps_engine.run
REGISTRY["C09"] = ps_engine.run
PS_NOTE = ("Trusted: Coq kernel + vm_compute, no axioms (Print Assumptions: closed under the global context for every theorem). Ideal-group "
           "model: scalars in an arbitrary field (prime group order, larger than the number of parties: premise), G1/G2/GT arbitrary modules "
           "over it, the pairing a bilinear map (non-degenerate on the G2 generator where a theorem says so), SHA-256 / HashToZr / HashToG1 and "
           "the two Fiat-Shamir oracles arbitrary functions. The models of mpc/ps (Blind, proveBlindingIsWellFormed, BlindCorrectFormProof.Verify, "
           "SignBlindSignature, UnBlind, PoKofSig, SigPoK.Verify, ProveKnowledgeOfSignature, localAggregatePublicKeys, the DKG arithmetic) and of "
           "mpc/bls (localSign/localVerify/localAggregateSignatures) are hand-written and tied to the code at verdict level: the same Gallina "
           "functions are executed on every scenario in three toy instances (scalars Z/31, exponent space) and compared with the real verdicts; "
           "IBM/mathlib, gnark-crypto, encoding/asn1 and crypto/rand are exercised, not verified.")
META["C08"] = dict(engine="ps", note=PS_NOTE,
    text="Proved in Coq (MathComp) for every field, every message length and vector, all nonces, every oracle, every N, t, every list of >= t "
         "distinct signers and all dealt polynomials: an honestly blinded request passes the signer's proof check; every party's partial "
         "signature unblinds to a witness for which the UnBlind pairing equation holds under that party's published key; the Lagrange-combined "
         "witnesses give a proof of knowledge accepted under the threshold key (Lagrange reconstruction in the exponent for x and every y_i); "
         "every party's share is sum_j p_j(i), its published key g2^that, and every t-subset aggregates to g2^(sum_j p_j(0)). Tie: real "
         "in-process TPS key generations for all (N<=4,t) x L=1..4 with seeded randomness - every share, published key and threshold key "
         "compared with the closed form at scalar level - then blind/sign/unblind/prove/verify for message vectors incl. empty and equal "
         "entries and every signer subset; each verdict compared with the model's.")
META["C09"] = dict(engine="ps", note=PS_NOTE + " Not theorems (generic-case / probabilistic, covered by the catalogue only): that changing a hashed "
                   "component changes the challenge, and rejection of fewer than t shares as an event (stated as Shamir secrecy instead).",
    text="Proved in Coq: BLS verification under g2^s accepts exactly H(m)^s, hence any altered share (Lagrange coefficients are non-zero), key, "
         "aggregate or message is rejected; a wrong signer-to-share assignment is accepted exactly on the kernel of one linear functional of the "
         "polynomial; t-1 shares are consistent with every secret through exactly one polynomial. PS: for one and the same challenge every "
         "verification equation rejects a single-component change of each value occurring in it (request: d,f,s,x,y,z,a,b,cm,u; proof of "
         "knowledge: Gamma,Phi,psi.y,psi.x,nu,h^eps,kappa,h'^eps) with the stated non-degeneracy premises; the oracle arguments determine every "
         "hashed component; the request proof is checked before the secret key is touched; verification and signing return their argument "
         "objects unchanged (repaired variant; the pinned variant is refuted: second verification of the same object fails). Tie: perturbation "
         "catalogue on real objects (every field x {+generator, other session's value, zero} x {bytes, object}, each verified twice), lying "
         "provers isolating each equation, wrong assignments / foreign witnesses / other keys / t-1 shares, oracle-argument sensitivity, "
         "and malformed ASN.1 at every parser entry point.")
ENGINES["ps"] = dict(path="coq/theories/Alg/{PS,Sigma,BLSVerify}.v + coq/theories/Corr/PSCorr.v + harness/ps + harness/psbls + checks/ps.py",
                     props=["C08", "C09"],
                     kind="MathComp model of the PS threshold blind signature and of BLS verification in an ideal-group model; Go harnesses "
                          "driving the real mpc/ps and mpc/bls packages (each with its own pinned mathlib) through verif hooks with seeded randomness")

# ---------------------------------------------------------------------------------------------- lockset engine (C20)
from checks import lockset as lockset_engine
REGISTRY["C20"] = lockset_engine.run
META["C20"] = dict(engine="lockset",
    note="Trusted: Coq kernel + vm_compute, no axioms (Print Assumptions: closed under the global context). PARTIAL by construction: data "
         "races live in the Go memory model; what is proved is the lock discipline. The link between the Go source and the access table "
         "is the translator tools/gen_lockset.py + tools/lockset (go/ast + go/types, standard library): syntactic lock tracking per "
         "function with branch merging, propagation of held locks along calls on the same receiver, closures / go / defer starting "
         "empty, and ten named judgements (fields as locations, ownership of sub-objects, atomics / sync.Map / sync.Cond as pseudo-locks, "
         "fresh locals and Init and sync.Once bodies as set-up, one session goroutine per mpc instance, rbc.Receiver and the "
         "synchronisers entered only through the threadSafeRBC / threadSafeSync wrappers that Scheme.setup installs - re-checked "
         "syntactically on every run). The translator refuses (translator_ok = false) what it does not understand. It is cross-examined "
         "on every run by the Go race detector on full-stack runs; a report that the table calls protected is a broken correspondence.",
    text="Proved in Coq for ALL well-formed traces of lock / unlock / read-lock / read-unlock / read / write / go events over any number "
         "of threads, objects and locks (happens-before = program order + go statement + Unlock->Lock, Unlock->RLock, RUnlock->Lock): if "
         "every access is an instance of an entry of an access table that satisfies the decidable discipline (per field: no write "
         "outside set-up, or ONE lock held at all its accesses, exclusively at the writes) and set-up accesses are ordered with the "
         "conflicting ones, the trace has no data race (lockset_sound; non-vacuity examples incl. a racy trace). The table of the current "
         "source (455 entries, 123 fields of the structs of threshold, mpc/bls, mpc/ps, msg, disc, rbc) is regenerated on every run and "
         "checked by vm_compute, minus the sites of the known findings; the full table is refuted exactly when known findings exist. "
         "Tie/search: KeyGen + Sign among three real parties (threshold + rbc + disc + msg + mpc/bls) under `go build -race`, one "
         "goroutine per message, honest / duplicated+replayed / forged early and out-of-phase traffic of one participant / delayed Init / "
         "two Sign sessions at once / loud and silent mode / SetStoredData during Sign; every detector report is mapped to table "
         "entries by file:line and must be an unprotected pair.")
ENGINES["lockset"] = dict(path="coq/theories/Lockset/{Trace,Discipline,Examples}.v + coq/theories/Gen/Lockset{,Known}.v (generated) + "
                               "tools/gen_lockset.py + tools/lockset + harness/race + checks/lockset.py",
                          props=["C20"],
                          kind="generic lockset theorem over traces with a happens-before relation; access table regenerated from the Go "
                               "source by a go/ast+go/types translator; Go race detector on full-stack runs as cross-examination")

# ---------------------------------------------------------------------------------------------- disc engine (C07)
from checks import disc as disc_engine
REGISTRY["C07"] = disc_engine.run
META["C07"] = dict(engine="disc",
    note="Trusted: Coq kernel + vm_compute, no axioms (Print Assumptions: closed under the global context for all fourteen theorems). "
         "Premises in the statements: authenticated links (a message an honest member accepts as coming from an honest member was emitted "
         "by it), the tag function injective in (topic, member) (Section variable of Disc/Wire.v; HMAC-SHA256 is not modelled, the harness "
         "computes tags with crypto/hmac), one configured membership and expected count at all honest members. Real time is not modelled: "
         "the deadline is an event; the liveness theorem is stated for a fair FIFO schedule that the deadline does not cut short "
         "(_partial), complemented by a theorem for every interleaving that the deadline is the only way an exact honest run can fail. "
         "sync.Map.Range is modelled by its documented contract (per-key Visit events that HandleMessage events may interleave). The "
         "model of disc.Member is hand-written and tied to disc/discovery.go on every run by differential execution; goroutine "
         "scheduling of the whole runs is exercised, not replayed.",
    text="Proved in Coq for every membership, expected count, set of honest members, identifier values, every Byzantine behaviour and "
         "every interleaving (inductive invariant over arbitrary admissible event lists): validity of the list handed to the "
         "continuation (strictly sorted, exact size, contains the member, only configured members whose authenticated announcement was "
         "handled), agreement between honest members one of which is in the other's list, continuation at most once and never together "
         "with or after an error / the end of the context, no continuation with too few announcers, the deadline as the only failure of an "
         "exact honest run, completion of every member under a fair schedule for every list of >= 2 members, and the binding of tags to "
         "(topic, member) for any injective tag function. Two upstream defects refuted with witnesses and repaired: intersectedView "
         "computed the own view in a second, non-atomic pass (agreement broken by two Byzantine members exploiting a HandleMessage landing "
         "between the passes; reproduced on real goroutines), and returned the last announced list instead of the own view (a member "
         "expecting only itself never completed; expected 0 continued with an empty list). Tie: ~700 operation lists per run on real "
         "Members -- HandleMessage with valid / lying / foreign-tag / other-topic / replayed / malformed bytes, intersectedView with a "
         "HandleMessage injected between its passes, a real Synchronize goroutine brought to rest after every message and then "
         "cancelled -- every observable compared with the model; whole runs of 2..6 members with scripted Byzantine members over a "
         "seeded router under validity / agreement / exclusivity / liveness / too-few monitors.")
ENGINES["disc"] = dict(path="coq/theories/Disc + coq/theories/Corr/DiscCorr.v + harness/core/disc*.go + checks/disc.py", props=["C07"],
                       kind="Coq state machine of disc.Member (HandleMessage, the Synchronize loop cut at its atomic steps, intersectedView as "
                            "interleavable Range events) in a global system with Byzantine members; Go harness driving real Members step by "
                            "step, a real Synchronize goroutine under quiescence control, and whole concurrent runs")

# ---------------------------------------------------------------------------------------------- dkg engine (C05, C01)
from checks import dkg as dkg_engine
REGISTRY["C05"] = dkg_engine.run
REGISTRY["C01"] = dkg_engine.run
DKG_NOTE = ("Trusted: Coq kernel + vm_compute, no axioms (Print Assumptions: closed under the global context). Premises in the "
            "statements: what reliable broadcast and authenticated links provide (record DKGSystem.Network: deliveries come from "
            "other session participants, broadcast-class values of an honest party are the ones it sent, any two honest receivers "
            "of a commitment / key of one sender hold the same value -- proved for the RBC layer in Props/C02.v, C03.v, C04.v), SHA-256 "
            "as an injective function, curve groups as modules over Z/r generated by g with a bilinear pairing, n < r. The phase-machine "
            "model of TBLS.KeyGen/TPS.KeyGen + OnMsg is hand-written and tied to the code on every run: every honest party's experienced "
            "event list (real instances, seeded dealing, scripted deviating participant, seeded scheduler) is replayed in Coq and "
            "verdict, secret, key exponents, threshold key and broadcast order compared exactly; full-stack runs of the real "
            "threshold + disc + rbc + msg + mpc/bls over an in-memory FIFO network are judged by C05/C01 monitors.")
META["C05"] = dict(engine="dkg", note=DKG_NOTE,
    text="Proved in Coq for arbitrary event lists (any order, duplication, withholding, malformed = oracle-rejected and out-of-phase "
         "messages, cancellation at any point): an honest party broadcasts its key only in a state holding n-1 commitments and nothing "
         "after cancellation; an Ok result is the closed form of its own share and the first values received, every commitment matched, "
         "cross-check accepted; it never reaches a programming-error panic. For n parties with arbitrary Byzantine ones: all honest "
         "parties that return Ok return identical (tpk, pks); the keys lie on one polynomial of degree < t with tpk = g^p(0) and "
         "sk_i = p(i) (hence any >= t of them sign under tpk), t = n included; a key off the polynomial or not matching its commitment "
         "=> no honest Ok. Tie: 31 scripted deviations x victim sets x (n,t) x schedules on real TBLS (TPS: monitors) with exact "
         "replay on the model (TPS through its first key component); a schedule family without per-link FIFO (directed: a de-commitment "
         "overtakes its commitment, a share arrives after all commitments; random) for TBLS and TPS, honest and with a deviating "
         "participant; equivocating participant with/without self-acks on the full stack.")
META["C01"] = dict(engine="dkg", note=DKG_NOTE + " Liveness of orchestrated signing is not a theorem of this engine: it rests on the synchroniser (C07) and "
                   "msg.Box (C14); the two stalls found here (loud: disc 2681e65; silent: msg.Box b40b5e7) are repaired and any failure is a violation.",
    text="Proved in Coq: with every party honest, every sent message delivered and no cancellation, in ANY interleaving of deliveries "
         "and wake-ups (early messages included) every party returns Ok with identical (tpk, pks) = (g^P(0), [g^P(i)]) and sk_i = P(i), "
         "P the sum of the dealt polynomials, for all 1 <= t <= n (uses C18_crosscheck_honest); for every digest and every list of >= t "
         "distinct signers the Lagrange aggregate of the partial signatures verifies under tpk. Composition with the session / RBC / Box "
         "theorems of the other engines is stated in Props/C01.v. Tie: backend-level honest runs under seeded schedulers replayed on the "
         "model; full-stack LoudScheme and SilentScheme runs n in 2..4 (5 thorough), t in 2..n: KeyGen, then Sign by t-subsets for two "
         "digests verified with bls.Verifier.")
ENGINES["dkg"] = dict(path="coq/theories/Alg/{DKG,DKGSystem,DKGAlg}.v + coq/theories/Corr/DKGCorr.v + harness/dkg + checks/dkg.py",
                      props=["C05", "C01"],
                      kind="Coq phase machine of KeyGen/OnMsg + n-party system with Byzantine parties + algebraic instance; Go harness "
                           "driving real TBLS/TPS instances message by message and full LoudScheme/SilentScheme stacks in memory")

# ---- C07 after the repair 2681e65 (a member also waits for the query of every other member)
META["C07"]["text"] += (
    " Third repair (2681e65, finding C01-a): a member completed as soon as it had its acknowledgements; the orchestrator then stops "
    "serving the topic and the single query of a slower member was dropped. Model: queriesReceived / queries channel, TakeQuery, the "
    "four error returns as classes, a Stop event (the member is handed no further message), variant flag fix_queries. Proved: teardown "
    "safety for every interleaving of an exact honest run (when a member has completed, it has handled the query of every other member "
    "and has sent each of them its acknowledgement with exactly the agreed list -- also stated for the state before the completing step); "
    "refuted for the previous code with a witness from which NO continuation lets the slower member complete; refuted in the presence "
    "of a Byzantine configured member (queries, like acknowledgements, are counted from any configured peer). Whole-run family "
    "'teardown' (members stop being served once their Synchronize is through, all must still complete): fails in about half of the runs on "
    "the previous code, never on the repaired code.")

# lockset engine, second round: hidden mutable state in shared containers (J-payload) and the early-sync scenario family
META["C20"]["note"] = META["C20"]["note"].replace("ten named judgements", "twelve named judgements") + (
    " Values with hidden mutable state (function literals that assign or capture a hash.Hash / bytes.Buffer / rand.Rand ... variable, "
    "results of package functions returning such literals, values of those types) kept in a struct field or sync.Map field are CHECKED: "
    "every retrieval is a write of <field>@payload under the real locks held, so the obligation fails without a common lock; all other "
    "function / interface values in fields are ASSUMED safe for concurrent calls (J-callback).")
META["C20"]["text"] = META["C20"]["text"].replace("(455 entries, 123 fields of", "(several hundred entries, every field of").replace(
    "delayed Init /", "delayed Init / authentic early membership-sync traffic of a configured member dispatched continuously from before "
    "every KeyGen and Sign call (64 configured members) /")
