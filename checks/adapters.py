"""C19: tss-lib adapters (mpc/binance/ecdsa, mpc/binance/eddsa) -- classification, sender binding, digest binding.

  proof stage     tools/gen_adapters.py regenerates Gen/Adapters.v (tables, rule constants, shape of the comparisons) and
                  Gen/AdaptersRouting.v (captured routing, corpus/C19); Props/C19.v is re-checked against them
  harness         harness/binance: complete key generation + signing through the real adapters (EdDSA live; ECDSA key generation
                  by tss-lib directly with stored safe-prime material in quick, the adapter's real KeyGen in thorough), every
                  emitted message classified by the receivers' real ClassifyMsg, fed to a real OnMsg under every transport sender
                  of a grid, malformed bytes into both, Sign for a family of digests
  correspondence  model (Adapters/Classify.v instantiated with the generated tables) vs the observations, evaluated in Coq
  monitors        the four clauses of C19 evaluated directly on the implementation's observations

  python3 checks/adapters.py recapture [quick|thorough]   rewrites corpus/C19/routing_{ecdsa,eddsa}.json from a live run
"""
import collections, importlib.util, json, os, sys
sys.path.insert(0, os.path.dirname(os.path.dirname(os.path.abspath(__file__))))
import vlib
from vlib import Emitter

CORPUS = os.path.join(vlib.VERIF, "corpus", "C19")
SCHEMES = [("eddsa", 1), ("ecdsa", 0)]
REQ = ["TSS.Base.Base", "TSS.Adapters.Classify", "TSS.Adapters.ClassifyFacts", "TSS.Corr.AdaptersCorr"]


def translator():
    spec = importlib.util.spec_from_file_location("gen_adapters", os.path.join(vlib.VERIF, "tools", "gen_adapters.py"))
    mod = importlib.util.module_from_spec(spec)
    spec.loader.exec_module(mod)
    return mod


def capture(scheme, tier, seed, outdir, mode=None):
    if mode is None:
        mode = "live" if (scheme == "eddsa" or tier == "thorough") else "preparams"
    path = os.path.join(outdir, "capture_%s.jsonl" % scheme)
    args = ["capture", "-scheme", scheme, "-mode", mode, "-seed", str(seed), "-corpus", CORPUS,
            "-n", "260" if tier == "quick" else "1500", "-x", tier]
    rc, out = vlib.run_harness("binance", args, path, timeout=3000)
    rows = vlib.read_jsonl(path) if os.path.exists(path) else []
    return rc, out, rows, mode


def routing_of(rows):
    """type URL -> (library IsBroadcast, phase); None when the library itself was inconsistent."""
    tab, clash = {}, []
    for r in rows:
        if r["kind"] == "msg":
            v = (r["lib_bcast"], r["phase"])
            if tab.setdefault(r["url"], v) != v:
                clash.append(r)
    return tab, clash


def write_routing(scheme, tab, how):
    out = dict(scheme=scheme, library="github.com/bnb-chain/tss-lib/v2 v2.0.2", captured_by=how,
               routing=[dict(url=u, is_broadcast=b, phase=p) for u, (b, p) in sorted(tab.items(), key=lambda x: (x[1][1], x[0]))])
    with open(os.path.join(CORPUS, "routing_%s.json" % scheme), "w") as f:
        json.dump(out, f, indent=1)
        f.write("\n")


def hexlist(h):
    return Emitter.nlist(list(bytes.fromhex(h)))


def coq_cases(rows, sid):
    """Observations -> constructor applications of TSS.Corr.AdaptersCorr.acase (deduplicated), with the rows they stand for."""
    items, back, seen = [], [], set()

    def add(txt, row):
        if txt not in seen:
            seen.add(txt)
            items.append(txt)
            back.append(row)

    for r in rows:
        k = r["kind"]
        if k == "msg":
            for c in r["cls"]:
                if not c["panic"]:
                    add("KCls %d true %s %s %d %s" % (sid, Emitter.nlist(list(r["url"].encode())), Emitter.b(c["err"]), c["round"],
                                                       Emitter.b(c["bcast"])), r)
        elif k == "mal":
            if not r["cls_panic"]:
                add("KCls %d %s %s %s %d %s" % (sid, Emitter.b(r["any_ok"]), hexlist(r["url_hex"]), Emitter.b(r["cls_err"]),
                                                 r["cls_round"], Emitter.b(r["cls_bcast"])), r)
            if not r["on_panic"]:
                add("KOn %d %s %s %d %s %s %d" % (sid, Emitter.b(r["parsed"]), Emitter.nlist(r["ids"]), r["from"], Emitter.b(r["on_enq"] > 0),
                                                  r["attr_key"] or "0", r["attr_idx"] + 1 if r["on_enq"] > 0 else 0), r)
        elif k == "onmsg":
            if not r["panic"]:
                add("KOn %d %s %s %d %s %s %d" % (sid, Emitter.b(r["parsed"]), Emitter.nlist(r["ids"]), r["from"], Emitter.b(r["enq"] > 0),
                                                  r["attr_key"] or "0", r["attr_idx"] + 1 if r["enq"] > 0 else 0), r)
        elif k == "sign" and r.get("expect") == "sign":
            if sid == 1:
                add("KSignEd %s %s %s %s" % (hexlist(r["digest"]), Emitter.b(bool(r.get("sig"))),
                                             Emitter.b(r["verifies_d"]), Emitter.b(r["verifies_stripped"])), r)
            elif r.get("hash_to_int"):
                add("KHash %s %s" % (hexlist(r["digest"]), r["hash_to_int"]), r)
    return items, back


def run(pid, tier, seed):
    chk = vlib.Check(pid, tier, seed)
    vlib.proof_stage(chk)
    ok, blog = vlib.go_build("binance", "binance")
    if not ok:
        chk.violation("go_build.txt", "harness/binance does not build against /repo/mpc/binance/{ecdsa,eddsa}:\n" + blog[-4000:], no_input=True)
        return chk.finish()
    # translator view of the tables (also what Gen/Adapters.v contains)
    try:
        tr = translator()
        gen = {name: tr.parse_adapter(os.path.join(vlib.REPO, rel)) for name, rel in tr.ADAPTERS}
    except Exception as e:  # translator refuses the shape: empty tables were generated, C19_translator_ok fails
        gen = None
        chk.notes.append("translator: %s" % e)
        chk.violation("translator.txt", "tools/gen_adapters.py does not recognise the shape of mpc/binance/*/mpc.go any more:\n%s\n"
                      "(tables / rule constants cannot be extracted; the theorems of Props/C19.v are not about the current code)" % e,
                      no_input=True)
    all_rows, corr_mism, evals, dist = {}, [], 0, collections.Counter()
    nontrivial = set()
    slots = {}
    for scheme, sid in SCHEMES:
        rc, out, rows, mode = capture(scheme, tier, seed, chk.rundir())
        all_rows[scheme] = rows
        chk.notes.append("%s: capture mode=%s, %d observations, harness exit %d" % (scheme, mode, len(rows), rc))
        if rc not in (0, 3) or not rows:
            chk.violation("harness_%s.txt" % scheme, "harness failed (exit %d):\n%s" % (rc, out[-4000:]), no_input=True)
            continue
        tables = [r for r in rows if r["kind"] == "tables"]
        msgs = [r for r in rows if r["kind"] == "msg"]
        ons = [r for r in rows if r["kind"] == "onmsg"]
        mals = [r for r in rows if r["kind"] == "mal"]
        runs = [r for r in rows if r["kind"] in ("keygen", "sign")]
        evals += sum(len(m["cls"]) for m in msgs) + len(ons) + 2 * len(mals) + len(runs)
        for r in rows:
            dist[scheme + "/" + r["kind"] + ("/" + r["what"] if r["kind"] == "mal" else "") + ("/" + r["phase"] if "phase" in r else "")] += 1

        # ---- translator vs the tables the compiled package really contains
        if gen is not None and tables:
            t = tables[0]
            if dict(gen[scheme]["rounds"]) != t["rounds"] or sorted(gen[scheme]["broadcast"]) != sorted(t["broadcast"]) \
                    or gen[scheme]["in_capacity"] != t["in_cap"]:
                chk.violation("translator_%s.json" % scheme,
                              dict(what="tools/gen_adapters.py and the compiled package disagree on msgURL2Round / broadcastMessages",
                                   translator=gen[scheme], runtime=t), no_input=True)

        # ---- monitor 0: the runs are complete
        for r in runs:
            if r.get("expect", "sign") == "sign" and not r["ok"] and not r.get("sig"):
                chk.monitor_hit("", "incomplete_%s_run%d.json" % (scheme, r["run"]),
                                dict(what="%s among the real adapter parties does not finish (%s)" % (r["kind"], r["err_class"]), run=r,
                                     messages_seen=sorted(set((m["url"], m["lib_bcast"], tuple(sorted(set((c["round"], c["bcast"]) for c in m["cls"]))))
                                                              for m in msgs if m["run"] == r["run"]))),
                                "%s %s run does not complete" % (scheme, r["kind"]))
            if r.get("expect") == "refuse" and r.get("sig"):
                chk.monitor_hit("", "refuse_%s_run%d.json" % (scheme, r["run"]), dict(what="signature returned for a digest outside the group order", run=r),
                                "signature for an invalid digest")

        # ---- monitor 1: receiver-side classification = library routing, every emitted type has a round
        bad = [m for m in msgs if any(c["err"] or c["panic"] or c["bcast"] != m["lib_bcast"] or c["round"] == 0 for c in m["cls"])]
        if bad:
            m = bad[0]
            chk.monitor_hit("", "classification_%s.json" % scheme,
                            dict(what="ClassifyMsg disagrees with tss-lib's routing (or knows no round) for a message the library emitted",
                                 url=m["url"], library_is_broadcast=m["lib_bcast"], classified=m["cls"], message=m,
                                 affected_types=sorted(set(x["url"] for x in bad))),
                            "%s: %s routed broadcast=%s by tss-lib, classified %s" % (scheme, m["url"].rsplit(".", 1)[-1], m["lib_bcast"],
                                                                                     [(c["round"], c["bcast"]) for c in m["cls"]][:1]))
        # ---- monitor 2: distinct broadcast-class types of one phase, distinct rounds
        by = collections.defaultdict(set)
        for m in msgs:
            for c in m["cls"]:
                if c["bcast"] and not c["err"]:
                    by[(m["phase"], c["round"])].add(m["url"])
        for (phase, rnd), urls in sorted(by.items()):
            if len(urls) > 1:
                chk.monitor_hit("", "rounds_%s_%s_%d.json" % (scheme, phase, rnd),
                                dict(what="two broadcast-class message types of one phase are classified into the same round",
                                     scheme=scheme, phase=phase, round=rnd, urls=sorted(urls)),
                                "%s %s: round %d shared by %s" % (scheme, phase, rnd, sorted(u.rsplit(".", 1)[-1] for u in urls)))
        # ---- monitor 3: whatever OnMsg queues is attributed to the transport-authenticated sender; nothing panics
        for o in ons:
            if o["panic"] or (o["enq"] > 0 and o["attr_key"] != str(o["from"])) or o["enq"] > 1:
                chk.monitor_hit("", "sender_%s.json" % scheme,
                                dict(what="OnMsg queued a message attributed to another sender than the transport sender (or panicked)", case=o),
                                "%s OnMsg from=%d attributed to %s panic=%s" % (scheme, o["from"], o["attr_key"], o["panic"]))
                break
        # ---- monitor 3b: the slot the queued message is filed under (From.Index, all tss-lib looks at) is the slot of the party
        #      whose key equals the transport sender's, or negative (refused by tss-lib): no outsider is given a member's slot
        slot_obs = slot_nonmember = 0
        bad_slots = []
        for o in ons + [dict(m, enq=m["on_enq"]) for m in mals]:
            if o["enq"] > 0:
                slot_obs += 1
                slot_nonmember += o["from"] not in o["ids"]
                i, ids = o["attr_idx"], o["ids"]
                if i >= 0 and (i >= len(ids) or ids[i] != o["from"]):
                    bad_slots.append(o)
        if bad_slots:
            # prefer a witness from a session with a gap and a sender between two members
            o = sorted(bad_slots, key=lambda o: (not (o["ids"] and min(o["ids"]) < o["from"] < max(o["ids"])), sum(len(c) for c in o.get("prev") or []),
                                                     len(o.get("primed") or []), len(o["ids"]), o["from"]))[0]
            i, ids = o["attr_idx"], o["ids"]
            owner = ids[i] if i < len(ids) else None
            chk.monitor_hit("", "sender_slot_%s.json" % scheme,
                            dict(what="OnMsg queued a message of transport sender %d under slot %d of the session %s, which belongs to party %s: "
                                      "tss-lib files messages by that index alone, so the sender is taken for that party"
                                      % (o["from"], i, ids, owner),
                                 scheme=scheme, session=ids, receiver=o.get("self"), transport_sender=o["from"], sender_is_member=o["from"] in ids,
                                 queued_under_slot=i, slot_owner=owner, message_type=o.get("url") or o.get("what"), case=o,
                                 affected=len(bad_slots),
                                 more=[dict(session=b["ids"], sender=b["from"], slot=b["attr_idx"],
                                            owner=b["ids"][b["attr_idx"]] if b["attr_idx"] < len(b["ids"]) else None) for b in bad_slots[:12]],
                                 party_history=dict(earlier_committees=o.get("prev"), senders_heard_before_last_init=o.get("primed")) if o.get("prev") else None,
                                 replay=("p := NewParty(%s); " % o.get("self")) +
                                        "".join("p.Init(%s, 1, ..); p.OnMsg(<msg>, x, true) for x in %s; " % (c, [x for x in (o.get("primed") or [])][:12])
                                                for c in (o.get("prev") or [])) +
                                        "p.Init(%s, 1, ..); p.OnMsg(<any well-formed message, e.g. Any{TypeUrl: %s}>, from=%d, broadcast); "
                                        "the message in p.in has GetFrom().Index == %d" % (ids, o.get("url"), o["from"], i)),
                            "%s OnMsg: sender %d (%s) filed under slot %d owned by %s in session %s"
                            % (scheme, o["from"], "member" if o["from"] in ids else "not a member", i, owner, ids))
        re_rows = [o for o in ons if o["phase"] == "reinit"]
        slots[scheme] = dict(queued_with_slot_checked=slot_obs, of_which_non_members=slot_nonmember, wrong_slot=len(bad_slots),
                             reinitialised_party_observations=len(re_rows),
                             reinitialised_party_histories=len(set((o["self"], json.dumps(o.get("prev")), tuple(o["ids"])) for o in re_rows)),
                             reinitialised_ex_members_seen=sum(1 for o in re_rows if not o["member"] and any(o["from"] in c for c in o.get("prev") or [])),
                             sign_runs_on_reinitialised_objects=sum(1 for r in runs if r.get("reinit")),
                             sessions=len(set(tuple(o["ids"]) for o in ons)))
        for m in mals:
            if m["cls_panic"] or m["on_panic"] or (m["on_enq"] > 0 and m["attr_key"] != str(m["from"])):
                chk.monitor_hit("", "malformed_%s.json" % scheme,
                                dict(what="ClassifyMsg / OnMsg panics on malformed bytes, or mis-attributes them", case=m),
                                "%s malformed input (%s): panic" % (scheme, m["what"]))
                break
        # ---- monitor 4: a signature comes back only for the requested digest
        for r in runs:
            if r["kind"] == "sign" and r.get("sig"):
                if not r["verifies_d"] or r["verifies_flipped"] or not r["sigs_equal"]:
                    chk.monitor_hit("%s-sign-not-for-requested-digest" % scheme, "digest_%s_run%d.json" % (scheme, r["run"]),
                                    dict(what="Sign returned a signature that does not verify for the requested digest under the threshold key"
                                              + (" (it verifies for the digest without its leading zero bytes)" if r["verifies_stripped"] else ""),
                                         scheme=scheme, digest=r["digest"], signature=r["sig"], threshold_pk=r["pk"], n=r["n"], t=r["t"],
                                         signers=r["signers"], verifies_for_requested=r["verifies_d"],
                                         verifies_for_stripped=r["verifies_stripped"], verifies_for_other=r["verifies_flipped"],
                                         replay="harness/binance: capture -scheme %s -seed %d ; or Sign(ctx, 0x%s) on any key" % (scheme, seed, r["digest"])),
                                    "%s Sign(%s...) returns a signature not valid for that digest" % (scheme, r["digest"][:8]))
                    break

        # ---- captured routing vs the committed capture the theorem C19_matches_library is about
        live, clash = routing_of(rows)
        if clash:
            chk.violation("routing_clash_%s.json" % scheme, dict(what="tss-lib routed one type both ways", rows=clash[:4]), no_input=True)
        try:
            com = {r["url"]: (r["is_broadcast"], r["phase"]) for r in json.load(open(os.path.join(CORPUS, "routing_%s.json" % scheme)))["routing"]}
        except Exception as e:
            com = None
            chk.violation("corpus_%s.txt" % scheme, "corpus/C19/routing_%s.json unreadable: %s" % (scheme, e), no_input=True)
        complete = all(r["ok"] for r in runs if r.get("expect", "sign") == "sign")
        if com is not None and complete and live != com:
            chk.violation("routing_%s.json" % scheme,
                          dict(what="the routing captured live from tss-lib differs from corpus/C19/routing_%s.json, which "
                                    "C19_matches_library is proved about (re-capture: python3 checks/adapters.py recapture)" % scheme,
                               only_live={u: v for u, v in live.items() if com.get(u) != v},
                               only_corpus={u: v for u, v in com.items() if live.get(u) != v}), no_input=True)

        # ---- correspondence: model (generated tables and shapes) vs every observation
        items, back = coq_cases(rows, sid)
        for i in range(0, len(items), 1200):
            body = "Definition cases : list acase :=\n [" + ";\n  ".join(items[i:i + 1200]) + "].\nDefinition M_def := mismatches cases.\n"
            val, out, dt = vlib.coq_eval("%s_%s_%d" % (pid, scheme, i // 1200), REQ, body)
            chk.notes.append("%s shard %d: %d distinct observations evaluated in Coq in %.1fs" % (scheme, i // 1200, len(items[i:i + 1200]), dt))
            idx = vlib.parse_nats(val) if val is not None else None
            if idx is None:
                chk.violation("corr_eval_%s.txt" % scheme, "in-Coq evaluation failed:\n" + str(out)[-3000:], no_input=True)
                break
            corr_mism += [(scheme, items[i + j], back[i + j]) for j in idx]
        for it, r in zip(items, back):
            if it.startswith("KCls") and " true " in it[:12] or it.startswith("KOn") or it.startswith("KSign") or it.startswith("KHash"):
                nontrivial.add(vlib.canon_hash([scheme, it]))

    chk.cov["mismatches"] = len(corr_mism)
    if corr_mism and not chk.violations:
        scheme, it, r = corr_mism[0]
        chk.violation("corr_adapters.json",
                      dict(what="correspondence TSS.Corr.AdaptersCorr.check fails: the model instantiated with the generated tables and the "
                                "real ClassifyMsg / OnMsg / Sign differ on this observation; the theorems of Props/C19.v rest on it",
                           scheme=scheme, coq_case=it, observation=r, mismatches=len(corr_mism)), no_input=True)
    elif corr_mism:
        chk.notes.append("%d correspondence mismatches (first: %s)" % (len(corr_mism), corr_mism[0][1][:200]))

    chk.cov["evaluations"] = evals
    chk.cov["distinct_nontrivial"] = len(nontrivial)
    chk.cov["rule"] = ("observations of the real adapters: (a) every message emitted in complete key-generation and signing runs "
                       "(n=3,t=1 identifiers 1..3; n=4,t=2 boundary identifiers incl. 65534; all signers and t+1 subsets) classified by each "
                       "receiver's ClassifyMsg and compared with tss-lib's routing flag; (b) one message of every type into OnMsg of an idle "
                       "party with the transport sender ranging over session, boundary (0,1,65534,65535) and random identifiers and both "
                       "broadcast flags; (b') slot lookup: idle parties of sessions with gaps / not starting at the smallest identifier / "
                       "with 0,255,256,65535 / random, senders = every member, member+-1, midpoints, boundary and random identifiers (below, "
                       "between and above the members): attributed key and From.Index (the slot tss-lib files the message under) compared "
                       "with the model's locate, monitor: slot owner's key = sender's key or slot negative; (b'') re-initialised parties: ONE object "
                       "through Init(A) -> messages from members and outsiders -> Init(B) [-> Init(C)] (smaller id added, member removed, "
                       "replaced, disjoint, boundary ids, same committee, random) and then the slot grid, compared with the model on the current "
                       "committee only (reused object = fresh object); one Sign per configuration on objects that served the full committee "
                       "before (after a real KeyGen where it ran) and are re-initialised with the signers minus the smallest identifier; (c) malformed inputs (every table URL of both schemes around foreign/empty content, unknown URLs, "
                       "single-character URL edits, all truncations, bit flips, random bytes of length 0..40) into ClassifyMsg and OnMsg; "
                       "(d) Sign for digests with and without leading zero bytes, of length 19..64, all-zero, all-ones. Non-trivial = "
                       "decodes as a protobuf Any (classification) / reaches the queueing decision / returns a signature; distinct by "
                       "(scheme, projected observation) after deduplication")
    chk.cov["input_distribution"] = dict(dist)
    chk.cov["slot_lookup"] = slots
    chk.cov["traces_validated_against_impl"] = sum(1 for rows in all_rows.values() for r in rows if r["kind"] in ("keygen", "sign"))
    samples = []
    for scheme, _ in SCHEMES:
        rows = all_rows.get(scheme, [])
        for kind in ("msg", "onmsg", "mal", "sign"):
            for r in rows:
                if r["kind"] == kind:
                    samples.append({k: (v if not isinstance(v, str) or len(v) < 200 else v[:200] + "...") for k, v in r.items()})
                    break
    chk.cov["samples"] = samples[:8]
    chk.cov["routing_tables"] = {s: sorted((u.rsplit(".", 1)[-1], b, p) for u, (b, p) in routing_of(all_rows.get(s, []))[0].items()) for s, _ in SCHEMES}
    return chk.finish(extra_assumptions=[
        "tss-lib v2.0.2 is not modelled: its routing is captured from real runs (corpus/C19/routing_*.json, re-captured and compared by "
        "every run); what the library signs is an arbitrary function in C19_digest_ecdsa / C19_digest_eddsa",
        "the tables, the constants of `round > K -> round - D`, the MaxUint16 bound and the presence/shape of `claimedFrom != from` and "
        "`bytes.Equal(sigOut.M, ...)` are extracted by tools/gen_adapters.py (regular expressions over mpc.go, fails on an unrecognised "
        "shape); the tables are cross-checked against the compiled package through VerifTables()",
        "tss-lib's wire format is the bare protobuf Any and carries no sender: OnMsg attributes a message to the transport sender by "
        "construction, `claimedFrom != from` cannot be exercised from the wire (observed: attributed key = transport sender for every queued "
        "message); likewise SignatureData.M always equals the bytes the adapter handed to the library, so the digest comparison is "
        "exercised only through what the returned signature verifies for",
        "protobuf decoding, ed25519/ECDSA verification and P-256 are Go standard / third-party code, not modelled",
        "quick tier: ECDSA key generation is run by tss-lib directly (same protocol, P-256, adapter party identifiers) with stored "
        "Paillier/safe-prime material corpus/C19/ecdsa_preparams.json; the adapter's own KeyGen (safe-prime sampling) runs in the thorough tier",
    ])


def recapture(tier="quick"):
    ok, blog = vlib.go_build("binance", "binance")
    if not ok:
        print(blog[-3000:])
        return 1
    d = os.path.join(vlib.RUN, "C19_recapture")
    os.makedirs(d, exist_ok=True)
    for scheme, _ in SCHEMES:
        rc, out, rows, mode = capture(scheme, tier, 20260923, d)
        tab, clash = routing_of(rows)
        runs = [r for r in rows if r["kind"] in ("keygen", "sign") and r.get("expect", "sign") == "sign"]
        if rc != 0 or clash or not all(r["ok"] for r in runs):
            print("capture of %s failed (exit %d): not written" % (scheme, rc))
            return 1
        write_routing(scheme, tab, "harness/binance capture -scheme %s -mode %s (complete key generation and signing, n=3,t=1 and n=4,t=2)" % (scheme, mode))
        print("%s: %d types written (%s)" % (scheme, len(tab), mode))
    return 0


if __name__ == "__main__":
    if len(sys.argv) >= 2 and sys.argv[1] == "recapture":
        sys.exit(recapture(sys.argv[2] if len(sys.argv) > 2 else "quick"))
    print(__doc__)
