"""C08 / C09 (and the PS/BLS parser part of C10): Pointcheval-Sanders threshold blind signatures, BLS verification.

Proof stage: Props/C08.v, Props/C09.v (models Alg/PS.v, Alg/Sigma.v, Alg/BLSVerify.v).
Tie: verdict-level.  The Go harnesses (harness/ps against mpc/ps, harness/psbls against mpc/bls, each with the module's own
pinned mathlib) run the real code on scenarios; Corr/PSCorr.v executes the same Gallina functions the theorems are about on
the same abstract scenario in a toy instance of the ideal-group model (Z/31, exponent space) and the verdicts are compared.
For C08 the DKG is additionally tied at scalar level inside the harness: with seeded randomness every dealt coefficient
is known, and every party's share, published key and the threshold key are compared with the closed forms of
C08_dkg_public_equal computed with big integers / the library's own g2^x.
"""
import collections, json, os, re
import vlib


def nat(x):
    return "%d%%nat" % x


def nlist(xs):
    s = "nil"
    for x in reversed(list(xs)):
        s = "(cons %s %s)" % (nat(x), s)
    return s


def b(x):
    return "true" if x else "false"


RCOMP = dict(cm="Rcm", u="Ru", mprime="Rmp", a="Ra", b="Rb", x="Rx", y="Ry", s="Rs", z="Rz", d="Rd", f="Rf", none="Rcm")
PCOMP = dict(x="Qx", y="Qy", Gamma="QGamma", Phi="QPhi", he="Qhe", hpe="Qhpe", nu="Qnu", kappa="Qkappa", none="Qx")
PERT = dict(none="Pnone", plusgen="Pplus", swap="Pswap", zero="Pzero")
REQLIE = dict(none=0, a=1, b=2, rcm=3, sim=4, a2=5, b2=6, f2=7, d2=8, x2=9, y2=10)
POKLIE = dict(none=0, delta=1, eps0=2)
THR = dict(honest=0, below_t=0, otherkey=1, rotated=2, foreign=3)
ORB = dict(d=0, f=1, a=2, b=3, s=4, cm=5, g=6, g0=7, h=8, u=9, gs=10)
ORP = dict(Gamma=0, Phi=1, nu=2, he=3, g2=4, X=5, kappa=6, Y=7)
BLS = dict(honest=0, below_t=0, msgflip=1, share_plusgen=2, agg_plusgen=3, agg_zero=4, agg_swap=5, otherkey=6, rotated=7)


def to_coq(c):
    """One harness record -> a pcase term (None when the record is not a model case)."""
    k = c.get("cls") or c.get("kind")
    if k == "req":
        return "KReq %s %s %s %s %s %s %s %s" % (nat(c["L"]), nlist(c["pat"]), nlist(c["pat2"]), RCOMP[c["comp"]], nat(c["idx"]),
                                                 PERT[c["pert"]], b(c["v1"]), b(c["v2"]))
    if k == "reqforge":
        return "KReqForge %s %s %s %s %s %s" % (nat(c["L"]), nlist(c["pat"]), nat(REQLIE[c["pert"]]), nat(c["idx"]), b(c["v1"]), b(c["v2"]))
    if k == "pok":
        return "KPok %s %s %s %s %s %s %s %s %s %s %s" % (nat(c["N"]), nat(c["t"]), nat(c["L"]), nlist(c["pat"]), nlist(c["pat2"]),
                                                          nlist(c["signers"]), PCOMP[c["comp"]], nat(c["idx"]), PERT[c["pert"]],
                                                          b(c["v1"]), b(c["v2"]))
    if k == "pokthr":
        return "KPokThr %s %s %s %s %s %s %s %s %s %s" % (nat(c["N"]), nat(c["t"]), nat(c["L"]), nlist(c["pat"]), nlist(c["pat2"]),
                                                          nlist(c["signers"]), nat(THR[c["pert"]]), nat(c["idx"]), b(c["v1"]), b(c["v2"]))
    if k == "pokforge":
        return "KPokForge %s %s %s %s %s" % (nat(c["L"]), nlist(c["pat"]), nat(POKLIE[c["pert"]]), b(c["v1"]), b(c["v2"]))
    if k == "oracle":
        pok = c["pert"] == "pok"
        comp = (ORP if pok else ORB)[c["comp"]]
        return "KOracle %s %s %s %s %s %s" % (b(pok), nat(c["L"]), nlist(c["pat"]), nat(comp), nat(c["idx"]), b(c["changed"]))
    if k == "bls":
        return "KBls %s %s %s %s %s %s %s" % (nat(c["N"]), nat(c["t"]), nlist(c["signers"]), nat(BLS[c["pert"]]), nat(c["idx"]),
                                              b(c["v1"]), b(c["v2"]))
    if k == "blspairs":
        return "KBlsPairs %s %s %s %s %s %s" % (nat(c["N"]), nat(c["t"]), nlist(c["signers"]), nlist(c["makers"]), b(c["v1"]), b(c["v2"]))
    # C08
    if k == "request":
        return "KCReq %s %s %s" % (nat(c["L"]), nlist(c["pattern"]), b(c["accept"]))
    if k == "unblind":
        return "KCUnblind %s %s %s %s %s %s" % (nat(c["N"]), nat(c["t"]), nat(c["L"]), nlist(c["pattern"]), nat(c["signer"]), b(c["accept"]))
    if k == "pok_complete":
        if c.get("signer_ids") is not None:   # the API was given identifiers; the model is fed their ranks in the party list
            assert [c["ids"].index(x) + 1 for x in c["signer_ids"]] == c["signers"], c
        return "KCPok %s %s %s %s %s %s" % (nat(c["N"]), nat(c["t"]), nat(c["L"]), nlist(c["pattern"]), nlist(c["signers"]), b(c["accept"]))
    if k == "dkg":
        T = list(range(c["N"] - c["t"] + 1, c["N"] + 1))   # the last t parties
        v = c["ok"] and c["tpk_equal"] and c["sk_closed"] and c["pk_closed"] and c["tpk_closed"]
        return "KCDkg %s %s %s %s %s" % (nat(c["N"]), nat(c["t"]), nat(c["L"]), nlist(T), b(v))
    return None


def correspondence(chk, tag, cases):
    """Evaluate the model on every case; returns the list of mismatching cases (None on an evaluation failure)."""
    terms, index, seen = [], [], {}
    for c in cases:
        t = to_coq(c)
        if t is None:
            continue
        if t in seen:           # identical scenario and identical verdicts: evaluated once
            continue
        seen[t] = 1
        terms.append(t)
        index.append(c)
    mism = []
    for i in range(0, len(terms), 400):
        body = "Definition cases : list pcase :=\n " + "\n ".join("(cons (%s)" % t for t in terms[i:i + 400]) + " nil" + \
               ")" * len(terms[i:i + 400]) + ".\nDefinition M_def := mismatches cases.\n"
        val, out, dt = vlib.coq_eval("%s_%s_%d" % (chk.pid, tag, i // 400),
                                     ["mathcomp.ssreflect.ssreflect", "mathcomp.ssreflect.ssrnat", "mathcomp.ssreflect.seq",
                                      "TSS.Alg.PS", "TSS.Corr.PSCorr"], body)
        chk.notes.append("%s shard %d: %d scenarios evaluated in Coq in %.1fs" % (tag, i // 400, len(terms[i:i + 400]), dt))
        idx = None
        if val is not None:
            idx = vlib.parse_nats(val.replace("[::", "[").replace("%N", ""))
        if idx is None:
            chk.violation("corr_eval_%s.txt" % tag, "in-Coq evaluation of the scenarios failed:\n" + str(out)[-3000:], no_input=True)
            return None, len(terms)
        mism += [index[i + j] for j in idx]
    return mism, len(terms)


def harness(chk, binary, cmd, seed, tier, name):
    path = os.path.join(chk.rundir(), name)
    rc, out = vlib.run_harness(binary, [cmd, "-seed", str(seed), "-tier", tier], path, timeout=3000)
    if rc != 0:
        chk.violation("harness_%s_%s.txt" % (binary, cmd), "harness %s %s failed (exit %d):\n%s" % (binary, cmd, rc, out[-4000:]), no_input=True)
        return None
    return vlib.read_jsonl(path)


def replay_doc(binary, cmd, seed, tier, case, what):
    return dict(what=what, reproduce="%s %s -seed %d -tier %s   (harness/%s, built with -tags verif against %s)" % (
                    os.path.join(vlib.BIN, binary), cmd, seed, tier, binary, vlib.REPO),
                case=case)


# ------------------------------------------------------------------------------------------------ long-lived objects

def reuse_stage(chk, seed, tier):
    """One Prover, one Verifier and one TPS signer object per rank taken through several key epochs (Init / SetShareData again
    on the SAME objects: same key twice, another key of the same shape, other party lists / thresholds / message lengths, back to
    the first key); every verdict must be the honest one AND equal to the verdict of freshly constructed objects on the same
    input.  The model has no object state, so this family is what ties "keys are arguments" to the code.  Returns #records."""
    rows = harness(chk, "ps", "reuse", seed, tier, "reuse.jsonl")
    if rows is None:
        return 0
    hits = 0
    for c in rows:
        bad = None
        if c["step"] == "setup":
            chk.violation("harness_setup.json", dict(what="harness could not set the scenario up", case=c), no_input=True)
            continue
        if c.get("panic"):
            bad = "panic"
        elif c["reused"] != c["fresh"]:
            bad = "the re-initialised object %s, a fresh object %s" % ("accepts" if c["reused"] else "refuses: " + c["err_reused"],
                                                                       "accepts" if c["fresh"] else "refuses: " + c["err_fresh"])
        elif c["reused"] != c["expect"]:
            bad = "%s but must be %s (%s)" % ("accepted" if c["reused"] else "refused", "accepted" if c["expect"] else "refused", c["err_reused"])
        if bad:
            chk.cov["monitor_hits"] += 1
            if hits < 3:
                hits += 1
                what = "long-lived objects, initialisation #%d with key %s (N=%d t=%d L=%d parties %s), step %s%s: %s" % (
                    c["epoch"], c["key"], c["N"], c["t"], c["L"], c["ids"], c["step"],
                    " signers of ranks %s" % c["signers"] if c.get("signers") else (" signer rank %s" % c["signer"] if c.get("signer") else ""), bad)
                chk.monitor_hit("", "reuse_%d.json" % hits, replay_doc("ps", "reuse", seed, tier, c, what), what)
                chk.cov["monitor_hits"] -= 1
    chk.cov["long_lived_objects"] = dict(
        records=len(rows), initialisations=len(set(c["epoch"] for c in rows)),
        keys=sorted(set(c["key"] for c in rows)), by_step=dict(collections.Counter(c["step"] for c in rows)),
        reused_equals_fresh=sum(1 for c in rows if c["reused"] == c["fresh"]),
        note="the same Prover / Verifier / TPS signer objects re-initialised (Prover.Init, Verifier.Init, TPS.Init + SetShareData) across key "
             "epochs; each verdict compared with the honest expectation and with freshly constructed objects on the same input; a proof of "
             "the previous epoch is also verified under the new key (accepted only when the key is the same)")
    return len(rows)


# ------------------------------------------------------------------------------------------------ C08

def run_c08(chk, seed, tier):
    rows = harness(chk, "ps", "complete", seed, tier, "complete.jsonl")
    if rows is None:
        return
    hits = 0
    for c in rows:
        if c["kind"] == "dkg":
            good = c["ok"] and c["tpk_equal"] and c["sk_closed"] and c["pk_closed"] and c["tpk_closed"]
            if not good and hits < 3:
                hits += 1
                what = ("DKG N=%d t=%d L=%d: ok=%s all parties report identical public material=%s shares=closed form %s "
                        "published keys=closed form %s threshold key=closed form %s %s" %
                        (c["N"], c["t"], c["L"], c["ok"], c["tpk_equal"], c["sk_closed"], c["pk_closed"], c["tpk_closed"], c["err"]))
                chk.monitor_hit("", "dkg_%d.json" % hits, replay_doc("ps", "complete", seed, tier, c, what), what)
        else:
            if (not c["accept"] or c.get("panic")) and hits < 3:
                hits += 1
                what = "honest %s step refused (parties %s, N=%d t=%d L=%d, message pattern %s%s%s): %s" % (
                    c["kind"], c.get("ids"), c["N"], c["t"], c["L"], c.get("pattern"),
                    ", signer rank %s" % c["signer"] if c.get("signer") else "",
                    ", signers of ranks %s = parties %s" % (c["signers"], [c["ids"][k - 1] for k in c["signers"]]) if c.get("signers") else "",
                    c.get("err"))
                chk.monitor_hit("", "complete_%d.json" % hits, replay_doc("ps", "complete", seed, tier, c, what), what)
            if c["kind"] == "pok":
                c["kind"] = "pok_complete"
    mism, n_eval = correspondence(chk, "complete", rows)
    if mism is None:
        return
    chk.cov["mismatches"] = len(mism)
    if mism and not chk.violations:
        chk.violation("corr_complete.json", dict(what="model (Corr/PSCorr.v: accept) and implementation differ on this honest step; "
                                                      "the theorems of Props/C08.v rest on this correspondence", case=mism[0]), no_input=True)
    dk = [c for c in rows if c["kind"] == "dkg"]
    n_reuse = reuse_stage(chk, seed, tier)
    chk.cov["evaluations"] = len(rows) + sum(c.get("scalars", 0) for c in dk) + n_reuse
    chk.cov["distinct_nontrivial"] = len(set(vlib.canon_hash([c["kind"], c.get("N"), c.get("t"), c.get("L"), c.get("pattern"), c.get("signer"),
                                                              c.get("signers"), c.get("order"), c.get("ids")]) for c in rows if c.get("accept") or c.get("ok")))
    chk.cov["rule"] = ("one real in-process TPS key generation per (N,t,L) (N<=4, all t, L=1..4, shuffled start order) with parties 1..N, plus one per party identifier "
                       "set {1,2,4} {2,3,5} {1,3,4,6} {3,7} {0,1,2} {255,256,300} {65533,65534,65535} {4,2,1} (the model is fed ranks, the API identifiers) "
                       "and one per larger configuration (6,2) (8,3) (12,2) (12,7) (thorough also (16,2) (10,10)) with one message vector and five signer subsets, scalar-level comparison of "
                       "every share / published key / threshold key with the closed form sum_j p_j(i) (polynomials known through the seeded "
                       "randomness); per key set 2-3 message vectors incl. empty and equal entries: blind, sign at every party (KeyGen instance "
                       "or instance reloaded from share data), unblind, prove for every signer subset of size >= t (one also in reversed order), "
                       "verify; non-trivial = step accepted; distinct by (kind, N, t, L, message pattern, signer set)")
    chk.cov["input_distribution"] = dict(collections.Counter("%s N=%s t=%s" % (c["kind"], c.get("N"), c.get("t")) for c in rows))
    chk.cov["n_t_exercised"] = sorted(set("(%d,%d)" % (c["N"], c["t"]) for c in dk))
    chk.cov["party_identifier_sets"] = dict(collections.Counter(str(c.get("ids")) for c in rows if c["kind"] == "pok_complete"))
    chk.cov["scalar_comparisons"] = sum(c.get("scalars", 0) for c in dk)
    chk.cov["model_scenarios_evaluated"] = n_eval
    chk.cov["samples"] = dk[:1] + [c for c in rows if c["kind"] == "pok_complete"][:2] + [c for c in rows if c["kind"] == "unblind"][:1]
    chk.cov["traces_validated_against_impl"] = len(rows)


# ------------------------------------------------------------------------------------------------ C09

def pairs_identically_valid(signers, makers, t):
    """Exact rational arithmetic, independent of the Coq model: with the k-th share made by makers[k] (value F(makers[k])) and
    combined under the coefficient Go computes for signers[k] (prod over the listed points j != i of j/(j-i)), the aggregate
    exponent is sum_k lambda_k F(makers[k]).  It equals F(0) for EVERY polynomial F with t coefficients iff
    sum_k lambda_k makers[k]^j = [j = 0] for j < t.  Then verification must accept; otherwise it accepts only on a proper
    subspace of polynomials (probability 1/r for a dealt key) and must reject.  E.g. over the signers {1,2,3,4} the coefficients
    are (4,-6,4,-1): exchanging the shares of signers 1 and 3 leaves the aggregate unchanged (cf. C09_bls_assignment_poly)."""
    from fractions import Fraction
    lam = []
    for i in signers:
        l = Fraction(1)
        for j in signers:
            if j != i:
                l *= Fraction(j, j - i)
        lam.append(l)
    for j in range(t):
        tot = sum(l * Fraction(m) ** j for l, m in zip(lam, makers))
        if tot != (1 if j == 0 else 0):
            return False
    return True


def expected_accept(c):
    """What the property demands of the implementation, independently of the model."""
    k = c["cls"]
    if k in ("req", "pok"):
        return c["pert"] == "none" or c["comp"] == "mprime"   # the mPrime field is read by nobody (C09_ps_mprime_field_unused)
    if k in ("reqforge", "pokforge"):
        return c["pert"] == "none"
    if k in ("pokthr", "bls"):
        return c["pert"] == "honest"
    if k == "blspairs":
        # every share under the signer that made it, no signer twice, at least t of them - in whatever order the pairs come -
        # must verify; a re-pairing must fail unless it provably leaves the aggregate unchanged for every polynomial
        honest = c["makers"] == c["signers"] and len(set(c["signers"])) == len(c["signers"]) and len(c["signers"]) >= c["t"]
        valid = pairs_identically_valid(c["signers"], c["makers"], c["t"])
        assert (not honest) or valid
        return valid
    return None


def run_c09(chk, seed, tier):
    ok2, blog = vlib.go_build("psbls", "psbls")
    if not ok2:
        chk.violation("go_build_psbls.txt", "harness psbls does not build against /repo:\n" + blog[-4000:], no_input=True)
        return
    ps_rows = harness(chk, "ps", "perturb", seed, tier, "perturb_ps.jsonl")
    bls_rows = harness(chk, "psbls", "perturb", seed, tier, "perturb_bls.jsonl")
    mal_ps = harness(chk, "ps", "malformed", seed, tier, "malformed_ps.jsonl")
    mal_bls = harness(chk, "psbls", "malformed", seed, tier, "malformed_bls.jsonl")
    if None in (ps_rows, bls_rows, mal_ps, mal_bls):
        return
    rows = [(c, "ps") for c in ps_rows] + [(c, "psbls") for c in bls_rows]
    hits = 0
    skipped = 0
    skipped_kinds = collections.Counter()
    model_rows = []
    for c, binary in rows:
        if c["cls"] == "setup" or c["err"].startswith("harness:"):
            chk.violation("harness_setup.json", dict(what="harness could not set the scenario up", case=c), no_input=True)
            continue
        if c["cls"] == "oracle":
            model_rows.append(c)
            continue
        if c["err"].startswith("aggregate: PANIC") or (c["cls"] != "blspairs" and c["err"].startswith("aggregate:")) or c["err"].startswith("prover:"):
            # the aggregation / proving routine itself refused (a single signer, or one signer listed twice in a list of two:
            # "empty lagrange coefficient vector" - a panic on the caller's own signer list, recorded, not a verdict)
            skipped += 1
            skipped_kinds[c["cls"] + "/" + c["pert"]] += 1
            continue
        model_rows.append(c)
        exp = expected_accept(c)
        bad = None
        if c["panic"]:
            bad = "panic during verification: " + c["err"]
        elif c.get("side"):
            bad = "side effect / non-determinism: %s (signers %s, shares made by %s)" % (c["side"], c["signers"], c.get("makers"))
        elif c["cls"] == "blspairs" and exp is not None and c["v1"] != exp:
            bad = ("bls.Verifier.AggregateSignatures + Verify, N=%d t=%d, signers %s with the shares of parties %s (%s): %s but must be %s" %
                   (c["N"], c["t"], c["signers"], c["makers"], c["pert"], "accepted" if c["v1"] else "rejected: " + c["err"],
                    "accepted" if exp else "rejected"))
        elif c["v1"] != c["v2"]:
            bad = "verifying/signing the same object twice gave different verdicts (first %s, second %s): %s" % (
                "accept" if c["v1"] else "reject", "accept" if c["v2"] else "reject", c["err"])
        elif exp is not None and c["v1"] != exp:
            bad = "%s %s %s[%d] %s: %s but must be %s" % (c["cls"], c.get("comp", ""), c["pert"], c["idx"], c.get("path", ""),
                                                         "accepted" if c["v1"] else "rejected", "accepted" if exp else "rejected")
        if bad and hits < 5:
            hits += 1
            chk.monitor_hit("", "perturb_%d.json" % hits, replay_doc(binary, "perturb", seed, tier, c, bad), bad)
        elif bad:
            chk.cov["monitor_hits"] += 1
    # malformed input: no entry point may panic (it must reject or ignore)
    mal = [(m, "ps") for m in mal_ps] + [(m, "psbls") for m in mal_bls]
    for m, binary in mal:
        if m["panic"] and hits < 8:
            hits += 1
            what = "%s panicked on malformed input (%s): %s" % (m["entry"], m.get("class", ""), m["what"])
            chk.monitor_hit("", "malformed_%d.json" % hits, replay_doc(binary, "malformed", seed, tier, m, what), what)
        elif m["entry"] == "setup":
            chk.violation("harness_setup.json", dict(what="harness could not set the scenario up", case=m), no_input=True)
    mism, n_eval = correspondence(chk, "perturb", model_rows)
    if mism is None:
        return
    chk.cov["mismatches"] = len(mism)
    if mism and not chk.violations:
        chk.violation("corr_perturb.json", dict(what="model (Corr/PSCorr.v) and implementation give different verdicts on this scenario; "
                                                     "the theorems of Props/C09.v rest on this correspondence", case=mism[0],
                                                all_mismatching=[[m["cls"], m.get("comp"), m["pert"], m["idx"]] for m in mism[:20]]), no_input=True)
    n_reuse = reuse_stage(chk, seed, tier)
    chk.cov["evaluations"] = len(rows) + len(mal) + n_reuse
    chk.cov["distinct_nontrivial"] = len(set(vlib.canon_hash([c["cls"], c.get("N"), c.get("t"), c.get("L"), c.get("comp"), c.get("idx"), c.get("pert"),
                                                              c.get("path"), c.get("signers"), c.get("makers")]) for c, _ in rows if c["cls"] != "setup"))
    chk.cov["rule"] = ("perturbation catalogue on real objects of real key generations: every field of a BlindSignature request (cm,u,mPrime,a_i,b_i, "
                       "proof x_i,y_i,s,z,d_i,f_i) and of a SigPoK (psi.x_i, psi.y, Gamma, Phi, h^eps, h'^eps, nu, kappa) x {+generator, same field of another "
                       "session, zero} x {through the byte interface TPS.Sign / Verifier.Verify, on the Go object}, each verified twice; provers lying about "
                       "one witness with the Fiat-Shamir proof recomputed (isolates each verification equation); compensating alterations of two components "
                       "(+P / -P, sums and products over the vector preserved; a and b before proving, f, d, x, y in the finished proof); wrong signer-to-witness assignment, foreign "
                       "witness, key of another DKG, fewer than t witnesses; which arguments the two oracle functions hash; BLS: message bit flipped, each share + "
                       "generator, aggregate altered/zero/of another message, key of another DKG, rotated assignment, every subset of size t-1; (signer, share) pairs in every order through the public aggregation API and their "
                       "re-pairings (sorted labels on unsorted shares, two swapped, outsider's share, duplicate signer); plus malformed "
                       "ASN.1 at every parser entry point (no panic). distinct by (class, N, t, L, component, index, perturbation, path, signers)")
    chk.cov["input_distribution"] = dict(collections.Counter("%s/%s" % (c["cls"], c["pert"] if c["cls"] not in ("req", "pok") else c["comp"]) for c, _ in rows))
    chk.cov["malformed_inputs"] = dict(collections.Counter(m["entry"] + ("/panic" if m["panic"] else "/rejected" if m["err"] else "/accepted-or-ignored") for m, _ in mal))
    chk.cov["compensating_alterations"] = dict(collections.Counter(c["pert"] for c, _ in rows if c["cls"] == "reqforge" and c["pert"].endswith("2")))
    chk.cov["not_compared"] = skipped
    chk.cov["not_compared_kinds"] = dict(skipped_kinds)
    pairs = [c for c, _ in rows if c["cls"] == "blspairs"]
    chk.cov["bls_signer_share_pairs"] = dict(
        cases=len(pairs),
        by_variant=dict(collections.Counter(c["pert"] for c in pairs)),
        accepted=sum(1 for c in pairs if c["v1"]),
        distinct_signer_orders=len(set((c["N"], c["t"], tuple(c["signers"])) for c in pairs)),
        harmless_repairings=[[c["signers"], c["makers"]] for c in pairs if c["makers"] != c["signers"] and
                             pairs_identically_valid(c["signers"], c["makers"], c["t"])][:10],
        non_ascending_honest_orders=sum(1 for c in pairs if c["pert"] == "pairs_permuted" and c["signers"] != sorted(c["signers"])),
        note="through the public bls.Verifier.AggregateSignatures + Verify; every order of the (signer, share) pairs for subsets of up to 4 "
             "signers (24 random orders beyond), each aggregated twice and verified twice with input copies compared afterwards; "
             "re-pairings: sorted labels on unsorted shares, two shares swapped, share of an outsider, one signer twice, t-1 signers. "
             "Expected verdict by exact rational arithmetic (accept iff the re-paired combination reconstructs F(0) for every polynomial): "
             "a few re-pairings are harmless, e.g. the coefficients over {1,2,3,4} are (4,-6,4,-1), so exchanging the shares of signers 1 and 3 "
             "yields the very same aggregate - listed under harmless_repairings; the model predicts the same (C09_bls_assignment_poly)")
    chk.cov["model_scenarios_evaluated"] = n_eval
    chk.cov["samples"] = [c for c, _ in rows if c["cls"] == "req" and c["comp"] == "a"][:1] + [c for c, _ in rows if c["cls"] == "pok" and c["comp"] == "hpe"][:1] + \
                         [c for c, _ in rows if c["cls"] == "bls" and c["pert"] == "rotated"][:1] + [c for c, _ in rows if c["cls"] == "reqforge"][:1]
    chk.cov["traces_validated_against_impl"] = len(model_rows)


ASSUME = [
    "ideal-group model: G1, G2, GT are modules over the scalar field (no structure beyond the module laws is used), the pairing is a bilinear map, "
    "non-degenerate on the G2 generator where a theorem says so; SHA-256, HashToZr, HashToG1 and the two Fiat-Shamir oracles are arbitrary functions; "
    "the group order is prime (scalars form a field) and exceeds the number of parties",
    "the models (coq/theories/Alg/PS.v, Sigma.v, BLSVerify.v) are hand-written mirrors of mpc/ps/ps.go, prover.go, tps.go and mpc/bls/tbls.go, verifier.go; "
    "the tie is verdict-level: Corr/PSCorr.v executes these same Gallina functions on the abstract scenario (class + parameters) in a toy instance "
    "(scalars Z/31, every group element represented by its discrete logarithm, e(a,b)=ab, fixed non-zero generators, polynomial toy hash functions, "
    "fixed nonces); no random value of the real run enters the model, only accept/reject per scenario is compared",
    "rejection of a change to a component that is bound through a random oracle is generic-case behaviour (probability over the oracle), in the model "
    "as in the code; the deterministic parts are C09_ps_equations_* (same challenge) and C09_ps_binding_* (what is hashed)",
    "encoding/asn1, the curve library (IBM/mathlib over gnark-crypto: group law, pairing, hash-to-curve, point (de)serialisation) and crypto/rand are not modelled",
]


def run(pid, tier, seed):
    chk = vlib.Check(pid, tier, seed)
    vlib.proof_stage(chk)
    ok, blog = vlib.go_build("ps", "ps")
    if not ok:
        chk.violation("go_build.txt", "harness does not build against /repo:\n" + blog[-4000:], no_input=True)
        return chk.finish(extra_assumptions=ASSUME)
    if pid == "C08":
        run_c08(chk, seed, tier)
        # "all parties report identical public material after DKG" under delivery schedules without per-link FIFO (a party's
        # de-commitment overtaking its commitment, a share arriving after the commitments, random orders, with and without a
        # deviating participant): the backend-level DKG harness of the dkg engine, TPS instances
        from checks import dkg as dkg_engine
        dkg_engine.run_ps_dkg_schedules(chk, tier, seed)
    else:
        run_c09(chk, seed, tier)
    return chk.finish(extra_assumptions=ASSUME)
