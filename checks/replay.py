"""./check <Cnn> --replay <file>: re-execute the scenario of a replay file on the implementation (current /repo) and
evaluate the property's monitor on what is observed now.  Exit 1 + VIOLATION line when the failure reproduces."""
import json, os, sys
import vlib


def monitors_for(pid, kind):
    from checks import rbc, box, boxconc, orch
    if kind == "rbc":
        return {"C02": rbc.monitor_agreement, "C03": rbc.monitor_integrity, "C04": rbc.monitor_totality}.get(pid, panic_rbc)
    if kind == "box":
        return {"C15": box.monitor_c15, "C14": box.monitor_c14_seq}.get(pid, box.monitor_c15)
    if kind == "boxconc":
        return lambda sc: [dict(what=w, sig=s) for s, w in boxconc.classify(sc)]
    if kind == "orch":
        return {"C06": orch.monitor_c06, "C11": orch.monitor_c11, "C12": orch.monitor_c12}.get(pid, orch.monitor_c11)
    if kind == "fuzz":
        return lambda c: ([dict(what="panic: " + c.get("panic_val", ""))] if c.get("panic") else []) + ([dict(what="hang")] if c.get("hang") else [])
    return None


def panic_rbc(sc):
    return [dict(what="panic", event=i) for i, e in enumerate(sc["events"]) if e["panic"] and e["from"] != e["h"]]


def run(pid, path):
    doc = json.load(open(path)) if path.endswith(".json") else None
    if doc is None:
        print(open(path).read()[:2000])
        print("replay: this file names a proof obligation / correspondence that no longer checks; re-run ./check %s" % pid)
        return 0
    body = doc.get("scenario") or doc.get("case") or doc
    kind = body.get("kind") if isinstance(body, dict) else None
    if kind not in ("rbc", "box", "boxconc", "orch", "fuzz"):
        rep = doc.get("reproduce") or (doc.get("case", {}) or {}).get("reproduce") if isinstance(doc, dict) else None
        print("replay: scenario kind %r is replayed by its engine's harness: %s" % (kind, rep or "re-run ./check %s with the same VERIF_SEED" % pid))
        return 0
    ok, blog = vlib.go_build("core", "core")
    if not ok:
        print(blog[-2000:]); return 2
    out = os.path.join(vlib.RUN, pid, "replay_out.jsonl")
    rc, log = vlib.run_harness("core", ["replay", "-x", path], out)
    if rc != 0:
        print(log[-2000:]); return 2
    res = vlib.read_jsonl(out)[0]
    mon = monitors_for(pid, kind)
    hits = mon(res) if mon else []
    known = {k["sig"]: k["id"] for k in vlib.known_findings(pid)}
    real = [h for h in hits if h.get("sig") not in known]
    for h in hits:
        if h.get("sig") in known:
            print("KNOWN-FINDING: property=%s %s %s" % (pid, known[h["sig"]], h["what"]))
    if real:
        print("replayed on the current /repo: the failure reproduces: %s" % real[0]["what"])
        print("VIOLATION property=%s replay=%s" % (pid, path))
        return 1
    print("replayed on the current /repo: no failure of %s observed (%d events/steps executed)" % (pid, len(res.get("events") or res.get("ops") or res.get("steps") or res.get("grants") or [1])))
    return 0
