"""C13: wire encodings of identifiers, rounds, digests (and the decoder part of C10)."""
import collections, hashlib, os, re
import vlib
from vlib import Emitter


def case_to_coq(em, c):
    k = c["kind"]
    if k == "ack":
        return "CAck %s %d %d %s %s" % (em.bytes(c["digest"]), c["sender"], c["round"], Emitter.b(c["enc_panic"]), em.bytes(c["enc"]))
    if k == "mpcdec":
        return "CMpcDec %s %s %s %s %s %d %d" % (em.bytes(c["data"]), Emitter.b(c["panic"]), Emitter.b(c["err"]),
                                                 Emitter.b(c["is_ack"]), em.bytes(c["digest"]), c["sender"], c["round"])
    if k == "syncenc":
        return "CSyncEnc %d %s %s %s %s" % (c["type"], em.bytes(c["tag"]), Emitter.nlist(c["peers"]), Emitter.b(c["panic"]),
                                            em.bytes(c["enc"]))
    if k == "syncdec":
        return "CSyncDec %s %s %s %d %s %s" % (em.bytes(c["data"]), Emitter.b(c["panic"]), Emitter.b(c["err"]), c["type"],
                                               em.bytes(c["tag"]), Emitter.nlist(c["peers"]))
    raise ValueError(k)


def parse_list_of_lists(val):
    v = re.sub(r"\s+", "", re.sub(r"%(nat|N|Z)", "", val))
    if not (v.startswith("[") and v.endswith("]")):
        return None
    inner = v[1:-1]
    if inner == "":
        return []
    res = []
    for part in re.findall(r"\[([0-9;]*)\]", inner):
        res.append([int(x) for x in part.split(";") if x != ""])
    return res


def run(pid, tier, seed):
    chk = vlib.Check(pid, tier, seed)
    vlib.proof_stage(chk)
    ok, blog = vlib.go_build("core", "core")
    if not ok:
        chk.violation("go_build.txt", "harness does not build against /repo:\n" + blog[-4000:], no_input=True)
        return chk.finish()
    n = {"quick": 400, "thorough": 6000}[tier]
    path = os.path.join(chk.rundir(), "codec.jsonl")
    rc, out = vlib.run_harness("core", ["codec", "-n", str(n), "-seed", str(seed)], path)
    if rc != 0:
        chk.violation("harness.txt", "harness failed (exit %d):\n%s" % (rc, out[-4000:]), no_input=True)
        return chk.finish()
    cases = vlib.read_jsonl(path)
    # 1. exhaustive round-trip monitors on the implementation
    exh = [c for c in cases if c["kind"] == "exhaustive"]
    for e in exh:
        if e["failures"]:
            chk.monitor_hit("", "roundtrip.json", e, "identifier does not survive: " + e["first"])
    # 2. panics are C10's business, but an encoder/decoder panic on a valid value is also a C13 failure
    # 3. model = implementation
    cc = [c for c in cases if c["kind"] in ("ack", "mpcdec", "syncenc", "syncdec")]
    mism_all = []
    for i in range(0, len(cc), 1500):
        em = Emitter()
        items = [case_to_coq(em, c) for c in cc[i:i + 1500]]
        body = "\n".join(em.defs) + "\nDefinition cases : list ccase :=\n [" + ";\n  ".join(items) + "].\nDefinition M_def := mismatches cases.\n"
        val, out, dt = vlib.coq_eval("%s_codec_%d" % (pid, i // 1500), ["TSS.Base.Base", "TSS.Wire.Codec", "TSS.Corr.CodecCorr"], body)
        chk.notes.append("codec shard %d: %d cases evaluated in Coq in %.1fs" % (i // 1500, len(items), dt))
        idx = vlib.parse_nats(val) if val is not None else None
        if idx is None:
            chk.violation("corr_eval.txt", "in-Coq evaluation failed:\n" + str(out)[-3000:], no_input=True)
            break
        mism_all += [cc[i + j] for j in idx]
    # 4. membership topic: SHA-256 of the model's preimage must be the implementation's topic
    topics = [c for c in cases if c["kind"] == "topic"]
    body = "Definition M_def := topic_preimages %s.\n" % Emitter.lst(Emitter.nlist(t["members"]) for t in topics)
    val, out, dt = vlib.coq_eval(pid + "_topic", ["TSS.Base.Base", "TSS.Wire.Codec", "TSS.Corr.CodecCorr"], body)
    pre = parse_list_of_lists(val) if val is not None else None
    if pre is None or len(pre) != len(topics):
        chk.violation("corr_topic.txt", "in-Coq evaluation of topic preimages failed:\n" + str(out)[-2000:], no_input=True)
    else:
        for t, p in zip(topics, pre):
            if hashlib.sha256(bytes(p)).hexdigest() != t["topic"]:
                mism_all.append(t)
    chk.cov["mismatches"] = len(mism_all)
    if mism_all:
        # a mismatch on a valid value is itself a failing input for the round-trip property when the implementation's
        # own round trip fails; otherwise it is a broken correspondence
        c = mism_all[0]
        rt_fail = any(e["failures"] for e in exh)
        if not rt_fail:
            chk.violation("corr_codec.json", dict(what="correspondence TSS.Corr.CodecCorr.check fails: model and implementation "
                                                       "differ on this case; theorems of Props/C13.v rest on it", case=c),
                          no_input=True)
    chk.cov["evaluations"] = len(cc) + len(topics) + sum(e["count"] for e in exh)
    chk.cov["distinct_nontrivial"] = len(set(vlib.canon_hash(c) for c in cc if not c.get("err") and not c.get("panic")))
    chk.cov["rule"] = ("exhaustive implementation round trips over all 65536 identifiers (acks x 4 rounds, 3-member views); "
                       "model-vs-implementation on structured encodings (boundary identifiers, random digests/tags/views), their "
                       "mutations, and every length 0..40 of patterned byte strings; non-trivial = decodes without error; distinct by content")
    chk.cov["exhaustive_monitors"] = exh
    chk.cov["input_distribution"] = dict(collections.Counter(c["kind"] + ("/err" if c.get("err") else "") + ("/panic" if c.get("panic") or c.get("enc_panic") else "") for c in cc))
    chk.cov["samples"] = cc[:4] + topics[:1]
    chk.cov["traces_validated_against_impl"] = len(cc) + len(topics)
    return chk.finish(extra_assumptions=[
        "the codec model (coq/theories/Wire/Codec.v) is hand-written; tied to threshold.newRBCEncoding/rbcEncoding.Ack, "
        "disc.encode/decodeTagAndMembershipList and membershipSyncTopicName by the differential run of this check (verif hooks)",
        "SHA-256 is not modelled: the topic theorem is injectivity of the hashed preimage",
        "ASN.1 stored data / public parameters: struct glue exercised by the bls/ps harness round trips, encoding/asn1 itself is not modelled",
    ])
