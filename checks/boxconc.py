"""C14, concurrent half: schedules at lock granularity executed on the real msg.Box through the yield hooks."""
import collections, os
import vlib
from vlib import Emitter
from checks.box import msg_coq


def thread_coq(em, th):
    if th["kind"] == "recv":
        return "RCheck (%s)" % msg_coq(em, th["msg"])
    return "SBegin %s" % em.bytes(th["topic"])


def scen_to_coq(em, sc):
    ths = Emitter.lst(thread_coq(em, t) for t in sc["threads"])
    gs = Emitter.lst("mkCG %d %s %s" % (g["t"], Emitter.lst(msg_coq(em, m) for m in g["handoffs"]),
                                        Emitter.lst(em.bytes(t) for t in g["forwards"])) for g in sc["grants"] if not g["noop"])
    pend = Emitter.lst("(%s, %s)" % (em.bytes(p["topic"]), Emitter.lst(msg_coq(em, m) for m in p["msgs"])) for p in sc["fin_pending"])
    infl = Emitter.lst("(%s, %s)" % (src, Emitter.lst(em.bytes(t) for t in ts)) for src, ts in sorted(sc["fin_inflight"].items()))
    started = Emitter.lst(em.bytes(t) for t in sc["fin_started"])
    return "mkCScen %d %d %s\n %s\n %s %s %s" % (sc["limit"], sc["max_topics"], ths, gs, pend, infl, started)


def correspondence(chk, tag, scen):
    em = Emitter()
    items = [scen_to_coq(em, sc) for sc in scen]
    body = "\n".join(em.defs) + "\nDefinition cases : list cscen :=\n [" + ";\n  ".join(items) + "].\nDefinition M_def := cmismatches cases.\n"
    val, out, dt = vlib.coq_eval(tag, ["TSS.Base.Base", "TSS.Box.Model", "TSS.Box.Conc", "TSS.Corr.BoxConcCorr"], body)
    chk.notes.append("%s: %d schedules evaluated in Coq in %.1fs" % (tag, len(items), dt))
    pairs = vlib.parse_pairs(val) if val is not None else None
    if pairs is None:
        return None, str(out)[-3000:]
    return [(scen[a], b) for a, b in pairs], out


def classify(sc):
    """C14 evaluated directly on the implementation trace.  Returns a list of (signature, description)."""
    res = []
    if sc.get("panic"):
        res.append(("panic", "panic or stuck: " + sc["panic"]))
    recv = [(t["msg"]["src"], t["msg"]["topic"], t["msg"]["data"]) for t in sc["threads"] if t["kind"] == "recv"]
    # arrival order = order in which the receive threads made their first step
    first = {}
    for i, g in enumerate(sc["grants"]):
        if not g["noop"] and g["t"] not in first:
            first[g["t"]] = i
    arrival = collections.defaultdict(list)
    for ti, t in enumerate(sc["threads"]):
        if t["kind"] == "recv" and ti in first:
            arrival[(t["msg"]["topic"], t["msg"]["src"])].append((first[ti], t["msg"]["data"]))
    handed = collections.Counter()
    order = collections.defaultdict(list)
    for g in sc["grants"]:
        for m in g["handoffs"]:
            handed[(m["src"], m["topic"], m["data"])] += 1
            order[(m["topic"], m["src"])].append(m["data"])
    buffered = set((m["src"], m["topic"], m["data"]) for p in sc["fin_pending"] for m in p["msgs"])
    over_limit = sc["max_topics"] < 10
    for m in recv:
        if handed[m] > 1:
            res.append(("twice", "message handed over twice"))
        if handed[m] == 0 and not over_limit:
            if m in buffered:
                if m[1] in sc["fin_started"]:
                    res.append(("late", "message buffered after its topic started: it waits for a later Send on the topic (for ever if there is none)"))
            else:
                res.append(("lost", "message neither handed over nor buffered: stored into a buffer that Send had already detached"))
    for key, ds in order.items():
        arr = [d for _, d in sorted(arrival[key])]
        pos = {d: i for i, d in enumerate(arr)}
        idx = [pos[d] for d in ds if d in pos]
        if idx != sorted(idx):
            res.append(("order", "messages of one sender handed over out of arrival order: one arriving during the drain overtakes buffered ones"))
    return res


def run_conc(chk, tier, seed):
    n = {"quick": 300, "thorough": 3000}[tier]
    path = os.path.join(chk.rundir(), "boxconc.jsonl")
    rc, out = vlib.run_harness("core", ["box-conc", "-n", str(n), "-seed", str(seed), "-x", tier], path)
    if rc != 0:
        chk.violation("harness_conc.txt", "harness failed (exit %d):\n%s" % (rc, out[-4000:]), no_input=True)
        return []
    scen = vlib.read_jsonl(path)
    sig_seen = collections.Counter()
    for sc in scen:
        for sig, what in classify(sc):
            sig_seen[sig] += 1
            if sig_seen[sig] == 1:
                chk.monitor_hit(sig, "conc_%s_%d.json" % (sig, sc["id"]), dict(what=what, scenario=sc), what)
            else:
                chk.cov["monitor_hits"] += 1
    mism = []
    shards = [(i // 250, scen[i:i + 250]) for i in range(0, len(scen), 250)]
    for m, out in vlib.parallel_map(lambda s: correspondence(chk, "C14_conc_%d" % s[0], s[1]), shards):
        if m is None:
            chk.violation("corr_conc_eval.txt", "in-Coq evaluation failed:\n" + out, no_input=True)
            break
        mism += m
    chk.cov["mismatches_conc"] = len(mism)
    if mism and not chk.violations:
        sc, j = mism[0]
        chk.violation("corr_conc_%d.json" % sc["id"],
                      dict(what="correspondence TSS.Corr.BoxConcCorr.check_cscen fails at grant %d: the lock-granular model of msg.Box "
                                "no longer matches msgbox.go" % j, scenario=sc), no_input=True)
    chk.cov["schedules"] = len(scen)
    chk.cov["schedules_distinct"] = len(set(vlib.canon_hash([sc["threads"], [g["t"] for g in sc["grants"] if not g["noop"]]]) for sc in scen))
    chk.cov["schedule_families"] = dict(collections.Counter(sc["family"] for sc in scen))
    chk.cov["finding_classes_seen"] = dict(sig_seen)
    chk.cov["exhaustive_families"] = "every schedule of 9 grants over the thread sets recv|send and recv|recv" + \
        (" and recv|recv|send, recv|send|send" if tier == "thorough" else "")
    return ["concurrent half: threads are interleaved at the lock boundaries of msgbox.go (yield hooks, build tag verif); preemption "
            "inside a critical section cannot change the outcome because every shared access of the Box is under a lock (C20)"]
