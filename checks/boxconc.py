"""C14, concurrent half: schedules at lock granularity executed on the real msg.Box through the yield hooks."""
import collections, os
import vlib
from vlib import Emitter
from checks.box import msg_coq


def call_coq(em, c):
    if c["kind"] == "recv":
        return "CRecv (%s)" % msg_coq(em, c["msg"])
    return "CSend %s" % em.bytes(c["topic"])


def scen_to_coq(em, sc):
    ths = Emitter.lst(Emitter.lst(call_coq(em, c) for c in t["calls"]) for t in sc["threads"])
    gs = Emitter.lst("mkSG %d %s %s %s" % (g["t"], Emitter.lst(msg_coq(em, m) for m in g["handoffs"]),
                                           Emitter.lst(em.bytes(t) for t in g["forwards"]), "true" if g["done"] else "false")
                     for g in sc["grants"] if not g["noop"])
    pend = Emitter.lst("(%s, %s)" % (em.bytes(p["topic"]), Emitter.lst(msg_coq(em, m) for m in p["msgs"])) for p in sc["fin_pending"])
    infl = Emitter.lst("(%s, %s)" % (src, Emitter.lst(em.bytes(t) for t in ts)) for src, ts in sorted(sc["fin_inflight"].items()))
    started = Emitter.lst(em.bytes(t) for t in sc["fin_started"])
    return "mkSScen %d %d %s\n %s\n %s %s %s" % (sc["limit"], sc["max_topics"], ths, gs, pend, infl, started)


def correspondence(chk, tag, scen):
    em = Emitter()
    items = [scen_to_coq(em, sc) for sc in scen]
    body = "\n".join(em.defs) + "\nDefinition cases : list sscen :=\n [" + ";\n  ".join(items) + "].\nDefinition M_def := smismatches cases.\n"
    val, out, dt = vlib.coq_eval(tag, ["TSS.Base.Base", "TSS.Box.Model", "TSS.Box.Sync", "TSS.Corr.BoxSyncCorr"], body)
    chk.notes.append("%s: %d schedules evaluated in Coq in %.1fs" % (tag, len(items), dt))
    pairs = vlib.parse_pairs(val) if val is not None else None
    if pairs is None:
        return None, str(out)[-3000:]
    return [(scen[a], b) for a, b in pairs], out


def classify(sc):
    """C14 evaluated directly on the implementation trace.  Returns a list of (signature, description).
    Arrival order of the messages of a sender = order of the HandleMessage calls of the goroutine that delivers them
    (the harness gives every sender one delivering goroutine, as the transport does)."""
    res = []
    if sc.get("panic"):
        res.append(("panic", "panic or stuck: " + sc["panic"]))
    arrival = collections.defaultdict(list)
    recv = []
    owner = {}
    for ti, t in enumerate(sc["threads"]):
        for c in t["calls"]:
            if c["kind"] == "recv":
                m = c["msg"]
                recv.append((m["src"], m["topic"], m["data"]))
                arrival[(m["topic"], m["src"])].append(m["data"])
                owner.setdefault(m["src"], set()).add(ti)
    handed = collections.Counter()
    order = collections.defaultdict(list)
    for g in sc["grants"]:
        for m in g["handoffs"]:
            handed[(m["src"], m["topic"], m["data"])] += 1
            order[(m["topic"], m["src"])].append(m["data"])
    buffered = collections.defaultdict(list)
    for p in sc["fin_pending"]:
        for m in p["msgs"]:
            buffered[(m["topic"], m["src"])].append(m["data"])
    over_limit = sc["max_topics"] < 10
    for m in recv:
        key = (m[1], m[0])
        if handed[m] + buffered[key].count(m[2]) > 1:
            res.append(("twice", "message handed over (or buffered) more than once"))
        if handed[m] == 0 and not over_limit:
            if m[2] in buffered[key]:
                if m[1] in sc["fin_started"]:
                    res.append(("late", "message still buffered although its topic has started and every call has returned: it waits for a "
                                        "later Send on the topic (for ever if there is none)"))
            else:
                res.append(("lost", "message neither handed over nor buffered"))
    for m in handed:
        if m not in recv:
            res.append(("forged", "a message was handed over that was never received"))
    for key, arr in arrival.items():
        if len(owner[key[1]]) != 1:
            continue
        got = order[key] + buffered[key]
        want = [d for d in arr if d in got] if over_limit else arr
        if got != want and sorted(got) == sorted(want):
            res.append(("order", "messages of one sender handed over out of their arrival order"))
    return res


def run_conc(chk, tier, seed):
    n = {"quick": 300, "thorough": 3000}[tier]
    path = os.path.join(chk.rundir(), "boxconc.jsonl")
    rc, out = vlib.run_harness("core", ["box-conc", "-n", str(n), "-seed", str(seed), "-x", tier], path)
    if rc != 0:
        chk.violation("harness_conc.txt", "harness failed (exit %d):\n%s" % (rc, out[-4000:]), no_input=True)
        return []
    scen = vlib.read_jsonl(path)
    sig_seen = collections.Counter()
    for sc in scen:
        for sig, what in classify(sc):
            sig_seen[sig] += 1
            if sig_seen[sig] == 1:
                chk.monitor_hit(sig, "conc_%s_%d.json" % (sig, sc["id"]), dict(what=what, scenario=sc), what)
            else:
                chk.cov["monitor_hits"] += 1
    mism = []
    shards = [(i // 250, scen[i:i + 250]) for i in range(0, len(scen), 250)]
    for m, out in vlib.parallel_map(lambda s: correspondence(chk, "C14_conc_%d" % s[0], s[1]), shards):
        if m is None:
            chk.violation("corr_conc_eval.txt", "in-Coq evaluation failed:\n" + out, no_input=True)
            break
        mism += m
    chk.cov["mismatches_conc"] = len(mism)
    if mism and not chk.violations:
        sc, j = mism[0]
        chk.violation("corr_conc_%d.json" % sc["id"],
                      dict(what="correspondence TSS.Corr.BoxSyncCorr.check_sscen fails at grant %d: the lock-granular model of msg.Box "
                                "no longer matches msgbox.go" % j, scenario=sc), no_input=True)
    chk.cov["schedules"] = len(scen)
    chk.cov["schedules_distinct"] = len(set(vlib.canon_hash([sc["threads"], [g["t"] for g in sc["grants"] if not g["noop"]]]) for sc in scen))
    chk.cov["schedule_families"] = dict(collections.Counter(sc["family"] for sc in scen))
    chk.cov["finding_classes_seen"] = dict(sig_seen)
    chk.cov["exhaustive_families"] = "every schedule of 10 grants over reader[m1,m2]|send and of 6 grants over recv|recv|send (the rest round robin)" + \
        ("; 13 grants over reader[m1,m2,m3]|send.send, 9 over reader2|reader1|send and reader2|send|send" if tier == "thorough" else "")
    return ["concurrent half: threads are interleaved at the lock boundaries of msgbox.go (yield hooks, build tag verif); preemption "
            "inside a critical section cannot change the outcome because every shared access of the Box is under a lock (C20)"]
