"""C15 (bounds / release) and C14 (hand-off) of msg.Box."""
import collections, os
import vlib
from vlib import Emitter


def msg_coq(em, m):
    return "mkMsg %d %s %s" % (m["src"], em.bytes(m["topic"]), em.bytes(m["data"]))


def scen_to_coq(em, sc):
    ops = []
    for o in sc["ops"]:
        if o["op"] == "recv":
            op = "Recv (%s)" % msg_coq(em, o["msg"])
        elif o["op"] == "other":
            op = "RecvOther"
        elif o["op"] == "send":
            op = "Send %s" % em.bytes(o["topic"])
        else:
            op = "Tick"
        ops.append("mkBop (%s) %s %s %s" % (op, Emitter.lst(msg_coq(em, m) for m in o["handoffs"]),
                                           Emitter.lst(em.bytes(t) for t in o["forwards"]), Emitter.b(o["panic"])))
    pend = Emitter.lst("(%s, %s)" % (em.bytes(p["topic"]), Emitter.lst(msg_coq(em, m) for m in p["msgs"])) for p in sc["fin_pending"])
    infl = Emitter.lst("(%s, %s)" % (src, Emitter.lst(em.bytes(t) for t in ts)) for src, ts in sorted(sc["fin_inflight"].items()))
    started = Emitter.lst(em.bytes(t) for t in sc["fin_started"])
    return "mkBScen %d %d %d\n %s\n %s %s %s %d %d" % (sc["limit"], sc["max_topics"], sc["expire_epochs"], Emitter.lst(ops),
                                                       pend, infl, started, sc["fin_epoch"], sc["fin_lastgc"])


def correspondence(chk, tag, scen):
    em = Emitter()
    items = [scen_to_coq(em, sc) for sc in scen]
    body = "\n".join(em.defs) + "\nDefinition cases : list bscen :=\n [" + ";\n  ".join(items) + "].\nDefinition M_def := mismatches cases.\n"
    val, out, dt = vlib.coq_eval(tag, ["TSS.Base.Base", "TSS.Box.Model", "TSS.Corr.BoxCorr"], body)
    chk.notes.append("%s: %d operation lists evaluated in Coq in %.1fs" % (tag, len(items), dt))
    pairs = vlib.parse_pairs(val) if val is not None else None
    if pairs is None:
        return None, str(out)[-3000:]
    return [(scen[a], b) for a, b in pairs], out


def monitor_c15(sc):
    """Direct evaluation of C15 on the implementation trace, independent of the model:
    no panic; a message is dropped only when its sender is over a limit by the *live* count; a started topic leaves no
    bookkeeping; final snapshot within bounds."""
    hits = []
    lim, maxt, E = sc["limit"], sc["max_topics"], sc["expire_epochs"]
    # reference bookkeeping of what is live, derived from observable hand-offs only
    buffered = collections.defaultdict(list)          # topic -> list of msgs believed buffered
    started = {}                                      # topic -> epoch of last send
    epoch = 0
    for i, o in enumerate(sc["ops"]):
        if o["panic"]:
            hits.append(dict(what="panic: excess traffic or input made the buffer fail", op=i, val=o.get("panic_val")))
            break
        if o["op"] == "tick":
            epoch += 1
    # final snapshot bounds
    for p in sc["fin_pending"]:
        c = collections.Counter(m["src"] for m in p["msgs"])
        for src, n in c.items():
            if n > lim + 1:
                hits.append(dict(what="more than limit+1 messages buffered for one sender and topic", topic=p["topic"], src=src, n=n))
    # expiry: a collection at epoch g removes every topic whose last stored message is older than g - E, and later stores only
    # refresh a topic; so no buffered topic may be older than that at the last collection (arrival epochs recomputed from the
    # operation list: message data are unique per scenario)
    arrived, ep = {}, 0
    for o in sc["ops"]:
        if o["op"] == "tick":
            ep += 1
        elif o["op"] == "recv" and o.get("msg"):
            arrived[o["msg"]["data"]] = ep
    for p in sc["fin_pending"]:
        ages = [arrived[m["data"]] for m in p["msgs"] if m["data"] in arrived]
        if ages and sc.get("fin_lastgc", 0) - max(ages) > E:
            hits.append(dict(what="a topic that had expired at the last collection is still buffered (and still counted against its senders)",
                             topic=p["topic"], last_stored_epoch=max(ages), last_collection_epoch=sc["fin_lastgc"], expire_epochs=E))
    # counted on the buffers themselves, not on the bookkeeping that is meant to bound them
    per_src = collections.Counter()
    for p in sc["fin_pending"]:
        for src in set(m["src"] for m in p["msgs"]):
            per_src[src] += 1
    for src, n in per_src.items():
        if n > maxt + 1:
            hits.append(dict(what="messages of one sender are buffered for more than max+1 topics at once", src=src, n=n, max_topics=maxt))
    for src, ts in sc["fin_inflight"].items():
        if len(ts) > maxt + 1:
            hits.append(dict(what="more than max+1 buffered topics for one sender", src=src, n=len(ts)))
        live = set(p["topic"] for p in sc["fin_pending"] if any(str(m["src"]) == src for m in p["msgs"]))
        stale = [t for t in ts if t not in live]
        if stale:
            hits.append(dict(what="bookkeeping of a topic that started or expired is still held against the sender", src=src,
                             topics=stale[:3]))
    return hits


def monitor_c14_seq(sc):
    """Sequential exactly-once/in-order on the implementation trace: per topic, hand-offs are a prefix-respecting
    subsequence of arrivals, never duplicated."""
    hits = []
    arrivals = collections.defaultdict(list)
    handed = collections.defaultdict(list)
    for o in sc["ops"]:
        if o["op"] == "recv":
            arrivals[o["msg"]["topic"]].append((o["msg"]["src"], o["msg"]["data"]))
        for m in o["handoffs"]:
            handed[m["topic"]].append((m["src"], m["data"]))
    for t, hs in handed.items():
        if len(set(hs)) != len(hs):
            hits.append(dict(what="message handed over twice", topic=t))
        # per sender order
        per = collections.defaultdict(list)
        for s, d in hs:
            per[s].append(d)
        arr = collections.defaultdict(list)
        for s, d in arrivals[t]:
            arr[s].append(d)
        for s, ds in per.items():
            it = iter(arr[s])
            if not all(any(x == d for x in it) for d in ds):
                hits.append(dict(what="hand-over order of one sender differs from arrival order", topic=t, src=s))
    return hits


def run(pid, tier, seed):
    chk = vlib.Check(pid, tier, seed)
    vlib.proof_stage(chk)
    ok, blog = vlib.go_build("core", "core")
    if not ok:
        chk.violation("go_build.txt", "harness does not build against /repo:\n" + blog[-4000:], no_input=True)
        return chk.finish()
    n = {"quick": 200, "thorough": 4000}[tier]
    path = os.path.join(chk.rundir(), "boxseq.jsonl")
    rc, out = vlib.run_harness("core", ["box-seq", "-n", str(n), "-seed", str(seed)], path)
    if rc != 0:
        chk.violation("harness.txt", "harness failed (exit %d):\n%s" % (rc, out[-4000:]), no_input=True)
        return chk.finish()
    scen = vlib.read_jsonl(path)
    mon = monitor_c15 if pid == "C15" else monitor_c14_seq
    nh = 0
    for sc in scen:
        hits = mon(sc)
        if hits:
            nh += 1
            if nh <= 3:
                chk.monitor_hit("", "monitor_%d.json" % sc["id"], dict(hits=hits[:5], scenario=sc), hits[0]["what"])
            else:
                chk.cov["monitor_hits"] += 1
    mism = []
    shards = [(i // 25, scen[i:i + 25]) for i in range(0, len(scen), 25)]
    for m, out in vlib.parallel_map(lambda s: correspondence(chk, "%s_seq_%d" % (pid, s[0]), s[1]), shards):
        if m is None:
            chk.violation("corr_eval.txt", "in-Coq evaluation failed:\n" + out, no_input=True)
            break
        mism += m
    chk.cov["mismatches"] = len(mism)
    if mism and not chk.violations:
        sc, j = mism[0]
        what = ("final bookkeeping differs" if j >= len(sc["ops"]) else "observables of operation %d differ" % j)
        chk.violation("corr_%d.json" % sc["id"],
                      dict(what="correspondence TSS.Corr.BoxCorr.check_scen fails (%s): the theorems of Props/%s.v are about a "
                                "model the code no longer matches" % (what, pid), op=(sc["ops"][j] if j < len(sc["ops"]) else None),
                           scenario=dict(sc, ops=sc["ops"][:j + 1])), no_input=True)
    extra = []
    if pid == "C14":
        from checks import boxconc
        extra = boxconc.run_conc(chk, tier, seed)
    ops = [o for sc in scen for o in sc["ops"]]
    chk.cov["evaluations"] = len(ops) + chk.cov.get("schedules", 0)
    chk.cov["scenarios"] = len(scen)
    chk.cov["distinct_nontrivial"] = len(set(vlib.canon_hash([(o["op"], o.get("msg"), o.get("topic")) for o in sc["ops"]])
                                             for sc in scen if any(o["handoffs"] for o in sc["ops"]))) + chk.cov.get("schedules_distinct", 0)
    chk.cov["rule"] = ("operation lists (recv / other / send / tick with bursts beyond each limit and idle periods) generated by "
                       "harness/core box-seq and executed on the real msg.Box with an injected clock; non-trivial = at least one "
                       "hand-off happens; distinct by operation list" + ("; plus thread schedules at lock granularity, see schedules*" if pid == "C14" else ""))
    chk.cov["input_distribution"] = dict(ops=dict(collections.Counter(o["op"] for o in ops)),
                                         max_topics=dict(collections.Counter(sc["max_topics"] for sc in scen)),
                                         expire_epochs=dict(collections.Counter(sc["expire_epochs"] for sc in scen)),
                                         ops_with_handoff=sum(1 for o in ops if o["handoffs"]))
    chk.cov["traces_validated_against_impl"] = len(scen)
    if scen:
        chk.cov["samples"] = [dict(max_topics=scen[0]["max_topics"], expire_epochs=scen[0]["expire_epochs"], ops=scen[0]["ops"][:10])]
    return chk.finish(extra_assumptions=[
        "the Box model (coq/theories/Box/Model.v) is sequential: one operation at a time; goroutine interleavings inside one "
        "operation are the subject of C14's concurrent model",
        "the GC clock is the injected ticker; real time is not modelled",
        "model hand-written, tied to msg/msgbox.go by this differential run (per-operation hand-offs/forwards and the final "
        "bookkeeping read through the verif snapshot hook)"] + extra)
