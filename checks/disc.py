"""C07: membership synchronisation (disc.Member) -- proof stage, single-step / scripted-Synchronize correspondence
with the Coq model, whole-run monitors on real goroutines."""
import collections, os
import vlib
from vlib import Emitter

REQ = ["TSS.Base.Base", "TSS.Wire.Codec", "TSS.Disc.Sort", "TSS.Disc.Model", "TSS.Disc.Wire", "TSS.Corr.DiscCorr"]


def opt(x, f):
    return "None" if x is None else "(Some %s)" % f(x)


def snap_coq(o):
    views = Emitter.lst("(%d, %s)" % (v["k"], Emitter.nlist(v["v"])) for v in o["views"])
    return "(mkSnap %s %s %d %s %s %d)" % (views, Emitter.nlist(o["responded"]), o["pending"], Emitter.nlist(o["myview"]),
                                            Emitter.nlist(o["queried"]), o["pending_q"])


def async_coq(em, o):
    return "(mkAsync %s %s %s %d)" % (opt(o["tick"], em.bytes), opt(o["query"], em.bytes), opt(o["cont"], Emitter.nlist), o["ret"])


def op_coq(em, o):
    k = o["op"]
    if k == "handle":
        sends = Emitter.lst("(%d, %s)" % (s["to"], em.bytes(s["data"])) for s in o["sends"])
        return "OHandle %d %s %s %s %s" % (o["from"], em.bytes(o["data"]), sends, snap_coq(o), async_coq(em, o))
    if k == "freeze":
        return "OFreeze"
    if k == "pass2":
        return "OPass2 %s" % Emitter.nlist(o["iv"])
    if k == "pass":
        return "OPass %s" % Emitter.nlist(o["iv"])
    if k == "drain":
        return "ODrain %s %s" % (Emitter.lst(Emitter.nlist(d) for d in o["drained"]), Emitter.lst(Emitter.nlist(d) for d in o["drained_q"]))
    if k == "start":
        return "OStart %s %s" % (snap_coq(o), async_coq(em, o))
    if k == "cancel":
        return "OCancel %s" % async_coq(em, o)
    raise ValueError(k)


def scen_coq(em, sc):
    tags = Emitter.lst("((%d, %d), %s)" % (t["t"], t["id"], em.bytes(t["tag"])) for t in sc["tags"])
    ops = Emitter.lst(op_coq(em, o) for o in sc["ops"])
    return "mkDScen %d %s %d %s\n  %s\n  %s" % (sc["self"], Emitter.nlist(sc["members"]), sc["expected"],
                                               Emitter.b(sc["mode"] == "sync"), tags, ops)


def correspondence(chk, tag, scen):
    em = Emitter()
    items = [scen_coq(em, sc) for sc in scen]
    body = "\n".join(em.defs) + "\nDefinition cases : list dscen :=\n [" + ";\n  ".join(items) + "].\nDefinition M_def := mismatches cases.\n"
    val, out, dt = vlib.coq_eval(tag, REQ, body)
    chk.notes.append("%s: %d operation lists (%d operations) evaluated in Coq in %.1fs" % (tag, len(scen), sum(len(s["ops"]) for s in scen), dt))
    pairs = vlib.parse_pairs(val) if val is not None else None
    if pairs is None:
        return None, str(out)[-3000:]
    return [(scen[a], b) for a, b in pairs], out


# ---------------------------------------------------------------- monitors on the implementation

def monitor_steps(sc):
    """(a): things no model is needed for."""
    hits = []
    conts = 0
    returned = False
    for i, o in enumerate(sc["ops"]):
        if o["bad"]:
            hits.append(dict(what="HandleMessage / Synchronize %s" % o["bad"].split(":")[0], op=i, detail=o["bad"]))
        conts += o["ncont"]
        if o["ncont"] and returned:
            hits.append(dict(what="continuation invoked after Synchronize returned", op=i))
        if o["ret"]:
            returned = True
        if o["ret"] >= 2 and conts:
            hits.append(dict(what="continuation invoked although an error is returned", op=i))
        if o["ret"] == 1 and conts != 1:
            hits.append(dict(what="nil returned with %d continuation calls" % conts, op=i))
        if o["cont"] is not None:
            hits += [dict(what=w, op=i, list=o["cont"]) for w in valid_list(o["cont"], sc["self"], sc["expected"], sc["members"], None)]
    if conts > 1:
        hits.append(dict(what="continuation invoked %d times" % conts))
    return hits


def valid_list(L, self_id, expected, members, announcers):
    bad = []
    if any(L[i] >= L[i + 1] for i in range(len(L) - 1)):
        bad.append("list not strictly sorted (unsorted or duplicate)")
    if self_id not in L:
        bad.append("list does not contain the member itself")
    if len(L) != expected:
        bad.append("list has %d members, expected %d" % (len(L), expected))
    for x in L:
        if x != self_id and x not in members:
            bad.append("list contains %d which is not a configured member" % x)
        if x != self_id and announcers is not None and x not in announcers:
            bad.append("list contains %d from which no authenticated announcement on the topic was handled" % x)
    return bad


def monitor_run(run):
    """(b): validity, agreement, exclusivity, liveness / too-few on whole runs."""
    hits = []
    outs = {o["id"]: o for o in run["outcomes"]}
    for o in run["outcomes"]:
        if o.get("blocked"):
            hits.append(dict(what="HandleMessage blocked (did not return within 2 s)", member=o["id"]))
        if o["err"] == "hang":
            hits.append(dict(what="Synchronize did not return after its context ended", member=o["id"]))
        if o["ncont"] > 1:
            hits.append(dict(what="continuation invoked %d times" % o["ncont"], member=o["id"]))
        if o["err"] != "ok" and o["ncont"]:
            hits.append(dict(what="continuation invoked although an error is returned", member=o["id"], err=o["err_text"]))
        if o["err"] == "ok" and o["ncont"] != 1:
            hits.append(dict(what="nil returned without invoking the continuation", member=o["id"]))
        if o["ncont"] and not o["cont_before_return"]:
            hits.append(dict(what="continuation invoked after Synchronize returned", member=o["id"]))
        if o["cont"] is not None:
            for w in valid_list(o["cont"], o["id"], run["expected"], run["members"], o["announcers"]):
                hits.append(dict(what=w, member=o["id"], list=o["cont"]))
            for b in o["cont"]:
                if b != o["id"] and b in outs and outs[b]["cont"] is not None and outs[b]["cont"] != o["cont"]:
                    hits.append(dict(what="agreement: two honest members, one in the other's list, completed with different lists",
                                     a=o["id"], la=o["cont"], b=b, lb=outs[b]["cont"]))
    if run["class"] in ("exact", "teardown", "probes"):
        want = sorted(run["running"])
        for o in run["outcomes"]:
            if o["cont"] != want:
                hits.append(dict(what="liveness: exactly the expected honest members ran, every message was delivered%s, but a member "
                                      "did not complete with the full list" % (" (each member stops being served once it is through)" if run["teardown"] else
                                                                             " (members probe at different intervals: %s ms, pattern %s; deadline = 12 slow intervals + 1 s)"
                                                                             % (run["probe_ms"], run["pattern"]) if run["class"] == "probes" else ""),
                                 member=o["id"], got=o["cont"], err=o["err_text"]))
    if run["class"] == "few":
        for o in run["outcomes"]:
            if o["err"] == "ok" or o["ncont"]:
                hits.append(dict(what="fewer members than expected ran, yet a member completed", member=o["id"], got=o["cont"]))
    return hits


def id_class(x):
    """encoding class of an identifier (same table as harness/core/disc.go)"""
    if 0xD800 <= x <= 0xDFFF:
        return "surrogate"
    if x == 0xFFFD:
        return "replacement"
    if x in (0xD7FF, 0xE000, 0xFFFE, 0xFFFF):
        return "near-surrogate"
    if x in (0x7F, 0x80, 0x7FF, 0x800):
        return "utf8-boundary"
    if x in (0x0A, 0x20, 0x2C, 0x5B, 0x5D):
        return "separator"
    return "other"


def class_stats(universes):
    per_id = collections.Counter(id_class(x) for u in universes for x in u)
    several = collections.Counter()
    for u in universes:
        c = collections.Counter("surrogate/replacement" if id_class(x) in ("surrogate", "replacement") else id_class(x) for x in u)
        for k, v in c.items():
            if k != "other" and v >= 2:
                several[k] += 1
    return dict(identifiers=dict(per_id), universes_with_two_or_more_of_a_class=dict(several), universes=len(universes))


def run(pid, tier, seed):
    chk = vlib.Check(pid, tier, seed)
    vlib.proof_stage(chk)
    ok, blog = vlib.go_build("core", "core")
    if not ok:
        chk.violation("go_build.txt", "harness does not build against /repo:\n" + blog[-4000:], no_input=True)
        return chk.finish()
    n_step, n_sync, n_run = {"quick": (300, 300, 70), "thorough": (5000, 5000, 1000)}[tier]
    d = chk.rundir()
    files = {}
    for cmd, n, s in (("disc-step", n_step, seed), ("disc-sync", n_sync, seed + 1), ("disc-run", n_run, seed + 2)):
        path = os.path.join(d, cmd + ".jsonl")
        rc, out = vlib.run_harness("core", [cmd, "-n", str(n), "-seed", str(s)], path)
        if rc != 0:
            chk.violation("harness.txt", "harness %s failed (exit %d):\n%s" % (cmd, rc, out[-4000:]), no_input=True)
            return chk.finish()
        files[cmd] = vlib.read_jsonl(path)
    # the window between the passes of intersectedView, on real goroutines (statistical; ~1 hit in 3000 on the pinned code)
    n_race = {"quick": 1500, "thorough": 40000}[tier]
    path = os.path.join(d, "disc-race.jsonl")
    rc, out = vlib.run_harness("core", ["disc-race", "-n", str(n_race), "-seed", str(seed + 3)], path)
    race = vlib.read_jsonl(path)[0] if rc == 0 else None
    if race is None:
        chk.violation("harness.txt", "harness disc-race failed (exit %d):\n%s" % (rc, out[-4000:]), no_input=True)
        return chk.finish()
    if race["hits"]:
        chk.monitor_hit("", "monitor_race.json", dict(what=race["first"], race=race,
                                                       replay="core disc-race -n %d -seed %d (statistical)" % (n_race, seed + 3)), race["first"])
    scen = files["disc-step"] + files["disc-sync"]
    runs = files["disc-run"]
    for rn in runs:
        rn["byz"] = rn["byz"] or []
        rn["byz_kind"] = rn["byz_kind"] or []

    # ---- monitors
    nh = 0
    for sc in scen:
        hits = monitor_steps(sc)
        if hits:
            nh += 1
            if nh <= 3:
                chk.monitor_hit("", "monitor_%d.json" % sc["id"], dict(hits=hits[:5], scenario=sc), hits[0]["what"])
            else:
                chk.cov["monitor_hits"] += 1
    for rn in runs:
        hits = monitor_run(rn)
        if hits:
            nh += 1
            if nh <= 3:
                chk.monitor_hit("", "monitor_run_%d.json" % rn["id"],
                                dict(hits=hits[:5], run=rn, replay="core disc-run -n %d -seed %d (run %d; goroutine scheduling is not replayed)" % (n_run, seed + 2, rn["id"])),
                                hits[0]["what"])
            else:
                chk.cov["monitor_hits"] += 1

    # ---- correspondence (operation lists the harness could not complete are reported by the monitor above)
    good = [sc for sc in scen if not any(o["bad"] for o in sc["ops"])]
    mism = []
    per = max(40, min(150, -(-len(good) // 8)))   # one wave of 8 coqc processes in the quick tier
    shards = [(i // per, good[i:i + per]) for i in range(0, len(good), per)]
    for m, out in vlib.parallel_map(lambda s: correspondence(chk, "%s_disc_%d" % (pid, s[0]), s[1]), shards):
        if m is None:
            chk.violation("corr_eval.txt", "in-Coq evaluation failed:\n" + out, no_input=True)
            break
        mism += m
    chk.cov["mismatches"] = len(mism)
    if mism:   # recorded even when a monitor has hit: the operation list is a deterministic replay, a whole run is not
        sc, j = mism[0]
        chk.violation("corr_%d.json" % sc["id"],
                      dict(what="correspondence TSS.Corr.DiscCorr.check_scen fails at operation %d (%s mode): the model of disc.Member "
                                "no longer matches disc/discovery.go; the theorems of Props/C07.v rest on it" % (j, sc["mode"]),
                           replay="core %s -seed %d, operation list %d" % ("disc-step" if sc["mode"] == "step" else "disc-sync",
                                                                              seed if sc["mode"] == "step" else seed + 1, sc["id"]),
                           operation=sc["ops"][j], scenario=dict(sc, ops=sc["ops"][:j + 1])), no_input=True)

    # ---- evidence
    ops = [o for sc in scen for o in sc["ops"]]
    chk.cov["evaluations"] = len(ops) + sum(len(r["outcomes"]) for r in runs)
    chk.cov["scenarios"] = len(scen)
    chk.cov["whole_runs"] = len(runs)
    chk.cov["race_trials_on_real_goroutines"] = race["trials"]

    def nontrivial(sc):
        return any(o["sends"] or o["views"] or o["iv"] or o["cont"] is not None or o["query"] for o in sc["ops"])
    chk.cov["distinct_nontrivial"] = len(set(vlib.canon_hash([(o["op"], o["from"], o["data"]) for o in sc["ops"]] + [sc["self"], sc["expected"]])
                                             for sc in scen if nontrivial(sc))) + \
        len(set(vlib.canon_hash([r["class"], r["members"], r["running"], r["byz"], r["byz_kind"], r["expected"]]) for r in runs
                if any(o["cont"] is not None for o in r["outcomes"]) or r["class"] not in ("exact", "teardown", "probes")))
    chk.cov["rule"] = ("(a) operation lists executed on a real disc.Member: step mode = topic registered through a verif hook, "
                       "HandleMessage(from, bytes) / freeze / intersectedView with the frozen copy (a HandleMessage landed between its "
                       "passes) / intersectedView / drain, all synchronous; sync mode = a real Synchronize goroutine (probe interval 100 us) "
                       "brought to rest after every HandleMessage, then its context cancelled; every operation's observables (Send bytes and "
                       "destination, memberToView, responsesReceived, channel length, own view, intersectedView result, last membership "
                       "broadcast, query broadcast, continuation argument, return class) compared with the Coq model; non-trivial = some view "
                       "stored, response sent, intersectedView non-empty, query or continuation reached; distinct by (configuration, "
                       "operation list). (b) whole runs of 2..6 configured members with real Synchronize goroutines over a seeded in-memory "
                       "router (identifiers incl. the UTF-16 surrogate block, U+FFFD, UTF-8 length boundaries and list separator bytes, several of a class "
                       "per universe; classes exact / probes: exact with unequal probe intervals per member, 1:100 and 1:10, one fast among slow or one slow among fast / twins: four members two of which differ only within an encoding class, links between the halves late / exact with teardown: a member is no longer handed messages once its Synchronize is through / too few / "
                       "too many / with scripted Byzantine members), checked by monitors only; distinct by "
                       "configuration. evaluations = operations executed + member outcomes of whole runs")
    sync = [sc for sc in scen if sc["mode"] == "sync"]
    chk.cov["input_distribution"] = dict(
        operations=dict(collections.Counter(o["op"] for o in ops)),
        message_kinds=dict(collections.Counter(o["kind"] for o in ops if o["op"] == "handle")),
        universe_sizes=dict(collections.Counter(len(sc["members"]) for sc in scen)),
        expected=dict(collections.Counter(sc["expected"] for sc in scen)),
        identifiers_ge_256=sum(1 for sc in scen if any(m >= 256 for m in sc["members"])),
        sync_plans=dict(collections.Counter(sc["plan"] for sc in sync)),
        sync_reached=dict(query=sum(1 for sc in sync if any(o["query"] for o in sc["ops"])),
                          continued=sum(1 for sc in sync if any(o["cont"] is not None for o in sc["ops"])),
                          returns=dict(collections.Counter({1: "nil", 2: "context ended in the first loop", 3: "too many members",
                                                            4: "acknowledgements missing", 5: "queries missing", 6: "other"}[o["ret"]]
                                                           for sc in sync for o in sc["ops"] if o["ret"]))),
        identifier_classes_operation_lists=class_stats([sc["members"] for sc in scen]),
        identifier_classes_whole_runs=class_stats([r["members"] for r in runs]),
        twin_views=dict(announced=sum(1 for o in ops if o["kind"] == "announce-twin"),
                        intersected_after_twin_nonempty=sum(1 for sc in scen for a, b in zip(sc["ops"], sc["ops"][1:])
                                                            if a["kind"] == "announce-twin" and b["op"] == "pass" and b["iv"])),
        pass2_nonempty=sum(1 for o in ops if o["op"] == "pass2" and o["iv"]),
        pass2_differs_from_live_pass=sum(1 for sc in scen for a, b in zip(sc["ops"], sc["ops"][1:])
                                         if a["op"] == "pass2" and b["op"] == "pass" and a["iv"] != b["iv"]),
        probe_interval_patterns=dict(collections.Counter(r["pattern"] for r in runs if r["class"] == "probes")),
        probe_runs_longest_ms=max([r["ms"] for r in runs if r["class"] == "probes"] or [0]),
        whole_run_classes=dict(collections.Counter(r["class"] for r in runs)),
        whole_run_outcomes=dict(collections.Counter("%s:%s" % (r["class"], o["err"]) for r in runs for o in r["outcomes"])),
        whole_run_byzantine=dict(collections.Counter(k for r in runs for k in r["byz_kind"])),
        too_many_runs_with_a_completion=sum(1 for r in runs if r["class"] == "many" and any(o["cont"] is not None for o in r["outcomes"])))
    chk.cov["traces_validated_against_impl"] = len(good)
    if scen:
        s0 = next((s for s in sync if any(o["cont"] is not None for o in s["ops"])), scen[0])
        chk.cov["samples"] = [dict(mode=s0["mode"], self=s0["self"], members=s0["members"], expected=s0["expected"],
                                   ops=[dict(op=o["op"], kind=o["kind"], frm=o["from"], data=o["data"], sends=o["sends"], views=o["views"],
                                             query=o["query"], cont=o["cont"], ret=o["ret"]) for o in s0["ops"][:8]])]
    if runs:
        chk.cov["samples"].append(dict(whole_run=runs[0]))
    return chk.finish(extra_assumptions=ASSUME)


ASSUME = [
    "authenticated links: a message handled as coming from an honest member was emitted by that member (broadcast, or sent to this "
    "receiver); the transport-level source cannot be forged (C16)",
    "the tag function (HMAC-SHA256 keyed with the topic) is injective in (topic, member) on the values of a run; it is a Section variable "
    "of Disc/Wire.v, the harness computes tags with crypto/hmac",
    "every honest member is configured with the same membership and expected count, and calls Synchronize once per topic; the "
    "responses channel (capacity |Membership|-1) cannot fill up because each peer's first response only is queued and the member "
    "itself is in its configured membership",
    "real time is not modelled: the deadline is the event CtxDone; liveness (C07_live_partial) is stated for the runs in which it does "
    "not occur before a fair schedule is through, with per-link FIFO delivery; C07_exact_run_only_deadline shows that in such runs the "
    "deadline is the only way to fail, for every interleaving",
    "teardown (the orchestrator stops serving the topic) is the event Stop, possible only after Synchronize has returned; teardown "
    "safety (C07_teardown_safe) is proved for exact honest runs; with Byzantine configured members it does not hold "
    "(C07_teardown_byzantine_refuted): queries and acknowledgements are counted from any configured peer, not only from list members",
    "the model (coq/theories/Disc/Model.v, Wire.v) is hand-written and tied to disc/discovery.go by the differential runs of this "
    "check, not by translation; sync.Map.Range is modelled by its documented contract (keys present at the start are visited, each "
    "value read at some moment of the call)",
]
