"""C18: secret-sharing algebra of mpc/bls and mpc/ps (sss.go, choose.go, aggregation in the exponent, DKG cross-check)."""
import collections, itertools, os
from concurrent.futures import ThreadPoolExecutor
import vlib

R_BN254 = 21888242871839275222246405745257275088548364400416034343698204186575808495617
REQ = ["Coq.ZArith.ZArith", "TSS.Base.Base", "TSS.Alg.ZrModel", "TSS.Corr.AlgCorr"]
SHARDS = 12


def zl(xs):
    return "[" + ";".join("(%s)" % x for x in xs) + "]"


def nl(xs):
    return "[" + ";".join("%d%%nat" % x for x in xs) + "]"


def b(x):
    return "true" if x else "false"


def to_coq(c, vec):
    """One harness record -> (Gallina term of type acase, estimated cost) or None when the record has no model side."""
    k = c["kind"]
    if k == "gen":
        return "AGen %s %d%%nat %s" % (zl(c["coeffs"]), c["n"], zl(vec[(c["pkg"], c["vec"])])), c["n"] * c["t"] * c["t"]
    if k == "valueat":
        return "AValueAt %s (%d) (%s)" % (zl(c["coeffs"]), c["x"], c["v"]), len(c["coeffs"]) ** 2
    if k == "lag":
        return "ALag (%d) %s %s (%s)" % (c["i"], zl(c["pts"]), b(c["panic"]), c["v"] or 0), 3 * len(c["pts"]) + 1
    if k == "rec":
        return ("ARec %s %s %s (%s)" % (zl(vec[(c["pkg"], c["vec"])]), zl(c["pts"]), b(c["panic"]), c["v"] or 0),
                3 * len(c["pts"]) ** 2 + 1)
    if k == "choose":
        return ("AChoose %d%%nat %d%%nat [%s]" % (c["n"], c["k"], ";".join(nl(x) for x in c["subsets"])), 1)
    if k == "cross" and not c["panic"]:
        return ("ACross %s %d%%nat %d%%nat %d%%nat" % (zl(vec[(c["pkg"], c["vec"])]), c["n"], c["t"], c["distinct"]),
                3 * c["subsets"] * c["t"] ** 2 + 1)
    return None


def evaluate(chk, pid, items):
    """items: list of (term, cost, case).  Evaluates them in parallel shards; returns list of mismatching cases or None."""
    order = sorted(range(len(items)), key=lambda i: -items[i][1])
    shards = [[] for _ in range(SHARDS)]
    load = [0] * SHARDS
    for i in order:
        j = load.index(min(load))
        shards[j].append(i)
        load[j] += items[i][1]
    shards = [s for s in shards if s]

    def one(j):
        idxs = shards[j]
        body = ("Open Scope Z_scope.\nDefinition cases : list acase :=\n [" + ";\n  ".join(items[i][0] for i in idxs) +
                "].\nDefinition M_def := mismatches cases.\n")
        val, out, dt = vlib.coq_eval("%s_alg_%d" % (pid, j), REQ, body, timeout=1500)
        return j, val, out, dt

    mism, failed = [], None
    # a trivial evaluation first: it makes vlib build the required .vo files once, before the shards start in parallel
    val0, out0, _ = vlib.coq_eval("%s_alg_prime" % pid, REQ, "Definition M_def := mismatches [].\n")
    if val0 is None or vlib.parse_nats(val0) != []:
        chk.violation("corr_eval.txt", "the correspondence library does not build / evaluate:\n" + str(out0)[-3000:], no_input=True)
        return None
    with ThreadPoolExecutor(max_workers=SHARDS) as ex:
        for j, val, out, dt in ex.map(one, range(len(shards))):
            chk.notes.append("alg shard %d: %d cases evaluated in Coq in %.1fs" % (j, len(shards[j]), dt))
            idx = vlib.parse_nats(val) if val is not None else None
            if idx is None or any(i >= len(shards[j]) for i in idx):
                failed = str(out)[-3000:]
                continue
            mism += [items[shards[j][i]][2] for i in idx]
    if failed is not None:
        chk.violation("corr_eval.txt", "in-Coq evaluation of the correspondence cases failed:\n" + failed, no_input=True)
        return None
    return mism


def run(pid, tier, seed):
    chk = vlib.Check(pid, tier, seed)
    vlib.proof_stage(chk)
    ok, blog = vlib.go_build("bls", "bls")
    if not ok:
        chk.violation("go_build.txt", "harness does not build against /repo:\n" + blog[-4000:], no_input=True)
        return chk.finish()
    path = os.path.join(chk.rundir(), "alg.jsonl")
    rc, out = vlib.run_harness("bls", ["alg", "-seed", str(seed), "-tier", tier], path)
    if rc != 0:
        chk.violation("harness.txt", "harness failed (exit %d):\n%s" % (rc, out[-4000:]), no_input=True)
        return chk.finish()
    cases = vlib.read_jsonl(path)
    vec = {(c["pkg"], c["id"]): c["shares"] for c in cases if c["kind"] == "vec"}
    gen_of_vec = {(c["pkg"], c["vec"]): c for c in cases if c["kind"] == "gen"}

    # ---------------------------------------------------------------- 1. monitors: the C18 statement on the implementation
    hits = collections.Counter()

    def hit(name, c, what):
        hits[name] += 1
        if hits[name] <= 3:
            chk.monitor_hit("", "%s_%d.json" % (name, hits[name]),
                            dict(what=what, seed=seed, tier=tier, case=c,
                                 shares=vec.get((c.get("pkg"), c.get("vec"))),
                                 replay="go run -tags verif ./harness/bls alg -seed %d -tier %s" % (seed, tier)), what)
        else:
            chk.cov["monitor_hits"] += 1

    undetectable = 0
    for c in cases:
        k = c["kind"]
        if k == "gen" and not c["at0_ok"]:
            hit("valueat0", c, "Polynomial.ValueAt(0) is not the constant coefficient")
        elif k == "rec" and c["expect"] and c["t"] != 99:
            if c["panic"] or not c["ok"]:
                hit("reconstruct", c, "shares of >= t distinct parties do not reconstruct the dealt secret: n=%d t=%d points=%s"
                    % (c["n"], c["t"], c["pts"]))
        elif k == "group":
            g = gen_of_vec[(c["pkg"], c["vec"])]
            secret_nonzero = int(g["coeffs"][0]) % R_BN254 != 0
            if c["panic"] or not c["agg_eq_secret_pk"]:
                hit("aggregate_pk", c, "aggregated public keys differ from the public key of the secret: %s n=%d t=%d points=%s"
                    % (c["pkg"], c["n"], c["t"], c["pts"]))
            elif c["has_sig"] and not (c["sig_verifies"] and c["sig_eq_secret"]):
                hit("aggregate_sig", c, "aggregated partial signatures do not verify under the aggregated key: n=%d t=%d points=%s"
                    % (c["n"], c["t"], c["pts"]))
            elif c["has_sig"] and secret_nonzero and not c["neg_rejects"]:
                hit("verify_trivial", c, "localVerify accepts the aggregate for an unrelated digest")
            elif not c["keys_untouched"]:
                hit("aliasing", c, "aggregation modified the public keys it was given")
        elif k == "cross":
            if c["panic"]:
                hit("cross_panic", c, "assembleThresholdPublicKey panicked on well-formed keys")
            elif c["tampered"] == 0:
                if not (c["accepted"] and c["distinct"] == 1 and c["tpk_eq_secret"]):
                    hit("cross_reject_honest", c, "keys on one polynomial are not accepted by the DKG cross-check "
                        "(or the stored threshold key is not the key of the secret): %s n=%d t=%d" % (c["pkg"], c["n"], c["t"]))
            elif c["t"] < c["n"]:
                if c["accepted"]:
                    hit("cross_miss", c, "key of party %d moved off the polynomial is NOT detected by the DKG cross-check: %s n=%d t=%d"
                        % (c["tampered"], c["pkg"], c["n"], c["t"]))
            else:
                undetectable += 1
        elif k == "dkg":
            honest = [a for i, a in enumerate(c["accepted"]) if i + 1 != c["tampered"]]
            if c["stuck"]:
                hit("dkg_stuck", c, "a KeyGen of the in-process DKG did not return: %s n=%d t=%d" % (c["pkg"], c["n"], c["t"]))
            elif c["tampered"] == 0:
                if not (all(honest) and c["same_tpk"] and c["sk_on_poly"] and c["tpk_is_secret"] and c["sigs_verify"]):
                    hit("dkg_honest", c, "honest DKG through the public API: KeyGen rejected, or the stored threshold key / shares / "
                        "aggregated signatures are inconsistent: %s n=%d t=%d participants=%s%s" % (
                            c["pkg"], c["n"], c["t"], c.get("ids"),
                            " [run %d on the SAME party objects, reuse group %d]" % (c["reuse_run"], c["reuse_group"]) if c.get("reuse_group") else ""))
            elif c["t"] < c["n"]:
                if any(honest):
                    hit("dkg_miss", c, "KeyGen of an honest party accepted although party %d revealed a key off the polynomial: %s n=%d t=%d participants=%s%s"
                        % (c["tampered"], c["pkg"], c["n"], c["t"], c.get("ids"),
                           " [run %d on the SAME party objects, reuse group %d]" % (c["reuse_run"], c["reuse_group"]) if c.get("reuse_group") else ""))
            else:
                undetectable += 1
        elif k == "choose":
            want = [list(x) for x in itertools.combinations(range(1, c["n"] + 1), c["k"])]
            if c["subsets"] != want:
                hit("choose", c, "chooseKoutOfN(%d,%d) does not enumerate every k-subset exactly once" % (c["n"], c["k"]))

    # ---------------------------------------------------------------- 2. model = implementation (exact integers)
    items, seen = [], set()
    per_kind = collections.Counter()
    for c in cases:
        if c["kind"] == "cross" and tier == "quick" and c["tampered"] != 0 and \
                (c["delta"] != "1" or c["tampered"] not in (1, c["n"])):
            continue     # quick: the model evaluates the honest vector and those with the first / last key moved by 1;
                         # every moved key is still judged by the monitor above
        if c["kind"] == "cross" and tier == "thorough" and c["tampered"] != 0 and \
                (c["delta"] != "1" or (c["n"] > 7 and c["tampered"] != 1)):
            continue     # thorough: all delta=1 vectors up to n=7, the honest vector and the first key moved above
        tc = to_coq(c, vec)
        if tc is None or tc[0] in seen:
            continue
        seen.add(tc[0])
        items.append((tc[0], tc[1], c))
        per_kind[c["kind"]] += 1
    mism = evaluate(chk, pid, items)
    if mism is not None:
        chk.cov["mismatches"] = len(mism)
        if mism and not chk.violations:
            chk.violation("corr_alg.json",
                          dict(what="correspondence TSS.Corr.AlgCorr.check fails: the Go code and the model (TSS.Alg.ZrModel / "
                                    "TSS.Alg.Choose) differ on these cases; the theorems of Props/C18.v are about the model",
                               count=len(mism), cases=mism[:5],
                               shares=[vec.get((c.get("pkg"), c.get("vec"))) for c in mism[:5]]), no_input=True)
    # both packages ran the same inputs: their outputs must coincide record by record
    by_pkg = collections.defaultdict(list)
    for c in cases:
        if c["kind"] in ("gen", "valueat", "lag", "rec", "choose"):
            d = dict(c)
            if "vec" in d:
                d["shares"] = vec[(c["pkg"], c["vec"])]
            by_pkg[d.pop("pkg")].append(d)
    twins_equal = by_pkg["bls"] == by_pkg["ps"]
    if not twins_equal and not chk.violations:
        diff = next((x, y) for x, y in itertools.zip_longest(by_pkg["bls"], by_pkg["ps"]) if x != y)
        chk.violation("twins.json", dict(what="mpc/bls and mpc/ps give different scalar results on equal inputs", bls=diff[0], ps=diff[1]),
                      no_input=True)

    # ---------------------------------------------------------------- 3. evidence
    nontriv = set()
    for t, _, c in items:
        if c["kind"] in ("rec", "lag") and not c["panic"] and len(c["pts"]) >= 2:
            nontriv.add(vlib.canon_hash(t))
        elif c["kind"] == "cross" or (c["kind"] == "choose" and 0 < c["k"] <= c["n"]) or c["kind"] == "gen":
            nontriv.add(vlib.canon_hash(t))
    mon = collections.Counter(c["kind"] + "/" + c["pkg"] for c in cases if c["kind"] in ("rec", "group", "cross", "choose", "gen", "dkg"))
    chk.cov["evaluations"] = len(items) + sum(mon.values())
    chk.cov["distinct_nontrivial"] = len(nontriv)
    chk.cov["rule"] = ("scalar level: for every (n,t) with 2<=t<=n<=%d and %s seeds (one scripted edge polynomial: all r-1 / secret 0 / "
                       "leading 0 / zero / small / constant; the others random) SSS.Gen with a seeded reader, Shares.reconstruct on every "
                       "subset of >=2 parties for n<=6 (a sample above) in sorted and shuffled order, lagrangeCoefficient on every "
                       "(party, subset) of 1..%d plus out-of-domain probes, chooseKoutOfN for all n<=%d, the DKG cross-check on honest "
                       "and single-key-moved vectors; each compared as exact integers with the Coq model; group level and cross-check "
                       "verdicts monitored on the real curve code of both packages; whole DKGs through Init/KeyGen/OnMsg/Sign/Verifier "
                       "(n<=4, 6 thorough) with every party honest and with each party in turn committing to and revealing a moved key. distinct = by content of the Gallina case; "
                       "non-trivial = not a panic probe, >= 2 points, 0<k<=n"
                       % ((6, 2, 6, 8) if tier == "quick" else (10, 3, 8, 10)))
    chk.cov["input_distribution"] = dict(
        model_cases_by_kind=dict(per_kind),
        monitored_by_kind=dict(mon),
        polynomial_patterns=dict(collections.Counter(c["pattern"] for c in cases if c["kind"] == "gen")),
        n_t=dict(collections.Counter("n=%d,t=%d" % (c["n"], c["t"]) for c in cases if c["kind"] == "gen")),
        subset_sizes=dict(collections.Counter(str(len(c["pts"])) for c in cases if c["kind"] == "rec")),
        cross=dict(collections.Counter(
            ("honest" if c["tampered"] == 0 else "moved") + ("/t<n" if c["t"] < c["n"] else "/t=n") +
            ("/accepted" if c["accepted"] else "/rejected") for c in cases if c["kind"] == "cross")),
        # large point sets / large points (scalar level, compared with the model as exact integers): the product of the points
        # of a set passes 2^63 from 21 points on, near 2^16 from five points on
        largest_point_set=max([len(c["pts"]) for c in cases if c["kind"] in ("lag", "rec")] or [0]),
        largest_point=max([max([abs(x) for x in c["pts"]] or [0]) for c in cases if c["kind"] in ("lag", "rec")] or [0]),
        largest_product_bits=max([sum(abs(int(x)).bit_length() for x in c["pts"] if x) for c in cases
                                  if c["kind"] in ("lag", "rec") and not c["panic"] and max([abs(x) for x in c["pts"]] or [0]) < 2 ** 32] or [0]),
        point_sets_of_21_or_more=sum(1 for c in cases if c["kind"] in ("lag", "rec") and len(c["pts"]) >= 21),
        dkg_instance_reuse=dict(collections.Counter(
            "%s run %d %s" % (c["pkg"], c["reuse_run"], "honest" if c["tampered"] == 0 else "moved key")
            for c in cases if c["kind"] == "dkg" and c.get("reuse_group"))),
        dkg_participant_sets_not_1_to_n=dict(collections.Counter(
            "%s %s" % (c["pkg"], c.get("ids")) for c in cases if c["kind"] == "dkg" and c.get("ids") and c["ids"] != list(range(1, c["n"] + 1)))),
        dkg=dict(collections.Counter(
            ("honest" if c["tampered"] == 0 else "moved") + ("/t<n" if c["t"] < c["n"] else "/t=n") +
            ("/all honest parties accept" if all(a for i, a in enumerate(c["accepted"]) if i + 1 != c["tampered"]) else
             "/all honest parties reject" if not any(a for i, a in enumerate(c["accepted"]) if i + 1 != c["tampered"]) else "/split")
            for c in cases if c["kind"] == "dkg")),
        moved_key_with_t_eq_n_undetectable_by_design=undetectable,
    )
    samples = []
    for kind in ("gen", "rec", "lag", "group", "cross", "choose", "dkg"):
        samples += [c for c in cases if c["kind"] == kind and c.get("n", 3) >= 3][2:3]
    chk.cov["samples"] = samples
    chk.cov["traces_validated_against_impl"] = len(items)
    chk.cov["packages_agree"] = twins_equal
    return chk.finish(extra_assumptions=[
        "the model (coq/theories/Alg/ZrModel.v, Choose.v) is hand-written; it is tied to lagrangeCoefficient, Shares.reconstruct, "
        "Polynomial.ValueAt, SSS.Gen, chooseKoutOfN and assembleThresholdPublicKey of mpc/bls and mpc/ps by the exact-integer "
        "differential run of this check (verif hooks, seeded io.Reader)",
        "primality of the BN254 group order r is a hypothesis of C18_Zr_reconstruct ('prime p' for the natural number with value r); "
        "it is not re-proved in Coq",
        "curve groups are modelled as modules over Z/r (left F-module G): IBM/mathlib / gnark-crypto group law, scalar multiplication, "
        "serialisation, hash-to-curve and the pairing are not verified; the group-level monitors run them",
        "the harness module links mpc/ps against IBM/mathlib v0.0.3-0.20230831091907 (the version mpc/bls requires; mpc/ps's own go.mod "
        "asks for v0.0.2): Go's minimal version selection for one binary; Zr arithmetic of BN254 is the same math/big code in both",
        "for t = n a moved key cannot be detected by any cross-check (every n keys lie on a polynomial of degree < n): "
        "C18_crosscheck_detects assumes t < n",
    ])
