"""C05 / C01: the distributed key generation of mpc/bls and mpc/ps, backend level and full stack."""
import collections, os
from concurrent.futures import ThreadPoolExecutor
import vlib

REQ = ["Coq.ZArith.ZArith", "TSS.Base.Base", "TSS.Alg.ZrModel", "TSS.Alg.DKG", "TSS.Corr.DKGCorr"]
SHARDS = 10
VERDICT = {"ok": 0, "err": 1, "panic": 2, "running": 3}


def zl(xs):
    return "[" + ";".join("(%s)" % x for x in xs) + "]"


def nl(xs):
    return "[" + ";".join("%d%%nat" % x for x in xs) + "]"


def dev_to_coq(e):
    k = e["k"]
    if k == "S":
        return "ES %d%%nat (%s)" % (e["from"], e["v"])
    if k == "C":
        return "EC %d%%nat (%s)" % (e["from"], e["v"])
    if k == "R":
        return "ER %d%%nat (%s)" % (e["from"], e["v"])
    if k == "Rbad":
        return "ERbad %d%%nat" % e["from"]
    return "EX"


def party_to_coq(sc, p):
    evs = "[" + "; ".join(dev_to_coq(e) for e in p["events"]) + "]"
    return "mkP %d%%nat %d%%nat %d%%nat (%s) %s %d%%nat (%s) %s (%s) %s" % (
        sc["n"], sc["t"], p["id"], p["own"][0], evs, VERDICT[p["verdict"]], p.get("sk") or 0,
        zl(p.get("pk_exps") or []), p.get("tpk_exp") or 0, nl(p["bcasts"]))


def evaluate(chk, pid, items):
    """items: list of (term, cost, (scenario, party)); returns the mismatching ones or None."""
    order = sorted(range(len(items)), key=lambda i: -items[i][1])
    shards = [[] for _ in range(SHARDS)]
    load = [0] * SHARDS
    for i in order:
        j = load.index(min(load))
        shards[j].append(i)
        load[j] += items[i][1]
    shards = [s for s in shards if s]
    val0, out0, _ = vlib.coq_eval("%s_dkg_prime" % pid, REQ, "Definition M_def := mismatches [].\n")
    if val0 is None or vlib.parse_nats(val0) != []:
        chk.violation("corr_eval.txt", "the correspondence library does not build / evaluate:\n" + str(out0)[-3000:], no_input=True)
        return None

    def one(j):
        idxs = shards[j]
        body = ("Open Scope Z_scope.\nDefinition cases : list pcase :=\n [" + ";\n  ".join(items[i][0] for i in idxs) +
                "].\nDefinition M_def := mismatches cases.\n")
        val, out, dt = vlib.coq_eval("%s_dkg_%d" % (pid, j), REQ, body, timeout=1500)
        return j, val, out, dt

    mism, failed = [], None
    with ThreadPoolExecutor(max_workers=SHARDS) as ex:
        for j, val, out, dt in ex.map(one, range(len(shards))):
            chk.notes.append("dkg shard %d: %d party runs evaluated in Coq in %.1fs" % (j, len(shards[j]), dt))
            idx = vlib.parse_nats(val) if val is not None else None
            if idx is None or any(i >= len(shards[j]) for i in idx):
                failed = str(out)[-3000:]
                continue
            mism += [items[shards[j][i]][2] for i in idx]
    if failed is not None:
        chk.violation("corr_eval.txt", "in-Coq evaluation of the correspondence cases failed:\n" + failed, no_input=True)
        return None
    return mism


def on_polynomial(ys, t):
    """Do the points (1, ys[0]), (2, ys[1]), ... lie on a polynomial of degree < t?  (exact, over the rationals)"""
    from fractions import Fraction
    xs = list(range(1, len(ys) + 1))
    base = xs[:t]
    for k in range(t, len(ys)):
        v = Fraction(0)
        for i, xi in enumerate(base):
            term = Fraction(ys[i])
            for xj in base:
                if xj != xi:
                    term *= Fraction(xs[k] - xj, xi - xj)
            v += term
        if v != ys[k]:
            return False
    return True


def backend_monitors(chk, hit, scenarios):
    """C05 / C01(3) evaluated directly on what the real key generators returned."""
    for sc in scenarios:
        honest = [p for p in sc["parties"] if p["honest"]]
        tag = "%s n=%d t=%d participants=%s deviation=%s by party of rank %d victims(ranks)=%s schedule=%s" % (
            sc["pkg"], sc["n"], sc["t"], sc.get("ids"), sc["deviation"], sc["deviant"], sc["victims"], sc.get("schedule", "random"))
        if sc.get("reuse_group"):
            tag += " [run %d on the SAME party objects, reuse group %d: replay scenarios of that group in order]" % (
                sc["reuse_run"], sc["reuse_group"])
        if sc["stuck"] or any(p["verdict"] == "running" for p in honest):
            hit("dkg_stuck", sc, "a KeyGen did not return after its context was cancelled: " + tag)
            continue
        if any(p["verdict"] == "panic" for p in honest):
            hit("dkg_panic", sc, "KeyGen / OnMsg of an honest party panicked: " + tag)
        oks = [p for p in honest if p["verdict"] == "ok"]
        if len(set(p["material"] for p in oks)) > 1:
            hit("dkg_split", sc, "honest parties completed with differing public material: " + tag)
        if not sc["sign_ok"]:
            hit("dkg_cannot_sign", sc, "shares of >= t honest parties that returned Ok do not sign under the reported key: " + tag)
        for p in honest:
            if p["reveal_commits"] not in (-1, sc["n"] - 1):
                hit("early_reveal", sc, "party %d broadcast its key holding %d of %d commitments: %s"
                    % (p["id"], p["reveal_commits"], sc["n"] - 1, tag))
            if p["verdict"] == "ok" and not p["exps_match"]:
                hit("dkg_keys_unknown", sc, "an accepted key list contains a key the harness cannot account for: " + tag)
        if sc["deviation"] == "none" and len(oks) != sc["n"]:
            hit("dkg_honest_fails", sc, "all parties honest and every message delivered, yet KeyGen did not return Ok everywhere: " + tag)
        if sc["deviation"] in ("wrongreveal", "wrongcommit", "commit-lastbyte", "commit-firstbyte") and oks:
            hit("dkg_mismatch_accepted", sc, "a revealed key that does not match its commitment was accepted: " + tag)
        if sc["deviation"].startswith("commit-placeholder") and oks:
            # first value wins: the placeholder IS the commitment, no key matches it; completing means the deviator was allowed to
            # commit after it had seen the honest keys
            hit("dkg_late_commitment_accepted", sc, "honest parties completed although the deviating party's real commitment came "
                "after their keys (a placeholder stood in for it): " + tag)
        if sc["deviation"] in ("badkey-flip1", "badkey-flip40", "badkey-flip70", "badkey-fliplast", "badkey-ff") and oks:
            hit("dkg_nonpoint_accepted", sc, "a revealed key that is not a point of the group was accepted: " + tag)
        if sc["deviation"] in ("offpoly",) and oks and not on_polynomial(
                [1 if i in sc["victims"] else 0 for i in range(1, sc["n"] + 1)], sc["t"]):
            # the victims' keys are moved by g^1: the key vector stays on a polynomial of degree < t exactly when the 0/1
            # pattern of the victims does (e.g. victims {1,4} of 4 parties with t = 3 lie on (x-2)(x-3)/2: accepted, rightly)
            hit("dkg_offpoly_accepted", sc, "keys not on one polynomial were accepted: " + tag)


def model_items(scenarios):
    """Party runs to replay on the Coq model.  mpc/ps keys are vectors (X, Y0, Y1); the deviations of the catalogue touch the
    first component only and the others stay on their polynomials, so verdict, first secret component, first key exponents
    and broadcast order of a ps party are those of the model run on the first components."""
    items = []
    for sc in scenarios:
        if sc["stuck"] or sc["n"] > 10:      # beyond ten parties: monitors only (the model's cross-check walks C(n,t) subsets)
            continue
        for p in sc["parties"]:
            if p["honest"]:
                items.append((party_to_coq(sc, p), len(p["events"]) * (1 + sc["n"]) + 20 * (p["verdict"] == "ok"), (sc, p)))
    return items


def make_hit(chk, seed, tier, sub=None):
    hits = collections.Counter()

    def hit(name, sc, what):
        hits[name] += 1
        if hits[name] <= 3:
            chk.monitor_hit("", "%s_%d.json" % (name, hits[name]),
                            dict(what=what, seed=seed, tier=tier, scenario=sc,
                                 replay="build/bin/dkg %s -seed %d -tier %s   (scenario id %s)"
                                        % (sub or ("backend" if sc.get("kind") == "bdkg" else "stack"), seed, tier, sc.get("id"))), what)
        else:
            chk.cov["monitor_hits"] += 1
    return hit


def run_ps_dkg_schedules(chk, tier, seed):
    """C08, clause "all parties report identical public material after DKG": the real TPS key generators (backend level)
    under delivery schedules WITHOUT per-link FIFO -- directed cases (a party's de-commitment overtakes its commitment at a
    peer; a share arrives after all commitments) and random ones, everybody honest and with a deviating participant.
    Monitors (all complete / identical material / no panic / no early reveal) plus the replay of every honest party on the
    Coq model.  Same contract as run_backend_cancel: adds monitor hits and coverage, never calls finish; returns the scenarios."""
    ok, blog = vlib.go_build("dkg", "dkg")
    if not ok:
        chk.violation("go_build_dkg.txt", "harness/dkg does not build against /repo:\n" + blog[-4000:], no_input=True)
        return []
    path = os.path.join(chk.rundir(), "ps_schedules.jsonl")
    rc, out = vlib.run_harness("dkg", ["schedules", "-pkg", "ps", "-seed", str(seed), "-tier", tier], path, timeout=1800)
    if rc != 0:
        chk.violation("harness_schedules.txt", "schedule harness failed (exit %d):\n%s" % (rc, out[-4000:]), no_input=True)
        return []
    scs = vlib.read_jsonl(path)
    before = len(chk.violations)
    backend_monitors(chk, make_hit(chk, seed, tier, "schedules -pkg ps"), scs)
    items = model_items(scs)
    mism = evaluate(chk, chk.pid + "ps", items)
    if mism is not None:
        chk.cov["mismatches"] = chk.cov.get("mismatches", 0) + len(mism)
        if mism and len(chk.violations) == before:
            sc, p = mism[0]
            chk.violation("corr_ps_dkg.json",
                          dict(what="correspondence TSS.Corr.DKGCorr.check fails: TPS.KeyGen of this party and the DKG model differ in "
                                    "verdict, values or broadcast order", count=len(mism), party=p["id"], scenario=sc), no_input=True)
    chk.cov["ps_dkg_schedules"] = dict(collections.Counter(
        "%s/%s/%s" % (sc["deviation"], sc.get("schedule", "random").split(" ")[0],
                      ",".join(sorted(set(p["verdict"] for p in sc["parties"] if p["honest"])))) for sc in scs))
    chk.cov["evaluations"] = chk.cov.get("evaluations", 0) + len(scs) + len(items)
    return scs


def run(pid, tier, seed):
    chk = vlib.Check(pid, tier, seed)
    vlib.proof_stage(chk)
    ok, blog = vlib.go_build("dkg", "dkg")
    if not ok:
        chk.violation("go_build.txt", "harness does not build against /repo:\n" + blog[-4000:], no_input=True)
        return chk.finish()
    hit = make_hit(chk, seed, tier)

    # ---------------------------------------------------------------- backend level
    # C01 is about honest runs (every schedule), C05 about a deviating participant: each check runs its half (plus a few of
    # the other kind through the shared monitors)
    only = "honest" if pid == "C01" else "deviant"
    bpath = os.path.join(chk.rundir(), "backend.jsonl")
    rc, out = vlib.run_harness("dkg", ["backend", "-seed", str(seed), "-tier", tier, "-only", only], bpath, timeout=3000)
    if rc != 0:
        chk.violation("harness.txt", "backend harness failed (exit %d):\n%s" % (rc, out[-4000:]), no_input=True)
        return chk.finish()
    bsc = vlib.read_jsonl(bpath)
    backend_monitors(chk, hit, bsc)
    items = model_items(bsc)
    mism = evaluate(chk, pid, items)
    if mism is not None:
        chk.cov["mismatches"] = len(mism)
        if mism and not chk.violations:
            sc, p = mism[0]
            chk.violation("corr_dkg.json",
                          dict(what="correspondence TSS.Corr.DKGCorr.check fails: the real KeyGen of this party and the model "
                                    "(TSS.Alg.DKG in the exponent) differ in verdict, values or broadcast order; the theorems of "
                                    "Props/C05.v and Props/C01.v are about the model", count=len(mism), party=p["id"], scenario=sc),
                          no_input=True)
    # ---------------------------------------------------------------- withheld messages x the moment the context ends (C05)
    # "withheld" is one of the deviations of C05: the honest party must return an error, whenever its context ends -- before
    # KeyGen is called, while it is sending, while it is parked in a wait, or by a deadline with silent peers.  The matrix is the
    # one C11 runs at the backend; a KeyGen that neither completes nor returns (hang), panics, or reports success is a violation.
    if pid == "C05":
        run_backend_cancel(chk, tier, seed)
    # ---------------------------------------------------------------- full stack
    ssc = stack_stage(chk, hit, tier, seed, only)
    # ---------------------------------------------------------------- evidence
    distinct = set(vlib.canon_hash(t) for t, _, (sc, p) in items if len(p["events"]) >= 2)
    chk.cov["schedules"] = dict(collections.Counter(sc["pkg"] + "/" + sc.get("schedule", "random").split(" ")[0] for sc in bsc))
    chk.cov["evaluations"] = len(items) + len(bsc) + len(ssc)
    chk.cov["distinct_nontrivial"] = len(distinct)
    chk.cov["rule"] = ("backend level: real bls.TBLS (and ps.TPS) key generators, one goroutine per KeyGen, every message handed over by "
                       "a seeded scheduler (early, late, duplicated, out of phase), crypto/rand.Reader seeded so that every dealt "
                       "polynomial is known; (n,t) in {(3,2),(3,3),(4,2),(4,3),(4,4)} (+ (2,2),(5,3),(5,5) thorough); everybody honest "
                       "and one deviating participant from a catalogue of 31 deviations x victim sets; each honest party's experienced "
                       "event list is replayed on the Coq model in the exponent and verdict / sk / key exponents / threshold key / "
                       "broadcast order compared exactly; C05/C01 monitors on the real results. full stack: threshold.LoudScheme and "
                       "SilentScheme with the real disc/rbc/msg over an in-memory per-link-FIFO network with a seeded scheduler. "
                       "distinct = by content of the model case; non-trivial = at least two deliveries")
    chk.cov["input_distribution"] = dict(
        backend_by_deviation=dict(collections.Counter(sc["pkg"] + "/" + sc["deviation"] for sc in bsc)),
        backend_n_t=dict(collections.Counter("n=%d,t=%d" % (sc["n"], sc["t"]) for sc in bsc)),
        honest_verdicts=dict(collections.Counter(p["verdict"] + ("/cancelled" if p["cancelled"] else "")
                                                 for sc in bsc for p in sc["parties"] if p["honest"])),
        deliveries=sum(sc["deliveries"] for sc in bsc),
        # instance reuse: the same TBLS / TPS objects through consecutive Init + KeyGen runs; every run judged and replayed like a
        # run on fresh objects (the model has no cross-run state)
        instance_reuse=dict(
            groups=len(set((sc["pkg"], sc["reuse_group"]) for sc in bsc if sc.get("reuse_group"))),
            runs=dict(collections.Counter("%s run %d %s" % (sc["pkg"], sc["reuse_run"], sc["deviation"])
                                          for sc in bsc if sc.get("reuse_group")))),
        # participant identifier sets that are not 1..n (gaps, not starting at 1, boundary values): shares are evaluated at the
        # RANK in the session order; signer subsets are verified through bls.Verifier (identifier -> rank)
        participant_sets_not_1_to_n=dict(
            backend=dict(collections.Counter(str(sc["ids"]) for sc in bsc if sc.get("ids") and sc["ids"] != list(range(1, sc["n"] + 1)))),
            backend_signer_subsets_verified=sum(sc["sign_sets"] for sc in bsc
                                                if sc.get("ids") and sc["ids"] != list(range(1, sc["n"] + 1)) and sc["sign_ok"]),
            stack=dict(collections.Counter("%s %s" % (s_["mode"], s_["ids"]) for s_ in ssc
                                           if s_.get("ids") and s_["ids"] != list(range(1, s_["n"] + 1)))),
            stack_sessions_verified=sum(s_["verified"] for s_ in ssc if s_.get("ids") and s_["ids"] != list(range(1, s_["n"] + 1)))),
        stack=dict(collections.Counter("%s/%s/%s" % (s.get("mode"), s.get("fault", "none"), s.get("outcome")) for s in ssc)),
    )
    chk.cov["samples"] = [bsc[i] for i in (0, 7) if i < len(bsc)] + ssc[:1]
    chk.cov["traces_validated_against_impl"] = len(items)
    return chk.finish(extra_assumptions=[
        "the phase-machine model (coq/theories/Alg/DKG.v) is hand-written; it is tied to TBLS.KeyGen/OnMsg by replaying, in Coq, the "
        "event list every honest party experienced at backend level (exact scalars, keys as exponents checked against the real bytes)",
        "agreement / integrity / at-most-once of broadcast-class messages are hypotheses of the system theorems (record Network), "
        "proved for the RBC layer in Props/C02.v, C03.v; the full-stack runs exercise the composition on the real code",
        "SHA-256 commitments are modelled as an injective function; curve groups as modules over Z/r; pairing bilinear (BLS.v)",
        "mpc/ps keys are vectors; its party runs are replayed on the model through their first components (the deviations of the "
        "catalogue touch only those), the other components are covered by the monitors (material, exponents of every component)",
        "liveness of orchestrated signing rests on the synchroniser (disc, C07) and msg.Box (C14); the two stalls this check found or "
        "inherited (loud: pre-signing query dropped after the peer finished; silent: first-send race) are repaired in /repo "
        "(2681e65, b40b5e7) and any fault-free signing failure is reported as a violation",
    ])


def stack_stage(chk, hit, tier, seed, only):
    """Real threshold + disc + rbc + msg + mpc/bls over the in-memory network: C05 / C01 evaluated on the results."""
    spath = os.path.join(chk.rundir(), "stack.jsonl")
    rc, out = vlib.run_harness("dkg", ["stack", "-seed", str(seed), "-tier", tier, "-only", only], spath, timeout=3000)
    if rc != 0:
        chk.violation("harness_stack.txt", "full-stack harness failed (exit %d):\n%s" % (rc, out[-4000:]), no_input=True)
        return []
    ssc = vlib.read_jsonl(spath)
    for sc in ssc:
        tag = "%s mode n=%d t=%d participants=%s fault=%s byz=%d groupB=%s" % (
            sc["mode"], sc["n"], sc["t"], sc.get("ids"), sc["fault"], sc["byz"], sc["group_b"])
        if sc["panics"] or "panic" in sc["keygen"]:
            hit("stack_panic", sc, "a party panicked in a full-stack run: " + tag)
        if sc["outcome"] == "split":
            hit("stack_split", sc, "honest parties finished key generation with differing public material: " + tag)
        if sc["fault"] == "none":
            if sc["outcome"] != "all-ok":
                hit("stack_keygen", sc, "all parties honest, every message delivered, yet KeyGen did not complete everywhere: " + tag)
                continue
            if sc["verified"] != sc["sign_ok"]:
                hit("stack_verify", sc, "a threshold signature of honest signers does not verify under the reported key: " + tag)
            if sc["sign_fails"]:
                # both former findings (C01-a loud: pre-signing query dropped after the peer finished, repaired in disc 2681e65;
                # C01-b silent: msg.Box first-send race, repaired b40b5e7) are fixed: every failure is a violation again
                hit("stack_sign", sc, "%d of %d orchestrated signing sessions: a participant obtained no signature (%d pre-signing "
                    "synchronisation failures reported, %d messages undelivered): %s"
                    % (len(sc["sign_fails"]), sc["sign_runs"], sc["teardown"], sc["undelivered"], tag))
        else:
            oks = [k for i, k in enumerate(sc["keygen"]) if i + 1 != sc["byz"] and k == "ok"]
            if oks and sc["materials"] != 1:
                hit("stack_split", sc, "equivocating participant split the honest parties: " + tag)
    return ssc


def run_backend_cancel(chk, tier, seed):
    """C11 at the backend: cancellation matrix of TBLS.KeyGen / TPS.KeyGen (harness/dkg cancel).  Called from checks/orch.py.
    Adds monitor hits / coverage to chk; returns the list of cases."""
    ok, blog = vlib.go_build("dkg", "dkg")
    if not ok:
        chk.violation("go_build_dkg.txt", "harness/dkg does not build against /repo:\n" + blog[-4000:], no_input=True)
        return []
    path = os.path.join(chk.rundir(), "cancel.jsonl")
    rc, out = vlib.run_harness("dkg", ["cancel", "-seed", str(seed), "-tier", tier], path, timeout=1800)
    if rc != 0:
        chk.violation("harness_cancel.txt", "cancellation-matrix harness failed (exit %d):\n%s" % (rc, out[-4000:]), no_input=True)
        return []
    cases = vlib.read_jsonl(path)
    n = collections.Counter()
    for c in cases:
        tag = "%s KeyGen n=%d t=%d, wait for %s, context done %s%s" % (
            c["pkg"], c["n"], c["t"], c["wait"], c["mode"],
            "" if c["mode"] != "silent" else " (deadline; %s silent after %d kinds of messages)"
            % ("one peer" if c["one_peer"] else "every peer", c["silent_after"]))
        bad = None
        if c["verdict"] == "hang":
            bad = ("backend_hang", "KeyGen did not return within 2 s after its context was done: " + tag)
        elif c["verdict"] == "panic":
            bad = ("backend_cancel_panic", "KeyGen panicked when its context ended: " + tag)
        elif c["verdict"] == "ok":
            bad = ("backend_cancel_ok", "KeyGen reported success although its context ended before the protocol could complete: " + tag)
        elif not c["reached"]:
            bad = ("backend_cancel_unreached", "the harness could not bring KeyGen into the intended situation: " + tag)
        if bad:
            n[bad[0]] += 1
            if n[bad[0]] <= 3:
                chk.monitor_hit("", "%s_%d.json" % (bad[0], n[bad[0]]),
                                dict(what=bad[1], case=c, replay="build/bin/dkg cancel -seed %d -tier %s   (case id %d)" % (seed, tier, c["id"])),
                                bad[1])
            else:
                chk.cov["monitor_hits"] += 1
    chk.cov["backend_cancellation"] = dict(collections.Counter(
        "%s/%s/%s/%s" % (c["pkg"], c["wait"], c["mode"], c["verdict"]) for c in cases))
    chk.cov["evaluations"] = chk.cov.get("evaluations", 0) + len(cases)
    return cases
