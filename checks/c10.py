"""C10: nothing received from a peer or client can crash or wedge a node.  Aggregates the per-entry-point totality
theorems (Props/C10.v) and runs every engine's malformed / adversarial stream with a panic-and-hang monitor."""
import collections, os
import vlib
from checks import rbc as rbc_mod


def jsonl(chk, binary, args, name, timeout=900):
    path = os.path.join(chk.rundir(), name + ".jsonl")
    rc, out = vlib.run_harness(binary, args, path, timeout=timeout)
    if rc != 0:
        chk.violation("harness_%s.txt" % name, "harness %s %s failed (exit %d):\n%s" % (binary, args[0], rc, out[-3000:]), no_input=True)
        return None
    return vlib.read_jsonl(path)


def run(pid, tier, seed):
    chk = vlib.Check(pid, tier, seed)
    vlib.proof_stage(chk)
    dist = collections.Counter()
    hits = 0

    def hit(name, doc, what):
        nonlocal hits
        hits += 1
        if hits <= 5:
            chk.monitor_hit("", name, doc, what)
        else:
            chk.cov["monitor_hits"] += 1

    total = 0
    samples = []
    builds = {}
    for mod in ("core", "net", "ps", "psbls", "binance", "dkg"):
        ok, blog = vlib.go_build(mod, mod)
        builds[mod] = ok
        if not ok:
            chk.violation("go_build_%s.txt" % mod, "harness %s does not build against /repo:\n%s" % (mod, blog[-3000:]), no_input=True)
    big = tier == "thorough"
    if builds["core"]:
        # 1. dispatcher of a real Scheme in every session state, loud and silent
        cases = jsonl(chk, "core", ["fuzz-dispatch", "-n", "20" if big else "3", "-seed", str(seed)], "fuzz") or []
        for c in cases:
            total += 1
            dist["dispatch/%s/%s/%s" % (c["mode"], c["state"], c["class"])] += 1
            if c["panic"] or c["hang"]:
                hit("dispatch_%d.json" % total, dict(what="HandleMessage %s in state %s (%s mode)" % ("hangs" if c["hang"] else "panics", c["state"], c["mode"]), case=c),
                    "dispatcher %s on %s in state %s: %s" % ("hang" if c["hang"] else "panic", c["class"], c["state"], c.get("panic_val", "")))
        samples += cases[:2]
        # 2. wire decoders: every length 0..40, mutations of valid encodings
        cases = jsonl(chk, "core", ["codec", "-n", "2000" if big else "150", "-seed", str(seed)], "codec") or []
        for c in cases:
            if c["kind"] in ("mpcdec", "syncdec"):
                total += 1
                dist["decoder/" + c["kind"] + ("/err" if c["err"] else "")] += 1
                if c["panic"]:
                    hit("decoder_%d.json" % total, dict(what="decoder panics", case=c), "%s panics on %s" % (c["kind"], c["data"][:40]))
        # 3. reliable broadcast behind the dispatcher: adversarial + malformed event lists, panic monitor and correspondence
        scen = jsonl(chk, "core", ["rbc-adv", "-n", "1500" if big else "150", "-seed", str(seed)], "rbc") or []
        scen = [s for s in scen if not s.get("err")]
        for sc in scen:
            for i, e in enumerate(sc["events"]):
                total += 1
                dist["rbc/" + e["kind"]] += 1
                if e["panic"] and e["from"] != e["h"]:
                    hit("rbc_%d_%d.json" % (sc["id"], i), dict(what="panic in the dispatcher/RBC path", event=e, scenario=sc), "RBC path panics: " + e.get("panic_val", ""))
        shards = [(i // 100, scen[i:i + 100]) for i in range(0, len(scen), 100)]
        mism = []
        for m, out in vlib.parallel_map(lambda s: rbc_mod.correspondence(chk, "C10_rbc_%d" % s[0], s[1]), shards):
            if m is None:
                chk.violation("corr_eval.txt", "in-Coq evaluation failed:\n" + out, no_input=True)
                break
            mism += m
        chk.cov["mismatches"] = len(mism)
        if mism and not chk.violations:
            sc, h, j = mism[0]
            chk.violation("corr_rbc_%d.json" % sc["id"], dict(what="correspondence TSS.Corr.RBCCorr.check_scen fails: C10_rbc_path_total is about a "
                                                             "model the code no longer matches", scenario=sc, party=h, event=j), no_input=True)
        # 4. silent-mode buffer: bursts beyond every limit
        scen = jsonl(chk, "core", ["box-seq", "-n", "600" if big else "60", "-seed", str(seed)], "box") or []
        for sc in scen:
            for i, o in enumerate(sc["ops"]):
                total += 1
                if o["panic"]:
                    hit("box_%d_%d.json" % (sc["id"], i), dict(what="msg.Box panics", op=o), "silent-mode buffer panics: " + o.get("panic_val", ""))
            dist["box/ops"] += len(sc["ops"])
        # 5. orchestrator: traffic in every session state, late continuations
        scen = jsonl(chk, "core", ["orch", "-n", "3000" if big else "300", "-seed", str(seed)], "orch") or []
        for sc in scen:
            for i, st in enumerate(sc["steps"]):
                total += 1
                dist["orch/" + st["op"]] += 1
                if st["panic"] or any(r == "panic" for r in st["api"].values()) or st.get("stuck"):
                    hit("orch_%d_%d.json" % (sc["id"], i), dict(what="panic or wedge in session handling", step=st, scenario=dict(sc, steps=sc["steps"][:i + 1])),
                        "orchestrator: " + (st.get("panic_val") or st.get("stuck") or "panic"))
        # 5b. membership synchroniser: authentic, foreign-tagged, repeated and malformed sync traffic against real disc.Members,
        #     step by step and against a running Synchronize goroutine; every HandleMessage call runs under a watchdog
        for cmd, n, s in (("disc-step", 3000 if big else 200, seed), ("disc-sync", 3000 if big else 200, seed + 1)):
            scen = jsonl(chk, "core", [cmd, "-n", str(n), "-seed", str(s)], cmd) or []
            for sc in scen:
                for i, o in enumerate(sc.get("ops", [])):
                    total += 1
                    dist["disc/%s/%s" % (sc.get("mode", cmd), o.get("op", "?"))] += 1
                    if o.get("bad"):
                        hit("disc_%s_%d_%d.json" % (cmd, sc["id"], i),
                            dict(what="membership synchroniser: HandleMessage / Synchronize " + o["bad"], op=i, scenario=dict(sc, ops=sc["ops"][:i + 1])),
                            "membership synchroniser %s on a message of peer %s" % (o["bad"].split(":")[0], o.get("from")))
    # 6. built-in DKG handlers / classifiers, PS parsers and verification entry points, BLS verifier
    # (dkg: whole key generations of real TBLS / TPS instances against one participant sending malformed, right-sized-but-invalid
    #  and placeholder values -- a panic may come later than the OnMsg call that let the value in; harness/dkg malformed)
    for binary in ("ps", "psbls", "dkg"):
        if builds[binary]:
            cases = jsonl(chk, binary, ["malformed", "-seed", str(seed), "-tier", tier], "mal_" + binary, timeout=1500) or []
            for c in cases:
                total += 1
                dist["%s/%s" % (binary, c.get("entry", "?"))] += 1
                if c.get("panic"):
                    hit("%s_%d.json" % (binary, total), dict(what="entry point panics on malformed input", case=c),
                        "%s panics on malformed input (%s)" % (c.get("entry"), c.get("class", "")))
            samples += cases[:1]
    # 7. transport: handshakes of every truncation / key type / malformation, garbled frames
    if builds["net"]:
        for args, name in ((["handshakes", "-seed", str(seed), "-tier", tier], "hs"),
                           (["frames", "-seed", str(seed), "-n", "60" if big else "8"], "frames")):
            cases = jsonl(chk, "net", args, name) or []
            for c in cases:
                total += 1
                dist["net/" + c.get("kind", name)] += 1
                if c.get("panic") or c.get("crashed"):
                    hit("net_%d.json" % total, dict(what="transport panics on input from a peer", case=c), "transport panics (%s)" % c.get("kind", name))
        # clients that stall in every state of the connection set-up and keep their socket open must not wedge the node
        from checks import net as net_engine
        cases = jsonl(chk, "net", ["stalled", "-seed", str(seed)], "stalled") or []
        for c in cases:
            if c.get("kind") == "stalledclients":
                total += len(c.get("states", []))
                for st in c.get("states", []):
                    dist["net/stalled/" + st["state"]] += 1
        if not any(c.get("kind") == "stalledclients" for c in cases):
            hit("stalled_clients_missing.json", dict(what="the stalled-clients scenario produced no record", cases=cases[:3]),
                "stalled clients: no record")
        for name, content, what in net_engine.stalled_hits(cases):
            hit(name, content, what)
    chk.cov["evaluations"] = total
    chk.cov["distinct_nontrivial"] = len(dist)
    chk.cov["rule"] = ("every engine's malformed / adversarial stream executed on the real code under recover and a watchdog: dispatcher of a real "
                       "Scheme (loud with real disc.Member and rbc.Receiver, silent with msg.Box) in the states idle / synchronising / running / "
                       "finished; wire decoders on every length 0..40 and mutated encodings; adversarial RBC event lists; Box bursts; session "
                       "histories; PS/BLS parsers, DKG handlers and verification entry points on truncated / mutated ASN.1; handshakes and frames. "
                       "distinct_nontrivial = number of distinct (entry point, state, input class) cells exercised")
    chk.cov["input_distribution"] = dict(dist)
    chk.cov["samples"] = samples[:4]
    chk.cov["traces_validated_against_impl"] = total
    return chk.finish(extra_assumptions=[
        "the models return Panic as a value where the Go code can panic; totality theorems are per modelled entry point (Props/C10.v)",
        "encoding/asn1, protobuf, x509/PEM, TLS and the curve library are not modelled: the byte-level parsing of the DKG handlers and of the "
        "PS / BLS entry points is covered by the harness runs only",
        "hangs are detected by a 3 s watchdog per call in the harness; blocking is modelled only where it is logic (Box, sessions, queue)",
        "the transport never delivers a node's own traffic to it (rbc.Receiver panics deliberately on an acknowledgement from itself)"])
