"""C16 / C17: the bundled TLS transport (net/net.go): handshake decision, frame codec, per-destination queue."""
import collections, os, re
import vlib
from vlib import Emitter

REQ = ["TSS.Base.Base", "TSS.Net.Frame", "TSS.Net.Handshake", "TSS.Net.Queue", "TSS.Corr.NetCorr"]


class ChunkEmitter(Emitter):
    """Emitter that writes a long byte string as a concatenation around long strings it has already seen (certificates
    recur inside handshakes, handshakes inside streams): Coq spends ~0.1 ms per literal element, so volume matters."""
    LONG = 300      # hex digits

    def __init__(self):
        super().__init__()
        self.chunks = []

    def bytes(self, hexstr):
        if hexstr in self.names or len(hexstr) < self.LONG:
            return super().bytes(hexstr)
        for c in self.chunks:
            i = hexstr.find(c)
            if i >= 0 and i % 2 == 0 and c != hexstr:
                parts = [self.bytes(hexstr[:i]), self.names[c], self.bytes(hexstr[i + len(c):])]
                return "(" + " ++ ".join(x for x in parts if x != "[]") + ")"
        self.chunks.append(hexstr)
        self.chunks.sort(key=len, reverse=True)
        return super().bytes(hexstr)


# ----------------------------------------------------------------------------------------- cases -> Coq

def opt(x, f):
    return "None" if x is None else "(Some %s)" % f(x)


def oracles_to_coq(em, o):
    um = o.get("um")
    if um is not None:
        em.bytes(um["identity"])        # first: handshakes and streams are then written around it
    if o.get("mm") is not None:
        em.bytes(o["mm"])
    em.bytes(o["buff"])
    um_s = "None" if um is None else "(Some (mkHS %s %s %s %d %s))" % (
        em.bytes(um["domain"]), em.bytes(um["binding"]), em.bytes(um["identity"]), um["timestamp"], em.bytes(um["sig"]))
    mm = opt(o.get("mm"), em.bytes)
    der = opt(o.get("der"), em.bytes)
    x = o["x509"]
    if x == 0:
        xs = "None"
    elif x == 1:
        xs = "(Some (KEcdsa %s))" % em.bytes(o["key"])
    else:
        xs = "(Some (KOther %d))" % o["key_kind"]
    sha = Emitter.lst("(%s, %s)" % (em.bytes(a), em.bytes(b)) for a, b in o["sha"])
    tbl = Emitter.lst("(%s, %d)" % (em.bytes(k), v) for k, v in o["tbl"])
    return "(mkOr %s %s %s %s %s %s %s %s %s)" % (em.bytes(o["buff"]), um_s, mm, der, xs, em.bytes(o["vdigest"]),
                                                 Emitter.b(o["vres"]), sha, tbl)


def frame_to_coq(em, f):
    return "mkFrame %d %s %s" % (f["ty"], em.bytes(f["topic"]), em.bytes(f["data"]))


def case_to_coq(em, tbls, c):
    k = c["kind"]
    if k == "enc":
        return "NEnc %d %s %s %d %s" % (c["ty"], em.bytes(c["topic"]), em.bytes(c["data"]), c["res"], em.bytes(c["wire"]))
    if k == "enchdr":
        return "NEncHdr %d %s %d %d %s" % (c["ty"], em.bytes(c["topic"]), c["len"], c["res"], em.bytes(c["hdr"]))
    if k == "dec":
        return "NDec %s %s %s %s" % (em.bytes(c["stream"]), Emitter.lst(frame_to_coq(em, f) for f in c["frames"]),
                                     Emitter.b(c["clean"]), Emitter.b(c["panic"]))
    if k == "decbig":
        return "NDecBig %d %d %d %d %d %d %d %d %d %d" % (c["ty"], c["b"][0], c["b"][1], c["b"][2], c["b"][3], c["avail"],
                                                         c["res"], c["rty"], c["rtl"], c["rdl"])
    if k == "auth":
        return "NAuth %s %s %s %d %s %d" % (oracles_to_coq(em, c["or"]), em.bytes(c["binding"]), em.bytes(c["stream"]),
                                            c["res"], em.bytes(c["dom"]), c["id"])
    if k == "conn":
        msgs = Emitter.lst("mkIn %s %d (mkFrame %d %s %s)" % (em.bytes(m["dom"]), m["from"], m["ty"], em.bytes(m["topic"]),
                                                             em.bytes(m["data"])) for m in c["msgs"])
        return "NConn %s %s %s %s %s" % (oracles_to_coq(em, c["or"]), em.bytes(c["binding"]), em.bytes(c["stream"]),
                                         Emitter.b(c["panic"]), msgs)
    if k == "queue":
        def op(o):
            if o["op"] == "enq":
                return "QEnq %d %d" % (o["d"], o["m"])
            if o["op"] == "connect":
                return "QConnect %d %s" % (o["d"], Emitter.b(o["ok"]))
            return "QWrite %d %s" % (o["d"], Emitter.b(o["ok"]))
        fin = Emitter.lst("(%d, %s, %d)" % (f["d"], Emitter.nlist(f["wire"]), f["qlen"]) for f in c["final"])
        return "NQueue %s %d %s %s %s" % (Emitter.nlist(c["members"]), c["cap"], Emitter.lst(op(o) for o in c["ops"]),
                                          Emitter.nlist(c["results"]), fin)
    raise ValueError(k)


def correspondence(chk, tag, cases, shard=700):
    """Model vs implementation.  Returns the list of mismatching cases, or None when the evaluation itself failed."""
    mism = []
    for i in range(0, len(cases), shard):
        em = ChunkEmitter()
        items = [case_to_coq(em, None, c) for c in cases[i:i + shard]]
        body = "\n".join(em.defs) + "\nDefinition cases : list ncase :=\n [" + ";\n  ".join(items) + "].\n" + \
               "Definition M_def := mismatches cases.\n"
        val, out, dt = vlib.coq_eval("%s_%d" % (tag, i // shard), REQ, body)
        chk.notes.append("%s shard %d: %d cases evaluated in Coq in %.1fs" % (tag, i // shard, len(items), dt))
        idx = vlib.parse_nats(val) if val is not None else None
        if idx is None:
            chk.violation("corr_eval_%s.txt" % tag, "in-Coq evaluation failed:\n" + str(out)[-3000:], no_input=True)
            return None
        mism += [cases[i + j] for j in idx]
    return mism


def slim(c, n=400):
    """a copy of a case with long hex strings shortened, for samples in the evidence"""
    if isinstance(c, dict):
        return {k: slim(v, n) for k, v in c.items()}
    if isinstance(c, list):
        return [slim(v, n) for v in c[:12]]
    if isinstance(c, str) and len(c) > n:
        return c[:n] + "...(%d hex digits)" % len(c)
    return c


def harness(chk, args, name, timeout=900):
    path = os.path.join(chk.rundir(), name + ".jsonl")
    rc, out = vlib.run_harness("net", args, path, timeout=timeout)
    if rc != 0:
        chk.violation("harness_%s.txt" % name, "harness failed (exit %d):\n%s" % (rc, out[-4000:]), no_input=True)
        return None
    return vlib.read_jsonl(path)


# ----------------------------------------------------------------------------------------- Go-side monitors

def hexs(s):
    return bytes.fromhex(s).decode("latin-1")


def monitor_attribution(chk, cases):
    """C16: nothing is attributed that should not be; what is attributed goes to the right node and domain."""
    nh = 0

    def hit(name, c, what):
        nonlocal nh
        nh += 1
        if nh <= 3:
            chk.monitor_hit("", name, c, what)
        else:
            chk.cov["monitor_hits"] += 1

    for i, c in enumerate(cases):
        k = c["kind"]
        if k == "auth":
            if c["res"] == 2:
                hit("panic_auth_%d.json" % i, c, "panic in authenticateConnection: " + c.get("panic_value", ""))
            elif c["should"] == "refuse" and c["res"] == 0:
                hit("attributed_%d.json" % i, c, "attributed although it should not be (%s)" % c["name"])
            elif c["should"] == "refuse-unless-same-fields" and c["res"] == 0:
                o = c["or"]
                same = o.get("um") is not None and o["vres"] and o["um"]["binding"] == c["binding"] and \
                    o["um"]["domain"] == c["want_dom"] and c["id"] == c["want_id"] and c["dom"] == c["want_dom"]
                if not same:
                    hit("attributed_%d.json" % i, c, "attributed although it should not be (corrupted handshake)")
            elif c["should"] == "attribute":
                if c["res"] == 0 and (c["dom"] != c["want_dom"] or c["id"] != c["want_id"]):
                    hit("misattributed_%d.json" % i, c, "attributed to the wrong node or domain (%s)" % c["name"])
                elif c["res"] == 1:
                    hit("refused_valid_%d.json" % i, c, "valid handshake refused (%s)" % c["name"])
        elif k == "conn":
            if c["panic"]:
                hit("panic_conn_%d.json" % i, c, "panic in handleConn")
            elif c["should"] == "refuse" and c["msgs"]:
                hit("attributed_%d.json" % i, c, "message attributed although the handshake should be refused (%s)" % c["name"])
            elif c["should"] == "attribute":
                for m in c["msgs"]:
                    if m["dom"] != c["want_dom"] or m["from"] != c["want_id"]:
                        hit("misattributed_%d.json" % i, c, "message attributed to the wrong node or domain (%s)" % c["name"])
                        break
            elif c["should"] == "by-script":
                m_ = re.match(r"garbler/(\d+)->(\d+)/script(\d+)", c["name"])
                bad, script = int(m_.group(1)), int(m_.group(3))
                allowed = {0: 2, 1: 1}.get(script, 0)
                if len(c["msgs"]) > allowed or any(m["from"] != bad or hexs(m["dom"]) != "loop" for m in c["msgs"]):
                    hit("attributed_%d.json" % i, c, "frames of a broken connection attributed beyond what was validly sent")
        elif k in ("conc", "faulty"):
            v = [x for x in c["violations"] if "attributed" in x or "domain" in x]
            if v:
                hit("honest_attribution_%d.json" % i, c, "honest traffic: " + v[0])
        elif k == "proc" and c["panic"]:
            hit("panic_proc_%d.json" % i, c, "panic: a goroutine of the transport crashed the process (%s)" % c["scenario"])
    return nh


def stalled_hits(cases):
    """Monitor of the "stalled clients" family on records of `net stalled` / `net loop` (shared with checks/c10.py).
    Returns a list of (replay file name, replay content, one-line description)."""
    res = []
    for i, c in enumerate(cases):
        if c.get("kind") == "stalledclients":
            if c["violations"]:
                bad = [s["state"] for s in c["states"] if not s["fresh_ok"] or not s["old_ok"]]
                res.append(("stalled_clients_%d.json" % i, c, "a client that stalls (%s) and keeps its socket open wedges the node: %s" %
                            (", ".join(bad) or "set-up", c["violations"][0])))
            elif len(c["states"]) < 7:
                res.append(("stalled_clients_%d.json" % i, c, "stalled clients: only %d of 7 states were exercised" % len(c["states"])))
        elif c.get("kind") == "proc" and c.get("scenario", "").startswith("stalled") and (c["panic"] or c["timed_out"] or c["exit"] != 0):
            res.append(("stalled_clients_proc_%d.json" % i, c, "stalled clients: the node process %s" %
                        ("panicked: " + c["tail"][:200] if c["panic"] else "did not finish")))
    return res


def monitor_framing(chk, cases):
    """C17: frames exactly once, unmodified, in order; oversize refused; no panic; the remaining peers keep talking."""
    nh = 0

    def hit(name, c, what):
        nonlocal nh
        nh += 1
        if nh <= 3:
            chk.monitor_hit("", name, c, what)
        else:
            chk.cov["monitor_hits"] += 1

    for name, content, what in stalled_hits(cases):
        hit(name, content, what)
    for i, c in enumerate(cases):
        k = c["kind"]
        if k == "mon" and not c["ok"]:
            hit("%s_%d.json" % (re.sub(r"\W+", "_", c["what"])[:30], i), c, c["what"])
        elif k == "conc":
            if c["violations"]:
                hit("concurrent_%d.json" % i, c, "frame differs/reordered/duplicated: " + c["violations"][0])
            elif not c["complete"]:
                hit("concurrent_%d.json" % i, c, "concurrent senders: %d of %d messages arrived" % (c["received"], c["expected"]))
        elif k == "firstsend":
            if c["violations"]:
                hit("firstsend_%d.json" % i, c, "frame differs/reordered/duplicated: concurrent first send to a fresh destination "
                    "(%d callers released together, round %d): %s" % (c["senders"], c["bad_round"], c["violations"][0]))
            elif not c["complete"] or c["rounds"] < 20:
                hit("firstsend_%d.json" % i, c, "concurrent first send: %d rounds, %d of %d frames arrived" % (c["rounds"], c["received"], c["expected"]))
        elif k == "burst":
            if c["violations"]:
                hit("burst_%s_%d.json" % (c["variant"], i), c, "frame differs/reordered/duplicated: burst of %d messages from one caller "
                    "to one healthy peer (queue capacity %d): %s" % (c["n"], c["cap"], c["violations"][0]))
            elif not c["complete"]:
                hit("burst_%s_%d.json" % (c["variant"], i), c, "burst: %d of %d messages arrived" % (c["received"], c["n"]))
        elif k == "faulty":
            if c["violations"]:
                hit("faulty_%d.json" % i, c, "peer %d %s: %s" % (c["bad"], c["mode"], c["violations"][0]))
            elif not c["complete"]:
                hit("faulty_%d.json" % i, c, "peer %d %s: traffic between the remaining peers stopped (%d of %d messages)" %
                    (c["bad"], c["mode"], c["received"], c["expected"]))
        elif k == "proc":
            if c["panic"]:
                hit("panic_proc_%d.json" % i, c, "panic: the process died (%s): %s" % (c["scenario"], c["tail"][:200]))
            elif c["timed_out"] or c["exit"] != 0:
                hit("proc_%d.json" % i, c, "scenario did not finish (%s)" % c["scenario"])
        elif k == "queue":
            if 2 in c["results"]:
                hit("panic_queue_%d.json" % i, c, "panic in Send (%s)" % c["name"])
            for f in c["final"]:
                w = f["wire"]
                if w != sorted(set(w)):
                    hit("queue_%d.json" % i, c, "frames to destination %d reordered or duplicated (%s)" % (f["d"], c["name"]))
                    break
        elif k == "conn" and c["panic"]:
            hit("panic_conn_%d.json" % i, c, "panic in handleConn")
    return nh


# ----------------------------------------------------------------------------------------- run

def nontrivial(c):
    k = c["kind"]
    if k == "auth":
        return c["or"].get("um") is not None          # the bytes decode: the decision itself is exercised
    if k == "conn":
        return c["or"].get("um") is not None
    if k == "dec":
        return len(c["frames"]) > 0 or c["origin"] in ("oversize", "topicmix")
    if k in ("enc", "enchdr", "decbig", "queue", "conc", "faulty", "burst", "firstsend", "stalledclients"):
        return True
    return False


OWN = ["Gen/NetConsts", "Net/Frame", "Net/FrameFacts", "Net/Handshake", "Net/Queue", "Corr/NetCorr"]


def ensure_own_build(chk):
    """When the project-wide make failed (an obligation of this engine broke, or somebody else's file does not compile),
    bring this engine's model files up to date one by one, so that the correspondence run still says what changed."""
    with vlib.Lock("coq"):
        for f in OWN:
            rc, out, err = vlib.sh("timeout 600 coqc -Q theories TSS theories/%s.v" % f, cwd=vlib.COQ, timeout=700)
            if rc != 0:
                chk.notes.append("own build: %s does not compile: %s" % (f, (out + err)[-400:]))
                return False
    return True


def run(pid, tier, seed):
    chk = vlib.Check(pid, tier, seed)
    if not vlib.proof_stage(chk):
        ensure_own_build(chk)
    ok, blog = vlib.go_build("net", "net")
    if not ok:
        chk.violation("go_build.txt", "harness does not build against /repo:\n" + blog[-4000:], no_input=True)
        return chk.finish(extra_assumptions=ASSUME[pid])
    cases = []
    if pid == "C16":
        a = harness(chk, ["handshakes", "-seed", str(seed), "-tier", tier], "handshakes")
        b = harness(chk, ["loop", "-x", "c16", "-seed", str(seed), "-n", {"quick": "30", "thorough": "120"}[tier], "-tier", tier], "loop")
        if a is None or b is None:
            return chk.finish(extra_assumptions=ASSUME[pid])
        cases = a + b
        monitor_attribution(chk, cases)
        corr = [c for c in cases if (c["kind"] == "auth" and c["to_coq"]) or c["kind"] == "conn"]
    else:
        a = harness(chk, ["frames", "-seed", str(seed), "-n", {"quick": "16", "thorough": "150"}[tier]], "frames")
        b = harness(chk, ["loop", "-seed", str(seed), "-n", {"quick": "30", "thorough": "150"}[tier], "-tier", tier], "loop",
                    timeout=1500)
        if a is None or b is None:
            return chk.finish(extra_assumptions=ASSUME[pid])
        cases = a + b
        monitor_framing(chk, cases)
        corr = [c for c in cases if c["kind"] in ("enc", "enchdr", "dec", "decbig", "queue", "conn")]
    if not any(c["kind"] in ("conc", "faulty") for c in cases):
        chk.violation("loop_missing.txt", "the loopback scenarios produced no result record", no_input=True)
    mism = correspondence(chk, pid, corr)
    if mism is not None:
        chk.cov["mismatches"] = len(mism)
        if mism and not chk.violations:
            c = mism[0]
            chk.violation("corr_%s.json" % c["kind"],
                          dict(what="correspondence TSS.Corr.NetCorr.check fails: the model (repaired variants) and the implementation "
                                    "differ on this case; the theorems of Props/%s.v rest on it" % pid,
                               mismatching_cases=len(mism), case=slim(c, 4000)), no_input=True)
    ev = [c for c in cases if c["kind"] not in ("mon", "proc")]
    chk.cov["evaluations"] = len(ev) + sum(c.get("received", 0) for c in cases if c["kind"] in ("conc", "faulty", "burst", "firstsend"))
    chk.cov["distinct_nontrivial"] = len(set(vlib.canon_hash(c) for c in ev if nontrivial(c)))
    chk.cov["traces_validated_against_impl"] = len(corr)
    hist = collections.Counter()
    for c in cases:
        k = c["kind"]
        if k == "auth":
            hist["auth/%s/%s" % (c["class"], ["attributed", "refused", "panic"][c["res"]])] += 1
        elif k == "conn":
            hist["conn/%s/%d msgs" % (c["class"], len(c["msgs"]))] += 1
        elif k == "dec":
            hist["dec/%s/%s" % (c["origin"], "clean" if c["clean"] else "error")] += 1
        elif k == "faulty":
            hist["faulty/%s" % c["mode"]] += 1
        else:
            hist[k] += 1
    chk.cov["input_distribution"] = dict(hist)
    chk.cov["loop_scenarios"] = [dict((k, v) for k, v in c.items() if k != "violations") for c in cases if c["kind"] in ("conc", "faulty", "burst", "firstsend")]
    fs = [c for c in cases if c["kind"] == "firstsend"]
    if fs:
        chk.cov["concurrent_first_send"] = dict(processes=len(fs), rounds=sum(c["rounds"] for c in fs),
                                                fresh_destinations=sum(c["fresh_destinations"] for c in fs),
                                                callers_released_together=fs[0]["senders"], frames=sum(c["received"] for c in fs),
                                                violations=sum(len(c["violations"]) for c in fs))
    sc = [c for c in cases if c["kind"] == "stalledclients"]
    if sc:
        chk.cov["stalled_clients"] = dict(states=[s["state"] for s in sc[0]["states"]], bound_ms=sc[0]["bound_ms"],
                                          fresh_peer_ms=[s["fresh_ms"] for s in sc[0]["states"]],
                                          connected_peer_ms=[s["old_ms"] for s in sc[0]["states"]],
                                          wedged=sc[0]["wedged"], scenario_ms=sc[0]["ms"])
    elif pid == "C17":
        chk.violation("stalled_missing.txt", "the stalled-clients scenario produced no result record", no_input=True)
    if not fs and pid == "C17":
        chk.violation("firstsend_missing.txt", "the concurrent-first-send scenario produced no result record", no_input=True)
    samples = []
    seen = set()
    for c in ev:
        key = (c["kind"], c.get("class"), c.get("origin"))
        if key not in seen and len(samples) < 8:
            seen.add(key)
            samples.append(slim(c, 160))
    chk.cov["samples"] = samples
    if pid == "C16":
        chk.cov["rule"] = ("handshake catalogue run against the real authenticateConnection / handleConn on TLS 1.3 connections (net.Pipe and "
                           "loopback): valid handshakes of every registered peer and domain; every field altered with and without "
                           "re-signing, substituted, replayed from another connection; key types P-256/P-384/P-521/RSA/Ed25519; every "
                           "truncation length (as sent and with the length prefix adjusted); random single-bit corruptions; whole "
                           "connections with frames; a scripted faulty peer interleaved with honest loopback traffic. Oracle values "
                           "for the model computed with the standard library. Non-trivial = the bytes decode to a handshake (the "
                           "decision proper is reached); distinct by content. evaluations also counts honest loopback messages.")
    else:
        chk.cov["rule"] = ("real writer (remoteParty.send on a TLS connection) and real reader (readMsg): every type/topic-length "
                           "combination x sizes 0,1,31,32,33; sequences of legal frames with every truncation; sizes 2048..limit+1 "
                           "(header bytes + lengths to the model, payload by SHA-256); oversize headers; wrong topic presence; noise of "
                           "every length 0..40; queue operation sequences on real loopback nodes; concurrent senders; bursts of one caller to one healthy "
                           "peer exceeding the queue capacity (small and 64 KiB payloads, strict order + exactly once); concurrent first send (time-boxed rounds, fresh destination "
                           "objects per round, 8 callers released by a spinning barrier, per-caller order + exactly once + integrity); stalled clients (seven stall states from bare TCP connect to a partial "
                           "frame body, sockets kept open, after each a fresh honest peer must deliver within the bound); each peer in turn "
                           "down / stalled / garbling, every scenario in its own process. Non-trivial = at least one frame handed on, "
                           "or a refusal of an oversize / mis-shaped frame; distinct by content. evaluations also counts loopback messages.")
    return chk.finish(extra_assumptions=ASSUME[pid])


COMMON = [
    "the models (coq/theories/Net/Frame.v, Handshake.v, Queue.v) are hand-written; they are tied to net/net.go by the differential "
    "run of this check through net/verif_hooks.go and the public API, not by translation",
    "tools/gen_netconsts.py (regex translator) extracts maxBuffLen, the MsgType constants, the shouldHaveTopic table and the syntactic "
    "flags 'onTimeout contains a panic call', 'the accept loop only hands the accepted connection to go handleConn' and 'the writer goroutine is started only through a sync.Once in startOnce' from "
    "net/net.go on every run",
    "TLS 1.3 (crypto/tls), encoding/asn1, encoding/pem, crypto/x509, crypto/ecdsa, SHA-256, sockets and the Go scheduler are not modelled",
    "the case catalogue, mutation positions, payloads and traffic are derived from VERIF_SEED; certificates, TLS sessions and ECDSA "
    "signatures are fresh on every run (crypto/rand), so byte strings differ between runs while classes and verdicts do not",
]
ASSUME = {
    "C16": COMMON + [
        "premises of the attribution theorems: exporter values of distinct TLS connections differ; a signature verifying under a "
        "key on a digest exists only if the holder of the key signed that digest; SHA-256 is a function (its collision-freeness is "
        "needed to read 'signed the digest of h' as 'signed h')",
        "the oracle values handed to the model per case are computed by the harness with the Go standard library",
        "the timestamp of the handshake is only logged by the code and is not part of the property",
    ],
    "C17": COMMON + [
        "queue theorems are about the sequential state machine (every interleaving is an operation list); real time, the 1 s reconnect "
        "pause, TCP buffering and head-of-line blocking in the unbuffered channel of ServiceConnections are outside the model",
        "'while the connection stays up': a message written into a connection that the peer has already closed is lost by TCP without an "
        "error; the theorem's premise excludes write failures, the harness scenarios keep receiving peers up",
        "the real 10 s enqueue timeout is exercised in the thorough tier only; in the quick tier the repaired timeout path is pinned by "
        "the syntactic flag send_timeout_panics = false (theorem C17_repo_timeout_repaired)",
    ],
}
