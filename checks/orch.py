"""C06 (translation), C11 (clean failure), C12 (no residue / no interference): session histories on a real Scheme."""
import collections, os, re
import vlib
from vlib import Emitter


def key_coq(k):
    if k == "D":
        return "KD"
    if k == "X" or k.startswith("?"):
        return "KX"
    return "(K%s %s)" % (k[0], k[1:])


RES = {"ok": "(Some ROk)", "err": "(Some RErr)", "ctx": "(Some RCtx)", "refused": "(Some RRefused)", "running": "None"}


def plan_coq(p):
    s1 = {"ok": "S1Ok", "fail": "S1Fail", "gate": "(S1Gate false)", "gate_ignore": "(S1Gate true)"}[p["s1"]]
    be = {"ok": "BeOk", "fail": "BeFail", "block": "BeBlock"}[p["be"]]
    return "(mkPlan %s %d %s %s %s %s %s %s %s)" % (Emitter.b(p["kind"] == "sign"), p["topic"], Emitter.nlist(p["members"]), s1,
                                                    Emitter.b(p["s1_then"] == "ok"), Emitter.b(p["s2_ok"]), be, Emitter.b(p["share_ok"]),
                                                    Emitter.b(p.get("init_gate", False)))


def step_coq(st):
    if st["op"] == "start":
        ev = "EStart %d %s" % (st["sid"], plan_coq(st["plan"]))
    elif st["op"] == "release":
        ev = "ERelease %d" % st["sid"]
    elif st["op"] == "cancel":
        ev = "ECancel %d" % st["sid"]
    else:
        i = st["inject"]
        ev = "EInject %s %s %d %s" % (key_coq(i["key"]), Emitter.b(i["type"] == "sync"), i["from"], Emitter.b(i["what"] == "p2p"))
    api = Emitter.lst("(%s, %s)" % (sid, RES.get(r, "(Some RRefused)") if r != "panic" else "None") for sid, r in sorted(st["api"].items(), key=lambda x: int(x[0])))
    keys = lambda l: Emitter.lst(key_coq(k) for k in l)
    reached = []
    for r in st["reached"]:
        if r["what"] == "onmsg":
            reached.append("ROnMsg %d %d %s" % (r["sid"], r["from"], Emitter.b(r["bcast"])))
        else:
            reached.append("RSync %s" % key_coq(r.get("key", "X")))
    inits = Emitter.lst("(%d, %s)" % (i["sid"], Emitter.nlist(i["parties"])) for i in st["inits"])
    dests = Emitter.lst("(%d, %d, %s)" % (d["sid"], d["to"], Emitter.nlist(d["got"])) for d in st["dests"])
    panic = st["panic"] or any(r == "panic" for r in st["api"].values()) or bool(st.get("stuck"))
    mp = "None"
    if st.get("_map") is not None:
        mp = "(Some %s)" % Emitter.lst("(%s, %d)" % (u, p) for u, p in sorted(st["_map"].items(), key=lambda x: int(x[0])))
    return "mkOStep %s (%s) %s %s %s %s %s %s %s %s %s" % (mp, ev, api, keys(st["syncs"]), keys(st["rbcs"]), keys(st["cls"]), Emitter.b(st["dkg_running"]),
                                                        Emitter.lst(reached), inits, dests, Emitter.b(panic))


def scen_coq(sc):
    mm = Emitter.lst("(%s, %d)" % (u, p) for u, p in sorted(sc["membership"].items(), key=lambda x: int(x[0])))
    return "mkOScen %s\n  %s" % (mm, Emitter.lst(step_coq(st) for st in sc["steps"]))


def correspondence(chk, tag, scen, pid="C12"):
    body = "Definition cases : list oscen :=\n [" + ";\n  ".join(scen_coq(sc) for sc in scen) + "].\nDefinition M_def := mismatches mode_%s cases.\n" % pid.lower()
    val, out, dt = vlib.coq_eval(tag, ["TSS.Base.Base", "TSS.Orch.Membership", "TSS.Orch.Sessions", "TSS.Corr.OrchCorr"], body)
    chk.notes.append("%s: %d histories evaluated in Coq in %.1fs" % (tag, len(scen), dt))
    pairs = vlib.parse_pairs(val) if val is not None else None
    if pairs is None:
        return None, str(out)[-3000:]
    return [(scen[a], b) for a, b in pairs], out


# ---------------- monitors on the implementation traces (independent of the model) ----------------

def session_keys(plan):
    return (["T%d" % plan["topic"], "H%d" % plan["topic"]] if plan["kind"] == "sign" else ["D", "M%d" % plan["sid"]])


def monitor_c12(sc):
    hits = []
    plans = {}
    finished_at = {}
    for i, st in enumerate(sc["steps"]):
        if st["op"] == "start":
            plans[st["sid"]] = st["plan"]
        if st["panic"] or any(r == "panic" for r in st["api"].values()):
            hits.append(dict(what="panic during session handling", step=i, val=st.get("panic_val")))
        # sessions whose API call has returned and whose goroutines are through: nothing of theirs may be registered,
        # unless another live session uses the same topic
        live_keys = set()
        for sid, r in st["api"].items():
            p = plans[int(sid)]
            if r == "running":
                live_keys.update(session_keys(p))
        for sid, r in st["api"].items():
            p = plans[int(sid)]
            if r in ("ok", "err", "ctx") and not late_pending(sc, int(sid), i):
                for k in session_keys(p):
                    if k in live_keys:
                        continue
                    if k in st["syncs"] or k in st["rbcs"] or k in st["cls"]:
                        hits.append(dict(what="residue: a returned session still has a registered handler", sid=int(sid), key=k, step=i))
        # a second concurrent session on the same topic is refused; a session on a free topic is admitted
        if st["op"] == "start":
            p = st["plan"]
            r = st["api"][str(st["sid"])]
            busy = any(plans[int(s)]["kind"] == p["kind"] and (p["kind"] == "keygen" or plans[int(s)]["topic"] == p["topic"])
                       and int(s) != st["sid"] and prev_running(sc, int(s), i) for s in st["api"])
            if busy and r != "refused":
                hits.append(dict(what="a second concurrent session on the same topic was not refused", step=i))
            if not busy and r == "refused":
                hits.append(dict(what="a session on a free topic was refused (residue of an earlier session)", step=i, plan=p))
        # traffic reaches an instance only if it is registered for that topic and comes from a participant
        if st["op"] == "inject":
            for r in st["reached"]:
                if r["what"] == "onmsg":
                    p = plans[r["sid"]]
                    if st["inject"]["from"] not in p["members"]:
                        hits.append(dict(what="traffic of a non-participant reached the protocol instance", step=i))
                    if st["inject"]["key"] not in session_keys(p):
                        hits.append(dict(what="traffic for another topic reached the protocol instance", step=i))
                    if st["api"][str(r["sid"])] != "running":
                        hits.append(dict(what="late traffic reached the instance of a finished session", step=i))
    return hits


def prev_running(sc, sid, i):
    for st in reversed(sc["steps"][:i]):
        if str(sid) in st["api"]:
            return st["api"][str(sid)] == "running"
    return False


def late_pending(sc, sid, i):
    """the session still has a synchroniser continuation on its way (late gate not yet released)"""
    plan = None
    released = False
    for st in sc["steps"][:i + 1]:
        if st["op"] == "start" and st["sid"] == sid:
            plan = st["plan"]
        if st["op"] == "release" and st["sid"] == sid:
            released = True
    return plan is not None and plan["s1"] == "gate_ignore" and not released


def monitor_c11(sc):
    hits = []
    for i, st in enumerate(sc["steps"]):
        if st["panic"] or any(r == "panic" for r in st["api"].values()):
            hits.append(dict(what="panic", step=i, val=st.get("panic_val")))
        if st.get("stuck"):
            hits.append(dict(what="blocked: " + st["stuck"], step=i))
        if st["op"] == "cancel" and st["api"].get(str(st["sid"])) == "running":
            hits.append(dict(what="API call still running after its context was cancelled", step=i))
        if st["op"] == "start":
            p = st["plan"]
            r = st["api"][str(st["sid"])]
            if p["kind"] == "sign" and p["s1"] == "ok" and not p["share_ok"] and r not in ("err", "refused"):
                hits.append(dict(what="unusable share data did not make Sign return an error", step=i, got=r))
            if p["s1"] == "fail" and r not in ("err", "refused"):
                hits.append(dict(what="failed synchronisation did not make the call return an error", step=i, got=r))
            if p["s1"] == "ok" and not p.get("init_gate") and p["s2_ok"] and p["be"] == "fail" and r not in ("err", "refused"):
                hits.append(dict(what="backend error was not returned", step=i, got=r))
    return hits


def monitor_c06(sc):
    hits = []
    mm = {int(u): p for u, p in sc["membership"].items()}
    plans = {}
    for i, st in enumerate(sc["steps"]):
        if st.get("_map") is not None:
            mm = {int(u): p for u, p in st["_map"].items()}
        if st["op"] == "start":
            plans[st["sid"]] = st["plan"]
        for ini in st["inits"]:
            p = plans[ini["sid"]]
            want = sorted(mm.get(u, 0) for u in p["members"])
            if ini["parties"] != want:
                hits.append(dict(what="backend initialised with %s, sorted party ids of the participants are %s" % (ini["parties"], want), step=i))
        for d in st["dests"]:
            p = plans[d["sid"]]
            reps = [u for u in p["members"] if mm.get(u, 0) == d["to"]]
            if reps and d["got"] != [reps[0]]:
                hits.append(dict(what="point-to-point message for party %d transmitted to %s, its participant is %d" % (d["to"], d["got"], reps[0]), step=i))
            if len(d["got"]) != 1:
                hits.append(dict(what="point-to-point message transmitted to %d nodes" % len(d["got"]), step=i))
        if st["op"] == "start":
            p = st["plan"]
            pids = [mm.get(u, 0) for u in p["members"]]
            dup = len(set(pids)) != len(pids)
            r = st["api"][str(st["sid"])]
            if dup and p["s1"] == "ok" and r not in ("err", "refused"):
                hits.append(dict(what="two participants of one party were not refused", step=i, got=r))
            if dup and any(ini["sid"] == st["sid"] for ini in st["inits"]):
                hits.append(dict(what="backend initialised although two participants represent one party", step=i))
        if st["op"] == "inject":
            for r in st["reached"]:
                if r["what"] == "onmsg" and r["from"] != mm.get(st["inject"]["from"], 0):
                    hits.append(dict(what="message of node %d attributed to party %d instead of %d" % (st["inject"]["from"], r["from"], mm.get(st["inject"]["from"], 0)), step=i))
    return hits


def run(pid, tier, seed):
    chk = vlib.Check(pid, tier, seed)
    vlib.proof_stage(chk)
    ok, blog = vlib.go_build("core", "core")
    if not ok:
        chk.violation("go_build.txt", "harness does not build against /repo:\n" + blog[-4000:], no_input=True)
        return chk.finish()
    n = {"quick": 600, "thorough": 20000}[tier]
    path = os.path.join(chk.rundir(), "orch.jsonl")
    rc, out = vlib.run_harness("core", ["orch", "-n", str(n), "-seed", str(seed)], path)
    if rc != 0:
        # the process died (a panic on a goroutine of the library cannot be recovered by the harness): the scenario that was
        # running is the one after the last one written; the stream is deterministic in (seed, index), so that is the replay
        done = []
        try:
            done = vlib.read_jsonl(path)
        except Exception:
            pass
        if "panic:" in out or "fatal error:" in out:
            chk.violation("crash_scenario_%d.txt" % len(done),
                          "the process running session histories on the real threshold.Scheme died in history number %d of the stream "
                          "(seed %d): replay with `build/bin/core orch -n %d -seed %d` (the last history is the failing one)\n\n%s"
                          % (len(done), seed, len(done) + 1, seed, out[-6000:]))
        else:
            chk.violation("harness.txt", "harness failed (exit %d):\n%s" % (rc, out[-4000:]), no_input=True)
        return chk.finish()
    scen = vlib.read_jsonl(path)
    # a "remap" step (the application's membership map changes between sessions) is folded into the step that follows it
    remaps = 0
    for sc in scen:
        steps, pending = [], None
        for st in sc["steps"]:
            if st["op"] == "remap":
                pending = st["map"]
                remaps += 1
                continue
            if pending is not None:
                st["_map"] = pending
                pending = None
            steps.append(st)
        sc["steps"] = steps
    chk.cov["membership_changes_between_sessions"] = remaps
    if pid in ("C11", "C12"):
        # refusing two replicas of one party is C06's clause: histories containing such a session are C06's business only
        def has_dup(sc):
            mm = {int(u): p for u, p in sc["membership"].items()}
            for st in sc["steps"]:
                if st.get("_map") is not None:
                    mm = {int(u): p for u, p in st["_map"].items()}
                if st["op"] == "start":
                    pids = [mm.get(u, 0) for u in st["plan"]["members"]]
                    if len(set(pids)) != len(pids):
                        return True
            return False
        scen = [sc for sc in scen if not has_dup(sc)]
    mon = {"C06": monitor_c06, "C11": monitor_c11, "C12": monitor_c12}[pid]
    nh = 0
    for sc in scen:
        hits = mon(sc)
        if hits:
            nh += 1
            if nh <= 3:
                chk.monitor_hit("", "monitor_%d.json" % sc["id"], dict(hits=hits[:5], scenario=sc), hits[0]["what"])
            else:
                chk.cov["monitor_hits"] += 1
    mism = []
    shards = [(i // 100, scen[i:i + 100]) for i in range(0, len(scen), 100)]
    for m, out in vlib.parallel_map(lambda s: correspondence(chk, "%s_orch_%d" % (pid, s[0]), s[1], pid), shards):
        if m is None:
            chk.violation("corr_eval.txt", "in-Coq evaluation failed:\n" + out, no_input=True)
            break
        mism += m
    chk.cov["mismatches"] = len(mism)
    if mism and not chk.violations:
        sc, j = mism[0]
        chk.violation("corr_%d.json" % sc["id"],
                      dict(what="correspondence TSS.Corr.OrchCorr.check_scen fails at step %d: the session model no longer matches "
                                "threshold.Scheme; theorems of Props/%s.v rest on it" % (j, pid), step=sc["steps"][j],
                           scenario=dict(sc, steps=sc["steps"][:j + 1])), no_input=True)
    steps = [st for sc in scen for st in sc["steps"]]
    backend_cases = []
    if pid == "C11":
        # cancellation inside the protocol back ends (waits of TBLS.KeyGen / TPS.KeyGen): harness/dkg, checks/dkg.py
        from checks import dkg
        backend_cases = dkg.run_backend_cancel(chk, tier, seed)
        # a lone real Scheme (loud: real disc.Member; silent: real msg.Box) whose peers vanished, called with a context that is
        # already over or ends almost at once; one child process per case, because a panic on a goroutine the library starts
        # cannot be recovered by the caller (harness/core deadline.go)
        dpath = os.path.join(chk.rundir(), "deadline.jsonl")
        rc, out = vlib.run_harness("core", ["deadline"], dpath, timeout=900)
        dcases = vlib.read_jsonl(dpath) if rc == 0 else []
        if rc != 0 or len(dcases) < 30:
            chk.violation("harness_deadline.txt", "deadline harness failed (exit %d, %d cases):\n%s" % (rc, len(dcases), out[-3000:]), no_input=True)
        nbad = 0
        for c in dcases:
            if c["verdict"] != "err":
                nbad += 1
                what = "%s of a lone %s Scheme with context class %s: %s (%s)" % (
                    c["op"], c["mode"], c["class"],
                    {"crash": "the process died", "hang": "did not return", "ok": "reported success"}.get(c["verdict"], c["verdict"]), c["detail"][:300])
                if nbad <= 3:
                    chk.monitor_hit("", "deadline_%d.json" % nbad,
                                    dict(what=what, case=c, replay="build/bin/core deadline-one -x %s,%s,%s" % (c["mode"], c["op"], c["class"])), what)
                else:
                    chk.cov["monitor_hits"] += 1
        chk.cov["deadline_cases"] = dict(collections.Counter("%s/%s/%s" % (c["mode"], c["op"], c["verdict"]) for c in dcases))
        backend_cases = backend_cases + dcases
    if pid == "C12":
        # admission is one critical section: K concurrent calls for one session name, held together inside the application's
        # synchroniser factory (harness/core admission.go; one child process per case)
        apath = os.path.join(chk.rundir(), "admission.jsonl")
        rc, out = vlib.run_harness("core", ["admission"], apath, timeout=900)
        acases = vlib.read_jsonl(apath) if rc == 0 else []
        if rc != 0 or len(acases) < 12:
            chk.violation("harness_admission.txt", "admission harness failed (exit %d, %d cases):\n%s" % (rc, len(acases), out[-3000:]), no_input=True)
        nbad = 0
        for c in acases:
            if c["verdict"] != "good":
                nbad += 1
                what = "%d concurrent %s calls for one session name (%s): %s" % (c["k"], c["op"], "held together in the synchroniser factory"
                                                                                  if c["where"] == "factory" else "started together", c["detail"][:400])
                if nbad <= 3:
                    chk.monitor_hit("", "admission_%d.json" % nbad,
                                    dict(what=what, case=c, replay="build/bin/core admission-one -x %s,%d,%s" % (c["op"], c["k"], c["where"])), what)
                else:
                    chk.cov["monitor_hits"] += 1
        chk.cov["admission_cases"] = dict(collections.Counter("%s/%s/%s" % (c["op"], c["where"], c["verdict"]) for c in acases))
        backend_cases = backend_cases + acases
    chk.cov["evaluations"] = len(steps) + len(backend_cases)
    chk.cov["scenarios"] = len(scen)
    chk.cov["distinct_nontrivial"] = len(set(vlib.canon_hash([(st["op"], st.get("plan"), st.get("inject")) for st in sc["steps"]]) for sc in scen
                                             if any(st["inits"] or st["reached"] for st in sc["steps"])))
    chk.cov["rule"] = ("histories of start(KeyGen|Sign with a plan: first sync ok/fail/waits/completes late, second sync ok/fail, backend "
                       "ok/fail/blocks, share data usable or not, participant set) / release / cancel / inject(topic, type, source) executed "
                       "on a real threshold.Scheme (real RBC, scripted synchroniser and backend) over identity, offset, permuted and "
                       "replicated membership maps; non-trivial = a backend was initialised or traffic reached an instance; distinct by history")
    chk.cov["input_distribution"] = dict(ops=dict(collections.Counter(st["op"] for st in steps)),
                                         api=dict(collections.Counter(r for sc in scen if sc["steps"] for r in sc["steps"][-1]["api"].values())),
                                         reached=sum(len(st["reached"]) for st in steps), inits=sum(len(st["inits"]) for st in steps))
    chk.cov["traces_validated_against_impl"] = len(scen)
    if scen:
        chk.cov["samples"] = [dict(membership=scen[0]["membership"], self=scen[0]["self"],
                                   steps=[dict(op=st["op"], sid=st["sid"], plan=st.get("plan"), inject=st.get("inject"), api=st["api"],
                                               syncs=st["syncs"], rbcs=st["rbcs"]) for st in scen[0]["steps"][:6]])]
    return chk.finish(extra_assumptions=[
        "granularity: one event = one external decision; backends and ordinary synchronisers return promptly when their context is "
        "cancelled (a synchroniser completing concurrently with cancellation is modelled by the late gate); goroutine scheduling inside a "
        "step is not modelled",
        "the session model (coq/theories/Orch/Sessions.v, Membership.v) is hand-written and tied to threshold/threshold.go by this "
        "differential run (API results, handler-table keys via a verif hook, Init arguments, send destinations, traffic reaching instances)",
        "sign topics differ from the DKG topic name and SHA-256 does not collide on the topics of a run"])
