"""C20: concurrent use of the public API is free of data races -- the lock discipline.

  proof stage     tools/gen_lockset.py regenerates Gen/Lockset.v (access table of the shared fields of threshold, mpc/bls, mpc/ps,
                  msg, disc, rbc with the locks syntactically held) and Gen/LocksetKnown.v (sites of the known findings);
                  Props/C20.v: generic lockset theorem (all traces), translator_ok, discipline of the table by vm_compute
  translator view the same table in Python: protecting lock per field, unprotected pairs, judgements (printed in the evidence)
  detector        harness/race built with `go build -race` (binary cached per hash of the /repo sources): full-stack KeyGen + Sign
                  among 3 parties over an in-memory transport with one goroutine per message -- honest, duplicated / replayed /
                  forged early traffic of one participant, authentic early membership-sync traffic of a configured member
                  dispatched from before each KeyGen / Sign call (64 configured members: scenario loud-earlysync), two Sign
                  sessions at once, loud and silent mode, SetStoredData during Sign.  Every report is mapped onto the table by file:line: it must be a pair the table leaves
                  unprotected (otherwise the table is wrong: broken correspondence); a report that is not a known finding is a
                  VIOLATION with the report as replay.
"""
import hashlib, importlib.util, json, os, re, sys
sys.path.insert(0, os.path.dirname(os.path.dirname(os.path.abspath(__file__))))
import vlib

HARNESS = os.path.join(vlib.VERIF, "harness", "race")
QUICK = ["loud", "loud-dup", "loud-flood", "loud-flood-slowinit", "loud-earlysync", "silent", "silent-dup-flood", "loud-api", "silent-api"]
THOROUGH = QUICK + ["loud-dup-flood", "silent-dup", "silent-flood", "loud-dup-api"]


def translator():
    spec = importlib.util.spec_from_file_location("gen_lockset", os.path.join(vlib.VERIF, "tools", "gen_lockset.py"))
    mod = importlib.util.module_from_spec(spec)
    spec.loader.exec_module(mod)
    return mod


def source_hash():
    """hash of everything the race binary is built from: the Go sources of /repo's root module and mpc/bls, and the harness"""
    h = hashlib.sha256()
    roots = [(vlib.REPO, ("mpc",)), (os.path.join(vlib.REPO, "mpc", "bls"), ()), (HARNESS, ())]
    for root, skip in roots:
        for d, dirs, files in os.walk(root):
            dirs[:] = sorted(x for x in dirs if not x.startswith(".") and not (d == root and x in skip))
            for f in sorted(files):
                if (f.endswith(".go") and not f.endswith("_test.go")) or f in ("go.mod", "gosum.from"):
                    p = os.path.join(d, f)
                    h.update(p.encode() + b"\0" + open(p, "rb").read() + b"\0")
    return h.hexdigest()[:16]


def build_race():
    """-> (binary path or None, log, rebuilt?)"""
    os.makedirs(vlib.BIN, exist_ok=True)
    exe = os.path.join(vlib.BIN, "race-" + source_hash())
    if os.path.exists(exe):
        return exe, "", False
    with vlib.Lock("go-race"):
        if os.path.exists(exe):
            return exe, "", False
        lines = set()
        for pth in open(os.path.join(HARNESS, "gosum.from")).read().split():
            pth = pth.replace("/repo", vlib.REPO, 1) if pth.startswith("/repo") else pth
            if os.path.exists(pth):
                lines.update(open(pth).read().splitlines())
        with open(os.path.join(HARNESS, "go.sum"), "w") as f:
            f.write("\n".join(sorted(lines)) + "\n")
        tmp = exe + ".tmp%d" % os.getpid()
        cmd = ["go", "build", "-race", "-o", tmp]
        if getattr(vlib, "ALT", ""):    # VERIF_REPO=<copy>: same module, replace lines pointing at the copy
            md = os.path.join(vlib.BUILD, "modfiles" + vlib.ALT)
            os.makedirs(md, exist_ok=True)
            with open(os.path.join(md, "race.mod"), "w") as f:
                f.write(open(os.path.join(HARNESS, "go.mod")).read().replace("=> /repo", "=> " + vlib.REPO))
            with open(os.path.join(md, "race.sum"), "w") as f:
                f.write("\n".join(sorted(lines)) + "\n")
            cmd.append("-modfile=" + os.path.join(md, "race.mod"))
        rc, out, err = vlib.sh(cmd + ["."], cwd=HARNESS, env=vlib.GOENV, timeout=1800)
        if rc != 0:
            return None, out + err, True
        os.replace(tmp, exe)
        old = sorted((f for f in os.listdir(vlib.BIN) if f.startswith("race-") and ".tmp" not in f),
                     key=lambda f: os.path.getmtime(os.path.join(vlib.BIN, f)))
        for f in old[:-3]:
            try:
                os.remove(os.path.join(vlib.BIN, f))
            except OSError:
                pass
    return exe, "", True


FRAME = re.compile(r"^\s+(\S+\.go):(\d+)")


def parse_reports(stderr):
    """-> list of dict(scenario, text, stacks=[dict(kind, frames=[(func, file, line)])])  (the two accesses of each report)"""
    reports, scenario = [], None
    blocks = re.split(r"^==================\s*$", stderr, flags=re.M)
    for b in blocks:
        for m in re.finditer(r"^SCENARIO-BEGIN (\S+)", b, re.M):
            scenario = m.group(1)
        if "WARNING: DATA RACE" not in b:
            continue
        stacks, cur, fn = [], None, None
        for line in b.splitlines():
            m = re.match(r"^(?:Previous )?((?:atomic )?(?:read|write)) at 0x[0-9a-f]+ by ", line, re.I)
            if m:
                cur, fn = dict(kind="w" if "write" in m.group(1).lower() else "r", frames=[]), None
                stacks.append(cur)
            elif not line.startswith(" "):      # any other section header (Goroutine .. created at:, Location, Mutex) or blank
                cur = None
            elif cur is not None:
                fm = FRAME.match(line)
                if fm and fn is not None:
                    cur["frames"].append((fn, fm.group(1), int(fm.group(2))))
                    fn = None
                elif not fm:
                    fn = re.sub(r"\([^()]*\)$", "", line.strip())
        reports.append(dict(scenario=scenario, text=b.strip(), stacks=stacks[:2]))
    return reports


def run_detector(exe, scenarios, seed, outdir, tag):
    out = os.path.join(outdir, "race_%s.jsonl" % tag)
    env = dict(vlib.GOENV, GORACE="exitcode=0 halt_on_error=0")
    env.pop("VERIF_RACE_LOG", None)
    import subprocess
    try:
        rc, so, se = vlib.sh([exe, "-seed", str(seed), "-scenarios", ",".join(scenarios), "-out", out], env=env,
                             timeout=60 + 25 * len(scenarios))
    except subprocess.TimeoutExpired as e:
        rc, se = -9, "TIMEOUT of the harness run\n" + ((e.stderr or b"").decode("utf-8", "replace") if isinstance(e.stderr, bytes) else (e.stderr or ""))
    with open(os.path.join(outdir, "race_%s.stderr" % tag), "w") as f:
        f.write(se)
    rows = vlib.read_jsonl(out) if os.path.exists(out) else []
    return rc, rows, se


# ----------------------------------------------------------------------------- table <-> detector

def site_of(stack, repo):
    """first frame of the stack inside /repo (below the runtime's map / slice helpers) -> (relative file, line, function)"""
    root = os.path.realpath(repo) + os.sep
    for fn, f, ln in stack["frames"]:
        rp = os.path.realpath(f)
        if rp.startswith(root):
            return os.path.relpath(rp, root[:-1]), ln, fn
    return None


_REP = {}


def _report(tr, table):
    if id(table) not in _REP:
        _REP[id(table)] = tr.loc_report(table)
    return _REP[id(table)]


def stateful_lit(stack, an):
    """name of a function literal with hidden mutable state (translator: Unit.stateful) one of the stack's frames lies in"""
    for fn, f, ln in stack["frames"]:
        rp = os.path.realpath(f)
        for u in an.units.values():
            if u.get("stateful") and os.path.realpath(u["file"]) == rp and u["line"] <= ln <= u["end_line"]:
                return u["name"]
    return None


def classify(report, table, tr, repo, an=None):
    """-> dict(cls, loc, pair, sig, a, b):  cls in unprotected | protected | unmapped"""
    sites = [site_of(st, repo) for st in report["stacks"]]
    if len(sites) != 2 or None in sites:
        return dict(cls="unmapped", why="a stack of the report has no frame in %s" % repo, sites=sites)
    # both accesses inside a function literal with hidden mutable state (J-payload): the table knows such a value only by
    # the field it is kept in -- the report corresponds to an unprotected <field>@payload location if the table has one
    if an is not None:
        lits = [stateful_lit(st, an) for st in report["stacks"]]
        if lits[0] and lits[0] == lits[1]:
            for loc, r in sorted(_report(tr, table).items()):
                if loc.endswith("@payload") and not r["ok"] and r["pairs"]:
                    a, b = r["pairs"][0]
                    return dict(cls="unprotected", loc=loc, a=a, b=b, sites=sites, sig="%s|%s|%s" % (loc, a["fn"], b["fn"]),
                                via="both accesses are inside the stateful function literal %s" % lits[0])
    cand = []
    for e1 in table:
        if (sites[0][0], sites[0][1]) not in [tuple(x) for x in e1["lines"]]:
            continue
        for e2 in table:
            if e2["loc"] == e1["loc"] and (sites[1][0], sites[1][1]) in [tuple(x) for x in e2["lines"]]:
                cand.append((e1, e2))
    if not cand:
        return dict(cls="unmapped", why="no field of the table is accessed at both %s:%d and %s:%d" % (sites[0][:2] + sites[1][:2]),
                    sites=sites)

    def unprotected(a, b):
        if a["setup"] or b["setup"]:
            return False        # ordered by the set-up judgement, says the table
        return not any(tr.has_lock(a, l) and tr.has_lock(b, l) for l, _ in a["held"])
    # prefer candidates whose kinds match the report, then unprotected ones (a line may hold several accesses of the field)
    kinds = [st["kind"] for st in report["stacks"]]
    cand.sort(key=lambda p: (not unprotected(*p), (p[0]["kind"] != kinds[0]) + (p[1]["kind"] != kinds[1])))
    a, b = cand[0]
    return dict(cls="unprotected" if unprotected(a, b) else "protected", loc=a["loc"], a=a, b=b, sites=sites,
                sig="%s|%s|%s" % (a["loc"], a["fn"], b["fn"]))


def known_for(pair_sites, known):
    """the known finding whose dropped site (field, function) is one of the two sites of the pair"""
    for k in known:
        if (k["loc"], k["fn"]) in pair_sites:
            return k
    return None


def entry_txt(e):
    return "%s %s in %s holding [%s]%s at %s" % (
        "write" if e["kind"] == "w" else "read", e["loc"], e["fn"], ", ".join(l + ("" if x else " (shared)") for l, x in e["held"]),
        " (set-up: %s)" % e["why"] if e["setup"] else "", ", ".join("%s:%d" % tuple(x) for x in e["lines"][:4]))


def run(pid, tier, seed):
    chk = vlib.Check(pid, tier, seed)
    vlib.proof_stage(chk)
    tr = translator()
    table, problems, notes, an = tr.build(vlib.REPO)
    known = tr.known_sites()
    rep = tr.loc_report(table)
    if problems:
        chk.violation("translator.txt", "tools/gen_lockset.py / tools/lockset did not understand these constructs (the table is not "
                      "trusted, C20_translator_ok fails):\n" + "\n".join(problems), no_input=True)
    # ---- the table itself: every unprotected pair is a known finding or a violation
    pairs, used_known = {}, set()
    for loc, r in rep.items():
        for a, b in r["pairs"]:
            pairs.setdefault((loc, a["fn"], b["fn"]), (a, b))
    for n, ((loc, fa, fb), (a, b)) in enumerate(sorted(pairs.items())):
        k = known_for({(loc, fa), (loc, fb)}, known)
        txt = "field %s: no common lock\n  %s\n  %s\n" % (loc, entry_txt(a), entry_txt(b))
        if k:
            used_known.add(k["id"])
            chk.monitor_hit(k["sig"], "unprotected_%d.txt" % n, txt, "lock discipline: " + k["sig"])
        else:
            chk.monitor_hit("%s|%s|%s" % (loc, fa, fb), "unprotected_%d.txt" % n,
                            "NEW unprotected pair in the access table (sig=%s|%s|%s)\n%s" % (loc, fa, fb, txt), "")
    stale = [k for k in known if k["id"] not in used_known]
    if stale:
        chk.violation("stale_known.txt", "known findings whose site is no longer part of an unprotected pair (move them to `fixed:`): " +
                      ", ".join(k["id"] + " " + k["sig"] for k in stale), no_input=True)
    # ---- the race detector on the full stack
    exe, blog, rebuilt = build_race()
    det = dict(binary=os.path.basename(exe) if exe else None, rebuilt=rebuilt, runs=0, scenario_runs=0, reports=0,
               by_class=dict(unprotected=0, protected=0, unmapped=0), known_reproduced=[], results=[])
    good_runs, complete, incomplete = set(), set(), []
    if exe is None:
        chk.violation("go_build.txt", "harness/race does not build with -race against /repo:\n" + blog[-4000:], no_input=True)
    else:
        scenarios = QUICK if tier == "quick" else THOROUGH
        seeds = [seed] if tier == "quick" else [seed + 7919 * i for i in range(6)]
        nrep = 0
        for sd in seeds:
            rc, rows, se = run_detector(exe, scenarios, sd, chk.rundir(), str(sd))
            det["runs"] += 1
            det["scenario_runs"] += len(rows)
            det["results"] += [dict(seed=sd, **r) for r in rows][:12]
            done = {r["scenario"] for r in rows}
            if rc != 0 or done != set(scenarios):
                chk.violation("detector_run_%d.txt" % sd, "harness/race -seed %d -scenarios %s ended with exit code %d after %s "
                              "(a panic of the code under test ends the run):\n%s" % (sd, ",".join(scenarios), rc, sorted(done), se[-6000:]))
            for r in rows:
                if r.get("stuck"):
                    det["stuck_deliveries"] = det.get("stuck_deliveries", 0) + r["stuck"]
                    chk.notes.append("seed %d scenario %s: %d dispatcher goroutine(s) stayed blocked inside HandleMessage after the session "
                                     "(not a data race; liveness of the dispatch path belongs to C11/C14)" % (sd, r["scenario"], r["stuck"]))
                honest = r["scenario"] in ("loud", "silent", "loud-api", "silent-api")
                if r["keygen_ok"] > 0 or r["sign_ok"] > 0:
                    good_runs.add(r["scenario"])
                if honest:
                    mode = r["scenario"].split("-")[0]
                    # the full stack counts as exercised when key generation completed at all three parties and at least one
                    # signing session produced signatures that verify; a fault-free session that ends by its deadline is the
                    # liveness finding C01-a (KNOWN_FINDINGS.txt), not a data race: recorded as a note
                    if r["keygen_ok"] == 3 and r["sign_ok"] > 0 and r["sign_ok"] == r["verified"]:
                        complete.add(mode)
                    if not (r["keygen_ok"] == 3 and r["sign_runs"] > 0 and r["sign_ok"] == r["sign_runs"] == r["verified"]):
                        incomplete.append(dict(seed=sd, **r))
                        chk.notes.append("seed %d: fault-free scenario %s did not complete every session: %s" % (sd, r["scenario"], json.dumps(r)))
            for r in parse_reports(se):
                det["reports"] += 1
                nrep += 1
                c = classify(r, table, tr, vlib.REPO, an)
                det["by_class"][c["cls"]] += 1
                head = "race detector, harness/race -seed %d -scenarios %s (scenario %s)\n" % (sd, r["scenario"], r["scenario"])
                if c["cls"] == "unprotected":
                    k = known_for({(c["loc"], c["a"]["fn"]), (c["loc"], c["b"]["fn"])}, known)
                    body = head + "table: %s\n       %s\n\n%s\n" % (entry_txt(c["a"]), entry_txt(c["b"]), r["text"])
                    if k and k["id"] not in det["known_reproduced"]:
                        det["known_reproduced"].append(k["id"])
                    chk.monitor_hit(k["sig"] if k else c["sig"], "race_%d.txt" % nrep, body, "race detector: " + (k["sig"] if k else ""))
                else:
                    why = c.get("why") or "the table says this pair is ordered:\n  %s\n  %s" % (entry_txt(c["a"]), entry_txt(c["b"]))
                    chk.violation("race_%d.txt" % nrep, head + "NOT a pair the access table leaves unprotected: " + why + "\n\n" + r["text"] + "\n")
                    chk.violation("correspondence_%d.txt" % nrep, "broken correspondence between the access table (tools/gen_lockset.py) and "
                                  "the race detector: " + why + "\nsee race_%d.txt" % nrep, no_input=True)
        for mode in ("loud", "silent"):
            # a mode whose fault-free sessions all ran into their deadline so far (C01-a/C01-b): up to three more seeds of
            # the plain scenario before the full stack is reported as not exercised
            for extra in range(1, 4):
                if mode in complete:
                    break
                sd = seed + 104729 * extra
                rc, rows, se = run_detector(exe, [mode], sd, chk.rundir(), "%s_retry%d" % (mode, extra))
                det["runs"] += 1
                det["scenario_runs"] += len(rows)
                for r in rows:
                    if r["keygen_ok"] == 3 and r["sign_ok"] > 0 and r["sign_ok"] == r["verified"]:
                        complete.add(mode)
                    else:
                        incomplete.append(dict(seed=sd, **r))
                if parse_reports(se):
                    chk.notes.append("retry run seed %d scenario %s printed race reports; they are classified in the main runs only" % (sd, mode))
            if mode not in complete:
                chk.violation("harness_%s.txt" % mode, "no fault-free %s-mode run completed key generation and all signing sessions in this "
                              "check: the detector runs do not cover the full stack\n%s" % (mode, json.dumps(incomplete, indent=1)), no_input=True)
        det["incomplete_fault_free_runs"] = len(incomplete)
    # ---- evidence
    need = {l: r["lock"] for l, r in rep.items() if r["ok"] and r["lock"]}
    chk.cov["table_size"] = len(table)
    chk.cov["locations"] = len(rep)
    chk.cov["protecting_lock"] = need
    chk.cov["locations_without_concurrent_write"] = sorted(l for l, r in rep.items() if r["ok"] and not r["lock"])
    chk.cov["unprotected_pairs"] = ["%s|%s|%s" % k for k in sorted(pairs)]
    chk.cov["known_sites_removed"] = [k["sig"] for k in known]
    chk.cov["payload_fields"] = {l: w for l, w in sorted(an.payload.items())} if an is not None else None
    chk.cov["stateful_function_literals"] = sorted(u["name"] for u in an.units.values() if u.get("stateful")) if an is not None else None
    chk.cov["judgements"] = tr.judgements()
    chk.cov["translator_notes"] = notes
    chk.cov["detector"] = det
    chk.cov["evaluations"] = len(table) + det["scenario_runs"]
    chk.cov["distinct_nontrivial"] = len(need) + len(good_runs)
    chk.cov["rule"] = ("cases = entries of the regenerated access table (each checked against the discipline in Coq) + full-stack scenario "
                       "runs under the race detector; non-trivial, distinct = fields with a write outside set-up for which a common lock "
                       "was found (counted once per field) + distinct scenarios in which at least one key generation or signature completed")
    chk.cov["samples"] = [entry_txt(e) for e in table if not e["setup"] and e["kind"] == "w"][:6] + det["results"][:3]
    chk.cov["input_distribution"] = dict(scenarios=QUICK if tier == "quick" else THOROUGH, seeds=det["runs"],
                                         messages=sum(r["sent"] for r in det["results"]), adversarial_messages=sum(r["extra"] for r in det["results"]))
    return chk.finish(extra_assumptions=[
        "the theorem C20_repo_race_free is about executions whose accesses are instances of the regenerated table minus the known "
        "sites: that the Go program only has such executions is the translator's claim (judgements listed in coverage.judgements), "
        "cross-examined, not proved, by the race detector runs",
        "premise setup_ordered of the theorem: accesses classified set-up (constructors, fresh locals, Init, sync.Once bodies) "
        "happen-before every conflicting access",
        "happens-before of Lockset/Trace.v = Go memory model restricted to mutex, RWMutex and go-statement edges; atomics, sync.Map, "
        "sync.Cond and channels are represented as exclusive pseudo-locks",
        "the Go race detector (ThreadSanitizer) reports only races of the schedules that occurred; the in-memory transport of "
        "harness/race stands for the network",
    ])
